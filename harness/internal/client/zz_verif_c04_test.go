package client

// C04 conformance harness.
//
// Direction A (TestZZVerifC04Replay): walks the tours that checks/c04.py
// computed over the labelled edges TLC printed for specs/Clients.tla through a
// real *Storage (Add / Update / RemoveByName, fake DHCP), and after EVERY step
// asks Find for every identifier and lookup address of the universe,
// FindByName, RangeByName and -- through a real filtering.DNSFilter whose
// ApplyClientFiltering hook is Storage.ApplyClientFiltering, i.e. the same
// Settings() + ApplyAdditionalFiltering sequence dnsforward/filter.go runs for
// a request -- the effective filtering settings for every (ClientID, address)
// pair, and compares all of it with the table TLC printed for the spec's
// successor state.
//
// Direction B (TestZZVerifC04Trace): seeded random histories over a larger
// universe (8-bit addresses, ~30 identifiers, 6 names), one NDJSON line per
// operation with the reply class and a handful of lookups; TraceClients.tla
// validates the lines.
//
// Only the package's exported API is driven; unexported identifiers are not
// needed at all.

import (
	"context"
	"encoding/json"
	"fmt"
	"math/rand"
	"net"
	"net/netip"
	"os"
	"sort"
	"strings"
	"sync"
	"testing"
	"time"

	"github.com/AdguardTeam/AdGuardHome/internal/dhcpsvc"
	"github.com/AdguardTeam/AdGuardHome/internal/filtering"
	"github.com/AdguardTeam/AdGuardHome/internal/schedule"
	"github.com/AdguardTeam/golibs/logutil/slogutil"
	"github.com/AdguardTeam/golibs/timeutil"
)

// ---------------------------------------------------------------- vocabulary

// zzC04ID is an abstract identifier <<kind, x, y>> of ClientsCore.tla.
type zzC04ID struct {
	K    string
	X, Y int
}

func (id *zzC04ID) UnmarshalJSON(b []byte) (err error) {
	var raw []json.RawMessage
	if err = json.Unmarshal(b, &raw); err != nil {
		return err
	}
	if len(raw) != 3 {
		return fmt.Errorf("bad id %s", b)
	}
	if err = json.Unmarshal(raw[0], &id.K); err != nil {
		return err
	}
	if err = json.Unmarshal(raw[1], &id.X); err != nil {
		return err
	}

	return json.Unmarshal(raw[2], &id.Y)
}

func (id zzC04ID) MarshalJSON() (b []byte, err error) {
	return json.Marshal([]any{id.K, id.X, id.Y})
}

var zzC04NoID = zzC04ID{K: "none"}

// zzC04Variant is one concretisation of the abstract vocabulary.
type zzC04Variant struct {
	MacLen int   `json:"maclen"` // 6, 8 or 20
	V6     bool  `json:"v6"`
	Seed   int64 `json:"seed"` // low address bits, mac bytes, spellings, id order
	Names  int   `json:"names"`
	Global int   `json:"global"` // 4 bits: filtering, safe search, safe browsing, parental
	W      int   `json:"w"`

	// MacColon8: register 8-byte macs with colons, as HardwareAddr.String
	// does (syntactically also an IPv6 address), instead of dashes.
	MacColon8 bool `json:"maccolon8"`

	// MapStore: register IPv4 addresses and prefixes (also) in their
	// IPv4-mapped IPv6 spelling ::ffff:a.b.c.d.  OddLease: a <<"macx">> lease
	// carries a link-layer address of 4, 1, 16 or 7 bytes (otherwise one of
	// the ordinary length that nobody registered).  Both are confined to a few
	// segments while the finding they expose is open, see checks/c04.py.
	MapStore bool `json:"mapstore"`
	OddLease bool `json:"oddlease"`

	// MacIsh6: IPv6 base aa:bb:cc:dd:ee:ff:11:xx -- every group has two hex
	// digits, so the text of an address is also a well-formed EUI-64.
	MacIsh6 bool `json:"macish6"`

	// Zoned: the universe has IPv6 zones (address number = zone<<W | bits):
	// IPv6 link-local base, whatever V6 says.
	Zoned bool `json:"zoned"`
}

var zzC04NamePools = [][]string{
	{"alpha", "bravo", "charlie", "delta", "echo", "foxtrot", "golf", "hotel"},
	{"Zed's phone", "yankee", "x-ray 3", "Whiskey", "victor", "uniform", "tango", "sierra"},
	{"10.0.0.1", "kids", "aa:bb:cc:dd:ee:ff", "Kids", "tv/living room", "nas", "n", "printer"},
}

var zzC04Services = []string{"youtube", "facebook", "tiktok", "netflix", "discord", "twitch", "reddit", "steam"}

type zzC04Conc struct {
	v zzC04Variant
}

func (c zzC04Conc) name(i int) (s string) {
	pool := zzC04NamePools[c.v.Names%len(zzC04NamePools)]

	return pool[(i-1)%len(pool)]
}

func (c zzC04Conc) mix(a, salt int) (r int) {
	x := uint64(c.v.Seed)*0x9E3779B97F4A7C15 + uint64(a+1)*0xBF58476D1CE4E5B9 + uint64(salt)*0x94D049BB133111EB
	x ^= x >> 31
	x *= 0xD6E8FEB86659FD93
	x ^= x >> 29

	return int(x & 0x7fffffff)
}

// hostByte embeds the W abstract bits as the top bits of the last byte; the
// remaining low bits are a fixed (seeded) function of the abstract address.
func (c zzC04Conc) hostByte(a int, fill bool) (b byte) {
	sh := 8 - c.v.W
	b = byte(a << sh)
	if fill && sh > 0 {
		b |= byte(c.mix(a, 1) & ((1 << sh) - 1))
	}

	return b
}

func (c zzC04Conc) v6() (ok bool) { return c.v.V6 || c.v.Zoned || c.v.MacIsh6 }

func (c zzC04Conc) addrOfByte(b byte) (ip netip.Addr) {
	if c.v.MacIsh6 && !c.v.Zoned {
		return netip.AddrFrom16([16]byte{0, 0xaa, 0, 0xbb, 0, 0xcc, 0, 0xdd, 0, 0xee, 0, 0xff, 0, 0x11, 0, b})
	}
	if c.v.Zoned {
		return netip.AddrFrom16([16]byte{0xfe, 0x80, 0, 0, 0, 0, 0, 0, 0, 0, 0, 0, 0, 0x07, 0, b})
	}
	if c.v.V6 {
		a16 := [16]byte{0xfd, 0x00, 0, 0, 0, 0, 0, 0, 0, 0, 0, 0, 0, 0x07, 0, b}

		return netip.AddrFrom16(a16)
	}

	return netip.AddrFrom4([4]byte{192, 168, 7, b})
}

var zzC04Zones = []string{"", "eth0", "wlan1", "br-lan", "5"}

// addr renders the address number n = zone<<W | bits (ClientsCore.tla): the
// bits select the bytes, the zone (if any) is appended as an IPv6 zone.
func (c zzC04Conc) addr(n int) (ip netip.Addr) {
	bits, zone := n&(1<<c.v.W-1), n>>c.v.W
	ip = c.addrOfByte(c.hostByte(bits, true))
	if zone > 0 {
		ip = ip.WithZone(zzC04Zones[zone%len(zzC04Zones)])
	}

	return ip
}

// mapped is the IPv4-mapped IPv6 spelling of an IPv4 address.
func zzC04Mapped(ip netip.Addr) (m netip.Addr) {
	if !ip.Is4() {
		return ip
	}

	return netip.AddrFrom16(ip.As16())
}

// zzC04Unmap is the IPv4 form of a prefix of IPv4-mapped addresses.
func zzC04Unmap(p netip.Prefix) (u netip.Prefix) {
	if !p.Addr().Is4In6() || p.Bits() < 96 {
		return p
	}

	return netip.PrefixFrom(p.Addr().Unmap(), p.Bits()-96)
}

func (c zzC04Conc) prefix(base, l int) (p netip.Prefix) {
	if l == 0 {
		// The whole abstract address space: written as the whole real one
		// (all addresses ever looked up lie in the embedded /24 or /120).
		if c.v6() {
			return netip.PrefixFrom(netip.IPv6Unspecified(), 0)
		}

		return netip.PrefixFrom(netip.IPv4Unspecified(), 0)
	}
	bits := 24 + l
	if c.v6() {
		bits = 120 + l
	}

	return netip.PrefixFrom(c.addrOfByte(c.hostByte(base, false)), bits)
}

func (c zzC04Conc) mac(n int) (m net.HardwareAddr) {
	m = make(net.HardwareAddr, c.v.MacLen)
	m[0] = 0x02
	m[1] = byte(n)
	for i := 2; i < len(m); i++ {
		m[i] = byte(c.mix(n, 100+i))
	}

	return m
}

// macString is the canonical lookup spelling of a mac.  An 8-byte address in
// colon form is syntactically also an IPv6 address, so that length is spelled
// with dashes here; the colon form is an alternative spelling (registered with
// MacColon8, looked up as the soft "mac8colon" lookup).
func (c zzC04Conc) macString(n int) (s string) {
	s = c.mac(n).String()
	if c.v.MacLen == 8 {
		s = strings.ReplaceAll(s, ":", "-")
	}

	return s
}

// leaseMAC is the link-layer address a DHCP lease carries for the lease value
// id (a registered mac, or "macx": an address nobody can have registered).
func (c zzC04Conc) leaseMAC(id zzC04ID) (m net.HardwareAddr) {
	if id.K != "macx" {
		return c.mac(id.X)
	}
	n := c.v.MacLen
	if c.v.OddLease {
		n = []int{4, 1, 16, 7}[c.mix(id.X, 93)%4]
	}
	m = make(net.HardwareAddr, n)
	m[0] = 0xee
	for i := 1; i < n; i++ {
		m[i] = byte(c.mix(id.X, 200+i))
	}

	return m
}

func (c zzC04Conc) cid(n int) (s string) {
	pre := []string{"cli", "dev-x", "a1", "my-phone"}[c.mix(0, 7)%4]

	return fmt.Sprintf("%s-%d", pre, n)
}

// reqCID is the ClientID string a request presents for the abstract value id:
// a ClientID proper, or a legal ClientID that merely looks like a mac ("cidmac",
// "cidmacu") or an address ("cidip") of the universe.
func (c zzC04Conc) reqCID(id zzC04ID) (s string) {
	switch id.K {
	case "cid":
		return c.cid(id.X)
	case "cidmac":
		return strings.ReplaceAll(c.mac(id.X).String(), ":", "-")
	case "cidmacu":
		return strings.ToUpper(strings.ReplaceAll(c.mac(id.X).String(), ":", "-"))
	case "cidip":
		return strings.NewReplacer(".", "-", ":", "-", "%", "-").Replace(c.addr(id.X).String())
	default:
		return ""
	}
}

// storedStrings are the spellings under which client number owner registers
// the identifier -- a fixed (seeded) function of the owner and the identifier,
// so that two clients spell the same identifier differently:
//
//   - ClientIDs and macs in some letter case (the code folds case);
//   - prefixes with host bits set (the code stores the masked network);
//   - one spelling, or TWO legal spellings of the same identifier in the one
//     id list (192.168.7.64/26 and 192.168.7.77/26; cli-1 and CLI-1): the
//     client then owns that one identifier, the abstract id set is a set.
//
// Requests and lookups use idString (canonical, lower case: what dnsforward
// extracts from a request).
func (c zzC04Conc) storedStrings(id zzC04ID, owner int) (ss []string) {
	h := owner*131 + id.X*7 + id.Y*3 + len(id.K)
	mapIt := c.v.MapStore && !c.v6()
	alt := func(salt int) (s string) {
		s = c.idString(id)
		pat := c.mix(h, salt)
		switch id.K {
		case "ip":
			if mapIt {
				return zzC04Mapped(c.addr(id.X)).String()
			}

			return c.ipStored(id)
		case "cid", "mac":
			if id.K == "mac" && c.v.MacLen == 8 && c.v.MacColon8 {
				s = c.mac(id.X).String()
			}
			b := []byte(s)
			for i := range b {
				if b[i] >= 'a' && b[i] <= 'z' && pat&(1<<(i%24)) != 0 {
					b[i] -= 'a' - 'A'
				}
			}

			return string(b)
		case "net":
			p := c.prefix(id.X, id.Y)
			b := p.Addr().AsSlice()
			b[len(b)-1] |= byte(pat) & byte(0xff>>uint(id.Y))
			a, _ := netip.AddrFromSlice(b)
			if mapIt && pat&0x100 != 0 {
				return netip.PrefixFrom(zzC04Mapped(a), p.Bits()+96).String()
			}

			return netip.PrefixFrom(a, p.Bits()).String()
		default:
			return s
		}
	}
	canon := c.idString(id)
	if id.K == "ip" {
		canon = c.ipStored(id)
	}
	switch c.mix(h, 91) % 4 {
	case 0:
		return []string{canon}
	case 1:
		return []string{alt(55)}
	case 2:
		return []string{canon, alt(55)}
	default:
		return []string{alt(55), alt(56)}
	}
}

// ipStored is the text under which an address is REGISTERED.  With the MacIsh6
// base the canonical text (aa:bb:cc:dd:ee:ff:11:5b) is also a well-formed
// EUI-64, which the registry by design stores as a mac; the user who means the
// address writes a group with leading zeros (…:11:005b), which only an address
// can have.  Lookups keep the canonical text: that is what a request carries.
func (c zzC04Conc) ipStored(id zzC04ID) (s string) {
	s = c.addr(id.X).String()
	if !c.v.MacIsh6 || c.v.Zoned {
		return s
	}
	i := strings.LastIndex(s, ":")
	last := s[i+1:]

	return s[:i+1] + strings.Repeat("0", 4-len(last)) + last
}

// idString renders an identifier the way a user would type it.
func (c zzC04Conc) idString(id zzC04ID) (s string) {
	switch id.K {
	case "cid":
		return c.cid(id.X)
	case "ip":
		return c.addr(id.X).String()
	case "net":
		return c.prefix(id.X, id.Y).String()
	case "mac":
		return c.macString(id.X)
	default:
		return ""
	}
}

// ownVals are a client's own four switches.  In direction A they are the
// complement of the global ones, so that every field tells which side it came
// from.
func zzC04Bits(x int) (v [4]bool) {
	for i := range v {
		v[i] = x&(1<<i) != 0
	}

	return v
}

// zzC04Abs maps the concrete identifiers of a returned *Persistent back to
// abstract ones.
type zzC04Abs struct {
	ips  map[netip.Addr]zzC04ID
	nets map[netip.Prefix]zzC04ID
	macs map[string]zzC04ID
	cids map[string]zzC04ID
}

func zzC04NewAbs(c zzC04Conc, ids []zzC04ID) (a *zzC04Abs) {
	a = &zzC04Abs{
		ips:  map[netip.Addr]zzC04ID{},
		nets: map[netip.Prefix]zzC04ID{},
		macs: map[string]zzC04ID{},
		cids: map[string]zzC04ID{},
	}
	for _, id := range ids {
		switch id.K {
		case "cid":
			a.cids[c.cid(id.X)] = id
		case "ip":
			a.ips[c.addr(id.X)] = id
		case "net":
			a.nets[c.prefix(id.X, id.Y)] = id
		case "mac":
			a.macs[string(c.mac(id.X))] = id
		}
	}

	return a
}

// idsOf returns the abstract identifiers of p; ok is false if p carries an
// identifier that is not in the universe.
func (a *zzC04Abs) idsOf(p *Persistent) (ids []zzC04ID, ok bool) {
	ok = true
	add := func(id zzC04ID, found bool) {
		if !found {
			ok = false

			return
		}
		ids = append(ids, id)
	}
	for _, ip := range p.IPs {
		id, f := a.ips[ip.Unmap()]
		add(id, f)
	}
	for _, n := range p.Subnets {
		id, f := a.nets[zzC04Unmap(n).Masked()]
		add(id, f)
	}
	for _, m := range p.MACs {
		id, f := a.macs[string(m)]
		add(id, f)
	}
	for _, s := range p.ClientIDs {
		id, f := a.cids[strings.ToLower(s)]
		add(id, f)
	}

	return ids, ok
}

// ------------------------------------------------------------------ the rig

type zzC04DHCP struct {
	mu     sync.Mutex
	leases map[netip.Addr]net.HardwareAddr
}

var _ DHCP = (*zzC04DHCP)(nil)

func (d *zzC04DHCP) Leases() (leases []*dhcpsvc.Lease) { return nil }

func (d *zzC04DHCP) HostByIP(_ netip.Addr) (host string) { return "" }

func (d *zzC04DHCP) MACByIP(ip netip.Addr) (mac net.HardwareAddr) {
	d.mu.Lock()
	defer d.mu.Unlock()

	return d.leases[ip]
}

func (d *zzC04DHCP) set(ip netip.Addr, mac net.HardwareAddr) {
	d.mu.Lock()
	defer d.mu.Unlock()

	if mac == nil {
		delete(d.leases, ip)
	} else {
		d.leases[ip] = mac
	}
}

type zzC04SafeSearch struct{ owner string }

func (zzC04SafeSearch) CheckHost(_ context.Context, _ string, _ uint16) (res filtering.Result, err error) {
	return res, nil
}

func (zzC04SafeSearch) Update(_ context.Context, _ filtering.SafeSearchConfig) (err error) {
	return nil
}

// zzC04Rig is a real Storage behind a real DNSFilter.
type zzC04Rig struct {
	ctx     context.Context
	st      *Storage
	dhcp    *zzC04DHCP
	df      *filtering.DNSFilter
	gVals   [4]bool
	gSvcs   []string
	ownSS   map[string]*zzC04SafeSearch // per client name
	ownVals map[string][4]bool
	ownSvcs map[string][]string
}

var zzC04InitOnce sync.Once

// zzC04Weekly builds a blocked-services schedule by the state it is in NOW:
// "none" has no pause window at all, "in" pauses all week, "out" has a window
// on the weekday three days from now (UTC) and so does not pause now.
func zzC04Weekly(kind string) (w *schedule.Weekly) {
	switch kind {
	case "in":
		return schedule.FullWeekly()
	case "out":
		day := []string{"sun", "mon", "tue", "wed", "thu", "fri", "sat"}[(int(time.Now().UTC().Weekday())+3)%7]
		w = &schedule.Weekly{}
		err := json.Unmarshal([]byte(fmt.Sprintf(`{"time_zone":"UTC","%s":{"start":3600000,"end":7200000}}`, day)), w)
		if err != nil {
			panic(fmt.Sprintf("building a schedule: %v", err))
		}
		if w.Contains(time.Now()) {
			panic("the out-of-window schedule contains now")
		}

		return w
	default:
		return schedule.EmptyWeekly()
	}
}

func zzC04NewRig(tb testing.TB, dir string, gVals [4]bool, gSvcs []string, gSched string) (r *zzC04Rig) {
	zzC04InitOnce.Do(filtering.InitModule)

	r = &zzC04Rig{
		ctx:     context.Background(),
		gVals:   gVals,
		gSvcs:   gSvcs,
		ownSS:   map[string]*zzC04SafeSearch{},
		ownVals: map[string][4]bool{},
		ownSvcs: map[string][]string{},
	}

	conf := &filtering.Config{
		DataDir: dir,
		ApplyClientFiltering: func(id string, addr netip.Addr, setts *filtering.Settings) {
			r.st.ApplyClientFiltering(id, addr, setts)
		},
		BlockedServices: &filtering.BlockedServices{
			Schedule: zzC04Weekly(gSched),
			IDs:      gSvcs,
		},
		SafeSearchConf:      filtering.SafeSearchConfig{Enabled: gVals[1]},
		SafeBrowsingEnabled: gVals[2],
		ParentalEnabled:     gVals[3],
	}

	df, err := filtering.New(conf, nil)
	if err != nil {
		panic(fmt.Sprintf("filtering.New: %v", err))
	}
	df.SetEnabled(gVals[0])
	r.df = df
	r.reset(tb)

	return r
}

// reset installs a fresh, empty Storage and lease table.
func (r *zzC04Rig) reset(tb testing.TB) {
	r.dhcp = &zzC04DHCP{leases: map[netip.Addr]net.HardwareAddr{}}
	if err := r.load(nil); err != nil {
		panic(fmt.Sprintf("NewStorage: %v", err))
	}
}

// load starts a new Storage from the clients of a configuration file, the way
// home's clients.Init does (NewStorage with InitialClients); the lease table
// stays.  If the configuration is refused there is no registry: an empty one
// is installed for the lookups that follow.
func (r *zzC04Rig) load(initial []*Persistent) (err error) {
	conf := func(cs []*Persistent) (c *StorageConfig) {
		return &StorageConfig{
			Logger:         slogutil.NewDiscardLogger(),
			Clock:          timeutil.SystemClock{},
			DHCP:           r.dhcp,
			InitialClients: cs,
		}
	}
	st, err := NewStorage(r.ctx, conf(initial))
	if err != nil {
		st, _ = NewStorage(r.ctx, conf(nil))
	}
	r.st = st

	return err
}

// persistent builds a client the way home.jsonToClient does: fresh UID, SetIDs
// on the identifier strings.
func (r *zzC04Rig) persistent(name string, ids []string, own, bs bool, vals [4]bool, svcs []string, sched string) (p *Persistent, err error) {
	// As home.toPersistent / home.jsonToClient do: the client's safe-search
	// engine exists only when its own safe search is enabled.
	var ss filtering.SafeSearch
	if vals[1] {
		ss = &zzC04SafeSearch{owner: name}
	}
	p = &Persistent{
		Name:                  name,
		UID:                   MustNewUID(),
		UseOwnSettings:        own,
		UseOwnBlockedServices: bs,
		FilteringEnabled:      vals[0],
		SafeSearchConf:        filtering.SafeSearchConfig{Enabled: vals[1]},
		SafeBrowsingEnabled:   vals[2],
		ParentalEnabled:       vals[3],
		SafeSearch:            ss,
		BlockedServices: &filtering.BlockedServices{
			Schedule: zzC04Weekly(sched),
			IDs:      append([]string{}, svcs...),
		},
	}
	err = p.SetIDs(ids)

	return p, err
}

// zzC04Eff is what a request's effective settings look like.
type zzC04Eff struct {
	Who    string   `json:"who"`
	Vals   [4]bool  `json:"vals"`
	Svcs   []string `json:"svcs"`
	HasSS  bool     `json:"has_ss"`
	SSName string   `json:"ss_owner"`
}

// effective runs what dnsforward.clientRequestFilteringSettings runs.
func (r *zzC04Rig) effective(cid string, addr netip.Addr) (e zzC04Eff) {
	setts := r.df.Settings()
	r.df.ApplyAdditionalFiltering(addr, cid, setts)

	e.Who = setts.ClientName
	e.Vals = [4]bool{setts.FilteringEnabled, setts.SafeSearchEnabled, setts.SafeBrowsingEnabled, setts.ParentalEnabled}
	e.Svcs = []string{}
	for _, s := range setts.ServicesRules {
		e.Svcs = append(e.Svcs, s.Name)
	}
	sort.Strings(e.Svcs)
	if ss, ok := setts.ClientSafeSearch.(*zzC04SafeSearch); ok && ss != nil {
		e.HasSS, e.SSName = true, ss.owner
	} else if setts.ClientSafeSearch != nil {
		e.HasSS, e.SSName = true, "?"
	}

	return e
}

func zzC04SameSet(a, b []string) (ok bool) {
	if len(a) != len(b) {
		return false
	}
	x, y := append([]string{}, a...), append([]string{}, b...)
	sort.Strings(x)
	sort.Strings(y)
	for i := range x {
		if x[i] != y[i] {
			return false
		}
	}

	return true
}

// ------------------------------------------------------------- direction A

type zzC04Uni struct {
	T          string    `json:"t"`
	U          string    `json:"u"`
	Names      []string  `json:"names"`
	IDs        []zzC04ID `json:"ids"`
	Addrs      []int     `json:"addrs"`
	CIDs       []zzC04ID `json:"cids"`
	LeaseAddrs []int     `json:"leaseaddrs"`
	W          int       `json:"w"`
	Zoned      bool      `json:"zoned"`
	LeaseMACs  []zzC04ID `json:"leasemacs"`
}

type zzC04State struct {
	U  string    `json:"u"`
	I  int       `json:"i"`
	K  []int     `json:"k"`
	Fi [][]int   `json:"fi"`
	Fa []int     `json:"fa"`
	Ap [][]int   `json:"ap"`
	Lo [][][]int `json:"lo"`
	Fx []int     `json:"fx"`

	// Cells where the zone-less identifier decides for a zoned address
	// (ClientsCore!ZoneFallback): 0, or 1 + the answer without that rule.
	// They are compared by altLookups ("zonefall"), not by zzC04Compare.
	Zi []int   `json:"zi"`
	Za []int   `json:"za"`
	Zp [][]int `json:"zp"`
}

type zzC04Chunk struct {
	U       string       `json:"u"`
	ID      int          `json:"id"`
	Variant zzC04Variant `json:"variant"`
	Start   int          `json:"start"`
	Steps   [][]int      `json:"steps"` // [op, a, b, mask, fl, out, dst]
}

type zzC04Obs struct {
	K   []int    `json:"k"`   // FindByName per name: 4*mask+fl, 0 = absent, -1 = foreign ids
	Rng []int    `json:"rng"` // the same from RangeByName; one extra slot counts foreign names
	Fi  []int    `json:"fi"`
	Fa  []int    `json:"fa"`
	Ap  [][]int  `json:"ap"`
	Bad []string `json:"bad,omitempty"`
}

type zzC04Runner struct {
	tb    testing.TB
	uni   *zzC04Uni
	conc  zzC04Conc
	abs   *zzC04Abs
	rig   *zzC04Rig
	names []string
	idStr []string
	nameI map[string]int
	idBit map[zzC04ID]int
	rng   *rand.Rand
	nLook int
}

// zzC04Rigs caches one rig (DNSFilter) per global-settings pattern; a worker
// goroutine owns one cache.
type zzC04Rigs map[int]*zzC04Rig

func zzC04NewRunner(tb testing.TB, uni *zzC04Uni, v zzC04Variant, dir string, rigs zzC04Rigs) (rn *zzC04Runner) {
	v.W = uni.W
	v.Zoned = uni.Zoned
	c := zzC04Conc{v: v}
	rn = &zzC04Runner{tb: tb, uni: uni, conc: c, abs: zzC04NewAbs(c, uni.IDs), nameI: map[string]int{}, idBit: map[zzC04ID]int{}}
	rn.rng = rand.New(rand.NewSource(v.Seed))
	g := zzC04Bits(v.Global)
	gs := c.mix(0, 89) % 2 // global schedule: none / window elsewhere in the week
	if rn.rig = rigs[v.Global*2+gs]; rn.rig == nil {
		rn.rig = zzC04NewRig(tb, dir, g, []string{zzC04Services[0], zzC04Services[1]}, []string{"none", "out"}[gs])
		rigs[v.Global*2+gs] = rn.rig
	}
	rn.rig.ownVals, rn.rig.ownSvcs = map[string][4]bool{}, map[string][]string{}
	for i := range uni.Names {
		n := c.name(i + 1)
		rn.names = append(rn.names, n)
		rn.nameI[n] = i + 1
		// Own values: the complement of the global ones; own services: a
		// list per name that differs from the global one.
		rn.rig.ownVals[n] = zzC04Bits(^v.Global & 15)
		rn.rig.ownSvcs[n] = []string{zzC04Services[2+i%6]}
	}
	for i, id := range uni.IDs {
		rn.idStr = append(rn.idStr, c.idString(id))
		rn.idBit[id] = 1 << i
	}

	return rn
}

func (rn *zzC04Runner) build(nameIdx, mask, fl int) (p *Persistent, err error) {
	name := rn.names[nameIdx-1]
	var ids []string
	for i, id := range rn.uni.IDs {
		if mask&(1<<i) == 0 {
			continue
		}
		ids = append(ids, rn.conc.storedStrings(id, nameIdx)...)
	}
	rn.rng.Shuffle(len(ids), func(i, j int) { ids[i], ids[j] = ids[j], ids[i] })

	// No request of a tour falls into a pause window: the client has no
	// schedule, or one whose window is elsewhere in the week.
	sched := []string{"none", "out"}[rn.conc.mix(nameIdx, 88)%2]

	return rn.rig.persistent(name, ids, fl&2 != 0, fl&1 != 0, rn.rig.ownVals[name], rn.rig.ownSvcs[name], sched)
}

// code abstracts a returned client to 4*mask+flags (-1: foreign identifier).
func (rn *zzC04Runner) code(p *Persistent) (c int) {
	ids, ok := rn.abs.idsOf(p)
	if !ok {
		return -1
	}
	mask := 0
	for _, id := range ids {
		mask |= rn.idBit[id]
	}
	c = 4 * mask
	if p.UseOwnSettings {
		c += 2
	}
	if p.UseOwnBlockedServices {
		c++
	}

	return c
}

// zzC04Try runs f; a panic of the code under test is an observation, not a
// harness failure.
func zzC04Try(f func()) (panicked string) {
	defer func() {
		if v := recover(); v != nil {
			panicked = fmt.Sprintf("panic: %v", v)
		}
	}()
	f()

	return ""
}

// step performs one labelled edge; out is 0 (accepted), 1 (refused) or -1
// (the call panicked).
func (rn *zzC04Runner) step(s []int) (out int, concrete string) {
	if pm := zzC04Try(func() { out, concrete = rn.step0(s) }); pm != "" {
		return -1, fmt.Sprintf("operation %v: %s", s[:5], pm)
	}

	return out, concrete
}

func (rn *zzC04Runner) step0(s []int) (out int, concrete string) {
	op, a, b, mask, fl := s[0], s[1], s[2], s[3], s[4]
	switch op {
	case 1:
		p, err := rn.build(a, mask, fl)
		if err != nil {
			panic(fmt.Sprintf("SetIDs: %v", err))
		}
		concrete = fmt.Sprintf("Add(%q %v own=%v bs=%v)", p.Name, p.IDs(), p.UseOwnSettings, p.UseOwnBlockedServices)
		if err = rn.rig.st.Add(rn.rig.ctx, p); err != nil {
			out = 1
			concrete += " -> " + err.Error()
		}
	case 2:
		p, err := rn.build(b, mask, fl)
		if err != nil {
			panic(fmt.Sprintf("SetIDs: %v", err))
		}
		concrete = fmt.Sprintf("Update(%q, %q %v own=%v bs=%v)", rn.names[a-1], p.Name, p.IDs(), p.UseOwnSettings, p.UseOwnBlockedServices)
		if err = rn.rig.st.Update(rn.rig.ctx, rn.names[a-1], p); err != nil {
			out = 1
			concrete += " -> " + err.Error()
		}
	case 3:
		concrete = fmt.Sprintf("RemoveByName(%q)", rn.names[a-1])
		if !rn.rig.st.RemoveByName(rn.rig.ctx, rn.names[a-1]) {
			out = 1
		}
	case 4:
		addr := rn.conc.addr(rn.uni.LeaseAddrs[a-1])
		var mac net.HardwareAddr
		if b != 0 {
			lease := zzC04ID{K: "mac", X: b}
			for _, lm := range rn.uni.LeaseMACs {
				if lm.X == b {
					lease = lm
				}
			}
			mac = rn.conc.leaseMAC(lease)
		}
		rn.rig.dhcp.set(addr, mac)
		concrete = fmt.Sprintf("lease %s -> %v", addr, mac)
	case 5:
		// A configuration file with two clients; only taken from an empty
		// registry (ClientsCore!LoadRes).
		n := 1 << len(rn.uni.IDs)
		p1, err := rn.build(a, mask%n, fl%4)
		if err != nil {
			panic(fmt.Sprintf("SetIDs: %v", err))
		}
		p2, err := rn.build(b, mask/n, fl/4)
		if err != nil {
			panic(fmt.Sprintf("SetIDs: %v", err))
		}
		concrete = fmt.Sprintf("NewStorage(InitialClients: %q %v, %q %v)", p1.Name, p1.IDs(), p2.Name, p2.IDs())
		if err = rn.rig.load([]*Persistent{p1, p2}); err != nil {
			out = 1
			concrete += " -> " + err.Error()
		}
	default:
		panic(fmt.Sprintf("bad op %d", op))
	}

	return out, concrete
}

// jump rebuilds the registry described by key k in a fresh Storage.  refused
// describes a setup operation the code did not accept (the spec accepts all of
// them: the clients of a reachable state do not clash).
func (rn *zzC04Runner) jump(k []int) (refused string) {
	rn.rig.reset(rn.tb)
	n := len(rn.names)
	for i := 0; i < n; i++ {
		if k[i] == 0 {
			continue
		}
		if out, c := rn.step([]int{1, i + 1, 0, k[i] / 4, k[i] % 4}); out != 0 {
			return "reply: got refusal, spec accepts: " + c
		}
	}
	for j, m := range k[n:] {
		if m != 0 {
			rn.step([]int{4, j + 1, m, 0, 0})
		}
	}

	return ""
}

func (rn *zzC04Runner) nameIdx(p *Persistent, ok bool) (i int) {
	if !ok || p == nil {
		if ok != (p != nil) {
			return -2
		}

		return 0
	}
	i, known := rn.nameI[p.Name]
	if !known {
		return -1
	}

	return i
}

// observe asks everything and abstracts it.  reg is what FindByName says; the
// returned clients of all other lookups must agree with it.
func (rn *zzC04Runner) observe() (o *zzC04Obs) {
	st := rn.rig.st
	o = &zzC04Obs{}
	n := len(rn.names)
	o.K = make([]int, n)
	for i, name := range rn.names {
		var p *Persistent
		var ok bool
		if pm := zzC04Try(func() { p, ok = st.FindByName(name) }); pm != "" {
			o.Bad = append(o.Bad, "FindByName("+name+"): "+pm)

			continue
		}
		rn.nLook++
		if ok != (p != nil) {
			o.Bad = append(o.Bad, "FindByName ok/nil mismatch")
		}
		if ok && p != nil {
			if p.Name != name {
				o.Bad = append(o.Bad, fmt.Sprintf("FindByName(%q) returned %q", name, p.Name))
			}
			o.K[i] = rn.code(p)
		}
	}
	if p, ok := st.FindByName("no such client"); ok || p != nil {
		o.Bad = append(o.Bad, "FindByName of an unknown name found something")
	}
	o.Rng = make([]int, n+1)
	if pm := zzC04Try(func() {
		st.RangeByName(func(p *Persistent) (cont bool) {
			i, known := rn.nameI[p.Name]
			if !known || o.Rng[i-1] != 0 {
				o.Rng[n]++

				return true
			}
			o.Rng[i-1] = rn.code(p)

			return true
		})
	}); pm != "" {
		o.Bad = append(o.Bad, "RangeByName: "+pm)
	}
	rn.nLook++

	check := func(what string, p *Persistent, ok bool) (idx int) {
		idx = rn.nameIdx(p, ok)
		if idx > 0 && rn.code(p) != o.K[idx-1] {
			o.Bad = append(o.Bad, fmt.Sprintf("%s returned client %q with ids %v, FindByName says otherwise", what, p.Name, p.IDs()))
		}

		return idx
	}
	find := func(s string) (idx int) {
		var p *Persistent
		var ok bool
		rn.nLook++
		if pm := zzC04Try(func() { p, ok = st.Find(s) }); pm != "" {
			o.Bad = append(o.Bad, "Find("+s+"): "+pm)

			return -3
		}

		return check("Find("+s+")", p, ok)
	}
	for i := range rn.uni.IDs {
		o.Fi = append(o.Fi, find(rn.idStr[i]))
	}
	for _, a := range rn.uni.Addrs {
		o.Fa = append(o.Fa, find(rn.conc.addr(a).String()))
	}
	for _, cid := range rn.uni.CIDs {
		cs := rn.conc.reqCID(cid)
		row := make([]int, 0, len(rn.uni.Addrs))
		for _, a := range rn.uni.Addrs {
			var e zzC04Eff
			rn.nLook++
			if pm := zzC04Try(func() { e = rn.rig.effective(cs, rn.conc.addr(a)) }); pm != "" {
				o.Bad = append(o.Bad, fmt.Sprintf("ApplyAdditionalFiltering(%q, %s): %s", cs, rn.conc.addr(a), pm))
				row = append(row, -3)

				continue
			}
			row = append(row, rn.effCode(e, o))
		}
		o.Ap = append(o.Ap, row)
	}

	return o
}

// effCode abstracts effective settings to 4*who + 2*[own values] + [own
// services]; a mixture of own and global values is reported.
func (rn *zzC04Runner) effCode(e zzC04Eff, o *zzC04Obs) (c int) {
	who := 0
	if e.Who != "" {
		var known bool
		if who, known = rn.nameI[e.Who]; !known {
			o.Bad = append(o.Bad, fmt.Sprintf("settings attributed to unknown client %q", e.Who))

			return -1
		}
	}
	c = 4 * who
	switch {
	case e.Vals == rn.rig.gVals && !e.HasSS:
	case who > 0 && e.Vals == rn.rig.ownVals[e.Who] && e.HasSS == e.Vals[1] && (!e.HasSS || e.SSName == e.Who):
		c += 2
	default:
		o.Bad = append(o.Bad, fmt.Sprintf("settings %+v are neither the global ones %v nor the own ones of %q", e, rn.rig.gVals, e.Who))

		return -1
	}
	switch {
	case zzC04SameSet(e.Svcs, rn.rig.gSvcs):
	case who > 0 && zzC04SameSet(e.Svcs, rn.rig.ownSvcs[e.Who]):
		c++
	default:
		o.Bad = append(o.Bad, fmt.Sprintf("blocked services %v are neither the global nor the own ones of %q", e.Svcs, e.Who))

		return -1
	}

	return c
}

// zzC04Soft is a disagreement in a lookup under an ALTERNATIVE spelling of its
// argument.  The registry itself was just found in step with the spec (the
// canonical table agreed), so the tour goes on.
type zzC04Soft struct {
	T       string       `json:"t"` // "soft"
	Alt     string       `json:"alt"`
	U       string       `json:"u"`
	Chunk   int          `json:"chunk"`
	Variant zzC04Variant `json:"variant"`
	State   int          `json:"state"`
	Call    string       `json:"call"`
	Got     int          `json:"got"`
	Want    int          `json:"want"`
	Absent  int          `json:"absent"`           // Apply only: the answer for the same address without a ClientID
	Admits  []int        `json:"admits,omitempty"` // loose only: the admissible clients
	What    string       `json:"what"`

	// Shape: "asfinding" if the answer has the shape the listed finding of
	// this kind produces (checks/c04.py ALT_KEYS has the same predicates and
	// decides), "other" otherwise.
	Shape string `json:"shape"`
}

// altLookups repeats lookups with other legal spellings of their argument and
// compares them with the SAME answer of the spec's table:
//
//	nettext    Find(text of a prefix)                 -> its owner
//	cidcase    Find / Apply with the ClientID in upper case
//	mapped     Find / Apply with the IPv4 address as ::ffff:a.b.c.d
//	mac8colon  Find(8-byte mac with colons)
func (rn *zzC04Runner) altLookups(c *zzC04Chunk, state int, o *zzC04Obs, want *zzC04State, soft func(*zzC04Soft)) {
	if soft == nil {
		return
	}
	report := func(alt, call string, got, w, absent int) {
		if got == w {
			return
		}
		asFinding := false
		switch alt {
		case "nettext", "mappednet":
			asFinding = got == 0 && w > 0
		case "cidcase", "zonefall":
			asFinding = got == absent
		case "mapped":
			asFinding = got == 0
		case "mac8colon":
			asFinding = got >= 0
		}
		shape := "other"
		if asFinding {
			shape = "asfinding"
		}
		soft(&zzC04Soft{T: "soft", Alt: alt, U: c.U, Chunk: c.ID, Variant: rn.conc.v, State: state, Call: call, Got: got, Want: w,
			Absent: absent, What: fmt.Sprintf("%s: got %d, spec %d", call, got, w), Shape: shape})
	}
	find := func(s string) (idx int) {
		var p *Persistent
		var ok bool
		rn.nLook++
		if pm := zzC04Try(func() { p, ok = rn.rig.st.Find(s) }); pm != "" {
			return -3
		}
		idx = rn.nameIdx(p, ok)
		if idx > 0 && rn.code(p) != o.K[idx-1] {
			return -4
		}

		return idx
	}
	apply := func(cs string, addr netip.Addr) (code int) {
		var e zzC04Eff
		rn.nLook++
		if pm := zzC04Try(func() { e = rn.rig.effective(cs, addr) }); pm != "" {
			return -3
		}

		return rn.effCode(e, &zzC04Obs{})
	}
	// zonefall: the cells the canonical comparison left out
	for i := range rn.uni.IDs {
		if want.Zi[i] != 0 {
			report("zonefall", fmt.Sprintf("Find(id %d = %s)", i+1, rn.idStr[i]), o.Fi[i], want.Fi[i][0], want.Zi[i]-1)
		}
	}
	for j, a := range rn.uni.Addrs {
		if want.Za[j] != 0 {
			report("zonefall", fmt.Sprintf("Find(addr #%d = %s)", j+1, rn.conc.addr(a)), o.Fa[j], want.Fa[j], want.Za[j]-1)
		}
		for r := range rn.uni.CIDs {
			if want.Zp[r][j] != 0 {
				report("zonefall", fmt.Sprintf("Apply(cid #%d, addr #%d = %s)", r+1, j+1, rn.conc.addr(a)), o.Ap[r][j], want.Ap[r][j], want.Zp[r][j]-1)
			}
		}
	}
	for i, id := range rn.uni.IDs {
		switch id.K {
		case "net":
			report("nettext", fmt.Sprintf("Find(id %d = %s)", i+1, rn.idStr[i]), o.Fi[i], want.Fi[i][0], 0)
		case "cid":
			up := strings.ToUpper(rn.idStr[i])
			report("cidcase", fmt.Sprintf("Find(id %d = %s)", i+1, up), find(up), want.Fi[i][0], 0)
		case "mac":
			if rn.conc.v.MacLen == 8 {
				colon := rn.conc.mac(id.X).String()
				// The text is also that of an IPv6 address (ClientsCore.tla,
				// "Ambiguous texts"): in an IPv6 universe the address reading
				// decides when nobody registered the mac.
				w := want.Fi[i][0]
				if rn.conc.v6() {
					w = want.Fx[i]
				}
				report("mac8colon", fmt.Sprintf("Find(id %d = %s)", i+1, colon), find(colon), w, 0)
			}
		}
	}
	for r, cid := range rn.uni.CIDs {
		if cid.K != "cid" {
			continue
		}
		up := strings.ToUpper(rn.conc.reqCID(cid))
		for j, a := range rn.uni.Addrs {
			report("cidcase", fmt.Sprintf("Apply(cid #%d = %s, addr #%d)", r+1, up, j+1), apply(up, rn.conc.addr(a)), want.Ap[r][j], want.Ap[0][j])
		}
	}
	// loose: the attribution of the query log and the statistics, called the
	// way home.findMultiple calls it (the ClientID if there is one, then the
	// text of the address, which has lost its zone).
	for r, cid := range rn.uni.CIDs {
		cs := rn.conc.reqCID(cid)
		for j, a := range rn.uni.Addrs {
			addr := rn.conc.addr(a).WithZone("")
			got := rn.loose(cs, addr, o)
			admits := want.Lo[r][j]
			okAns := false
			for _, x := range admits {
				okAns = okAns || x == got
			}
			if okAns {
				continue
			}
			// The shape of the listed finding: a ClientID spelled like a mac
			// is taken for that mac, or the answer is the one the strict
			// lookup of the zone-less address gives.
			asFinding := false
			if cid.K == "cidmac" || cid.K == "cidmacu" {
				for i, id := range rn.uni.IDs {
					asFinding = asFinding || (id.K == "mac" && id.X == cid.X && got > 0 && got == want.Fi[i][0])
				}
			} else if got >= 0 {
				asFinding = got == rn.strictFind(addr.String(), o)
			}
			shape := "other"
			if asFinding {
				shape = "asfinding"
			}
			call := fmt.Sprintf("FindLoose(ClientID #%d = %q, addr #%d = %s)", r+1, cs, j+1, addr)
			soft(&zzC04Soft{T: "soft", Alt: "loose", U: c.U, Chunk: c.ID, Variant: rn.conc.v, State: state, Call: call, Got: got,
				Want: admits[0], Admits: admits, What: fmt.Sprintf("%s: got %d, spec admits %v", call, got, admits), Shape: shape})
		}
	}
	if !rn.conc.v6() {
		for i, id := range rn.uni.IDs {
			if id.K == "net" {
				p := rn.conc.prefix(id.X, id.Y)
				mp := netip.PrefixFrom(zzC04Mapped(p.Addr()), p.Bits()+96).String()
				report("mappednet", fmt.Sprintf("Find(id %d = %s)", i+1, mp), find(mp), want.Fi[i][0], 0)
			}
		}
		for j, a := range rn.uni.Addrs {
			m := zzC04Mapped(rn.conc.addr(a))
			report("mapped", fmt.Sprintf("Find(addr #%d = %s)", j+1, m), find(m.String()), want.Fa[j], 0)
			report("mapped", fmt.Sprintf("Apply(no ClientID, addr #%d = %s)", j+1, m), apply("", m), want.Ap[0][j], 0)
		}
	}
}

// loose is what home.findMultiple does with the persistent clients: FindLoose
// for the ClientID of the request, if any, then for the text of its address.
func (rn *zzC04Runner) loose(cs string, addr netip.Addr, o *zzC04Obs) (idx int) {
	abs := func(p *Persistent, ok bool) (i int) {
		i = rn.nameIdx(p, ok)
		if i > 0 && rn.code(p) != o.K[i-1] {
			return -4
		}

		return i
	}
	idx = -3
	zzC04Try(func() {
		rn.nLook++
		if cs != "" {
			if p, ok := rn.rig.st.FindLoose(netip.Addr{}, cs); ok || p != nil {
				idx = abs(p, ok)

				return
			}
		}
		idx = abs(rn.rig.st.FindLoose(addr, addr.String()))
	})

	return idx
}

func (rn *zzC04Runner) strictFind(s string, o *zzC04Obs) (idx int) {
	idx = -3
	zzC04Try(func() {
		p, ok := rn.rig.st.Find(s)
		idx = rn.nameIdx(p, ok)
	})

	return idx
}

// compare returns a description of the first difference between the
// observation and the spec's table for state want.
func zzC04Compare(uni *zzC04Uni, o *zzC04Obs, want *zzC04State) (diff string) {
	if len(o.Bad) > 0 {
		return o.Bad[0]
	}
	n := len(o.K)
	for i := 0; i < n; i++ {
		if o.K[i] != want.K[i] {
			return fmt.Sprintf("FindByName(name %d): got client code %d, spec %d", i+1, o.K[i], want.K[i])
		}
		if o.Rng[i] != want.K[i] {
			return fmt.Sprintf("RangeByName(name %d): got client code %d, spec %d", i+1, o.Rng[i], want.K[i])
		}
	}
	if o.Rng[n] != 0 {
		return "RangeByName yields a foreign or duplicate client"
	}
	in := func(x int, set []int) (ok bool) {
		for _, y := range set {
			if x == y {
				return true
			}
		}

		return false
	}
	for i := range o.Fi {
		if uni.IDs[i].K == "net" || want.Zi[i] != 0 {
			// lookup by the text of a prefix / zone-less fallback: compared by altLookups
			continue
		}
		if !in(o.Fi[i], want.Fi[i]) {
			return fmt.Sprintf("Find(id %d): got client %d, spec admits %v", i+1, o.Fi[i], want.Fi[i])
		}
	}
	for i := range o.Fa {
		if want.Za[i] != 0 {
			continue
		}
		if o.Fa[i] != want.Fa[i] {
			return fmt.Sprintf("Find(addr #%d): got client %d, spec %d", i+1, o.Fa[i], want.Fa[i])
		}
	}
	for i := range o.Ap {
		for j := range o.Ap[i] {
			if want.Zp[i][j] != 0 {
				continue
			}
			if o.Ap[i][j] != want.Ap[i][j] {
				return fmt.Sprintf("Apply(cid #%d, addr #%d): got %d, spec %d (4*who+2*ownvals+ownsvcs)", i+1, j+1, o.Ap[i][j], want.Ap[i][j])
			}
		}
	}

	return ""
}

type zzC04Bad struct {
	T        string       `json:"t"`
	U        string       `json:"u"`
	Chunk    int          `json:"chunk"`
	Variant  zzC04Variant `json:"variant"`
	Start    int          `json:"start"`
	Step     int          `json:"step"` // index into steps; -1 = after the setup
	Src      int          `json:"src"`
	Edge     []int        `json:"edge"`
	What     string       `json:"what"`
	Concrete string       `json:"concrete"`
	History  []string     `json:"history"`
	Got      *zzC04Obs    `json:"got"`
	Want     *zzC04State  `json:"want"`
}

func TestZZVerifC04Replay(t *testing.T) {
	unis := map[string]*zzC04Uni{}
	states := map[string][]*zzC04State{}
	var chunks []*zzC04Chunk
	zzReadNDJSON(t, "VERIF_IN", func(line []byte) {
		var head struct {
			T string `json:"t"`
		}
		if err := json.Unmarshal(line, &head); err != nil {
			t.Fatalf("bad line: %v", err)
		}
		switch head.T {
		case "u":
			u := &zzC04Uni{}
			if err := json.Unmarshal(line, u); err != nil {
				t.Fatalf("bad universe: %v", err)
			}
			unis[u.U] = u
		case "s":
			s := &zzC04State{}
			if err := json.Unmarshal(line, s); err != nil {
				t.Fatalf("bad state: %v", err)
			}
			for len(states[s.U]) <= s.I {
				states[s.U] = append(states[s.U], nil)
			}
			states[s.U][s.I] = s
		case "c":
			c := &zzC04Chunk{}
			if err := json.Unmarshal(line, c); err != nil {
				t.Fatalf("bad chunk: %v", err)
			}
			chunks = append(chunks, c)
		}
	})

	w := zzNewWriter(t, "VERIF_OUT")
	defer w.close()
	var wmu sync.Mutex

	workers := 4
	if s := os.Getenv("VERIF_WORKERS"); s != "" {
		fmt.Sscanf(s, "%d", &workers)
	}
	jobs := make(chan *zzC04Chunk)
	var wg sync.WaitGroup
	var totalSteps, totalLook, totalBad, doneChunks int
	// Soft disagreements (alternative-spelling lookups, see altLookups) are
	// counted; the first few of every kind are written out.
	softN := map[string]int{}
	softCap := 6
	if s := os.Getenv("VERIF_SOFT_CAP"); s != "" {
		fmt.Sscanf(s, "%d", &softCap)
	}
	soft := func(sb *zzC04Soft) {
		wmu.Lock()
		defer wmu.Unlock()
		// Disagreements of the shape of a listed finding are sampled; any
		// other one is written out (up to a generous bound).
		k, bound := sb.Alt+"/"+sb.Shape, softCap
		if sb.Shape == "other" {
			bound = 50 * softCap
		}
		softN[k]++
		if softN[k] <= bound {
			w.put(sb)
		}
	}
	for wi := 0; wi < workers; wi++ {
		wg.Add(1)
		dir := t.TempDir()
		go func() {
			defer wg.Done()
			rigs := zzC04Rigs{}
			for c := range jobs {
				var steps, look int
				var bad *zzC04Bad
				if pm := zzC04Try(func() { steps, look, bad = zzC04RunChunk(t, unis[c.U], states[c.U], c, dir, rigs, soft) }); pm != "" {
					// A failure of the harness itself: the summary will not
					// add up and the check reports inconclusive.
					wmu.Lock()
					w.put(map[string]any{"t": "harness", "chunk": c.ID, "what": pm})
					wmu.Unlock()

					continue
				}
				wmu.Lock()
				totalSteps += steps
				totalLook += look
				doneChunks++
				if bad != nil {
					totalBad++
					w.put(bad)
				}
				wmu.Unlock()
			}
		}()
	}
	for _, c := range chunks {
		jobs <- c
	}
	close(jobs)
	wg.Wait()

	w.put(map[string]any{"t": "summary", "chunks": doneChunks, "steps": totalSteps, "lookups": totalLook, "bad": totalBad, "soft": softN})
}

// zzC04RunChunk walks one tour.  It stops at the first disagreement (the real
// object's state is no longer the spec's).
func zzC04RunChunk(tb testing.TB, uni *zzC04Uni, states []*zzC04State, c *zzC04Chunk, dir string, rigs zzC04Rigs, soft func(*zzC04Soft)) (steps, look int, bad *zzC04Bad) {
	rn := zzC04NewRunner(tb, uni, c.Variant, dir, rigs)

	mk := func(i int, src int, edge []int, what, concrete string, hist []string, o *zzC04Obs, want *zzC04State) *zzC04Bad {
		return &zzC04Bad{T: "bad", U: c.U, Chunk: c.ID, Variant: c.Variant, Start: c.Start, Step: i, Src: src, Edge: edge,
			What: what, Concrete: concrete, History: hist, Got: o, Want: want}
	}

	setup := fmt.Sprintf("adding the clients of state %v to an empty storage", states[c.Start].K)
	if refused := rn.jump(states[c.Start].K); refused != "" {
		return 0, rn.nLook, mk(-1, c.Start, nil, "after setup: "+refused, setup, nil, nil, states[c.Start])
	}
	o := rn.observe()
	if d := zzC04Compare(uni, o, states[c.Start]); d != "" {
		return 0, rn.nLook, mk(-1, c.Start, nil, "after setup: "+d, setup, nil, o, states[c.Start])
	}

	rn.altLookups(c, c.Start, o, states[c.Start], soft)

	cur := c.Start
	var hist []string
	for i, s := range c.Steps {
		out, concrete := rn.step(s)
		steps++
		if len(hist) < 64 {
			hist = append(hist, concrete)
		}
		want := states[s[6]]
		if out != s[5] {
			return steps, rn.nLook, mk(i, cur, s, fmt.Sprintf("reply: got %d, spec %d (0 accepted, 1 refused)", out, s[5]), concrete, hist, nil, want)
		}
		o = rn.observe()
		if d := zzC04Compare(uni, o, want); d != "" {
			return steps, rn.nLook, mk(i, cur, s, d, concrete, hist, o, want)
		}
		rn.altLookups(c, s[6], o, want, soft)
		cur = s[6]
	}

	return steps, rn.nLook, nil
}

// ------------------------------------------------- settings (pure vectors)

// zzC04SetVec is one vector of specs/ClientSettings.tla: global values, one
// client (owning address 5) with its own values and switches, and the
// effective settings the spec demands for a request from the client's address
// (hit) and from a foreign address (miss).
type zzC04SetVec struct {
	G    [4]bool     `json:"g"`
	Gs   []string    `json:"gs"`
	Gp   string      `json:"gp"` // global schedule now: none | in
	V    [4]bool     `json:"v"`
	Cs   []string    `json:"cs"`
	Cp   string      `json:"cp"` // the client's schedule now: none | in | out
	Own  bool        `json:"own"`
	Bs   bool        `json:"bs"`
	Hit  zzC04SetEff `json:"hit"`
	Like zzC04SetEff `json:"like"`
	Miss zzC04SetEff `json:"miss"`
}

type zzC04SetEff struct {
	Who  string   `json:"who"`
	Vals [4]bool  `json:"vals"`
	Svcs []string `json:"svcs"`
}

var zzC04SvcOf = map[string]string{"a": "youtube", "b": "tiktok"}

func zzC04Svcs(abs []string) (conc []string) {
	conc = []string{}
	for _, a := range abs {
		conc = append(conc, zzC04SvcOf[a])
	}

	return conc
}

func TestZZVerifC04Settings(t *testing.T) {
	w := zzNewWriter(t, "VERIF_OUT")
	defer w.close()

	dir := t.TempDir()
	rigs := map[string]*zzC04Rig{}
	n, bad := 0, 0
	rng := rand.New(rand.NewSource(zzSeed()))
	zzReadNDJSON(t, "VERIF_IN", func(line []byte) {
		v := &zzC04SetVec{}
		if err := json.Unmarshal(line, v); err != nil {
			t.Fatalf("bad vector: %v", err)
		}
		n++
		key := fmt.Sprint(v.G, v.Gs, v.Gp)
		rig := rigs[key]
		if rig == nil {
			rig = zzC04NewRig(t, dir, v.G, zzC04Svcs(v.Gs), v.Gp)
			rigs[key] = rig
		}
		rig.reset(t)
		c := zzC04Conc{v: zzC04Variant{MacLen: []int{6, 8, 20}[rng.Intn(3)], MacColon8: rng.Intn(2) == 0, V6: rng.Intn(3) == 0, Seed: rng.Int63(), Names: rng.Intn(3), W: 4}}
		name := c.name(1)
		p, err := rig.persistent(name, []string{c.addr(5).String(), c.macString(1)}, v.Own, v.Bs, v.V, zzC04Svcs(v.Cs), v.Cp)
		if err != nil {
			t.Fatalf("SetIDs: %v", err)
		}
		if err = rig.st.Add(rig.ctx, p); err != nil {
			t.Fatalf("Add: %v", err)
		}
		for i, want := range []zzC04SetEff{v.Hit, v.Miss, v.Like} {
			addr := c.addr([]int{5, 12, 12}[i])
			reqCID := []string{"", "", c.reqCID(zzC04ID{K: "cidmac", X: 1})}[i]
			var e zzC04Eff
			what := zzC04Try(func() { e = rig.effective(reqCID, addr) })
			wantWho := ""
			if want.Who != "" {
				wantWho = name
			}
			if what == "" {
				switch {
				case e.Who != wantWho:
					what = fmt.Sprintf("attributed to %q, spec %q", e.Who, wantWho)
				case e.Vals != want.Vals:
					what = fmt.Sprintf("[filtering safesearch safebrowsing parental] = %v, spec %v", e.Vals, want.Vals)
				case !zzC04SameSet(e.Svcs, zzC04Svcs(want.Svcs)):
					what = fmt.Sprintf("blocked services %v, spec %v", e.Svcs, zzC04Svcs(want.Svcs))
				case e.HasSS && !(wantWho != "" && v.Own && e.SSName == name):
					// a per-client engine may only come from the client whose own settings apply
					what = fmt.Sprintf("safe-search engine of %q in settings attributed to %q (own=%v)", e.SSName, e.Who, v.Own)
				case want.Vals[1] && wantWho != "" && v.Own && !e.HasSS:
					what = "own safe search enabled but the client's engine is not in the settings"
				}
			}
			if what != "" {
				bad++
				w.put(map[string]any{"t": "bad", "vec": v, "req": []string{"hit", "miss", "like"}[i], "what": what, "got": e,
					"concrete": fmt.Sprintf("global %v %v schedule=%s; client %q %s own=%v bs=%v vals=%v svcs=%v schedule=%s; request from %s ClientID %q",
						v.G, zzC04Svcs(v.Gs), v.Gp, name, c.addr(5), v.Own, v.Bs, v.V, zzC04Svcs(v.Cs), v.Cp, addr, reqCID)})
			}
		}
	})
	w.put(map[string]any{"t": "summary", "n": n, "bad": bad})
}

// ------------------------------------------------------------- direction B

type zzC04TClient struct {
	Name string    `json:"name"`
	IDs  []zzC04ID `json:"ids"`
	Own  bool      `json:"own"`
	Bs   bool      `json:"bs"`
	Vals [4]bool   `json:"vals"`
	Svcs []string  `json:"svcs"`

	// Pause: requests arrive inside the pause window of this
	// blocked-services schedule.
	Pause bool `json:"pause"`

	sched string // how the harness builds the schedule: none | in | out
}

type zzC04TLookup struct {
	T    string    `json:"t"` // find | name | apply | range
	ID   *zzC04ID  `json:"id,omitempty"`
	N    string    `json:"n"`
	A    int       `json:"a"`
	R    string    `json:"r"`
	RIDs []zzC04ID `json:"rids"`
	Vals [4]bool   `json:"vals"`
	Svcs []string  `json:"svcs"`
	Rng  []string  `json:"rng"`
	Conc string    `json:"conc"`

	// Alt: the argument is given in an alternative spelling (see altLookups);
	// the spec's answer does not depend on it.
	Alt string `json:"alt"`
}

type zzC04TLine struct {
	Op    string          `json:"op"` // reset | add | upd | rem | lease
	Trace int             `json:"trace"`
	G     *zzC04TClient   `json:"g,omitempty"`
	C     *zzC04TClient   `json:"c,omitempty"`
	Cs    []*zzC04TClient `json:"cs"` // op load: the clients of the configuration file
	N     string          `json:"n"`
	A     int             `json:"a"`
	M     zzC04ID         `json:"m"`
	Out   string          `json:"out"`
	Q     []zzC04TLookup  `json:"q"`
	Conc  string          `json:"conc"`
	V     *zzC04Variant   `json:"variant,omitempty"`
}

func TestZZVerifC04Trace(t *testing.T) {
	w := zzNewWriter(t, "VERIF_OUT")
	defer w.close()

	nTraces, nOps := 12, 200
	if zzGetenv("VERIF_TIER") == "thorough" {
		nTraces = 60
	}
	if s := os.Getenv("VERIF_TRACES"); s != "" {
		fmt.Sscanf(s, "%d", &nTraces)
	}
	if s := os.Getenv("VERIF_TRACE_OPS"); s != "" {
		fmt.Sscanf(s, "%d", &nOps)
	}
	only := -1
	if s := os.Getenv("VERIF_TRACE_ONLY"); s != "" {
		fmt.Sscanf(s, "%d", &only)
	}

	dir := t.TempDir()
	for tr := 0; tr < nTraces; tr++ {
		if only >= 0 && tr != only {
			continue
		}
		zzC04OneTrace(t, w, tr, nOps, zzSeed()*1000003+int64(tr), dir)
	}
}

func zzC04OneTrace(tb testing.TB, w *zzWriter, tr, nOps int, seed int64, dir string) {
	rng := rand.New(rand.NewSource(seed))
	v := zzC04Variant{MacLen: []int{6, 8, 20}[rng.Intn(3)], V6: rng.Intn(3) == 0, Seed: seed, Names: rng.Intn(len(zzC04NamePools)), Global: rng.Intn(16), W: 8}
	// A third of the histories live on link-local IPv6 with zones: address
	// number = zone<<8 | byte.
	v.Zoned = rng.Intn(3) == 0
	// Spellings / lease macs that expose a finding join the histories once the
	// finding is fixed (checks/c04.py passes the list).
	flags := os.Getenv("VERIF_C04_FLAGS")
	v.MapStore = strings.Contains(flags, "mapstore")
	v.OddLease = strings.Contains(flags, "oddlease")
	v.MacIsh6 = strings.Contains(flags, "macish6") && v.V6 && rng.Intn(2) == 0
	v.MacColon8 = rng.Intn(2) == 0
	c := zzC04Conc{v: v}
	zoneOf := func() (z int) {
		if !v.Zoned || rng.Intn(3) == 0 {
			return 0
		}

		return (1 + rng.Intn(3)) << 8
	}

	// The identifier pool: nested prefix chains around a few anchor
	// addresses, addresses inside and outside them, macs, ClientIDs.
	var pool []zzC04ID
	seen := map[zzC04ID]bool{}
	push := func(id zzC04ID) {
		if !seen[id] {
			seen[id] = true
			pool = append(pool, id)
		}
	}
	var addrs []int
	for i := 0; i < 3; i++ {
		anchor := rng.Intn(256)
		addrs = append(addrs, anchor)
		for _, l := range rng.Perm(8)[:3] {
			l++
			push(zzC04ID{K: "net", X: anchor &^ ((1 << (8 - l)) - 1), Y: l})
		}
		push(zzC04ID{K: "ip", X: anchor})
		for j := 0; j < 2; j++ {
			a := anchor ^ (1 << rng.Intn(8)) | zoneOf()
			addrs = append(addrs, a)
			push(zzC04ID{K: "ip", X: a})
		}
		if v.Zoned {
			// the anchor itself in two zones: distinct exact addresses
			for _, z := range rng.Perm(3)[:2] {
				a := anchor | (z+1)<<8
				addrs = append(addrs, a)
				push(zzC04ID{K: "ip", X: a})
			}
		}
	}
	for i := 0; i < 3; i++ {
		a := rng.Intn(256)
		addrs = append(addrs, a)
		if i > 0 {
			push(zzC04ID{K: "ip", X: a})
		}
	}
	for i := 1; i <= 5; i++ {
		push(zzC04ID{K: "mac", X: i})
	}
	for i := 1; i <= 4; i++ {
		push(zzC04ID{K: "cid", X: i})
	}
	abs := zzC04NewAbs(c, pool)
	names := make([]string, 6)
	for i := range names {
		names[i] = c.name(i + 1)
	}

	gSvcs := []string{}
	for _, i := range rng.Perm(len(zzC04Services))[:rng.Intn(3)] {
		gSvcs = append(gSvcs, zzC04Services[i])
	}
	// Blocked-services schedules: none, pausing now (a quarter), or with a
	// window elsewhere in the week.
	randSched := func() (kind string) { return []string{"none", "in", "out", "none"}[rng.Intn(4)] }
	gSched := randSched()
	rig := zzC04NewRig(tb, dir, zzC04Bits(v.Global), gSvcs, gSched)
	defer rig.df.Close()

	w.put(&zzC04TLine{Op: "reset", Trace: tr, Cs: []*zzC04TClient{}, V: &v, G: &zzC04TClient{Vals: rig.gVals, Svcs: gSvcs, IDs: []zzC04ID{}, Pause: gSched == "in"}, Q: []zzC04TLookup{}})

	nameNo := map[string]int{}
	for i, n := range names {
		nameNo[n] = i + 1
	}
	// stored renders the identifiers as the client called name registers them.
	stored := func(name string, tids []zzC04ID) (ids []string) {
		for _, id := range tids {
			ids = append(ids, c.storedStrings(id, nameNo[name])...)
		}

		return ids
	}

	randClient := func() (tc *zzC04TClient, p *Persistent) {
		tc = &zzC04TClient{Name: names[rng.Intn(len(names))], Own: rng.Intn(2) == 0, Bs: rng.Intn(2) == 0, Vals: zzC04Bits(rng.Intn(16)), Svcs: []string{}}
		for _, i := range rng.Perm(len(pool))[:1+rng.Intn(4)] {
			tc.IDs = append(tc.IDs, pool[i])
		}
		for _, i := range rng.Perm(len(zzC04Services))[:rng.Intn(3)] {
			tc.Svcs = append(tc.Svcs, zzC04Services[i])
		}
		tc.sched = randSched()
		tc.Pause = tc.sched == "in"
		ids := stored(tc.Name, tc.IDs)
		p, err := rig.persistent(tc.Name, ids, tc.Own, tc.Bs, tc.Vals, tc.Svcs, tc.sched)
		if err != nil {
			tb.Fatalf("SetIDs(%v): %v", ids, err)
		}

		return tc, p
	}

	absClient := func(p *Persistent, ok bool) (name string, ids []zzC04ID) {
		ids = []zzC04ID{}
		if !ok || p == nil {
			if ok != (p != nil) {
				return "?nil", ids
			}

			return "", ids
		}
		got, known := abs.idsOf(p)
		if !known {
			got = append(got, zzC04ID{K: "foreign"})
		}

		return p.Name, append(ids, got...)
	}

	lookups := func() (qs []zzC04TLookup) {
		qs = []zzC04TLookup{}
		for i := 0; i < 8; i++ {
			q := zzC04TLookup{RIDs: []zzC04ID{}, Svcs: []string{}, Rng: []string{}}
			k := rng.Intn(10)
			pm := zzC04Try(func() {
				switch {
				case k < 3:
					id := pool[rng.Intn(len(pool))]
					q.T, q.ID, q.Conc = "find", &id, c.idString(id)
					switch {
					case id.K == "net" && !c.v6() && rng.Intn(3) == 0:
						p := c.prefix(id.X, id.Y)
						q.Alt, q.Conc = "mappednet", netip.PrefixFrom(zzC04Mapped(p.Addr()), p.Bits()+96).String()
					case id.K == "net":
						q.Alt = "nettext"
					case id.K == "cid" && rng.Intn(2) == 0:
						q.Alt, q.Conc = "cidcase", strings.ToUpper(q.Conc)
					case id.K == "mac" && v.MacLen == 8 && rng.Intn(2) == 0:
						q.Alt, q.Conc = "mac8colon", c.mac(id.X).String()
					case id.K == "ip" && id.X > 255:
						q.Alt = "zonefall"
					case id.K == "ip" && !c.v6() && rng.Intn(2) == 0:
						q.Alt, q.Conc = "mapped", zzC04Mapped(c.addr(id.X)).String()
					}
					q.R, q.RIDs = absClient(rig.st.Find(q.Conc))
				case k < 5:
					a := addrs[rng.Intn(len(addrs))]
					if rng.Intn(4) == 0 {
						a = rng.Intn(256) | zoneOf()
					}
					id := zzC04ID{K: "ip", X: a}
					q.T, q.ID, q.Conc = "find", &id, c.idString(id)
					if !c.v6() && rng.Intn(3) == 0 {
						q.Alt, q.Conc = "mapped", zzC04Mapped(c.addr(a)).String()
					}
					if a > 255 {
						q.Alt = "zonefall" // a zoned address: the zone-less identifier may decide
					}
					q.R, q.RIDs = absClient(rig.st.Find(q.Conc))
				case k < 6 && rng.Intn(2) == 0:
					// the attribution of the query log / statistics, called as
					// home.findMultiple calls it; the address has lost its zone
					cid := zzC04NoID
					switch rng.Intn(6) {
					case 0, 1:
						cid = zzC04ID{K: "cid", X: 1 + rng.Intn(5)}
					case 2:
						cid = zzC04ID{K: []string{"cidmac", "cidmacu"}[rng.Intn(2)], X: 1 + rng.Intn(5)}
					}
					a := addrs[rng.Intn(len(addrs))] & 255
					addr := c.addr(a)
					cs := c.reqCID(cid)
					q.T, q.ID, q.A, q.Alt = "loose", &cid, a, "loose"
					q.Conc = fmt.Sprintf("FindLoose cid=%q addr=%s", cs, addr)
					found := false
					if cs != "" {
						if p, ok := rig.st.FindLoose(netip.Addr{}, cs); ok {
							q.R, q.RIDs = absClient(p, ok)
							found = true
						}
					}
					if !found {
						q.R, q.RIDs = absClient(rig.st.FindLoose(addr, addr.String()))
					}
				case k < 6:
					q.T, q.N = "name", names[rng.Intn(len(names))]
					q.R, q.RIDs = absClient(rig.st.FindByName(q.N))
				case k < 9:
					cid := zzC04NoID
					switch rng.Intn(8) {
					case 0, 1, 2:
						cid = zzC04ID{K: "cid", X: 1 + rng.Intn(5)}
					case 3:
						// a ClientID that only looks like a mac / an address of the pool
						cid = zzC04ID{K: []string{"cidmac", "cidmacu"}[rng.Intn(2)], X: 1 + rng.Intn(5)}
					case 4:
						cid = zzC04ID{K: "cidip", X: addrs[rng.Intn(len(addrs))]}
					}
					cs := c.reqCID(cid)
					a := addrs[rng.Intn(len(addrs))]
					if rng.Intn(4) == 0 {
						a = rng.Intn(256) | zoneOf()
					}
					q.T, q.ID, q.A = "apply", &cid, a
					reqAddr := c.addr(a)
					switch {
					case a > 255:
						q.Alt = "zonefall" // one alternative at a time
					case cid.K == "cid" && rng.Intn(3) == 0:
						q.Alt, cs = "cidcase", strings.ToUpper(cs)
					case !c.v6() && rng.Intn(3) == 0:
						q.Alt, reqAddr = "mapped", zzC04Mapped(reqAddr)
					}
					e := rig.effective(cs, reqAddr)
					q.R, q.Vals, q.Svcs = e.Who, e.Vals, e.Svcs
					q.Conc = fmt.Sprintf("cid=%q addr=%s ss=%v/%s", cs, reqAddr, e.HasSS, e.SSName)
					// The per-client safe-search object goes with the own values.
					if e.HasSS && e.SSName != e.Who {
						q.R = "?safesearch of " + e.SSName
					}
					q.N = ""
					if e.HasSS {
						q.N = "ss"
					}
				default:
					q.T = "range"
					rig.st.RangeByName(func(p *Persistent) (cont bool) {
						q.Rng = append(q.Rng, p.Name)

						return true
					})
				}
			})
			if pm != "" {
				q.R, q.Conc = "?"+pm, q.Conc+" "+pm
			}
			qs = append(qs, q)
		}

		return qs
	}

	present := func() (n string) {
		var have []string
		rig.st.RangeByName(func(p *Persistent) (cont bool) {
			have = append(have, p.Name)

			return true
		})
		if len(have) == 0 || rng.Intn(8) == 0 {
			return names[rng.Intn(len(names))]
		}

		return have[rng.Intn(len(have))]
	}

	outOf := func(refused bool) (s string) {
		if refused {
			return "err"
		}

		return "ok"
	}

	// The history starts like the process does: from the clients of a
	// configuration file (0-3 of them, clashes included).
	{
		ln := &zzC04TLine{Op: "load", Trace: tr, M: zzC04NoID, Cs: []*zzC04TClient{}}
		var ps []*Persistent
		for i := rng.Intn(4); i > 0; i-- {
			tc, p := randClient()
			ln.Cs = append(ln.Cs, tc)
			ps = append(ps, p)
		}
		var err error
		pm := zzC04Try(func() { err = rig.load(ps) })
		ln.Out, ln.Conc = outOf(err != nil)+pm, fmt.Sprintf("NewStorage(InitialClients: %d clients) -> %v %s", len(ps), err, pm)
		for _, p := range ps {
			ln.Conc += fmt.Sprintf(" [%q %v]", p.Name, p.IDs())
		}
		ln.Q = lookups()
		w.put(ln)
	}

	for i := 0; i < nOps; i++ {
		ln := &zzC04TLine{Trace: tr, M: zzC04NoID, Cs: []*zzC04TClient{}}
		switch k := rng.Intn(100); {
		case k < 35:
			tc, p := randClient()
			var err error
			pm := zzC04Try(func() { err = rig.st.Add(rig.ctx, p) })
			ln.Op, ln.C, ln.Out, ln.Conc = "add", tc, outOf(err != nil)+pm, fmt.Sprintf("Add(%q %v) -> %v %s", p.Name, p.IDs(), err, pm)
		case k < 70:
			tc, p := randClient()
			old := present()
			if rng.Intn(2) == 0 {
				// Keep the name and part of the identifiers: the common edit.
				if cur, ok := rig.st.FindByName(old); ok {
					tc.Name = old
					keep, _ := abs.idsOf(cur)
					tc.IDs = nil
					for _, id := range keep {
						if rng.Intn(3) > 0 {
							tc.IDs = append(tc.IDs, id)
						}
					}
					if len(tc.IDs) == 0 || rng.Intn(2) == 0 {
						tc.IDs = append(tc.IDs, pool[rng.Intn(len(pool))])
					}
					uniq := map[zzC04ID]bool{}
					var ids []string
					var dedup []zzC04ID
					for _, id := range tc.IDs {
						if !uniq[id] {
							uniq[id] = true
							dedup = append(dedup, id)
							ids = append(ids, c.storedStrings(id, nameNo[tc.Name])...)
						}
					}
					tc.IDs = dedup
					var err error
					if p, err = rig.persistent(tc.Name, ids, tc.Own, tc.Bs, tc.Vals, tc.Svcs, tc.sched); err != nil {
						tb.Fatalf("SetIDs(%v): %v", ids, err)
					}
				}
			}
			var err error
			pm := zzC04Try(func() { err = rig.st.Update(rig.ctx, old, p) })
			ln.Op, ln.N, ln.C, ln.Out, ln.Conc = "upd", old, tc, outOf(err != nil)+pm, fmt.Sprintf("Update(%q, %q %v) -> %v %s", old, p.Name, p.IDs(), err, pm)
		case k < 80:
			n := present()
			var ok bool
			pm := zzC04Try(func() { ok = rig.st.RemoveByName(rig.ctx, n) })
			ln.Op, ln.N, ln.Out, ln.Conc = "rem", n, outOf(!ok)+pm, fmt.Sprintf("RemoveByName(%q) -> %v %s", n, ok, pm)
		default:
			a := addrs[rng.Intn(len(addrs))]
			ln.Op, ln.A = "lease", a
			if rng.Intn(4) == 0 {
				rig.dhcp.set(c.addr(a), nil)
			} else {
				ln.M = zzC04ID{K: "mac", X: 1 + rng.Intn(6)}
				if v.OddLease && rng.Intn(4) == 0 {
					ln.M = zzC04ID{K: "macx", X: 7 + rng.Intn(3)}
				}
				rig.dhcp.set(c.addr(a), c.leaseMAC(ln.M))
			}
			ln.Out, ln.Conc = "ok", fmt.Sprintf("lease %s -> %v", c.addr(a), ln.M)
		}
		ln.Q = lookups()
		w.put(ln)
	}
}
