\* Negative configuration: the "worker" behaviour of the code as built (see
\* AsBuilt in Protection.tla).  TLC must find EffectFollowsCalls violated.
CONSTANTS
    MaxD = 2
    MaxTick = 3
    Kinds = {"rule", "rw"}
    AsBuilt = {"worker"}
SPECIFICATION Spec
VIEW View
INVARIANTS TypeOK EffectFollowsCalls
