\* Negative configuration: the seeded fault "storefirst" of Persist.tla must violate RefusedChangesNothing.
SPECIFICATION Spec
CONSTANTS
    Deep = FALSE
    Bug = "storefirst"
    DoEmit = FALSE
PROPERTIES RefusedChangesNothing
VIEW View
