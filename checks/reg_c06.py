PROPERTY = "C06"
ENTRY = {
        "text": "RewritesCore.tla states the documented rewrite precedence as a decision procedure Outcomes(table, name, qtype) (set of admissible outcomes; "
                "nondeterministic only where the statement is silent: ties, meaning of 'kind', cycles, exception reached through a CNAME) and the client/upstream view Serve. "
                "Rewrites.tla enumerates every table of <= 2 entries over 10 patterns x 12 answers, every table of 3 entries over 7 patterns x 10 answers (thorough), "
                "CNAME-cycle families of length 1..4 and the 4-rung precedence ladder; TLC checks the clauses of the statement as invariants of every table x query "
                "(CnameBeatsAddress, ExactShadowsWildcard, MostSpecificWildcard, SelfAndTypeExceptionsPassThrough, AddressesComeFromTableForFinalName, MatchedButNoValue) "
                "and termination as a liveness property under weak fairness plus the variant |visited| on the step machine. "
                "Every table is replayed in every ordering into the real filtering.New/CheckHost (membership), a stratified sample through a real dnsforward.Server over UDP "
                "with a recording mock upstream (upstream questions, restored question, leading CNAME, addresses); random 10-20 entry tables at both levels are validated by TraceRewrites.tla. "
                "Histories: the table is edited through TabAdd/TabDelete/TabUpdate (the three API calls); the edit machine (820 tables, 25 724 edges) is walked on ONE live filter through the real HTTP handlers "
                "with every query re-asked after every edit, random edit sequences on larger tables are validated by TraceRewrites.tla, and the live DNS server reaches same-length tables by updates in place. "
                "Every table with a CNAME entry is also replayed with patterns in mixed case and canonical names in another letter case (termination under the watchdog; folded and verbatim reading admitted).",
        "design_ref": "DESIGN.md section 4 C06",
        "note": "Trusted: TLC, conc()/abs() of the harness (label dictionary, request-side case), order-independence of the spec (checked by TLC). A disagreement on a live filter is reproduced by rehearsing its history on a fresh one. "
                "Each call runs under a watchdog and is re-run alone before being reported as non-termination. "
                "Six open findings (known_findings/C06.jsonl), each with a proposed fix; a disagreement is attributed to a finding by the spec's own admitted-deviation sets.",
        "technique": "TLA+ spec enumerated and model-checked by TLC (invariants + liveness); exhaustive vector replay into real code + TLC trace validation",
    }
