------------------------- MODULE TraceFilterLists -------------------------
(***************************************************************************)
(* G07, direction B.  trace.ndjson holds recorded histories of real        *)
(* DNSFilters driven through their registered admin handlers by a seeded   *)
(* random sequence of requests over three sources, two names, both sides,  *)
(* any set of custom rules, restarts that come within the second or later: *)
(*   {ev: "boot", blank}           a fresh installation; blank = what the  *)
(*                                 orchestrator measured about list bodies *)
(*                                 without rules                           *)
(*   {ev: "step", act, ok, dl,     one request, the class of its reply,    *)
(*    obs}                         the source that was contacted, and the  *)
(*                                 state observed at rest after it: the    *)
(*                                 table of GET /control/filtering/status, *)
(*                                 the files in data/filters, the verdicts *)
(*                                 of check_host and of CheckHost.  Ids    *)
(*                                 are numbered in the order of their      *)
(*                                 first appearance (reserved ids as is).  *)
(*   {ev: "end"}                   the driver gave up a history in which   *)
(*                                 two lists share an id                   *)
(* Every step must be a step of FilterListsCore: the observation must be   *)
(* the projection of Apply(S, act, id of the new list), and a new list's   *)
(* id must be outside of `used`.  Anything else is `bad`; after a bad line *)
(* the specification state is re-synchronised with the observation.        *)
(***************************************************************************)
EXTENDS Naturals, Integers, FiniteSets, Sequences, TLC, Json

Trace == ndJsonDeserialize("trace.ndjson")

TUrls  == {"u1", "u2", "u3"}
TNames == {"n1", "n2"}

INSTANCE FilterListsCore WITH Urls <- TUrls, Names <- TNames

VARIABLES l, S, bad, odd
vars == <<l, S, bad, odd>>

SetOf(s) == {s[i] : i \in DOMAIN s}

\* The id the observation shows for the list that the request adds (0 when
\* it shows none).
NewId(T, act, obs) ==
    IF act.a = "add" /\ act.url \in TUrls /\ ~T.tab[act.url].p /\ obs.lists[act.url].p
    THEN obs.lists[act.url].id ELSE 0

VerdictEq(v, o) ==
    /\ v.v = o.v
    /\ v.v # "none" => (o.ids # <<>> /\ SetOf(o.ids) \subseteq v.ids)

ProjEq(T, obs) ==
    /\ \A u \in TUrls :
          LET e == T.tab[u]  o == obs.lists[u] IN
          /\ e.p = o.p
          /\ e.p => /\ o.dup = 1
                    /\ e.side = o.side /\ e.name = o.name /\ e.en = o.en /\ e.id = o.id
                    /\ e.en => /\ o.cnt = Cardinality(Rules(e.cont))
                               /\ o.file
                               /\ SetOf(o.file_rules) = Rules(e.cont)
    /\ obs.extra = 0
    /\ obs.stray = <<>>                 \* no file that belongs to no list
    /\ SetOf(obs.user) = T.user
    /\ obs.fen = T.fen
    /\ \A r \in Probes : /\ VerdictEq(Verdict(T, r, TRUE), obs.check[r])
                         /\ VerdictEq(Verdict(T, r, FALSE), obs.dns[r])

\* The content whose rules are rs (a blank list when there is none).
ContOf(rs) == IF \E c \in Contents : Rules(c) = rs THEN CHOOSE c \in Contents : Rules(c) = rs ELSE "cE"

Resync(T, obs) ==
    LET tab == [u \in TUrls |->
                  LET o == obs.lists[u] IN
                  IF o.p THEN Entry(o.side, o.name, o.en,
                                    IF o.en THEN ContOf(SetOf(o.file_rules)) ELSE "-", o.id)
                         ELSE None]
    IN [tab |-> tab, user |-> SetOf(obs.user), fen |-> obs.fen,
        used |-> T.used \cup {tab[u].id : u \in {v \in TUrls : tab[v].p}}, blank |-> T.blank]

Init == l = 1 /\ S = S0(FALSE) /\ bad = {} /\ odd = {}

Boot == /\ Trace[l].ev = "boot"
        /\ S' = S0(Trace[l].blank)
        /\ UNCHANGED <<bad, odd>>

End  == /\ Trace[l].ev = "end"
        /\ UNCHANGED <<S, bad, odd>>

Step ==
    /\ Trace[l].ev = "step"
    /\ LET t   == Trace[l]
           act == [a |-> t.act.a, url |-> t.act.url, side |-> t.act.side, name |-> t.act.name,
                   nurl |-> t.act.nurl, en |-> t.act.en, beh |-> t.act.beh,
                   rules |-> SetOf(t.act.rules), late |-> t.act.late]
           nid == NewId(S, act, t.obs)
           r   == Apply(S, act, nid)
           \* a new list's id: not reserved, not one this process or the table knows
           fresh == nid = 0 \/ (nid > CustomId /\ nid \notin S.used)
           good  == /\ fresh
                    /\ r.ok \in {"any", t.ok}
                    /\ ProjEq(r.st, t.obs)
       IN /\ odd' = IF r.dl # t.dl THEN odd \cup {l} ELSE odd
          /\ IF good THEN S' = r.st /\ UNCHANGED bad
                     ELSE S' = Resync(S, t.obs) /\ bad' = bad \cup {l}

Next == /\ l <= Len(Trace)
        /\ (Boot \/ Step \/ End)
        /\ l' = l + 1
        /\ (l' = Len(Trace) + 1 =>
              PrintT(<<"@@V", ToJson([n |-> Len(Trace), bad |-> bad', odd |-> odd'])>>))
Spec == Init /\ [][Next]_vars
=============================================================================
