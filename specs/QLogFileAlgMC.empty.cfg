SPECIFICATION Spec
CONSTANTS
  MaxEntry = 4
  BufSize = 12
  DepthLimit = 100
  EmptyFileSeek = {"ioerr", "tooEarly"}
  MaxLines = 0
  MinLen = 1
  MaxLen = 3
  SkipEmpty = FALSE
VIEW View
PROPERTY Refines
