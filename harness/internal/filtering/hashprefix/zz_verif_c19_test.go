//go:build goexperiment.synctest

package hashprefix

// C19 conformance harness (package level: the real Checker from New, a
// recording mock lookup service, virtual time from testing/synctest).
//
// Direction A (TestZZVerifC19Walk): performs walks planned from the graph of
// specs/HashPrefix.tla on the real Checker and records, per step, what the
// lookup service saw (abstracted to prefix classes) and the verdict.
// Direction B (TestZZVerifC19Trace): a seeded random driver over a much larger
// universe of real names records complete trace lines.  In both cases the
// judge is TLC (specs/TraceHashPrefix.tla); nothing is decided here except the
// form check of the outgoing question ("ok").
//
// Names are handed to Check in the normal form its callers establish (lower
// case, no trailing dot: dnsforward trims the dot, DNSFilter.CheckHost folds
// the case); the mixed-case variants are driven through CheckHost by
// harness/internal/filtering/zz_verif_c19_test.go.

import (
	"crypto/sha256"
	"encoding/hex"
	"encoding/json"
	"fmt"
	"math/rand"
	"net"
	"os"
	"sort"
	"strconv"
	"strings"
	"testing"
	"testing/synctest"
	"time"

	"github.com/miekg/dns"
	"golang.org/x/net/publicsuffix"
)

const zzC19Suffix = "sb.dns.adguard.com."

type zzC19Hash = [sha256.Size]byte

// --------------------------------------------------------------- the service

// zzC19Svc is the mock lookup service: honest (returns every hash of its
// database under the requested prefixes, and nothing else that is a
// well-formed hash) but awkward (malformed strings, odd record layout).
type zzC19Svc struct {
	rng *rand.Rand
	db  map[zzC19Hash]bool
	// tempt are hashes the service does NOT list unless they are in db; the
	// malformed strings are derived from them so that a parser accepting a
	// malformed string would produce a wrong "blocked".
	tempt []zzC19Hash
	reqs  []*dns.Msg
	junk  bool
	nJunk int
	// fail makes every Exchange return an error (the fault of the spec's
	// LookupFails); nFail counts the failures that really showed.
	fail  bool
	nFail int
	// errReply makes every Exchange answer with an error reply: a well-formed
	// message with response code SERVFAIL, REFUSED or NOTIMP and no records
	// (the spec's ErrorReply); nErr counts them.
	errReply bool
	nErr     int
}

// zzC19ErrSvc is the error of a failing lookup service.
type zzC19ErrSvc struct{}

func (zzC19ErrSvc) Error() (msg string) { return "zzc19: lookup service: i/o timeout" }

func (s *zzC19Svc) Address() (addr string) { return "zzc19.mock" }
func (s *zzC19Svc) Close() (err error)     { return nil }

// zzC19ParseQuestion splits a question name into its prefix labels.  ok is
// false when the name is not <4 hex digits>. ... <suffix>.
func zzC19ParseQuestion(name string) (prefs []string, ok bool) {
	name = strings.ToLower(name)
	if !strings.HasSuffix(name, zzC19Suffix) {
		return nil, false
	}

	head := strings.TrimSuffix(name, zzC19Suffix)
	if head == "" {
		return nil, true
	}

	if !strings.HasSuffix(head, ".") {
		return nil, false
	}

	for _, l := range strings.Split(strings.TrimSuffix(head, "."), ".") {
		if len(l) != 2*prefixLen {
			return nil, false
		}

		if _, err := hex.DecodeString(l); err != nil {
			return nil, false
		}

		prefs = append(prefs, l)
	}

	return prefs, true
}

func (s *zzC19Svc) Exchange(req *dns.Msg) (resp *dns.Msg, err error) {
	s.reqs = append(s.reqs, req.Copy())
	if s.fail && s.rng.Intn(2) == 0 {
		s.nFail++

		return nil, zzC19ErrSvc{}
	}

	if s.errReply {
		s.nErr++
		rcodes := []int{dns.RcodeServerFailure, dns.RcodeRefused, dns.RcodeNotImplemented}
		resp = (&dns.Msg{}).SetRcode(req, rcodes[s.rng.Intn(len(rcodes))])
		// Sometimes flagged as truncated as well; never any record.
		resp.Truncated = s.rng.Intn(4) == 0

		return resp, nil
	}

	resp = (&dns.Msg{}).SetReply(req)
	if len(req.Question) != 1 {
		return resp, nil
	}

	if s.fail {
		// The other kind of failure: the error comes with a garbled,
		// truncated message (built below as usual, cut short at the end).
		defer func() {
			s.nFail++
			resp.Truncated = true
			if n := len(resp.Answer); n > 0 {
				resp.Answer = resp.Answer[:s.rng.Intn(n)+1]
			}
			err = zzC19ErrSvc{}
		}()
	}

	prefs, _ := zzC19ParseQuestion(req.Question[0].Name)
	want := map[string]bool{}
	for _, p := range prefs {
		want[p] = true
	}

	var strs []string
	for h := range s.db {
		if want[hex.EncodeToString(h[:prefixLen])] {
			strs = append(strs, hex.EncodeToString(h[:]))
		}
	}
	sort.Strings(strs)

	if s.junk {
		for _, h := range s.tempt {
			if s.db[h] || !want[hex.EncodeToString(h[:prefixLen])] {
				continue
			}

			x := hex.EncodeToString(h[:])
			// Two kinds per unlisted hash.  Several of them START with the
			// complete hash: only a string EQUAL to a full hash is one.
			for n := 0; n < 2; n++ {
				switch s.rng.Intn(11) {
				case 0: // a hash cut in two strings
					strs = append(strs, x[:32], x[32:])
				case 1: // one digit short
					strs = append(strs, x[:63])
				case 2: // leading space
					strs = append(strs, " "+x)
				case 3: // right length, not hexadecimal
					i := s.rng.Intn(64)
					strs = append(strs, x[:i]+"g"+x[i+1:])
				case 4: // two glued together
					strs = append(strs, x+x)
				case 5: // only the prefix
					strs = append(strs, x[:4])
				case 6: // one more byte
					strs = append(strs, x+"00")
				case 7: // trailing space
					strs = append(strs, x+" ")
				case 8: // trailing text
					strs = append(strs, x+" malware")
				case 9: // glued to a listed-looking other value
					strs = append(strs, x+strings.Repeat("0", 64))
				default:
				}
			}
			s.nJunk++
		}
		strs = append(strs, "", "not a hash", strings.Repeat("z", 64))
	}

	s.rng.Shuffle(len(strs), func(i, j int) { strs[i], strs[j] = strs[j], strs[i] })

	name := req.Question[0].Name
	hdr := func(t uint16) dns.RR_Header {
		return dns.RR_Header{Name: name, Rrtype: t, Class: dns.ClassINET, Ttl: 60}
	}
	if s.junk {
		resp.Answer = append(resp.Answer, &dns.A{Hdr: hdr(dns.TypeA), A: net.IP{192, 0, 2, 1}})
	}
	// Seeded layout: several TXT records of several strings each.
	for len(strs) > 0 {
		n := 1 + s.rng.Intn(3)
		if n > len(strs) {
			n = len(strs)
		}
		resp.Answer = append(resp.Answer, &dns.TXT{Hdr: hdr(dns.TypeTXT), Txt: strs[:n:n]})
		strs = strs[n:]
	}
	if s.junk {
		resp.Answer = append(resp.Answer, &dns.TXT{Hdr: hdr(dns.TypeTXT), Txt: nil})
	}

	return resp, nil
}

// zzC19Observe abstracts the requests made since the last call: the prefix
// labels seen (hex), and whether everything sent had the admissible form.
func (s *zzC19Svc) zzC19Observe(host string, chain []zzC19Hash) (prefs []string, qnames []string, ok bool, why string) {
	ok = true
	seen := map[string]bool{}
	for _, req := range s.reqs {
		var parts []string
		for _, q := range req.Question {
			parts = append(parts, q.Name)
			qnames = append(qnames, q.Name)
		}
		for _, sec := range [][]dns.RR{req.Answer, req.Ns, req.Extra} {
			for _, rr := range sec {
				parts = append(parts, rr.String())
			}
		}
		all := strings.ToLower(strings.Join(parts, "\n"))

		if len(req.Question) != 1 {
			ok, why = false, fmt.Sprintf("%d questions in one request", len(req.Question))

			continue
		}

		ps, good := zzC19ParseQuestion(req.Question[0].Name)
		if !good {
			ok, why = false, "question is not <hex4>. ... <suffix>: "+req.Question[0].Name
		}
		for _, p := range ps {
			if !seen[p] {
				seen[p] = true
				prefs = append(prefs, p)
			}
		}

		// Nothing of the name itself, and no more than two bytes of any of
		// its hashes, anywhere in the request.
		for _, l := range strings.Split(strings.ToLower(strings.TrimSuffix(host, ".")), ".") {
			if len(l) >= 6 && !strings.Contains(zzC19Suffix, l) && strings.Contains(all, l) {
				ok, why = false, "label "+l+" of the name found in the request"
			}
		}
		for _, h := range chain {
			if strings.Contains(all, hex.EncodeToString(h[:prefixLen+1])) {
				ok, why = false, "more than two bytes of a hash found in the request"
			}
		}
	}
	s.reqs = s.reqs[:0]
	sort.Strings(prefs)

	return prefs, qnames, ok, why
}

// --------------------------------------------------------- names and hashes

// zzC19Chain returns the hashes of the domains made of the last 1, 2, ...
// min(4, n) labels of host (index k-1 = last k labels), computed here, not
// with the code under test.
func zzC19Chain(labels []string) (chain []zzC19Hash) {
	for k := 1; k <= len(labels) && k <= 4; k++ {
		chain = append(chain, sha256.Sum256([]byte(strings.Join(labels[len(labels)-k:], "."))))
	}

	return chain
}

// zzC19PSL classifies a lower-case name with the public suffix list: cut =
// number of labels of the governing ICANN suffix; opt = number of trailing
// labels that form an ICANN suffix underneath a private rule, or 1 for a
// top-level label the list does not know.
func zzC19PSL(labels []string) (cut, opt int) {
	name := strings.Join(labels, ".")
	ps, icann := publicsuffix.PublicSuffix(name)
	n := strings.Count(ps, ".") + 1
	if icann {
		return n, 0
	}

	if n == 1 {
		return 0, 1
	}

	pl := strings.Split(ps, ".")
	for k := len(pl) - 1; k >= 1; k-- {
		s := strings.Join(pl[len(pl)-k:], ".")
		if ps2, ic2 := publicsuffix.PublicSuffix(s); ic2 && ps2 == s {
			return 0, k
		}
	}

	return 0, 1
}

func zzC19RandLabel(rng *rand.Rand) (l string) {
	const first = "abcdefghijklmnopqrstuvwxyz"
	const rest = "abcdefghijklmnopqrstuvwxyz0123456789"
	n := 7 + rng.Intn(6)
	b := make([]byte, n)
	b[0] = first[rng.Intn(len(first))]
	for i := 1; i < n; i++ {
		b[i] = rest[rng.Intn(len(rest))]
	}

	return string(b)
}

// zzC19FindLabel searches a label l such that SHA-256(l + "." + parent) starts
// with pref.  Returns the number of hashes tried.
func zzC19FindLabel(rng *rand.Rand, parent string, pref [prefixLen]byte) (l string, tried int) {
	for {
		l = zzC19RandLabel(rng)
		tried++
		h := sha256.Sum256([]byte(l + "." + parent))
		if h[0] == pref[0] && h[1] == pref[1] {
			return l, tried
		}
	}
}

// ------------------------------------------------------ direction A: walks

type zzC19AbsHash struct {
	P string `json:"p"`
	R string `json:"r"`
}

type zzC19AbsName struct {
	L   []string       `json:"l"`
	Cut int            `json:"cut"`
	Opt int            `json:"opt"`
	H   []zzC19AbsHash `json:"h"`
}

type zzC19Dom struct {
	ID string   `json:"id"`
	L  []string `json:"l"`
	P  string   `json:"p"`
}

type zzC19Universe struct {
	Names    []zzC19AbsName `json:"names"`
	Doms     []zzC19Dom     `json:"doms"`
	Prefixes []string       `json:"prefixes"`
	T        int            `json:"t"`
}

type zzC19WalkIn struct {
	Universe *zzC19Universe    `json:"universe"`
	W        int               `json:"w"`
	DB       []string          `json:"db"`
	Steps    []json.RawMessage `json:"steps"`
}

type zzC19StepOut struct {
	W    int                 `json:"w"`
	I    int                 `json:"i"`
	A    string              `json:"a"`
	Q    []string            `json:"q"`
	V    bool                `json:"v"`
	OK   bool                `json:"ok"`
	F    bool                `json:"f"`
	X    bool                `json:"x"`
	E    bool                `json:"e"`
	Why  string              `json:"why,omitempty"`
	Host string              `json:"host,omitempty"`
	QN   []string            `json:"qn,omitempty"`
	Proj map[string][]string `json:"proj,omitempty"`
}

// zzC19Conc is the concretisation of the abstract universe of HashPrefix.tla.
type zzC19Conc struct {
	label map[string]string          // abstract label -> real label
	class map[string][prefixLen]byte // prefix class -> real two bytes
	hash  map[string]zzC19Hash       // domain id -> real hash
	id    map[zzC19Hash]string
	tried int
}

func zzC19IsVar(l string) (ok bool) { return len(l) == 1 }

func zzC19Solve(t testing.TB, u *zzC19Universe, rng *rand.Rand) (c *zzC19Conc) {
	c = &zzC19Conc{
		label: map[string]string{},
		class: map[string][prefixLen]byte{},
		hash:  map[string]zzC19Hash{},
		id:    map[zzC19Hash]string{},
	}
	doms := append([]zzC19Dom{}, u.Doms...)
	sort.Slice(doms, func(i, j int) bool {
		fi, fj := !zzC19IsVar(doms[i].L[0]), !zzC19IsVar(doms[j].L[0])
		if fi != fj {
			return fi
		}
		if len(doms[i].L) != len(doms[j].L) {
			return len(doms[i].L) < len(doms[j].L)
		}

		return doms[i].ID < doms[j].ID
	})

	bind := func(d zzC19Dom, h zzC19Hash) {
		c.hash[d.ID] = h
		if other, dup := c.id[h]; dup {
			t.Fatalf("c19: domains %s and %s have the same hash", other, d.ID)
		}
		c.id[h] = d.ID
	}

	// Literal domains fix the real value of their class; synthetic ids
	// (upper-case first letter) are handled last.
	var syn []zzC19Dom
	for _, d := range doms {
		if d.L[0][0] >= 'A' && d.L[0][0] <= 'Z' {
			syn = append(syn, d)

			continue
		}

		parent := ""
		for i, l := range d.L[1:] {
			r := l
			if zzC19IsVar(l) {
				var ok bool
				if r, ok = c.label[l]; !ok {
					t.Fatalf("c19: label %q of %s used before it is defined", l, d.ID)
				}
			}
			if i > 0 {
				parent += "."
			}
			parent += r
		}

		if !zzC19IsVar(d.L[0]) {
			name := d.L[0]
			if parent != "" {
				name += "." + parent
			}
			h := sha256.Sum256([]byte(name))
			p := [prefixLen]byte{h[0], h[1]}
			if old, ok := c.class[d.P]; ok && old != p {
				t.Fatalf("c19: literal domains disagree on class %s", d.P)
			}
			c.class[d.P] = p
			bind(d, h)

			continue
		}

		if _, dup := c.label[d.L[0]]; dup {
			t.Fatalf("c19: label %q defined twice (%s)", d.L[0], d.ID)
		}

		p, bound := c.class[d.P]
		var l string
		if bound {
			var n int
			l, n = zzC19FindLabel(rng, parent, p)
			c.tried += n
		} else {
			for {
				l = zzC19RandLabel(rng)
				h := sha256.Sum256([]byte(l + "." + parent))
				p = [prefixLen]byte{h[0], h[1]}
				clash := false
				for _, q := range c.class {
					clash = clash || q == p
				}
				if !clash {
					break
				}
			}
			c.class[d.P] = p
		}
		c.label[d.L[0]] = l
		bind(d, sha256.Sum256([]byte(l+"."+parent)))
	}

	for _, d := range syn {
		p, ok := c.class[d.P]
		if !ok {
			t.Fatalf("c19: class %s of %s unbound", d.P, d.ID)
		}
		var h zzC19Hash
		_, _ = rng.Read(h[:])
		h[0], h[1] = p[0], p[1]
		bind(d, h)
	}

	seen := map[[prefixLen]byte]string{}
	for k, p := range c.class {
		if o, dup := seen[p]; dup {
			t.Fatalf("c19: classes %s and %s have the same real prefix", o, k)
		}
		seen[p] = k
	}

	return c
}

// zzC19Name renders an abstract name; labels that occur in no domain of the
// table (beyond the fourth from the right) are free.
func (c *zzC19Conc) zzC19Name(rng *rand.Rand, ls []string) (labels []string) {
	for _, l := range ls {
		if !zzC19IsVar(l) {
			labels = append(labels, l)

			continue
		}

		r, ok := c.label[l]
		if !ok {
			r = zzC19RandLabel(rng)
			c.label[l] = r
		}
		labels = append(labels, r)
	}

	return labels
}

func zzC19NewChecker(svc *zzC19Svc, cacheTime time.Duration, size uint) (c *Checker) {
	return New(&Config{
		Upstream:    svc,
		ServiceName: "zzc19",
		TXTSuffix:   zzC19Suffix,
		CacheTime:   cacheTime,
		CacheSize:   size,
	})
}

// Tick and life time for T = 2: an entry stored at t is usable at t and
// t + 1 tick, not at t + 2 ticks; no observation falls on a boundary.
const (
	zzC19TickA  = 4 * time.Minute
	zzC19CacheA = 6 * time.Minute
)

func TestZZVerifC19Walk(t *testing.T) {
	var u *zzC19Universe
	var walks []zzC19WalkIn
	zzReadNDJSON(t, "VERIF_IN", func(line []byte) {
		var w zzC19WalkIn
		if err := json.Unmarshal(line, &w); err != nil {
			t.Fatalf("c19: bad input line: %v", err)
		}
		if w.Universe != nil {
			u = w.Universe

			return
		}
		walks = append(walks, w)
	})
	if u == nil {
		t.Fatal("c19: no universe")
	}
	if u.T != 2 {
		t.Fatalf("c19: harness time constants are for T = 2, spec says %d", u.T)
	}

	out := zzNewWriter(t, "VERIF_OUT")
	defer out.close()

	rng := rand.New(rand.NewSource(zzSeed()))
	conc := zzC19Solve(t, u, rng)

	// Concrete names; the public-suffix facts the spec assumes must hold.
	names := make([][]string, len(u.Names))
	byKey := map[string]int{}
	for i, n := range u.Names {
		names[i] = conc.zzC19Name(rng, n.L)
		byKey[strings.Join(n.L, ".")] = i
		cut, opt := zzC19PSL(names[i])
		if cut != n.Cut || opt != n.Opt {
			t.Fatalf("c19: public suffix list says cut=%d opt=%d for %v, spec assumes %d/%d", cut, opt, names[i], n.Cut, n.Opt)
		}
		chain := zzC19Chain(names[i])
		for k, ah := range n.H {
			if ah.P == "none" {
				continue
			}
			if conc.hash[ah.R] != chain[k] {
				t.Fatalf("c19: concretisation of %s inconsistent", ah.R)
			}
			if p := conc.class[ah.P]; p[0] != chain[k][0] || p[1] != chain[k][1] {
				t.Fatalf("c19: prefix class of %s inconsistent", ah.R)
			}
		}
	}
	classOf := map[string]string{}
	for k, p := range conc.class {
		classOf[hex.EncodeToString(p[:])] = k
	}
	var tempt []zzC19Hash
	for _, h := range conc.hash {
		tempt = append(tempt, h)
	}
	sort.Slice(tempt, func(i, j int) bool { return string(tempt[i][:]) < string(tempt[j][:]) })

	steps, nJunk, nFail, nErr := 0, 0, 0, 0
	synctest.Run(func() {
		for _, w := range walks {
			svc := &zzC19Svc{rng: rng, db: map[zzC19Hash]bool{}, tempt: tempt, junk: true}
			for _, id := range w.DB {
				svc.db[conc.hash[id]] = true
			}
			chk := zzC19NewChecker(svc, zzC19CacheA, 100000)

			for i, raw := range w.Steps {
				var st []json.RawMessage
				var kind string
				_ = json.Unmarshal(raw, &st)
				_ = json.Unmarshal(st[0], &kind)
				so := zzC19StepOut{W: w.W, I: i, A: kind, Q: []string{}, OK: true}
				switch kind {
				case "t":
					time.Sleep(zzC19TickA)
				case "d":
					var id string
					_ = json.Unmarshal(st[1], &id)
					h, ok := conc.hash[id]
					if !ok {
						t.Fatalf("c19: unknown hash id %q", id)
					}
					if svc.db[h] {
						delete(svc.db, h)
					} else {
						svc.db[h] = true
					}
				case "c", "f", "x":
					var key string
					_ = json.Unmarshal(st[1], &key)
					ni, ok := byKey[key]
					if !ok {
						t.Fatalf("c19: unknown name %q", key)
					}
					host := strings.Join(names[ni], ".")
					// Every other answer carries no junk at all.
					svc.junk = rng.Intn(4) != 0
					svc.fail, svc.errReply = kind == "f", kind == "x"
					t0 := time.Now()
					blocked, err := chk.Check(host)
					if !time.Now().Equal(t0) {
						t.Fatalf("c19: virtual time moved during Check")
					}
					svc.fail, svc.errReply = false, false
					prefs, qn, ok, why := svc.zzC19Observe(host, zzC19Chain(names[ni]))
					so.V, so.OK, so.Why, so.Host, so.QN = blocked, ok, why, host, qn
					so.F, so.X, so.E = kind == "f", kind == "x", err != nil
					if err != nil {
						so.Why += " error: " + err.Error()
					}
					for _, p := range prefs {
						if cl, known := classOf[p]; known {
							so.Q = append(so.Q, cl)
						} else {
							so.Q = append(so.Q, "X"+p)
						}
					}
					// Projection of the real cache (informational).
					so.Proj = map[string][]string{}
					now := time.Now()
					for cl, p := range conc.class {
						data := chk.cache.Get(p[:])
						if data == nil {
							continue
						}
						item := toCacheItem(data)
						if now.After(item.expiry) {
							continue
						}
						ids := []string{}
						for _, h := range item.hashes {
							id, known := conc.id[h]
							if !known {
								id = "?" + hex.EncodeToString(h[:4])
							}
							ids = append(ids, id)
						}
						sort.Strings(ids)
						so.Proj[cl] = ids
					}
				default:
					t.Fatalf("c19: unknown step %q", kind)
				}
				steps++
				out.put(so)
			}
			nJunk += svc.nJunk
			nFail += svc.nFail
			nErr += svc.nErr
		}
	})

	cl := map[string]string{}
	for k, p := range conc.class {
		cl[k] = hex.EncodeToString(p[:])
	}
	cn := map[string]string{}
	for i, n := range u.Names {
		cn[strings.Join(n.L, ".")] = strings.Join(names[i], ".")
	}
	out.put(map[string]any{"summary": map[string]any{
		"steps": steps, "walks": len(walks), "hashes_tried": conc.tried, "classes": cl, "names": cn,
		"junk_strings": nJunk, "failed_lookups": nFail, "error_replies": nErr,
	}})
}

// ------------------------------------------------- direction B: random traces

type zzC19TraceLine struct {
	A   string         `json:"a"`
	T   int            `json:"t"`
	DB  []zzC19AbsHash `json:"db"`
	Add []zzC19AbsHash `json:"add"`
	Del []zzC19AbsHash `json:"del"`
	D   int            `json:"d"`
	N   zzC19AbsName   `json:"n"`
	Q   []string       `json:"q"`
	V   bool           `json:"v"`
	OK  bool           `json:"ok"`
	F   bool           `json:"f"`
	X   bool           `json:"x"`
	E   bool           `json:"e"`
	// not read by the trace spec
	Why  string   `json:"why,omitempty"`
	Host string   `json:"host,omitempty"`
	QN   []string `json:"qn,omitempty"`
	W    int      `json:"w"`
	Size uint     `json:"size,omitempty"`
}

func zzC19Abs(h zzC19Hash) (a zzC19AbsHash) {
	return zzC19AbsHash{P: hex.EncodeToString(h[:prefixLen]), R: hex.EncodeToString(h[prefixLen:])}
}

func zzC19AbsAll(hs []zzC19Hash) (as []zzC19AbsHash) {
	as = []zzC19AbsHash{}
	for _, h := range hs {
		as = append(as, zzC19Abs(h))
	}

	return as
}

func zzC19NewLine(a string, w int) (l zzC19TraceLine) {
	return zzC19TraceLine{
		A: a, W: w, DB: []zzC19AbsHash{}, Add: []zzC19AbsHash{}, Del: []zzC19AbsHash{}, Q: []string{}, OK: true,
		N: zzC19AbsName{L: []string{}, H: []zzC19AbsHash{}},
	}
}

// Public suffixes of the random universe: ICANN suffixes of one to four
// labels (incl. a wildcard rule), private suffixes, and labels the list does
// not know.
var zzC19Suffixes = []string{
	"com", "org", "net", "io", "de", "co.uk", "com.au", "k12.ma.us", "pvt.k12.ma.us", "kobe.jp",
	"github.io", "blogspot.com", "dyndns.org", "s3.amazonaws.com", "local", "internal",
}

const (
	zzC19TickB  = time.Minute
	zzC19CacheB = 9*time.Minute + 30*time.Second
	zzC19TB     = 10
)

// zzC19Pool builds the name pool of one trace: families of names sharing
// parents, names of 1..8 labels, and names whose hashes are forced (brute
// force) to share the two-byte prefix of another domain of the pool.
func zzC19Pool(rng *rand.Rand, nFam, nCollide int) (pool [][]string, tried int) {
	var doms []string // every domain whose prefix may be a collision target
	add := func(labels []string) {
		pool = append(pool, labels)
		for k := 1; k <= len(labels) && k <= 4; k++ {
			doms = append(doms, strings.Join(labels[len(labels)-k:], "."))
		}
	}
	for f := 0; f < nFam; f++ {
		suf := strings.Split(zzC19Suffixes[rng.Intn(len(zzC19Suffixes))], ".")
		if rng.Intn(6) == 0 {
			add(suf) // the bare suffix itself
		}
		base := append([]string{zzC19RandLabel(rng)}, suf...)
		add(base)
		cur := base
		for d := rng.Intn(8); d > 0 && len(cur) < 8; d-- {
			cur = append([]string{zzC19RandLabel(rng)}, cur...)
			if rng.Intn(2) == 0 {
				add(cur)
			}
		}
		add(cur)
		if rng.Intn(2) == 0 { // a sibling
			add(append([]string{zzC19RandLabel(rng)}, cur[1:]...))
		}
	}
	for i := 0; i < nCollide; i++ {
		target := sha256.Sum256([]byte(doms[rng.Intn(len(doms))]))
		parentLabels := pool[rng.Intn(len(pool))]
		if len(parentLabels) >= 8 {
			continue
		}
		parent := strings.Join(parentLabels, ".")
		l, n := zzC19FindLabel(rng, parent, [prefixLen]byte{target[0], target[1]})
		tried += n
		add(append([]string{l}, parentLabels...))
	}

	return pool, tried
}

func TestZZVerifC19Trace(t *testing.T) {
	out := zzNewWriter(t, "VERIF_OUT")
	defer out.close()

	nWalks, nSteps, nCollide := 24, 160, 6
	if zzGetenv("VERIF_TIER") == "thorough" {
		nWalks, nSteps, nCollide = 150, 400, 8
	}
	// Re-execution of one walk up to a given step (isolation of a rejected
	// line): every walk has its own generator.
	only, maxSteps := -1, -1
	if s := zzGetenv("VERIF_ONLY_WALK"); s != "" {
		only, _ = strconv.Atoi(s)
		maxSteps, _ = strconv.Atoi(zzGetenv("VERIF_MAX_STEPS"))
	}

	checks, blockedN, asked, tried := 0, 0, 0, 0
	synctest.Run(func() {
		for w := 0; w < nWalks; w++ {
			if only >= 0 && w != only {
				continue
			}

			rng := rand.New(rand.NewSource(zzSeed()*7919 + int64(w)*104729 + 19))
			pool, n := zzC19Pool(rng, 5+rng.Intn(6), nCollide)
			tried += n

			// Everything the service could list: hashes of every domain of
			// every chain (public suffixes included) and foreign hashes
			// under the same prefixes.
			var cand []zzC19Hash
			seen := map[zzC19Hash]bool{}
			for _, labels := range pool {
				for _, h := range zzC19Chain(labels) {
					if !seen[h] {
						seen[h] = true
						cand = append(cand, h)
					}
				}
			}
			var foreign []zzC19Hash
			for i := 0; i < len(cand)/2; i++ {
				var h zzC19Hash
				_, _ = rng.Read(h[:])
				src := cand[rng.Intn(len(cand))]
				h[0], h[1] = src[0], src[1]
				foreign = append(foreign, h)
			}
			listable := append(append([]zzC19Hash{}, cand...), foreign...)

			svc := &zzC19Svc{rng: rng, db: map[zzC19Hash]bool{}, tempt: cand, junk: true}
			for _, h := range listable {
				if rng.Intn(3) == 0 {
					svc.db[h] = true
				}
			}
			size := []uint{0, 100000, 100000, 200, 64, 9}[rng.Intn(6)]
			chk := zzC19NewChecker(svc, zzC19CacheB, size)

			reset := zzC19NewLine("reset", w)
			reset.T, reset.Size = zzC19TB, size
			var cur []zzC19Hash
			for h := range svc.db {
				cur = append(cur, h)
			}
			sort.Slice(cur, func(i, j int) bool { return string(cur[i][:]) < string(cur[j][:]) })
			reset.DB = zzC19AbsAll(cur)
			out.put(reset)

			for i := 0; i < nSteps && (maxSteps < 0 || i < maxSteps); i++ {
				switch r := rng.Intn(100); {
				case r < 12:
					d := []int{1, 1, 2, 3, 5, 8, 9, 10, 11}[rng.Intn(9)]
					time.Sleep(time.Duration(d) * zzC19TickB)
					l := zzC19NewLine("tick", w)
					l.D = d
					out.put(l)
				case r < 24:
					l := zzC19NewLine("db", w)
					touched := map[zzC19Hash]bool{}
					for n := 1 + rng.Intn(3); n > 0; n-- {
						h := listable[rng.Intn(len(listable))]
						if touched[h] {
							continue
						}
						touched[h] = true
						if svc.db[h] {
							delete(svc.db, h)
							l.Del = append(l.Del, zzC19Abs(h))
						} else {
							svc.db[h] = true
							l.Add = append(l.Add, zzC19Abs(h))
						}
					}
					out.put(l)
				default:
					labels := pool[rng.Intn(len(pool))]
					host := strings.Join(labels, ".")
					chain := zzC19Chain(labels)
					svc.junk = rng.Intn(4) != 0
					// Seeded fault schedule: one lookup in nine meets a
					// failing service.
					svc.fail = rng.Intn(9) == 0
					failing := svc.fail
					// Error replies only in one walk out of three (w % 3 == 1),
					// there for one lookup in ten.
					svc.errReply = !failing && w%3 == 1 && rng.Intn(10) == 0
					errReply := svc.errReply
					t0 := time.Now()
					blocked, err := chk.Check(host)
					if !time.Now().Equal(t0) {
						t.Fatalf("c19: virtual time moved during Check")
					}
					svc.fail, svc.errReply = false, false
					prefs, qn, ok, why := svc.zzC19Observe(host, chain)
					l := zzC19NewLine("check", w)
					cut, opt := zzC19PSL(labels)
					l.N = zzC19AbsName{L: labels, Cut: cut, Opt: opt, H: zzC19AbsAll(chain)}
					l.Q, l.V, l.OK, l.Why, l.Host, l.QN = prefs, blocked, ok, why, host, qn
					if l.Q == nil {
						l.Q = []string{}
					}
					l.F, l.X, l.E = failing, errReply, err != nil
					if err != nil {
						l.Why += " error: " + err.Error()
					}
					checks++
					if blocked {
						blockedN++
					}
					if len(prefs) > 0 {
						asked++
					}
					out.put(l)
				}
			}
		}
	})

	_, _ = fmt.Fprintf(os.Stderr, "c19 trace: %d checks, %d blocked, %d asked the service, %d hashes tried\n", checks, blockedN, asked, tried)
}
