PROPERTY = "C16"
ENTRY = {
        "text": "ClientID.tla (decision procedure written from the statement) is enumerated by TLC over every input of a finite universe "
                "(6 protocols x 3 configured names x strict x 29 client names x 1445 DoH paths; ~2e5 inputs, 7 invariants of the statement checked on the spec); "
                "every vector is replayed into the real HandleBefore and the outcome must be in the spec's admissible set; "
                "a random driver over a larger universe is recorded and validated by TraceClientID.tla.",
        "design_ref": "DESIGN.md section 4 C16",
        "note": "Trusted: TLC, conc()/abs() of zz_verif_c16_test.go, the harness's own label classifier. Handler level (fake TLS/QUIC connection states), no sockets. "
                "Case handling of the configured server name is not asserted (statement silent).",
        "technique": "TLA+ spec enumerated by TLC; exhaustive vector replay into real code + TLC trace validation",
    }
