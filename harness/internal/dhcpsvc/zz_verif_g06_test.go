package dhcpsvc

// G06 (B) conformance harness: the lease table of the new DHCP service against
// specs/DhcpSvc.tla.
//
// Direction A: TLC's emission (one line per reachable state of DhcpSvc.tla with
// the admissible outcomes of every call) is loaded; a real DHCPServer (New with
// two interfaces, each with an IPv4 and an IPv6 network, a real database file;
// restart = New on the same file) is walked through every state it can reach,
// every call of the alphabet is made in every such state, and after every step
// the result, the projected table (the two indexes and the per-interface
// tables must agree), the database file and every lookup (HostByIP, MACByIP,
// IPByHost for every address and name of the universe, Leases) are compared
// with the outcome set.
//
// Direction B: long seeded random histories over a larger universe are
// recorded as NDJSON for specs/TraceDhcpSvc.tla.
//
// Only exported API drives the server; unexported fields are read for abs().

import (
	"bufio"
	"bytes"
	"context"
	"encoding/json"
	"fmt"
	"math/rand"
	"net"
	"net/netip"
	"os"
	"path/filepath"
	"sort"
	"strconv"
	"strings"
	"sync"
	"sync/atomic"
	"testing"
	"time"

	"github.com/AdguardTeam/golibs/logutil/slogutil"
)

// ----------------------------------------------------------------- helpers

func zzG06Getenv(k string) (v string) { return os.Getenv(k) }

func zzG06Seed() (seed int64) {
	seed, err := strconv.ParseInt(os.Getenv("VERIF_SEED"), 10, 64)
	if err != nil {
		return 1
	}

	return seed
}

func zzG06ReadNDJSON(t testing.TB, env string, f func(line []byte)) {
	p := os.Getenv(env)
	if p == "" {
		t.Skip("no " + env)
	}
	fh, err := os.Open(p)
	if err != nil {
		t.Fatalf("opening %s: %v", p, err)
	}
	defer fh.Close()
	sc := bufio.NewScanner(fh)
	sc.Buffer(make([]byte, 0, 1<<20), 64<<20)
	for sc.Scan() {
		if b := sc.Bytes(); len(b) != 0 {
			f(b)
		}
	}
	if err = sc.Err(); err != nil {
		t.Fatalf("reading %s: %v", p, err)
	}
}

type zzG06Writer struct {
	fh *os.File
	w  *bufio.Writer
}

func zzG06NewWriter(t testing.TB, env string) (w *zzG06Writer) {
	p := os.Getenv(env)
	if p == "" {
		t.Skip("no " + env)
	}
	fh, err := os.Create(p)
	if err != nil {
		t.Fatalf("creating %s: %v", p, err)
	}

	return &zzG06Writer{fh: fh, w: bufio.NewWriterSize(fh, 1<<20)}
}

func (w *zzG06Writer) put(v any) {
	b, err := json.Marshal(v)
	if err != nil {
		panic(err)
	}
	_, _ = w.w.Write(b)
	_ = w.w.WriteByte('\n')
}

func (w *zzG06Writer) close() {
	_ = w.w.Flush()
	_ = w.fh.Close()
}

// ---------------------------------------------------------------- universe

// zzG06Univ is the finite universe of a run and its concretisation.  An
// abstract address a belongs to network a/10: 1 = eth0/IPv4, 2 = eth0/IPv6,
// 3 = eth1/IPv4, 4 = eth1/IPv6; other values belong to no network.
type zzG06Univ struct {
	Macs  []string `json:"macs"`
	Pool  []int    `json:"pool"`
	Outs  []int    `json:"outs"`
	GWs   []int    `json:"gws"`
	Fars  []int    `json:"fars"`
	Hosts []string `json:"hosts"`

	seed    int64
	ipOf    map[int]netip.Addr
	absIP   map[netip.Addr]int
	macOf   map[string]net.HardwareAddr
	absMAC  map[string]string
	hostOf  map[string]string
	absHost map[string]string
	isPool  map[int]bool
}

func zzG06V4(net, b int) (ip netip.Addr) {
	if net == 1 {
		return netip.AddrFrom4([4]byte{192, 168, 10, byte(b)})
	}

	return netip.AddrFrom4([4]byte{172, 16, 20, byte(b)})
}

func zzG06V6(net, b int) (ip netip.Addr) {
	x := [16]byte{0x20, 0x01, 0x0d, 0xb8, 0, 0x62, 0, 0, 0, 0, 0, 0, 0, 0, 0, byte(b)}
	if net == 4 {
		x[5] = 0x64
	}

	return netip.AddrFrom16(x)
}

// zzG06Ifaces is the fixed configuration: gateways .1, ranges .100-.199
// (IPv4) and ::80-::ff (IPv6).
func zzG06Ifaces() (ifaces map[string]*InterfaceConfig) {
	mk := func(n4, n6 int) *InterfaceConfig {
		return &InterfaceConfig{
			IPv4: &IPv4Config{
				Enabled: true, GatewayIP: zzG06V4(n4, 1), SubnetMask: netip.MustParseAddr("255.255.255.0"),
				RangeStart: zzG06V4(n4, 100), RangeEnd: zzG06V4(n4, 199), LeaseDuration: time.Hour,
			},
			IPv6: &IPv6Config{Enabled: true, RangeStart: zzG06V6(n6, 0x80), LeaseDuration: time.Hour},
		}
	}

	return map[string]*InterfaceConfig{"eth0": mk(1, 2), "eth1": mk(3, 4)}
}

func (u *zzG06Univ) init(seed int64) {
	u.seed = seed
	for _, s := range []*[]int{&u.Pool, &u.Outs, &u.GWs, &u.Fars} {
		sort.Ints(*s)
	}
	u.ipOf = map[int]netip.Addr{}
	u.isPool = map[int]bool{}
	v4 := func(n int) bool { return n == 1 || n == 3 }
	v6 := func(n int) bool { return n == 2 || n == 4 }
	for _, a := range u.Pool {
		u.isPool[a] = true
		if n := a / 10; v4(n) {
			u.ipOf[a] = zzG06V4(n, 100+a%10)
		} else if v6(n) {
			u.ipOf[a] = zzG06V6(n, 0x80+a%10)
		}
	}
	for _, a := range u.Outs {
		// Inside the subnet, outside the range (IPv4 networks only).
		if n := a / 10; v4(n) {
			u.ipOf[a] = zzG06V4(n, 20+a%10)
		}
	}
	for _, a := range u.GWs {
		if n := a / 10; v4(n) {
			u.ipOf[a] = zzG06V4(n, 1)
		}
	}
	for _, a := range u.Fars {
		switch n := a / 10; {
		case v6(n):
			// The /120 of the network, below its range_start.
			u.ipOf[a] = zzG06V6(n, 0x10+a%10)
		case a < 10:
			u.ipOf[a] = netip.AddrFrom4([4]byte{10, 77, 0, byte(a + 1)})
		default:
			u.ipOf[a] = netip.AddrFrom16([16]byte{0x20, 0x01, 0x0d, 0xb8, 0, 0xff, 0, 0, 0, 0, 0, 0, 0, 0, 0, byte(a)})
		}
	}
	u.absIP = map[netip.Addr]int{}
	for a, ip := range u.ipOf {
		u.absIP[ip] = a
	}
	u.macOf = map[string]net.HardwareAddr{}
	u.absMAC = map[string]string{}
	for i, m := range u.Macs {
		hw := net.HardwareAddr{0x02, byte(seed % 251), 0x5e, 0x70, byte(i / 200), byte(i%200 + 1)}
		u.macOf[m] = hw
		u.absMAC[hw.String()] = m
	}
	u.hostOf = map[string]string{}
	u.absHost = map[string]string{}
	for _, h := range u.Hosts {
		c := fmt.Sprintf("%s-svc%d", h, seed%89)
		u.hostOf[h] = c
		u.absHost[c] = h
	}
}

// onGateway reports whether some lease of ls lies on a gateway address (no
// table of the specification has one).
func (u *zzG06Univ) onGateway(ls []zzG06L) (ok bool) {
	for _, l := range ls {
		for _, g := range u.GWs {
			ok = ok || l.IP == g
		}
	}

	return ok
}

func (u *zzG06Univ) addAddrs() (addrs []int) {
	addrs = append(append(append(append([]int{}, u.Pool...), u.Outs...), u.GWs...), u.Fars...)
	sort.Ints(addrs)

	return addrs
}

func (u *zzG06Univ) aIP(ip netip.Addr) (a int) {
	if a, ok := u.absIP[ip]; ok {
		return a
	}

	return -1
}

func (u *zzG06Univ) aMAC(hw net.HardwareAddr) (m string) {
	if m, ok := u.absMAC[hw.String()]; ok {
		return m
	}

	return "?" + hw.String()
}

// aHost: names are compared case-insensitively.
func (u *zzG06Univ) aHost(h string) (a string) {
	if a, ok := u.absHost[strings.ToLower(h)]; ok {
		return a
	}

	return "?" + h
}

// spell returns one of the spellings of the name (seeded).
func (u *zzG06Univ) spell(h string, v int) (s string) {
	s = u.hostOf[h]
	switch v % 4 {
	case 1:
		return strings.ToUpper(s)
	case 2:
		return strings.ToUpper(s[:1]) + s[1:]
	default:
		return s
	}
}

// zzG06Act is one call of the alphabet.
type zzG06Act struct {
	Name string `json:"act"`
	M    string `json:"m"`
	Kind string `json:"kind"`
	A    int    `json:"a"`
	H    string `json:"h"`
	// V selects among equivalent spellings (seeded).
	V int `json:"v"`
}

func (a zzG06Act) key() (k string) {
	return a.Name + "|" + a.M + "|" + a.Kind + "|" + strconv.Itoa(a.A) + "|" + a.H
}

func (u *zzG06Univ) alphabet() (acts []zzG06Act) {
	for _, m := range u.Macs {
		for _, a := range u.addAddrs() {
			for _, h := range u.Hosts {
				acts = append(acts, zzG06Act{Name: "AddLease", M: m, Kind: "static", A: a, H: h})
				if u.isPool[a] {
					// "l must be valid": a dynamic lease only inside a range.
					acts = append(acts, zzG06Act{Name: "AddLease", M: m, Kind: "dynamic", A: a, H: h})
				}
				acts = append(acts,
					zzG06Act{Name: "UpdateStatic", M: m, A: a, H: h},
					zzG06Act{Name: "RemoveLease", M: m, A: a, H: h})
			}
		}
	}
	acts = append(acts, zzG06Act{Name: "Reset"}, zzG06Act{Name: "Restart"})

	return acts
}

// ------------------------------------------------------------ observations

// zzG06L is an abstract lease: mac, address, 3 if static else 1, host.
type zzG06L struct {
	Mac  string
	IP   int
	F    int
	Host string
}

func (l zzG06L) MarshalJSON() (b []byte, err error) {
	return json.Marshal([]any{l.Mac, l.IP, l.F, l.Host})
}

func (l *zzG06L) UnmarshalJSON(b []byte) (err error) {
	var raw []any
	if err = json.Unmarshal(b, &raw); err != nil {
		return err
	}
	if len(raw) != 4 {
		return fmt.Errorf("bad lease %s", b)
	}
	l.Mac, _ = raw[0].(string)
	ip, _ := raw[1].(float64)
	f, _ := raw[2].(float64)
	l.IP, l.F = int(ip), int(f)
	l.Host, _ = raw[3].(string)

	return nil
}

func (l zzG06L) String() (s string) {
	return l.Mac + "/" + strconv.Itoa(l.IP) + "/" + strconv.Itoa(l.F) + "/" + l.Host
}

func zzG06Key(ls []zzG06L) (k string) {
	parts := make([]string, len(ls))
	for i, l := range ls {
		parts[i] = l.String()
	}
	sort.Strings(parts)

	return strings.Join(parts, ",")
}

// zzG06Reply is the abstract result: ok / err; "-" for Restart.
type zzG06Reply struct {
	K  string `json:"k"`
	IP int    `json:"ip"`
}

// zzG06Obs is the projection of the real server after a step.
type zzG06Obs struct {
	Ls   []zzG06L `json:"ls"`
	Disk []zzG06L `json:"disk"`
	// Prob lists disagreements between the server's structures and between
	// them and its public answers (empty = all agree).
	Prob []string `json:"prob"`
	key  string
	dkey string
	ord  string
}

func (o *zzG06Obs) full() (k string) { return o.key + "||" + o.dkey }

// ------------------------------------------------------------- real system

type zzG06Sys struct {
	u    *zzG06Univ
	base string
	dir  string
	srv  *DHCPServer
}

func zzG06NewSys(u *zzG06Univ, base string) (y *zzG06Sys, err error) {
	y = &zzG06Sys{u: u, base: base}
	err = y.reset()

	return y, err
}

func (y *zzG06Sys) reset() (err error) {
	y.close()
	y.dir, err = os.MkdirTemp(y.base, "g06s-")
	if err != nil {
		return err
	}

	return y.start()
}

func (y *zzG06Sys) close() {
	if y.dir != "" {
		_ = os.RemoveAll(y.dir)
		y.dir = ""
	}
}

func (y *zzG06Sys) dbPath() (p string) { return filepath.Join(y.dir, "leases.json") }

// start creates the server: New loads the database.
func (y *zzG06Sys) start() (err error) {
	conf := &Config{
		Enabled:         true,
		Logger:          slogutil.NewDiscardLogger(),
		LocalDomainName: "lan",
		Interfaces:      zzG06Ifaces(),
		DBFilePath:      y.dbPath(),
	}
	if err = conf.Validate(); err != nil {
		return fmt.Errorf("validate: %w", err)
	}
	y.srv, err = New(context.Background(), conf)
	if err != nil {
		return fmt.Errorf("new: %w", err)
	}

	return nil
}

// exec performs one call on the real server.
func (y *zzG06Sys) exec(a zzG06Act) (r zzG06Reply, err error) {
	u := y.u
	ctx := context.Background()
	res := func(cerr error) (zzG06Reply, error) {
		if cerr != nil {
			return zzG06Reply{K: "err"}, nil
		}

		return zzG06Reply{K: "ok"}, nil
	}
	mk := func(static bool) (l *Lease) {
		l = &Lease{HWAddr: bytes.Clone(u.macOf[a.M]), IP: u.ipOf[a.A], Hostname: u.spell(a.H, a.V), IsStatic: static}
		if !static {
			l.Expiry = time.Now().Add(time.Hour).Truncate(time.Second)
		}

		return l
	}
	switch a.Name {
	case "AddLease":
		return res(y.srv.AddLease(ctx, mk(a.Kind == "static")))
	case "UpdateStatic":
		return res(y.srv.UpdateStaticLease(ctx, mk(true)))
	case "RemoveLease":
		// The lease as a caller would have it from Leases(), if there is one
		// with these identifiers; otherwise any flag.
		static := a.V&4 == 4
		for _, l := range y.srv.Leases() {
			if l.IP == u.ipOf[a.A] {
				static = l.IsStatic
			}
		}

		return res(y.srv.RemoveLease(ctx, mk(static)))
	case "Reset":
		return res(y.srv.Reset(ctx))
	case "Restart":
		return zzG06Reply{K: "-"}, y.start()
	default:
		return r, fmt.Errorf("unknown call %q", a.Name)
	}
}

func (y *zzG06Sys) absLease(l *Lease) (a zzG06L) {
	a = zzG06L{Mac: y.u.aMAC(l.HWAddr), IP: y.u.aIP(l.IP), Host: y.u.aHost(l.Hostname), F: 1}
	if l.IsStatic {
		a.F = 3
	}

	return a
}

// abs projects the real server onto the spec's state and checks the mutual
// agreement of its structures and public answers.
func (y *zzG06Sys) abs() (o *zzG06Obs) {
	o = &zzG06Obs{Ls: []zzG06L{}, Disk: []zzG06L{}, Prob: []string{}}
	u, srv := y.u, y.srv
	prob := map[string]bool{}

	// The table: every lease some structure knows.
	var tab []*Lease
	seen := map[*Lease]bool{}
	note := func(l *Lease) {
		if !seen[l] {
			seen[l] = true
			tab = append(tab, l)
		}
	}
	srv.leasesMu.RLock()
	inIface := map[*Lease]*netInterface{}
	var ifaces []*netInterface
	for _, i4 := range srv.interfaces4 {
		ifaces = append(ifaces, i4.common)
	}
	for _, i6 := range srv.interfaces6 {
		ifaces = append(ifaces, i6.common)
	}
	for _, ni := range ifaces {
		for k, l := range ni.leases {
			note(l)
			if inIface[l] != nil {
				prob["iface:twice"] = true
			}
			inIface[l] = ni
			if len(l.HWAddr) != 6 || k != macToKey(l.HWAddr) {
				prob["iface:wrongkey"] = true
			}
			if want, err := srv.ifaceForAddr(l.IP); err != nil || want != ni {
				prob["iface:wrongnet"] = true
			}
		}
	}
	for ip, l := range srv.leases.byAddr {
		note(l)
		if l.IP != ip {
			prob["byaddr:wrongkey"] = true
		}
	}
	for h, l := range srv.leases.byName {
		note(l)
		if strings.ToLower(l.Hostname) != h {
			prob["byname:wrongkey"] = true
		}
	}
	for _, l := range tab {
		if srv.leases.byAddr[l.IP] != l {
			prob["byaddr:miss"] = true
		}
		if srv.leases.byName[strings.ToLower(l.Hostname)] != l {
			prob["byname:miss"] = true
		}
		if inIface[l] == nil {
			prob["iface:miss"] = true
		}
	}
	var clones []*Lease
	for _, l := range tab {
		clones = append(clones, l.Clone())
	}
	srv.leasesMu.RUnlock()
	sort.Slice(clones, func(i, j int) bool { return clones[i].IP.Less(clones[j].IP) })
	mem := map[string]int{}
	for _, l := range clones {
		al := y.absLease(l)
		o.Ls = append(o.Ls, al)
		mem[al.String()]++
	}

	// The public answers.
	got := map[string]int{}
	for _, l := range srv.Leases() {
		got[y.absLease(l).String()]++
	}
	if !zzG06SameCount(got, mem) {
		prob["leases:differs"] = true
	}
	for _, ip := range u.ipOf {
		var on []*Lease
		for _, l := range clones {
			if l.IP == ip {
				on = append(on, l)
			}
		}
		host, mac := srv.HostByIP(ip), srv.MACByIP(ip)
		if len(on) == 0 {
			if host != "" {
				prob["hostbyip"] = true
			}
			if mac != nil {
				prob["macbyip"] = true
			}

			continue
		}
		okH, okM := false, false
		for _, l := range on {
			okH = okH || strings.EqualFold(host, l.Hostname)
			okM = okM || bytes.Equal(mac, l.HWAddr)
		}
		if !okH {
			prob["hostbyip"] = true
		}
		if !okM {
			prob["macbyip"] = true
		}
	}
	for i, h := range u.Hosts {
		var named []*Lease
		for _, l := range clones {
			if u.aHost(l.Hostname) == h {
				named = append(named, l)
			}
		}
		ip := srv.IPByHost(u.spell(h, i+len(clones)))
		ok := len(named) == 0 && !ip.IsValid()
		for _, l := range named {
			ok = ok || l.IP == ip
		}
		if !ok {
			prob["ipbyhost"] = true
		}
	}

	// The database.
	data, err := os.ReadFile(y.dbPath())
	if err == nil {
		dl := &dataLeases{}
		if err = json.Unmarshal(data, dl); err != nil {
			prob["disk:corrupt"] = true
		}
		disk := map[string]int{}
		for _, d := range dl.Leases {
			l, lerr := d.toInternal()
			if lerr != nil {
				prob["disk:corrupt"] = true

				continue
			}
			al := y.absLease(l)
			o.Disk = append(o.Disk, al)
			disk[al.String()]++
			if disk[al.String()] > 1 {
				prob["disk:dup"] = true
			}
		}
	} else if !os.IsNotExist(err) {
		prob["disk:unreadable"] = true
	}

	for p := range prob {
		o.Prob = append(o.Prob, p)
	}
	sort.Strings(o.Prob)
	o.key = zzG06Key(o.Ls)
	o.dkey = zzG06Key(o.Disk)

	return o
}

func zzG06SameCount(a, b map[string]int) (ok bool) {
	if len(a) != len(b) {
		return false
	}
	for k, v := range a {
		if b[k] != v {
			return false
		}
	}

	return true
}

// ------------------------------------------------------------- spec graph

type zzG06Out struct {
	Same bool
	Dst  string
	K    string
	IP   int
	// Rule: 0 the database must list the new table, 1 it may also have been
	// left alone, 2 it must have been left alone.
	Rule int
}

type zzG06Node struct {
	edges map[string][]zzG06Out
}

type zzG06Opts struct {
	Order      bool  `json:"order"`
	Workers    int   `json:"workers"`
	MaxSteps   int64 `json:"maxsteps"`
	DeadlineS  int   `json:"deadline_s"`
	ResetEvery int   `json:"resetevery"`
	MaxRepro   int   `json:"maxrepro"`
	TraceSteps int   `json:"tracesteps"`
	TraceRuns  int   `json:"traceruns"`
}

type zzG06Hdr struct {
	Univ *zzG06Univ `json:"univ"`
	Opts zzG06Opts  `json:"opts"`
}

type zzG06Graph struct {
	u       *zzG06Univ
	acts    []zzG06Act
	nodes   map[string]*zzG06Node
	tables  map[string]bool
	changes map[string]int
}

// zzG06Defaults are the outcome sets (the call is refused, the table does not
// change) that the emission of DhcpSvc.tla leaves out.
var zzG06Defaults = map[string][]string{"AddLease": {"err"}, "UpdateStatic": {"err"}, "RemoveLease": {"err"}}

func zzG06ParseLs(raw []any) (ls []zzG06L) {
	ls = []zzG06L{}
	for _, x := range raw {
		e := x.([]any)
		ls = append(ls, zzG06L{Mac: e[0].(string), IP: int(e[1].(float64)), F: int(e[2].(float64)), Host: e[3].(string)})
	}

	return ls
}

func zzG06ParseOuts(raw []any) (outs []zzG06Out) {
	for _, r := range raw {
		t := r.([]any)
		o := zzG06Out{Same: t[0].(bool), K: t[2].(string), IP: int(t[3].(float64)), Rule: int(t[4].(float64))}
		if !o.Same {
			o.Dst = zzG06Key(zzG06ParseLs(t[1].([]any)))
		}
		outs = append(outs, o)
	}

	return outs
}

func zzG06Header(t testing.TB) (hdr *zzG06Hdr) {
	hdr = &zzG06Hdr{}
	if err := json.Unmarshal([]byte(zzG06Getenv("VERIF_HDR")), hdr); err != nil || hdr.Univ == nil {
		t.Skipf("no usable VERIF_HDR: %v", err)
	}
	hdr.Univ.init(zzG06Seed())

	return hdr
}

// zzG06LoadGraph reads the state lines of DhcpSvc.tla's emission from TLC's own
// output (lines of the form <<"@@V", "<json as a TLA+ string literal>">>).
func zzG06LoadGraph(t testing.TB, hdr *zzG06Hdr) (g *zzG06Graph) {
	g = &zzG06Graph{nodes: map[string]*zzG06Node{}, tables: map[string]bool{}, changes: map[string]int{}}
	const pre, suf = `<<"@@V", `, `>>`
	zzG06ReadNDJSON(t, "VERIF_IN", func(line []byte) {
		if bytes.HasPrefix(line, []byte(pre)) && bytes.HasSuffix(line, []byte(suf)) {
			js, err := strconv.Unquote(string(line[len(pre) : len(line)-len(suf)]))
			if err != nil {
				t.Fatalf("bad emission line: %v", err)
			}
			line = []byte(js)
		} else if len(line) == 0 || line[0] != '{' {
			return
		}
		var rec struct {
			S     []zzG06L `json:"s"`
			D     []zzG06L `json:"d"`
					E     [][]any  `json:"e"`
		}
		if err := json.Unmarshal(line, &rec); err != nil {
			t.Fatalf("bad state line: %v", err)
		}
		if rec.E == nil {
			return
		}
		n := &zzG06Node{edges: map[string][]zzG06Out{}}
		skey := zzG06Key(rec.S)
		first := !g.tables[skey]
		for _, e := range rec.E {
			a := zzG06Act{Name: e[0].(string), M: e[1].(string), Kind: e[2].(string), A: int(e[3].(float64)), H: e[4].(string)}
			outs := zzG06ParseOuts(e[5].([]any))
			n.edges[a.key()] = outs
			if !first && a.Name != "Restart" {
				continue
			}
			for _, o := range outs {
				if !o.Same {
					g.changes[a.Name]++

					break
				}
			}
		}
		g.tables[skey] = true
		g.nodes[skey+"||"+zzG06Key(rec.D)] = n
	})
	g.u = hdr.Univ
	g.acts = g.u.alphabet()

	return g
}

// enabled returns the admissible outcomes of a in the state of n (nil = the
// default: refused, nothing changes).  Every call is always enabled.
func (n *zzG06Node) enabled(a zzG06Act) (outs []zzG06Out, ok bool) {
	return n.edges[a.key()], true
}

// zzG06Admits reports whether the observed step is one of the admissible
// outcomes.  why is empty iff it is.
func zzG06Admits(a zzG06Act, src *zzG06Obs, outs []zzG06Out, r zzG06Reply, post *zzG06Obs) (why string) {
	if outs == nil {
		for _, k := range zzG06Defaults[a.Name] {
			outs = append(outs, zzG06Out{Same: true, K: k, Rule: 1})
		}
	}
	best := 0
	for _, o := range outs {
		dst := o.Dst
		if o.Same {
			dst = src.key
		}
		if dst != post.key {
			continue
		}
		if best < 1 {
			best = 1
		}
		if !zzG06ReplyOK(a, o, r, post) {
			continue
		}
		if best < 2 {
			best = 2
		}
		stored, left := post.dkey == post.key, post.dkey == src.dkey
		if (o.Rule == 0 && stored) || (o.Rule == 1 && (stored || left)) || (o.Rule == 2 && left) {
			return ""
		}
	}

	return []string{"state", "reply", "disk"}[best]
}

func zzG06ReplyOK(a zzG06Act, o zzG06Out, r zzG06Reply, post *zzG06Obs) (ok bool) {
	switch o.K {
	case "offer", "ack":
		return r.K == o.K && r.IP == o.IP
	case "refuse":
		return r.K == "none" || r.K == "nak"
	case "any":
		// No reply is defined; an address in it must be the client's lease.
		if r.IP == 0 {
			return true
		}
		for _, l := range post.Ls {
			if l.Mac == a.M && l.IP == r.IP {
				return true
			}
		}

		return false
	case "ok", "err":
		return r.K == o.K
	default:
		return r.K == "-"
	}
}

// ------------------------------------------------------------------ walker

type zzG06WNode struct {
	id     int
	key    string
	state  string
	remain []int
	succ   []int32
	nbrs   [][2]int32
}

type zzG06Bad struct {
	Kind       string     `json:"kind"`
	Act        zzG06Act   `json:"act"`
	Src        []zzG06L   `json:"src"`
	SrcDisk    []zzG06L   `json:"srcdisk"`
	SrcProb    []string   `json:"srcprob"`
	Want       []zzG06Out `json:"want"`
	Why        string     `json:"why"`
	Reply      zzG06Reply `json:"reply"`
	Post       *zzG06Obs  `json:"post"`
	History    []zzG06Act `json:"history"`
	Reproduced bool       `json:"reproduced"`
	Minimal    bool       `json:"minimal"`
	Sig        string     `json:"sig"`
	Univ       *zzG06Univ `json:"univ"`
}

type zzG06Walk struct {
	g    *zzG06Graph
	opts zzG06Opts
	base string
	w    *zzG06Writer

	mu        sync.Mutex
	nodes     []*zzG06WNode
	index     map[string]int
	stamp     []int32
	epoch     int32
	looseLeft int
	sigs      map[string]int
	steps     atomic.Int64
	stop      atomic.Bool
	idle      int
	bad       int
	flaky     int
	truncated int
	resets    int
	nontriv   map[string]bool
	samples   []any
	deadline  time.Time
}

func (wk *zzG06Walk) nodeKey(o *zzG06Obs) (k string) {
	if wk.opts.Order {
		return o.full() + "#" + o.ord
	}

	return o.full()
}

func (wk *zzG06Walk) node(o *zzG06Obs, rng *rand.Rand) (n *zzG06WNode) {
	k := wk.nodeKey(o)
	if id, ok := wk.index[k]; ok {
		return wk.nodes[id]
	}
	n = &zzG06WNode{id: len(wk.nodes), key: k, state: o.full(), succ: make([]int32, len(wk.g.acts))}
	for i := range n.succ {
		n.succ[i] = -1
	}
	wk.nodes = append(wk.nodes, n)
	wk.stamp = append(wk.stamp, 0)
	wk.index[k] = n.id
	if sn := wk.g.nodes[o.full()]; sn != nil {
		for i, a := range wk.g.acts {
			if _, ok := sn.enabled(a); ok {
				n.remain = append(n.remain, i)
			}
		}
		rng.Shuffle(len(n.remain), func(i, j int) { n.remain[i], n.remain[j] = n.remain[j], n.remain[i] })
	}

	return n
}

func (wk *zzG06Walk) link(n *zzG06WNode, ai int, d *zzG06WNode) {
	if n.succ[ai] == int32(d.id) {
		return
	}
	n.succ[ai] = int32(d.id)
	n.nbrs = append(n.nbrs, [2]int32{int32(ai), int32(d.id)})
}

type zzG06Hop struct {
	act int
	dst int
}

// search is a breadth-first search over the observed successors; mu held.
func (wk *zzG06Walk) search(from int, loose bool, goal func(n *zzG06WNode) bool) (path []zzG06Hop, ok bool) {
	type item struct {
		n    int32
		prev int32
		act  int32
	}
	wk.epoch++
	q := []item{{n: int32(from), prev: -1}}
	wk.stamp[from] = wk.epoch
	for i := 0; i < len(q); i++ {
		cur := wk.nodes[q[i].n]
		if goal(cur) {
			for j := int32(i); q[j].prev >= 0; j = q[j].prev {
				path = append(path, zzG06Hop{act: int(q[j].act), dst: int(q[j].n)})
			}
			for l, r := 0, len(path)-1; l < r; l, r = l+1, r-1 {
				path[l], path[r] = path[r], path[l]
			}

			return path, true
		}
		for _, e := range cur.nbrs {
			if (!loose && cur.succ[e[0]] != e[1]) || wk.stamp[e[1]] == wk.epoch {
				continue
			}
			wk.stamp[e[1]] = wk.epoch
			q = append(q, item{n: e[1], prev: int32(i), act: e[0]})
		}
	}

	return nil, false
}

func (wk *zzG06Walk) plan(from *zzG06WNode) (path []zzG06Hop) {
	goal := func(n *zzG06WNode) bool { return n.id != from.id && len(n.remain) > 0 }
	path, ok := wk.search(from.id, false, goal)
	if !ok && wk.looseLeft > 0 {
		path, ok = wk.search(from.id, true, goal)
		if ok {
			wk.looseLeft--
		}
	}

	return path
}

func (wk *zzG06Walk) pathFromInit(target string) (acts []int, ok bool) {
	start := "||"
	if wk.opts.Order {
		start = "||#"
	}
	from, ok1 := wk.index[start]
	to, ok2 := wk.index[target]
	if !ok1 || !ok2 {
		return nil, false
	}
	path, ok := wk.search(from, false, func(n *zzG06WNode) bool { return n.id == to })
	for _, h := range path {
		acts = append(acts, h.act)
	}

	return acts, ok
}

// zzG06Soft: no disagreement between the structures leaves the server in a
// state of the specification.
func zzG06Soft(prob []string) (ok bool) { return len(prob) == 0 }

func zzG06SameStrs(a, b []string) (ok bool) {
	return strings.Join(a, ";") == strings.Join(b, ";")
}

// zzG06Judge compares one executed step with the spec.
func zzG06Judge(g *zzG06Graph, a zzG06Act, src *zzG06Obs, r zzG06Reply, post *zzG06Obs) (why string, want []zzG06Out) {
	sn := g.nodes[src.full()]
	if sn == nil {
		return "src-unknown", nil
	}
	want, _ = sn.enabled(a)
	why = zzG06Admits(a, src, want, r, post)
	if why == "" && !zzG06SameStrs(post.Prob, src.Prob) {
		have := map[string]bool{}
		for _, p := range src.Prob {
			have[p] = true
		}
		for _, p := range post.Prob {
			if !have[p] {
				why = "structures"
			}
		}
	}

	return why, want
}

func zzG06RunHistory(u *zzG06Univ, base string, acts []zzG06Act) (src *zzG06Obs, r zzG06Reply, post *zzG06Obs, err error) {
	y, err := zzG06NewSys(u, base)
	if err != nil {
		return nil, r, nil, err
	}
	defer y.close()
	for i, a := range acts {
		if i == len(acts)-1 {
			src = y.abs()
		}
		r, err = y.exec(a)
		if err != nil {
			return nil, r, nil, fmt.Errorf("step %d %v: %w", i, a, err)
		}
	}

	return src, r, y.abs(), nil
}

func (wk *zzG06Walk) report(a zzG06Act, srcNode string, src *zzG06Obs, want []zzG06Out, why string, r zzG06Reply, post *zzG06Obs, hist []zzG06Act) {
	sig := a.Name + "|" + why + "|" + r.K + "|" + strings.Join(src.Prob, ";") + "|" + strings.Join(post.Prob, ";")
	wk.mu.Lock()
	wk.bad++
	wk.sigs[sig]++
	cnt := wk.sigs[sig]
	var short []zzG06Act
	if p, ok := wk.pathFromInit(srcNode); ok {
		for _, i := range p {
			short = append(short, wk.g.acts[i])
		}
		short = append(short, a)
	}
	wk.mu.Unlock()
	rec := &zzG06Bad{Kind: "bad", Act: a, Src: src.Ls, SrcDisk: src.Disk, SrcProb: src.Prob, Want: want, Why: why, Reply: r, Post: post, Sig: sig, Univ: wk.g.u}
	if cnt > wk.opts.MaxRepro {
		rec.Kind = "bad-more"
		rec.Post = nil
		rec.Want = nil
		wk.mu.Lock()
		wk.w.put(rec)
		wk.mu.Unlock()

		return
	}
	same := func(s2 *zzG06Obs, r2 zzG06Reply, p2 *zzG06Obs, err error) bool {
		return err == nil && s2 != nil && s2.full() == src.full() && zzG06SameStrs(s2.Prob, src.Prob) &&
			p2.full() == post.full() && zzG06SameStrs(p2.Prob, post.Prob) && r2 == r
	}
	if short != nil && len(short) <= len(hist) {
		ok := true
		for i := 0; i < 2 && ok; i++ {
			ok = same(zzG06RunHistory(wk.g.u, wk.base, short))
		}
		if ok {
			rec.History, rec.Reproduced, rec.Minimal = short, true, true
		}
	}
	if !rec.Reproduced {
		ok := true
		for i := 0; i < 2 && ok; i++ {
			ok = same(zzG06RunHistory(wk.g.u, wk.base, hist))
		}
		rec.History, rec.Reproduced = hist, ok
	}
	wk.mu.Lock()
	if !rec.Reproduced {
		rec.Kind = "flaky"
		wk.flaky++
	}
	wk.w.put(rec)
	wk.mu.Unlock()
}

func (wk *zzG06Walk) worker(t testing.TB, id int) {
	rng := rand.New(rand.NewSource(zzG06Seed()*1000 + int64(id)))
	y, err := zzG06NewSys(wk.g.u, wk.base)
	if err != nil {
		t.Errorf("worker %d: %v", id, err)
		wk.stop.Store(true)

		return
	}
	defer y.close()
	cur := y.abs()
	hist := []zzG06Act{}
	isIdle := false
	var path []zzG06Hop
	reset := func() {
		path = nil
		if err = y.reset(); err != nil {
			t.Errorf("worker %d: reset: %v", id, err)
			wk.stop.Store(true)
		}
		cur = y.abs()
		hist = hist[:0]
		wk.mu.Lock()
		wk.resets++
		wk.mu.Unlock()
	}
	for !wk.stop.Load() {
		if wk.opts.MaxSteps > 0 && wk.steps.Load() >= wk.opts.MaxSteps || time.Now().After(wk.deadline) {
			wk.stop.Store(true)

			break
		}
		if len(hist) >= wk.opts.ResetEvery {
			reset()
		}
		wk.mu.Lock()
		n := wk.node(cur, rng)
		ai := -1
		if len(n.remain) > 0 {
			ai = n.remain[len(n.remain)-1]
			n.remain = n.remain[:len(n.remain)-1]
			path = nil
		} else {
			if len(path) == 0 {
				path = wk.plan(n)
			}
			if len(path) > 0 {
				ai = path[0].act
			}
		}
		if ai < 0 {
			atInit := len(cur.Ls) == 0 && len(hist) == 0
			if atInit {
				if !isIdle {
					isIdle = true
					wk.idle++
				}
				done := wk.idle >= wk.opts.Workers
				wk.mu.Unlock()
				if done {
					return
				}
				time.Sleep(2 * time.Millisecond)

				continue
			}
			wk.mu.Unlock()
			reset()

			continue
		}
		if isIdle {
			isIdle = false
			wk.idle--
		}
		wk.mu.Unlock()

		a := wk.g.acts[ai]
		a.V = rng.Intn(256)
		src := cur
		r, xerr := y.exec(a)
		if xerr != nil {
			t.Errorf("worker %d: exec %v: %v", id, a, xerr)
			wk.stop.Store(true)

			return
		}
		post := y.abs()
		hist = append(hist, a)
		wk.steps.Add(1)
		why, want := zzG06Judge(wk.g, a, src, r, post)

		wk.mu.Lock()
		srcKey := wk.nodeKey(src)
		goOn := why == "" || (wk.g.nodes[post.full()] != nil && zzG06Soft(post.Prob))
		if goOn {
			d := wk.node(post, rng)
			wk.link(n, ai, d)
			if len(path) > 0 {
				if path[0].act == ai && path[0].dst == d.id {
					path = path[1:]
				} else {
					path = nil
				}
			}
		} else {
			n.succ[ai] = -1
			path = nil
		}
		if post.key != src.key {
			wk.nontriv[src.key+"|"+a.key()] = true
		}
		if len(wk.samples) < 4 && post.key != src.key && rng.Intn(50) == 0 {
			wk.samples = append(wk.samples, map[string]any{"src": src.Ls, "act": a, "reply": r, "dst": post.Ls, "disk": post.Disk})
		}
		wk.mu.Unlock()

		cur = post
		if why == "" {
			continue
		}
		wk.report(a, srcKey, src, want, why, r, post, append([]zzG06Act{}, hist...))
		if !goOn {
			wk.mu.Lock()
			wk.truncated++
			wk.mu.Unlock()
			reset()
		}
	}
}

func zzG06Base(t testing.TB) (base string) {
	base = zzG06Getenv("VERIF_TMP")
	if base == "" {
		base = t.TempDir()
	}

	return base
}

// TestZZVerifG06Walk is direction A.
func TestZZVerifG06Walk(t *testing.T) {
	hdr := zzG06Header(t)
	g := zzG06LoadGraph(t, hdr)
	w := zzG06NewWriter(t, "VERIF_OUT")
	defer w.close()
	opts := hdr.Opts
	if opts.Workers <= 0 {
		opts.Workers = 1
	}
	if opts.ResetEvery <= 0 {
		opts.ResetEvery = 400
	}
	if opts.MaxRepro <= 0 {
		opts.MaxRepro = 3
	}
	if opts.DeadlineS <= 0 {
		opts.DeadlineS = 600
	}
	wk := &zzG06Walk{g: g, opts: opts, base: zzG06Base(t), w: w, index: map[string]int{},
		looseLeft: 20000, sigs: map[string]int{}, nontriv: map[string]bool{}, deadline: time.Now().Add(time.Duration(opts.DeadlineS) * time.Second)}
	var wg sync.WaitGroup
	for i := 0; i < opts.Workers; i++ {
		wg.Add(1)
		go func(id int) {
			defer wg.Done()
			wk.worker(t, id)
		}(i)
	}
	wg.Wait()
	remaining, walkable := 0, 0
	states, tables := map[string]bool{}, map[string]bool{}
	for _, n := range wk.nodes {
		remaining += len(n.remain)
		states[n.state] = true
		tables[strings.SplitN(n.state, "||", 2)[0]] = true
		if g.nodes[n.state] != nil {
			walkable++
		}
	}
	w.put(map[string]any{
		"kind": "summary", "steps": wk.steps.Load(), "nodes": len(wk.nodes), "walkable_nodes": walkable,
		"abstract_states": len(states), "abstract_tables": len(tables), "spec_states": len(g.nodes), "spec_tables": len(g.tables),
		"alphabet": len(g.acts), "remaining": remaining, "closed": remaining == 0 && !t.Failed(),
		"bad": wk.bad, "flaky": wk.flaky, "truncated": wk.truncated, "resets": wk.resets,
		"spec_changing": g.changes, "nontrivial": len(wk.nontriv), "samples": wk.samples, "order": opts.Order, "workers": opts.Workers,
	})
}

// TestZZVerifG06Replay re-runs stored histories ({"univ":…, "history":[…]} per
// line of VERIF_IN) and writes what the last step did.
func TestZZVerifG06Replay(t *testing.T) {
	w := zzG06NewWriter(t, "VERIF_OUT")
	defer w.close()
	base := zzG06Base(t)
	zzG06ReadNDJSON(t, "VERIF_IN", func(line []byte) {
		var rec struct {
			Univ    *zzG06Univ `json:"univ"`
			History []zzG06Act `json:"history"`
			Seed    int64      `json:"seed"`
		}
		if err := json.Unmarshal(line, &rec); err != nil || rec.Univ == nil || len(rec.History) == 0 {
			t.Fatalf("bad replay record: %v", err)
		}
		if rec.Seed == 0 {
			rec.Seed = zzG06Seed()
		}
		rec.Univ.init(rec.Seed)
		src, r, post, err := zzG06RunHistory(rec.Univ, base, rec.History)
		if err != nil {
			w.put(map[string]any{"kind": "error", "error": err.Error()})

			return
		}
		w.put(map[string]any{"kind": "replayed", "src": src.Ls, "srcdisk": src.Disk, "srcprob": src.Prob, "reply": r, "post": post,
			"act": rec.History[len(rec.History)-1]})
	})
}

// ---------------------------------------------------------- direction B

type zzG06TraceLine struct {
	Reset   bool       `json:"reset"`
	Act     zzG06Act   `json:"act"`
	Src     []zzG06L   `json:"src"`
	Dst     []zzG06L   `json:"dst"`
	Disk    []zzG06L   `json:"disk"`
	Out     zzG06Reply `json:"out"`
	Prob    []string   `json:"prob"`
	SrcProb []string   `json:"srcprob"`
	SrcDisk []zzG06L   `json:"srcdisk"`
	Run     int        `json:"run"`
	Step    int        `json:"step"`
}

// zzG06Pick draws the next call of a random history, biased towards calls
// that concern leases of the current table.
func zzG06Pick(u *zzG06Univ, rng *rand.Rand, cur *zzG06Obs) (a zzG06Act) {
	addrs := u.addAddrs()
	pickMac := func() string { return u.Macs[rng.Intn(len(u.Macs))] }
	pickHost := func() string { return u.Hosts[rng.Intn(len(u.Hosts))] }
	var mine *zzG06L
	if len(cur.Ls) > 0 && rng.Intn(4) != 0 {
		mine = &cur.Ls[rng.Intn(len(cur.Ls))]
		if mine.IP < 0 || strings.HasPrefix(mine.Mac, "?") || strings.HasPrefix(mine.Host, "?") {
			mine = nil
		}
	}
	a.V = rng.Intn(256)
	switch x := rng.Intn(100); {
	case x < 45:
		a.Name, a.M, a.A, a.H = "AddLease", pickMac(), addrs[rng.Intn(len(addrs))], pickHost()
		a.Kind = "static"
		if u.isPool[a.A] && rng.Intn(2) == 0 {
			a.Kind = "dynamic"
		}
	case x < 68:
		a.Name, a.M, a.A, a.H = "UpdateStatic", pickMac(), addrs[rng.Intn(len(addrs))], pickHost()
		if mine != nil {
			// Mostly the client of an existing lease, often on its network,
			// sometimes with the name of another lease.
			a.M = mine.Mac
			if rng.Intn(3) != 0 {
				same := []int{}
				for _, x := range addrs {
					if x/10 == mine.IP/10 {
						same = append(same, x)
					}
				}
				a.A = same[rng.Intn(len(same))]
			}
			if rng.Intn(3) == 0 {
				a.H = cur.Ls[rng.Intn(len(cur.Ls))].Host
			}
		}
	case x < 93:
		a.Name, a.M, a.A, a.H = "RemoveLease", pickMac(), addrs[rng.Intn(len(addrs))], pickHost()
		if mine != nil {
			a.M, a.A, a.H = mine.Mac, mine.IP, mine.Host
			// Sometimes one identifier is that of another lease.
			other := cur.Ls[rng.Intn(len(cur.Ls))]
			switch rng.Intn(8) {
			case 0:
				a.M = other.Mac
			case 1:
				a.A = other.IP
			case 2:
				a.H = other.Host
			}
		}
	case x < 95:
		a.Name = "Reset"
	default:
		a.Name = "Restart"
	}
	if strings.HasPrefix(a.M, "?") || strings.HasPrefix(a.H, "?") || a.A < 0 {
		a.M, a.H, a.A = pickMac(), pickHost(), addrs[0]
	}

	return a
}

// zzG06WellFormed reports whether ls can be a table of the specification at
// all: one lease per address, per name and per client and network.
func zzG06WellFormed(ls []zzG06L) (ok bool) {
	seen := map[string]bool{}
	for _, l := range ls {
		for _, k := range []string{"m" + l.Mac + "/" + strconv.Itoa(l.IP/10), "i" + strconv.Itoa(l.IP), "h" + l.Host} {
			if seen[k] {
				return false
			}
			seen[k] = true
		}
		if l.IP < 0 || strings.HasPrefix(l.Mac, "?") || strings.HasPrefix(l.Host, "?") {
			return false
		}
	}

	return true
}

// TestZZVerifG06Trace is direction B: random histories, recorded.
func TestZZVerifG06Trace(t *testing.T) {
	hdr := zzG06Header(t)
	w := zzG06NewWriter(t, "VERIF_OUT")
	defer w.close()
	u := hdr.Univ
	rng := rand.New(rand.NewSource(zzG06Seed()))
	base := zzG06Base(t)
	for run := 0; run < hdr.Opts.TraceRuns; run++ {
		y, err := zzG06NewSys(u, base)
		if err != nil {
			t.Fatalf("new: %v", err)
		}
		cur := y.abs()
		fresh := true
		for step := 0; step < hdr.Opts.TraceSteps; step++ {
			a := zzG06Pick(u, rng, cur)
			r, xerr := y.exec(a)
			if xerr != nil {
				t.Fatalf("run %d step %d %v: %v", run, step, a, xerr)
			}
			post := y.abs()
			w.put(&zzG06TraceLine{Reset: fresh, Act: a, Src: cur.Ls, Dst: post.Ls, Disk: post.Disk, Out: r,
				Prob: post.Prob, SrcProb: cur.Prob, SrcDisk: cur.Disk, Run: run, Step: step})
			fresh = false
			cur = post
			if !zzG06Soft(post.Prob) || !zzG06WellFormed(post.Ls) || !zzG06WellFormed(post.Disk) || u.onGateway(post.Ls) {
				// Not a state of the specification any more: start afresh.
				if err = y.reset(); err != nil {
					t.Fatalf("reset: %v", err)
				}
				cur = y.abs()
				fresh = true
			}
		}
		y.close()
	}
}
