----------------------------- MODULE RuleEngine -----------------------------
(***************************************************************************)
(* Transcription of the DNS rule precedence of the external rule engine    *)
(* github.com/AdguardTeam/urlfilter v0.20.0 (DNSEngine.MatchRequest,       *)
(* rules.NetworkRule.Match / IsHigherPriority, rules.GetDNSBasicRule,      *)
(* rules.HostRule.Match) restricted to the rule family of DESIGN.md        *)
(* section 4 C01, plus the way internal/filtering/filtering.go:matchHost   *)
(* combines the allow engine and the block engine.                         *)
(*                                                                         *)
(* This module is written from the code (the statements of C01/C02 defer   *)
(* to the "documented mechanism" for precedence); it is validated by the   *)
(* unchanged-tree direction-A run of C01/C02.                              *)
(*                                                                         *)
(* Vocabulary                                                              *)
(*   host   [isip |-> BOOLEAN, n |-> sequence of labels]; an IP literal    *)
(*          (only met when answers are filtered, C02) is [isip |-> TRUE,   *)
(*          n |-> <<token>>].                                              *)
(*   rule   [place, kind, pat, tgt, imp, dt, dtype, cl, clv, da, ip, bad]  *)
(*     place  "allow" | "block" | "custom" | "offallow" | "offblock"       *)
(*            (allow list, block list, custom rules; off* = a list whose   *)
(*            Enabled flag is false)                                       *)
(*     kind   "block"  network rule        ||n^  |n|  *.n                   *)
(*            "allow"  exception rule    @@||n^ ...                        *)
(*            "hosts"  hosts-style line  "IP n"  or a bare domain "n"      *)
(*     pat    "exact" | "domain" (n and every subdomain) | "wild" (proper  *)
(*            subdomains only)                                             *)
(*     tgt    host the pattern is written for                              *)
(*     imp    $important                                                   *)
(*     dt     "none" | "only" | "except"  with dtype: $dnstype=T / =~T     *)
(*     cl     "none" | "only" | "except"  $client=c1 / =~c1; clv says how  *)
(*            c1 is spelled: "ip", "cidr" (a prefix containing c1 and not  *)
(*            c2) or "name" (the persistent client's name)                 *)
(*     da     sequence of names: $denyallow=n1|n2                          *)
(*     ip     address token of a hosts line ("null4" for a bare domain)    *)
(*     bad    $badfilter                                                   *)
(*   rq     [host, rrtype, c1 |-> BOOLEAN (the source address is c1's),    *)
(*           named |-> BOOLEAN (the request was identified as the          *)
(*           persistent client's, so its name is known to the engine)]     *)
(***************************************************************************)
EXTENDS Sequences, Naturals, FiniteSets

IsSuffix(s, t) == Len(s) <= Len(t) /\ SubSeq(t, Len(t) - Len(s) + 1, Len(t)) = s
\* h is n or a subdomain of n (label-wise; "xa.com" is not under "a.com").
SubOrEq(h, n) == IsSuffix(n, h)
IsProperSub(h, n) == Len(h) > Len(n) /\ IsSuffix(n, h)

NameHost(n) == [isip |-> FALSE, n |-> n]
IPHost(tok) == [isip |-> TRUE, n |-> <<tok>>]

V6Tokens == {"r6", "i6", "j6", "null6", "cust6", "cust6b", "sent6"}
IsV6(tok) == tok \in V6Tokens

SeqRange(s) == {s[i] : i \in DOMAIN s}

\* ------------------------------------------------------------ network rules
\* rules/regex.go patternToRegexp: "||n^" is anchored at a label boundary on
\* the left and at a separator/end on the right; "|n|" is the whole host
\* name; "*.n" (any spelling used by the harness) needs at least one more
\* label.  IP literals never have subdomains.
MatchPat(r, h) ==
    /\ r.tgt.isip = h.isip
    /\ CASE r.pat = "exact"  -> h.n = r.tgt.n
         [] r.pat = "domain" -> IF h.isip THEN h.n = r.tgt.n ELSE SubOrEq(h.n, r.tgt.n)
         [] r.pat = "wild"   -> ~h.isip /\ IsProperSub(h.n, r.tgt.n)

\* NetworkRule.matchDNSType: restricted types first, then permitted.
DnsTypeOK(r, t) ==
    CASE r.dt = "none"   -> TRUE
      [] r.dt = "only"   -> t = r.dtype
      [] r.dt = "except" -> t # r.dtype

\* NetworkRule.matchClient: by address, by prefix, or by the persistent
\* client's name (empty for clients that are not persistent).
\* (c1: the source address is c1's; named: the request was identified as the
\* persistent client's, by ClientID or by address.)
IsClient(r, rq) == IF r.clv = "name" THEN rq.named ELSE rq.c1
ClientOK(r, rq) ==
    CASE r.cl = "none"   -> TRUE
      [] r.cl = "only"   -> IsClient(r, rq)
      [] r.cl = "except" -> ~IsClient(r, rq)

\* NetworkRule.matchRequestDomain: a rule with $denyallow never applies to an
\* IP literal, and does not apply to the listed domains and their subdomains.
DenyAllowOK(r, h) ==
    \/ Len(r.da) = 0
    \/ /\ ~h.isip
       /\ \A i \in DOMAIN r.da : ~SubOrEq(h.n, r.da[i])

IsNet(r) == r.kind \in {"block", "allow"}

NetMatches(r, rq) ==
    /\ IsNet(r)
    /\ MatchPat(r, rq.host)
    /\ DnsTypeOK(r, rq.rrtype)
    /\ ClientOK(r, rq)
    /\ DenyAllowOK(r, rq.host)

\* NetworkRule.negatesBadfilter.  The library compares polarity, pattern,
\* options and $client, but neither $dnstype nor $denyallow; rule sets in
\* which that difference would be visible are not generated (Ambiguous
\* below), because the documentation says "the same rule text".
Negates(b, r) ==
    /\ b.bad /\ ~r.bad
    /\ b.kind = r.kind /\ b.pat = r.pat /\ b.tgt = r.tgt /\ b.imp = r.imp
    /\ b.cl = r.cl /\ b.clv = r.clv

\* Rule sets outside the transcribed family: a $badfilter rule next to a rule
\* that differs from its twin only in $dnstype/$denyallow, or more than one
\* $badfilter rule in one engine (urlfilter's removeBadfilterRules then keeps
\* rules it should drop; $badfilter is not among the modifiers quantified by
\* C01, so this is recorded in notes/C01.md and not modelled).
Ambiguous(rs) ==
    \/ \E b \in rs, r \in rs :
          Negates(b, r) /\ (r.dt # b.dt \/ r.dtype # b.dtype \/ r.da # b.da)
    \/ \E b1 \in rs, b2 \in rs : b1.bad /\ b2.bad /\ b1 # b2
    \/ \E b \in rs : b.bad /\ (b.dt # "none" \/ Len(b.da) # 0)

\* rules.GetDNSBasicRule + IsHigherPriority: allow+important > important >
\* allow > block.  Only the class of the winner matters for the verdict.
Rank(r) == IF r.kind = "allow" /\ r.imp THEN 4
           ELSE IF r.imp THEN 3
           ELSE IF r.kind = "allow" THEN 2 ELSE 1

\* ---------------------------------------------------------------- one engine
\* DNSEngine.MatchRequest over the rule set rs:
\*   [k |-> "none"]                       nothing matched
\*   [k |-> "net", allow |-> BOOLEAN]     a network rule decides (any matching
\*                                        network rule beats hosts lines)
\*   [k |-> "hosts", v4, v6]              address tokens of the matching
\*                                        hosts-style lines, by family
Engine(rs, rq) ==
    LET m    == {r \in rs : NetMatches(r, rq)}
        bads == {r \in m : r.bad}
        live == {r \in m : ~r.bad /\ ~\E b \in bads : Negates(b, r)}
    IN IF live # {}
       THEN LET top == CHOOSE r \in live : \A o \in live : Rank(r) >= Rank(o)
            IN [k |-> "net", allow |-> (top.kind = "allow"), v4 |-> {}, v6 |-> {}]
       ELSE LET hs == {r \in rs : r.kind = "hosts" /\ ~rq.host.isip /\ r.tgt.n = rq.host.n}
            IN IF hs = {} THEN [k |-> "none", allow |-> FALSE, v4 |-> {}, v6 |-> {}]
               ELSE [k |-> "hosts", allow |-> FALSE,
                     v4 |-> {r.ip : r \in {x \in hs : ~IsV6(x.ip)}},
                     v6 |-> {r.ip : r \in {x \in hs : IsV6(x.ip)}}]

\* -------------------------------------------------- the two engines together
\* filtering.DNSFilter.matchHost.  The allow engine is built from the enabled
\* allow lists, the block engine from the custom rules and the enabled block
\* lists.  In the allow engine ANY match allows, whatever the rule's own
\* polarity.  Result: [why, ips, hosts]
\*   why   "N" nothing matched   "A" allowed   "B" blocked
\*   ips   address tokens to answer with (hosts lines of the asked family)
\*   hosts TRUE when the block comes from hosts-style lines
AllowRules(rules) == {r \in rules : r.place = "allow"}
BlockRules(rules) == {r \in rules : r.place \in {"block", "custom"}}

NotFound == [why |-> "N", ips |-> {}, hosts |-> FALSE]
Allowed  == [why |-> "A", ips |-> {}, hosts |-> FALSE]

MatchHost(rules, filt, prot, rq) ==
    IF ~filt THEN NotFound
    ELSE IF prot /\ Engine(AllowRules(rules), rq).k # "none" THEN Allowed
    ELSE LET e == Engine(BlockRules(rules), rq) IN
         IF e.k = "none" \/ ~prot THEN NotFound
         ELSE IF e.k = "net" THEN (IF e.allow THEN Allowed ELSE [why |-> "B", ips |-> {}, hosts |-> FALSE])
         ELSE [why |-> "B", hosts |-> TRUE,
               ips |-> CASE rq.rrtype = "A"    -> e.v4
                         [] rq.rrtype = "AAAA" -> e.v6
                         [] OTHER              -> {}]
=============================================================================
