SPECIFICATION Spec
INVARIANTS InEffectIsLastAccepted RejectedChangesNothing InEffectWellFormed UniverseDecided
