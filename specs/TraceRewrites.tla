--------------------------- MODULE TraceRewrites ---------------------------
(***************************************************************************)
(* Direction B for C06.  A trace line is one of                            *)
(*   lvl = "filt"  a random rewrite table of 10-20 entries (multi-level    *)
(*                 wildcards, chains, cycles, duplicates, keywords, some   *)
(*                 canonical names written in another letter case) with    *)
(*                 the queries put to filtering.CheckHost and its results: *)
(*                 rewritten or not, canonical name, address list;         *)
(*   lvl = "pipe"  the same kind of table with what a DNS client and the   *)
(*                 upstream saw when the query went through the real       *)
(*                 dnsforward.Server;                                      *)
(*   lvl = "hist"  one step in the life of ONE filter whose table is       *)
(*                 edited through the API: "reset" (new, empty filter) or  *)
(*                 a configuration save, or                                *)
(*                 an edit add / del / upd with its arguments, whether the *)
(*                 call succeeded, the table the API lists afterwards, and *)
(*                 the queries asked after the edit (half of them asked    *)
(*                 before already) with their results.                     *)
(* The oracle is RewritesCore's own Outcomes / Serve / TabAdd / TabDelete  *)
(* / TabUpdate: an observation is accepted iff it is the projection of an  *)
(* outcome admissible for the CURRENT table (cur), which for "hist" lines  *)
(* is the result of applying the logged edits with the specification's     *)
(* operators -- and must be the table the API lists.  Rejected             *)
(* observations are reported as [line, query number (0 = the edit          *)
(* itself), what was admissible, which known deviation would admit it].    *)
(***************************************************************************)
EXTENDS RewritesCore, TLC, Json

Trace == ndJsonDeserialize("trace.ndjson")

VARIABLES l, bad, cur

ToSet(s) == {s[i] : i \in DOMAIN s}

\* Entries carry mc = "the canonical name is written in another letter case";
\* the specification does not care (RewritesCore: letter case), the logged table
\* has all names folded.
Admitted(tab, h, qt) == Outcomes(tab, h, qt)

\* What the mock upstream did when asked for name n: logged per line as a
\* list of <<name, mode>> for the names that are not simply answered.
ModeIn(upm, n) == IF \E p \in ToSet(upm) : p[1] = n
                  THEN (CHOOSE p \in ToSet(upm) : p[1] = n)[2] ELSE "answer"

\* filtering level: [h, qt, r, canon, ips]
FiltIn(outs, x) ==
    \E o \in outs : o.r = x.r /\ o.canon = x.canon /\ o.ips = ToSet(x.ips)

\* pipeline level: [h, qt, ask, rcode, qok, cname, ips, fromup, odd, answered].
\* The reply always carries the client's own question (qok); anyq is only used
\* when attributing a rejected observation to the finding about error replies.
PipeIn(outs, upm, x, anyq) ==
    /\ x.answered /\ x.odd = ""
    /\ \E o \in outs :
         LET e == Serve(o, x.h, x.qt, LAMBDA n : ModeIn(upm, n)) IN
         /\ x.qok \/ (anyq /\ \E a \in e.ask : ModeIn(upm, a[1]) = "error")
         /\ e.rcode = x.rcode
         /\ e.ask = {<<a[1], a[2]>> : a \in ToSet(x.ask)}
         /\ Len(x.ask) = Cardinality(e.ask)
         /\ e.cname = x.cname \/ (e.cnameopt /\ x.cname = NoName)
         /\ e.ips = ToSet(x.ips)
         /\ e.fromup = x.fromup

ObsOK(lvl, outs, upm, x) == IF lvl = "pipe" THEN PipeIn(outs, upm, x, FALSE) ELSE FiltIn(outs, x)

\* What the specification admits for a query, in the vocabulary of the trace
\* (reported with every rejected observation).
Expected(lvl, tab, upm, x) ==
    IF lvl = "pipe" THEN {Serve(o, x.h, x.qt, LAMBDA n : ModeIn(upm, n)) : o \in Admitted(tab, x.h, x.qt)}
    ELSE {[r |-> o.r, canon |-> o.canon, ips |-> o.ips] : o \in Admitted(tab, x.h, x.qt)}

(***************************************************************************)
(* Attribution of a rejected observation to the known deviations (findings)*)
(* that explain it: a smallest set S of deviations under which it is       *)
(* accepted.  S ranges over the three deviations of RewritesCore ("tie",   *)
(* "exact", "late"), "case" (canonical names written in another case are   *)
(* read verbatim), and the two deviations of the pipeline, "fwd" and "err".*)
(* bt is the table of admissible sets for every choice of the first four,  *)
(* evaluated once per rejected observation.                                *)
(***************************************************************************)
AllDevs == Deviations \cup {"case", "fwd", "err"}
BaseTable(tab, x) ==
    LET mixed(i) == tab[i].mc IN
    [L \in SUBSET Deviations, c \in BOOLEAN |->
        IF c THEN OutcomesVerbatim(tab, mixed, x.h, x.qt, L) ELSE OutcomesL(tab, x.h, x.qt, L)]
Under(lvl, bt, upm, x, S) ==
    LET outs == bt[S \cap Deviations, "case" \in S] IN
    IF lvl = "pipe" THEN PipeIn(IF "fwd" \in S THEN Forwarded(outs) ELSE outs, upm, x, "err" \in S)
    ELSE "fwd" \notin S /\ "err" \notin S /\ FiltIn(outs, x)
Explaining(lvl, bt, upm, x) == {S \in SUBSET AllDevs : Under(lvl, bt, upm, x, S)}
Smallest(good) ==
    IF good = {} THEN [found |-> FALSE, devs |-> {}]
    ELSE \* smallest; among equally small ones rather one that does not blame the letter case
         LET W(S) == 2 * Cardinality(S) + (IF "case" \in S THEN 1 ELSE 0) IN
         [found |-> TRUE, devs |-> CHOOSE S \in good : \A T \in good : W(S) <= W(T)]
Deviation(lvl, tab, upm, x) == Smallest(Explaining(lvl, BaseTable(tab, x), upm, x))

RECURSIVE BadFrom(_, _, _)
BadFrom(i, j, tab) ==
    LET ln == Trace[i] IN
    IF j > Len(ln.qs) THEN <<>>
    ELSE LET x == ln.qs[j]
             lvl == IF ln.lvl = "pipe" THEN "pipe" ELSE "filt"
             upm == IF ln.lvl = "pipe" THEN ln.upm ELSE <<>>
             ok == ObsOK(lvl, Admitted(tab, x.h, x.qt), upm, x) IN
         (IF ok THEN <<>> ELSE <<[l |-> i, q |-> j, exp |-> Expected(lvl, tab, upm, x),
                                  dev |-> Deviation(lvl, tab, upm, x)]>>)
           \o BadFrom(i, j + 1, tab)

\* The table after line i.
After(i) ==
    LET ln == Trace[i] IN
    IF ln.lvl # "hist" THEN [ok |-> TRUE, tab |-> ln.tab]
    ELSE IF ln.ev = "reset" THEN [ok |-> TRUE, tab |-> <<>>]
    ELSE IF ln.ev = "save" THEN [ok |-> TRUE, tab |-> TabSave(cur)]
    ELSE IF ln.ev = "add" THEN [ok |-> TRUE, tab |-> TabAdd(cur, ln.a)]
    ELSE IF ln.ev = "del" THEN [ok |-> TRUE, tab |-> TabDelete(cur, ln.a)]
    ELSE TabUpdate(cur, ln.a, ln.b)

\* The edit did what the specification says: same success, same table listed.
EditOK(i, r) ==
    LET ln == Trace[i] IN
    ln.lvl = "hist" /\ ln.ev # "reset" => ln.ok = r.ok /\ ln.list = r.tab

Init == l = 1 /\ bad = <<>> /\ cur = <<>>
Next == /\ l <= Len(Trace)
        /\ LET r == After(l) IN
           /\ cur' = IF Trace[l].lvl = "hist" THEN r.tab ELSE cur
           /\ bad' = bad \o (IF EditOK(l, r) THEN <<>> ELSE <<[l |-> l, q |-> 0, exp |-> {}, dev |-> [found |-> FALSE, devs |-> {}]]>>)
                         \o BadFrom(l, 1, r.tab)
        /\ l' = l + 1
        /\ (l' = Len(Trace) + 1 => PrintT(<<"@@V", ToJson([n |-> Len(Trace), bad |-> bad'])>>))
Spec == Init /\ [][Next]_<<l, bad, cur>>
=============================================================================
