------------------------------- MODULE Dhcp6 -------------------------------
(***************************************************************************)
(* G06 (A) -- the DHCPv6 lease table, in the image of C10's Dhcp4.         *)
(*                                                                         *)
(* The module EXTENDS Dhcp4 and reuses its vocabulary unchanged: the table *)
(* is ONE set `ls' of leases [mac, ip, st, rem, host], `disk' is the       *)
(* persisted table, replies are Offer (ADVERTISE carrying an address), Ack *)
(* (REPLY carrying an address), Refuse (no address / no reply), AnyR, Ok,  *)
(* Err; FreeAddrs / Recyclable / Allocs / DiscoverOut / ExpireOut /        *)
(* ReleaseOut / RemoveStaticOut / Statics / UpdEnabled are Dhcp4's.  Only  *)
(* what the DHCPv6 documentation states differently (or does not state) is *)
(* written here.  Relied upon from Dhcp4 (its interface as of this round): *)
(*   constants  Macs, Pool, Outs, GW, Far, ReqHosts, BadHosts, StaticHosts, *)
(*              MaxStatic, LeaseT; variables ls, disk, vars                *)
(*   operators  Lease (constructor: the record's fields other than mac,    *)
(*              ip, st, host are never touched here), Of, On, Held, Outc,  *)
(*              Offer, Ack, Refuse, AnyR, Ok, Err, None, Allocs,           *)
(*              DiscoverOut, ExpireOut, ReleaseOut, RemoveStaticOut,       *)
(*              Statics, UpdEnabled, Gives, EncS                           *)
(*   invariants OneHolderPerAddress, KeyedByAddress, OneLeasePerClient,    *)
(*              DynamicInsidePool, RemBounded, BoundedStatics              *)
(* Dhcp4's clock (lease field rem, Tick) is used with LeaseT = 1: a        *)
(* dynamic lease is acknowledged-and-unexpired (rem = 1) or not (rem = 0); *)
(* time passes through Expire only.  BadHosts is empty and ReqHosts {""}:  *)
(* DHCPv6 clients send no host name.                                       *)
(*                                                                         *)
(* What the sources of the statement say about DHCPv6 (AGHTechDoc "For v6, *)
(* if range_start = 2001::1, the last IP is 2001::ff"; config.go "The      *)
(* first IP address for dynamic leases / the last allowed IP address ends  *)
(* with 0xff byte"; the message flows in the comment above packetHandler;  *)
(* openapi dhcp endpoints; dhcpd.Interface and DHCPServer doc comments):   *)
(*   - there is no subnet mask and no gateway: Pool is range_start..::ff,  *)
(*     Outs are addresses a reservation may use outside it (the same /120  *)
(*     below range_start, or another prefix altogether).  GW and Far of    *)
(*     Dhcp4 are set to values outside the universe by the configuration.  *)
(*   - clients do not send host names; only reservations carry one.  No    *)
(*     uniqueness of names is documented for v6 (and dhcpd.Interface says  *)
(*     HostByIP/IPByHost are not implemented for DHCPv6), so a reservation *)
(*     whose name is already used MAY be refused or accepted.              *)
(*   - RELEASE is listed as a flow without any server behaviour, DECLINE   *)
(*     is not mentioned: both MAY drop the client's dynamic lease or leave *)
(*     the table alone.                                                    *)
(*   - nothing says that an address merely ADVERTISEd (never REQUESTed) is *)
(*     written to the database.  A lease is "held" when it is a            *)
(*     reservation or acknowledged and unexpired; the database must list   *)
(*     exactly the HELD leases of memory; for leases nobody holds (offered *)
(*     or expired) it may lag behind.                                      *)
(***************************************************************************)
EXTENDS Dhcp4

HeldPart(S) == {l \in S : Held(l)}

\* ------------------------------------------------------------------ SOLICIT
\* Exactly Dhcp4's DISCOVER: a client that has a lease of any kind is
\* advertised that address; a new client is advertised a free or recyclable
\* pool address and the table records it (not acknowledged); only when every
\* pool address is held is the client left without an address.
Solicit6Out(S, m) == DiscoverOut(S, m)

\* ------------------------------------- REQUEST / RENEW / REBIND / CONFIRM
\* "Request|Confirm|Renew|Rebind + IANA(IAAddress) -> Reply + IANA(IAAddress)":
\* answered with the address iff the address named is the client's own lease.
\* REQUEST, RENEW and REBIND acknowledge a dynamic lease (fresh expiry);
\* CONFIRM only asks, so the table does not change; whether a lease nobody
\* holds (offered, expired) is confirmed the documentation does not say.
\* The lease keeps whatever name it has: v6 clients do not send one.
Kinds6 == {"request", "renew", "rebind", "confirm"}
Request6Out(S, m, kind, a) ==
    LET mine == {l \in Of(S, m) : l.ip = a} IN
    IF mine = {} THEN {Outc(S, Refuse)}
    ELSE LET l == CHOOSE x \in mine : TRUE IN
         IF l.st THEN {Outc(S, Ack(a))}
         ELSE IF kind = "confirm"
              THEN {Outc(S, Ack(a))} \cup (IF Held(l) THEN {} ELSE {Outc(S, Refuse)})
              ELSE {Outc((S \ {l}) \cup {Lease(m, a, FALSE, TRUE, l.host)}, Ack(a))}

\* -------------------------------------------------------- RELEASE / DECLINE
\* Dhcp4's RELEASE (the dynamic lease is dropped), or nothing at all (see the
\* head comment).  DECLINE likewise; as in Dhcp4 the server may in the same
\* step hand the client another lease (offered or acknowledged), but v6 has
\* no names derived from addresses.  Reservations are not affected.
Release6Out(S, m, a) == ReleaseOut(S, m, a) \cup {Outc(S, AnyR)}
Decline6Out(S, m, a) ==
    LET mine == {l \in Of(S, m) : l.ip = a /\ ~l.st} IN
    IF mine = {} THEN {Outc(S, AnyR)}
    ELSE LET l  == CHOOSE x \in mine : TRUE
             S1 == S \ {l}
         IN  {Outc(S, AnyR), Outc(S1, AnyR)}
             \cup {Outc(T, AnyR) : T \in Allocs(S1, m, TRUE, {"", l.host}, FALSE)}
             \cup {Outc(T, AnyR) : T \in Allocs(S1, m, FALSE, {"", l.host}, FALSE)}

\* ------------------------------------------------------------- reservations
\* Add a reservation (m, a, h).  MUST be refused when the address or the
\* client already belongs to a reservation ("Adds a static lease"; a second
\* one for the same client or address would make one address have two
\* holders or a client two leases).  Otherwise carried out: dynamic leases of
\* the same client or on the same address disappear.  MAY be refused instead
\* when that takes an address away from ANOTHER client, or when the name is
\* already used by another lease.
AddStatic6Out(S, m, a, h) ==
    LET hard  == \E l \in Statics(S) : l.ip = a \/ l.mac = m
        evict == {l \in S : ~l.st /\ (l.mac = m \/ l.ip = a)}
        soft  == \E l \in S : \/ (~l.st /\ l.mac # m /\ l.ip = a)
                              \/ (h # "" /\ l.host = h)
        acc   == Outc((S \ evict) \cup {Lease(m, a, TRUE, TRUE, h)}, Ok)
    IN  IF hard THEN {Outc(S, Err)}
        ELSE {acc} \cup (IF soft THEN {Outc(S, Err)} ELSE {})

\* "Updates IP address, hostname of the static lease" of client m.  MUST be
\* refused when the client has no lease or the address belongs to another
\* client's reservation; MAY be refused when the client's lease is not a
\* reservation, no name is given, the address is another client's dynamic
\* lease (which is evicted otherwise) or the name is used by another lease.
UpdateStatic6Out(S, m, a, h) ==
    IF Of(S, m) = {} THEN {Outc(S, Err)}
    ELSE
    LET l      == CHOOSE x \in Of(S, m) : TRUE
        others == S \ {l}
        hard   == \E o \in others : o.st /\ o.ip = a
        evict  == {o \in others : ~o.st /\ o.ip = a}
        soft   == \/ ~l.st \/ h = "" \/ evict # {}
                  \/ \E o \in others : h # "" /\ o.host = h
        acc    == Outc((others \ evict) \cup {Lease(m, a, TRUE, TRUE, h)}, Ok)
    IN  IF hard THEN {Outc(S, Err)}
        ELSE {acc} \cup (IF soft THEN {Outc(S, Err)} ELSE {})

RemoveStatic6Out(S, m, a) == RemoveStaticOut(S, m, a)

\* ------------------------------------------------------------------ restart
\* The table is reloaded from the database D: every held lease comes back;
\* leases nobody holds may or may not.
Restart6Out(D) == {Outc(HeldPart(D) \cup X, None) : X \in SUBSET (D \ HeldPart(D))}

\* ----------------------------------------------------------------- database
\* What the database may look like after a step from (S, D) with outcome o:
\*   0 -- it must list exactly the new table;
\*   1 -- it may also have been left alone (no held lease changed);
\*   2 -- it must have been left alone (restart only reads it).
StoreRule(S, o) == IF HeldPart(o.dst) = HeldPart(S) THEN 1 ELSE 0
Disks(S, D, o, rule) == CASE rule = 0 -> {o.dst}
                          [] rule = 1 -> {o.dst, D}
                          [] OTHER    -> {D}

\* ------------------------------------------------------------------ actions
Take6(o) == ls' = o.dst /\ disk' \in Disks(ls, disk, o, StoreRule(ls, o))
Load6(o) == ls' = o.dst /\ UNCHANGED disk

Solicit6(m)            == \E o \in Solicit6Out(ls, m) : Take6(o)
Request6(m, k, a)      == \E o \in Request6Out(ls, m, k, a) : Take6(o)
Decline6(m, a)         == \E o \in Decline6Out(ls, m, a) : Take6(o)
Release6(m, a)         == \E o \in Release6Out(ls, m, a) : Take6(o)
Expire6(a)             == \E o \in ExpireOut(ls, a) : Take6(o)
AddStatic6(m, a, h)    == /\ Cardinality(Statics(ls)) < MaxStatic
                          /\ \E o \in AddStatic6Out(ls, m, a, h) : Take6(o)
UpdateStatic6(m, a, h) == /\ UpdEnabled(ls, m)
                          /\ \E o \in UpdateStatic6Out(ls, m, a, h) : Take6(o)
RemoveStatic6(m, a)    == \E o \in RemoveStatic6Out(ls, m, a) : Take6(o)
Restart6               == \E o \in Restart6Out(disk) : Load6(o)

\* Addresses a client may name / an administrator may reserve.
Addrs6 == Pool \cup Outs

Init6 == ls = {} /\ disk = {}

Next6 == \/ \E m \in Macs : Solicit6(m)
         \/ \E m \in Macs, k \in Kinds6, a \in Addrs6 : Request6(m, k, a)
         \/ \E m \in Macs, a \in Addrs6 : Decline6(m, a)
         \/ \E m \in Macs, a \in Addrs6 : Release6(m, a)
         \/ \E a \in Pool : Expire6(a)
         \/ \E m \in Macs, a \in Addrs6, h \in StaticHosts : AddStatic6(m, a, h)
         \/ \E m \in Macs, a \in Addrs6, h \in StaticHosts : UpdateStatic6(m, a, h)
         \/ \E m \in Macs, a \in Addrs6 : RemoveStatic6(m, a)
         \/ Restart6

Spec6 == Init6 /\ [][Next6]_vars

\* ------------------------------------------- the statement, as invariants
\* OneHolderPerAddress, KeyedByAddress, OneLeasePerClient, DynamicInsidePool
\* (dynamic leases only inside range_start..::ff, never on a reserved
\* address), RemBounded and BoundedStatics are Dhcp4's, evaluated on this
\* module's histories.
\*
\* A client with a reservation is only ever given that address.
ReservedClientGetsReservation6 ==
    \A l \in Statics(ls) :
      LET m == l.mac
          outs == Solicit6Out(ls, m)
                  \cup UNION {Request6Out(ls, m, k, a) : k \in Kinds6, a \in Addrs6}
                  \cup UNION {Decline6Out(ls, m, a) \cup Release6Out(ls, m, a) : a \in Addrs6}
      IN  \A o \in outs : /\ Gives(o) => o.out.ip = l.ip
                          /\ Of(o.dst, m) = {l}
\* A SOLICIT from a new client is answered with an address whenever some
\* address of the range is neither held nor reserved.
OfferWhenFree6 ==
    \A m \in Macs :
      (Of(ls, m) = {} /\ \E a \in Pool : \A l \in On(ls, a) : ~Held(l))
        => \A o \in Solicit6Out(ls, m) : o.out.k = "offer" /\ o.out.ip \in Pool
\* The database lists exactly the leases clients hold ...
HeldOnDisk == HeldPart(disk) = HeldPart(ls)
\* ... and is itself a table (one entry per address and per client).
DiskIsATable == /\ \A l1, l2 \in disk : l1.ip = l2.ip => l1 = l2
                /\ \A l1, l2 \in disk : l1.mac = l2.mac => l1 = l2
\* A restart restores every held lease, nothing that was not in the
\* database, and therefore the same client/address answers.
HeldAnswers(S) == {<<l.ip, l.mac, l.host>> : l \in HeldPart(S)}
RestartRestoresHeld ==
    \A o \in Restart6Out(disk) : /\ HeldPart(o.dst) = HeldPart(ls)
                                 /\ HeldAnswers(o.dst) = HeldAnswers(ls)
                                 /\ o.dst \subseteq disk

\* ----------------------------------------- emission for the Go harness (A)
\* One line per reachable state (table, database): every enabled action
\* instance whose outcome set is not the default "refused, nothing changes"
\* of its kind, with its outcomes <<same, dst, reply, address, store rule>>.
EncO6(S, o, rule) == IF o.dst = S THEN <<TRUE, {}, o.out.k, o.out.ip, rule>>
                     ELSE <<FALSE, EncS(o.dst), o.out.k, o.out.ip, rule>>
E6(S, name, m, k, a, h, outs, dflts) ==
    IF outs = {Outc(S, d) : d \in dflts} \/ outs = {} THEN {}
    ELSE {<<name, m, k, a, h, {EncO6(S, o, StoreRule(S, o)) : o \in outs}>>}
Edges6(S, D) ==
    UNION {E6(S, "Solicit", m, "", 0, "", Solicit6Out(S, m), {None}) : m \in Macs}
    \cup UNION {E6(S, "Request", m, k, a, "", Request6Out(S, m, k, a), {Refuse})
                : m \in Macs, k \in Kinds6, a \in Addrs6}
    \cup UNION {E6(S, "Decline", m, "", a, "", Decline6Out(S, m, a), {AnyR}) : m \in Macs, a \in Addrs6}
    \cup UNION {E6(S, "Release", m, "", a, "", Release6Out(S, m, a), {AnyR}) : m \in Macs, a \in Addrs6}
    \cup UNION {E6(S, "Expire", "", "", a, "", ExpireOut(S, a), {None}) : a \in Pool}
    \cup (IF Cardinality(Statics(S)) < MaxStatic
          THEN UNION {E6(S, "AddStatic", m, "", a, h, AddStatic6Out(S, m, a, h), {Err})
                      : m \in Macs, a \in Addrs6, h \in StaticHosts}
          ELSE {})
    \cup UNION {E6(S, "UpdateStatic", m, "", a, h, UpdateStatic6Out(S, m, a, h), {Err})
                : m \in {x \in Macs : UpdEnabled(S, x)}, a \in Addrs6, h \in StaticHosts}
    \cup UNION {E6(S, "RemoveStatic", m, "", a, "", RemoveStatic6Out(S, m, a), {Err, Ok}) : m \in Macs, a \in Addrs6}
    \cup {<<"Restart", "", "", 0, "", {EncO6(S, o, 2) : o \in Restart6Out(D)}>>}
EmitState6 ==
    PrintT(<<"@@V", ToJson([s |-> EncS(ls), d |-> EncS(disk),
                            noadd |-> Cardinality(Statics(ls)) >= MaxStatic,
                            noupd |-> {m \in Macs : ~UpdEnabled(ls, m)},
                            e |-> Edges6(ls, disk)])>>)
GenNext6 == EmitState6 /\ Next6
GenSpec6 == Init6 /\ [][GenNext6]_vars
=============================================================================
