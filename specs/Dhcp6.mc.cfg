SPECIFICATION GenSpec6
CONSTANTS
  Macs = {"m1", "m2", "m3"}
  Pool = {1, 2}
  Outs = {3, 4}
  GW = 98
  Far = 99
  ReqHosts = {""}
  BadHosts = {}
  StaticHosts = {"", "h1"}
  MaxStatic = 2
  LeaseT = 1
INVARIANTS
  OneHolderPerAddress KeyedByAddress OneLeasePerClient DynamicInsidePool
  ReservedClientGetsReservation6 OfferWhenFree6 HeldOnDisk DiskIsATable
  RestartRestoresHeld RemBounded BoundedStatics
