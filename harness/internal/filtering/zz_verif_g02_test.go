package filtering

// G02 conformance harness, filtering level ($dnsrewrite rules, system-hosts
// rewrites, precedence among legacy rewrites / hosts / $dnsrewrite / ordinary
// rules).
//
// Direction A (TestZZVerifG02Replay): every vector produced by TLC from
// specs/DnsRewrite.tla is one configuration (custom rules, allow list, hosts
// file, hosts_file_enabled, legacy rewrite table, filtering / protection
// switches) with the admissible outcomes of every question.  The configuration
// is rendered into real rule text / a real hosts file / a real rewrite table
// (seeded spellings: shorthand or full $dnsrewrite form, order of modifiers,
// order of rules and lines, letter case of the question), given to a real
// filtering.DNSFilter with a real aghnet.HostsContainer, and every question
// goes through the real CheckHost; the projected result must be in the
// admissible set.  ONE filter lives on through many configurations: it is
// reconfigured the way the running server is (POST
// /control/filtering/set_rules, a rewritten hosts file reported by the
// watcher, /control/rewrite/add|delete, SetProtectionEnabled, SetEnabled); a
// fresh filter is built when hosts_file_enabled or the allow list differ (a
// restart) and every few dozen configurations.
//
// Histories (TestZZVerifG02Hist): an edge-covering walk of the
// reconfiguration machine of DnsRewrite.tla on ONE live filter; after every
// step every question is asked again.
//
// Direction B (TestZZVerifG02Trace): random configurations from a larger
// universe on a live filter, logged for specs/TraceDnsRewrite.tla.
//
// A disagreement is reproduced before it is reported: on a fresh filter built
// directly from the configuration (twice), and, if it does not show there, by
// rehearsing the last reconfiguration (fresh filter with the previous
// configuration, the same step, the same question).

import (
	"bytes"
	"encoding/json"
	"fmt"
	"math/rand"
	"net/http"
	"net/http/httptest"
	"net/netip"
	"os"
	"path/filepath"
	"runtime"
	"sort"
	"strconv"
	"strings"
	"testing"
	"testing/fstest"
	"time"

	"github.com/AdguardTeam/AdGuardHome/internal/aghnet"
	"github.com/AdguardTeam/AdGuardHome/internal/aghtest"
	"github.com/AdguardTeam/AdGuardHome/internal/filtering/rulelist"
	"github.com/AdguardTeam/urlfilter/rules"
	"github.com/miekg/dns"
)

// ------------------------------------------------------------ abstract side

type zzG02Rw struct {
	K string   `json:"k"`
	T string   `json:"t"`
	V string   `json:"v"`
	N []string `json:"n"`
}

type zzG02Tgt struct {
	N []string `json:"n"`
}

type zzG02Rule struct {
	Place string     `json:"place"`
	Kind  string     `json:"kind"`
	Pat   string     `json:"pat"`
	Tgt   zzG02Tgt   `json:"tgt"`
	Imp   bool       `json:"imp"`
	Dt    string     `json:"dt"`
	Dtype string     `json:"dtype"`
	Cl    string     `json:"cl"`
	Da    [][]string `json:"da"`
	Rw    zzG02Rw    `json:"rw"`
}

type zzG02Line struct {
	IP    string     `json:"ip"`
	Names [][]string `json:"names"`
}

type zzG02LEntry struct {
	W  bool     `json:"w"`
	N  []string `json:"n"`
	K  string   `json:"k"`
	IP string   `json:"ip"`
	T  []string `json:"t"`
}

type zzG02Cfg struct {
	Rules   []zzG02Rule   `json:"rules"`
	Hosts   []zzG02Line   `json:"hosts"`
	HostsOn bool          `json:"hostsOn"`
	Legacy  []zzG02LEntry `json:"legacy"`
	Filt    bool          `json:"filt"`
	Prot    bool          `json:"prot"`
}

type zzG02Out struct {
	R     string     `json:"r"`
	Rcode string     `json:"rcode"`
	Canon []string   `json:"canon"`
	Vals  [][]string `json:"vals"`
	Up    bool       `json:"up"`
}

type zzG02Rq struct {
	Host []string `json:"host"`
	Qt   string   `json:"qt"`
	C1   bool     `json:"c1"`
}

type zzG02Group struct {
	Q  []zzG02Rq  `json:"q"`
	O  []zzG02Out `json:"o"`
	Kf []zzG02Out `json:"kf"`
}

type zzG02Vec struct {
	Kind string       `json:"kind"`
	Fam  string       `json:"fam"`
	ID   int          `json:"id"`
	Cfg  zzG02Cfg     `json:"cfg"`
	Vd   []zzG02Group `json:"vd"`
	// edges of the reconfiguration machine
	Src zzG02Cfg `json:"src"`
	Dst zzG02Cfg `json:"dst"`
	Act string   `json:"act"`
}

func zzG02JSON(v any) (s string) {
	b, _ := json.Marshal(v)

	return string(b)
}

// key is a canonical form of an outcome for comparison: reason, reply code,
// canonical name and the SET of values (up is not observable here).
func (o *zzG02Out) key() (k string) {
	vs := make([]string, 0, len(o.Vals))
	for _, v := range o.Vals {
		vs = append(vs, strings.Join(v, "."))
	}
	sort.Strings(vs)
	vs = zzG02Uniq(vs)

	return o.R + "|" + o.Rcode + "|" + strings.Join(o.Canon, ".") + "|" + strings.Join(vs, ",")
}

func zzG02Uniq(ss []string) (r []string) {
	r = []string{}
	for i, s := range ss {
		if i == 0 || s != ss[i-1] {
			r = append(r, s)
		}
	}

	return r
}

func zzG02In(o *zzG02Out, set []zzG02Out) (ok bool) {
	k := o.key()
	for i := range set {
		if set[i].key() == k {
			return true
		}
	}

	return false
}

// cfgKey is a canonical form of a configuration (rules and lines are sets).
func zzG02CfgKey(c *zzG02Cfg) (k string) {
	rs := make([]string, 0, len(c.Rules))
	for i := range c.Rules {
		rs = append(rs, zzG02JSON(c.Rules[i]))
	}
	sort.Strings(rs)
	hs := make([]string, 0, len(c.Hosts))
	for _, l := range c.Hosts {
		ns := make([]string, 0, len(l.Names))
		for _, n := range l.Names {
			ns = append(ns, strings.Join(n, "."))
		}
		sort.Strings(ns)
		hs = append(hs, l.IP+" "+strings.Join(ns, " "))
	}
	sort.Strings(hs)

	return fmt.Sprintf("%s|%s|%v|%s|%v|%v", strings.Join(rs, ";"), strings.Join(hs, ";"), c.HostsOn,
		zzG02JSON(c.Legacy), c.Filt, c.Prot)
}

// ------------------------------------------------------------ concrete side

var zzG02Labels = map[string]string{
	"a": "host", "b": "other", "c": "com", "x": "www", "d": "org", "y": "sub", "e": "ext", "z": "mail",
}

var zzG02QTypes = map[string]uint16{
	"A": dns.TypeA, "AAAA": dns.TypeAAAA, "TXT": dns.TypeTXT, "MX": dns.TypeMX, "PTR": dns.TypePTR,
	"HTTPS": dns.TypeHTTPS, "SVCB": dns.TypeSVCB, "SRV": dns.TypeSRV, "CNAME": dns.TypeCNAME,
}

// Clients: c1 is the client that $client rules name.
const (
	zzG02C1    = "127.0.7.1"
	zzG02Other = "127.0.7.2"
)

type zzG02Conc struct {
	seed   int64
	ips    map[string]string
	rev    map[string]string
	labRev map[string]string
}

func zzG02NewConc(seed int64) (c *zzG02Conc) {
	rng := rand.New(rand.NewSource(seed))
	c = &zzG02Conc{seed: seed, ips: map[string]string{}, rev: map[string]string{}, labRev: map[string]string{}}
	v4 := func(tok string, third int) { c.ips[tok] = fmt.Sprintf("93.184.%d.%d", third, 1+rng.Intn(250)) }
	v6 := func(tok string, third int) { c.ips[tok] = fmt.Sprintf("2a02:6b8:%x::%x", third, 1+rng.Intn(0xfffe)) }
	for i, tok := range []string{"v4a", "v4b", "v4c", "h4a", "h4b", "h4c", "l4", "p4"} {
		v4(tok, 10+i)
	}
	for i, tok := range []string{"v6a", "v6b", "h6a", "h6b", "h6c", "l6"} {
		v6(tok, 10+i)
	}
	// IPv4-mapped IPv6 addresses are IPv6 addresses.
	c.ips["v6m"] = fmt.Sprintf("::ffff:93.184.30.%d", 1+rng.Intn(250))
	c.ips["h6m"] = fmt.Sprintf("::ffff:93.184.31.%d", 1+rng.Intn(250))
	for k, v := range c.ips {
		c.rev[netip.MustParseAddr(v).String()] = k
	}
	for k, v := range zzG02Labels {
		c.labRev[v] = k
	}

	return c
}

func (c *zzG02Conc) ip(tok string) (s string) {
	if s, ok := c.ips[tok]; ok {
		return s
	}

	return tok
}

func (c *zzG02Conc) absIP(a netip.Addr) (tok string) {
	if s, ok := c.rev[a.String()]; ok {
		return s
	}

	return a.String()
}

// name renders an abstract name; <<tok, "REV">> is the reverse name of tok.
func (c *zzG02Conc) name(ls []string) (s string) {
	if len(ls) == 2 && ls[1] == "REV" {
		a, err := netip.ParseAddr(c.ip(ls[0]))
		if err != nil {
			return ls[0] + ".invalid"
		}

		return zzG02Reverse(a)
	}

	parts := make([]string, len(ls))
	for i, l := range ls {
		if r, ok := zzG02Labels[l]; ok {
			parts[i] = r
		} else {
			parts[i] = l
		}
	}

	return strings.Join(parts, ".")
}

// zzG02Reverse is the reverse-lookup name of an address: in-addr.arpa for an
// IPv4 address, ip6.arpa for an IPv6 address (an IPv4-mapped one included).
func zzG02Reverse(a netip.Addr) (s string) {
	if a.Is4() {
		b := a.As4()

		return fmt.Sprintf("%d.%d.%d.%d.in-addr.arpa", b[3], b[2], b[1], b[0])
	}

	const hex = "0123456789abcdef"
	b := a.As16()
	parts := make([]string, 0, 34)
	for i := 15; i >= 0; i-- {
		parts = append(parts, string(hex[b[i]&0xf]), string(hex[b[i]>>4]))
	}

	return strings.Join(parts, ".") + ".ip6.arpa"
}

func (c *zzG02Conc) absName(s string) (ls []string) {
	s = strings.ToLower(strings.TrimSuffix(s, "."))
	if s == "" {
		return []string{}
	}
	ls = strings.Split(s, ".")
	for i, l := range ls {
		if a, ok := c.labRev[l]; ok {
			ls[i] = a
		}
	}

	return ls
}

// Record values.  The tokens of the structured types stand for fixed texts.
var zzG02ValText = map[string]string{
	"TXT/t1": "hello_world", "TXT/t2": "second_text",
	"MX/m1": "32 mail.other.com", "MX/m2": "10 mx2.other.com",
	"HTTPS/s1": "32 svc.other.com alpn=h3", "SVCB/s1": "32 svc.other.com",
	"HTTPS/s2": "1 alt.other.com", "SVCB/s2": "1 alt.other.com",
	"PTR/p1": "ptr-one.other.com.", "PTR/p2": "ptr-two.other.com",
	"SRV/r1": "10 60 8080 srv.other.com", "SRV/r2": "20 10 443 srv2.other.com",
}

// spelling bits of one rule occurrence
func (c *zzG02Conc) bits(salt string) (h uint32) {
	h = 2166136261
	for _, b := range []byte(fmt.Sprintf("%d/%s", c.seed, salt)) {
		h ^= uint32(b)
		h *= 16777619
	}

	return h
}

func (c *zzG02Conc) rwValue(rw *zzG02Rw, short bool) (s string) {
	switch rw.K {
	case "empty":
		return ""
	case "rcode":
		if short {
			return rw.T
		}

		return rw.T + ";;"
	case "noerror":
		if short {
			return "NOERROR"
		}

		return "NOERROR;;"
	case "cname":
		if short {
			return c.name(rw.N)
		}

		return "NOERROR;CNAME;" + c.name(rw.N)
	case "rr":
		if rw.T == "A" || rw.T == "AAAA" {
			if short {
				return c.ip(rw.V)
			}

			return "NOERROR;" + rw.T + ";" + c.ip(rw.V)
		}
		if t, ok := zzG02ValText[rw.T+"/"+rw.V]; ok {
			return "NOERROR;" + rw.T + ";" + t
		}

		return "NOERROR;" + rw.T + ";" + rw.V
	}

	return "?" + rw.K
}

// ruleText renders one rule; salt selects the spelling.
func (c *zzG02Conc) ruleText(r *zzG02Rule, salt string) (s string) {
	h := c.bits(salt + zzG02JSON(r))
	name := c.name(r.Tgt.N)
	switch r.Pat {
	case "exact":
		s = "|" + name + "^"
	case "wild":
		s = "*." + name + "^"
	default:
		s = "||" + name + "^"
	}
	if r.Kind == "allow" {
		s = "@@" + s
	}

	mods := []string{}
	if r.Imp {
		mods = append(mods, "important")
	}
	switch r.Dt {
	case "only":
		mods = append(mods, "dnstype="+r.Dtype)
	case "except":
		mods = append(mods, "dnstype=~"+r.Dtype)
	}
	switch r.Cl {
	case "only":
		mods = append(mods, "client="+zzG02C1)
	case "except":
		mods = append(mods, "client=~"+zzG02C1)
	}
	if len(r.Da) > 0 {
		ns := []string{}
		for _, n := range r.Da {
			ns = append(ns, c.name(n))
		}
		mods = append(mods, "denyallow="+strings.Join(ns, "|"))
	}
	if r.Rw.K != "none" {
		v := c.rwValue(&r.Rw, h&1 == 0)
		if r.Rw.K == "empty" {
			mods = append(mods, "dnsrewrite")
		} else {
			mods = append(mods, "dnsrewrite="+v)
		}
	}
	if len(mods) == 0 {
		return s
	}

	// seeded order of the modifiers
	rng := rand.New(rand.NewSource(int64(h >> 1)))
	rng.Shuffle(len(mods), func(i, j int) { mods[i], mods[j] = mods[j], mods[i] })

	return s + "$" + strings.Join(mods, ",")
}

// rendering of a configuration
type zzG02Text struct {
	Custom []string `json:"custom"`
	Allow  []string `json:"allow"`
	Block  []string `json:"block"`
	Hosts  []string `json:"hosts"`
	Legacy []string `json:"legacy"`
}

func (c *zzG02Conc) render(cfg *zzG02Cfg, salt string) (t zzG02Text) {
	rng := rand.New(rand.NewSource(int64(c.bits("order/" + salt))))
	rs := append([]zzG02Rule{}, cfg.Rules...)
	rng.Shuffle(len(rs), func(i, j int) { rs[i], rs[j] = rs[j], rs[i] })
	for i := range rs {
		line := c.ruleText(&rs[i], salt)
		switch rs[i].Place {
		case "allow":
			t.Allow = append(t.Allow, line)
		case "block":
			t.Block = append(t.Block, line)
		default:
			t.Custom = append(t.Custom, line)
		}
	}

	ls := append([]zzG02Line{}, cfg.Hosts...)
	rng.Shuffle(len(ls), func(i, j int) { ls[i], ls[j] = ls[j], ls[i] })
	for _, l := range ls {
		ns := []string{}
		for _, n := range l.Names {
			ns = append(ns, c.name(n))
		}
		rng.Shuffle(len(ns), func(i, j int) { ns[i], ns[j] = ns[j], ns[i] })
		t.Hosts = append(t.Hosts, c.ip(l.IP)+" "+strings.Join(ns, " "))
	}

	for _, e := range cfg.Legacy {
		t.Legacy = append(t.Legacy, c.legacy(&e).Domain+" -> "+c.legacy(&e).Answer)
	}

	return t
}

func (c *zzG02Conc) legacy(e *zzG02LEntry) (rw *LegacyRewrite) {
	rw = &LegacyRewrite{Domain: c.name(e.N)}
	if e.W {
		rw.Domain = "*." + rw.Domain
	}
	switch e.K {
	case "ip4", "ip6":
		rw.Answer = c.ip(e.IP)
	case "A", "AAAA":
		rw.Answer = e.K
	default:
		rw.Answer = c.name(e.T)
	}

	return rw
}

// spell varies the letter case of a question name.
func zzG02Spell(s string, variant uint32) (r string) {
	switch variant % 3 {
	case 1:
		return strings.ToUpper(s)
	case 2:
		b := []byte(s)
		for i := range b {
			if i%2 == 0 && b[i] >= 'a' && b[i] <= 'z' {
				b[i] -= 'a' - 'A'
			}
		}

		return string(b)
	default:
		return s
	}
}

// absValue projects one record value of a $dnsrewrite / hosts result.
func (c *zzG02Conc) absValue(qt uint16, v rules.RRValue, hosts bool) (a []string) {
	switch v := v.(type) {
	case netip.Addr:
		return []string{c.absIP(v)}
	case string:
		if hosts {
			return c.absName(v)
		}
		t := dns.TypeToString[qt]
		for k, text := range zzG02ValText {
			if strings.HasPrefix(k, t+"/") && strings.TrimSuffix(text, ".") == strings.TrimSuffix(v, ".") {
				return []string{strings.TrimPrefix(k, t+"/")}
			}
		}

		return []string{"?str:" + v}
	case *rules.DNSMX:
		return []string{c.structured("MX", fmt.Sprintf("%d %s", v.Preference, v.Exchange))}
	case *rules.DNSSVCB:
		s := fmt.Sprintf("%d %s", v.Priority, v.Target)
		ks := []string{}
		for k, val := range v.Params {
			ks = append(ks, k+"="+val)
		}
		sort.Strings(ks)
		if len(ks) > 0 {
			s += " " + strings.Join(ks, " ")
		}

		return []string{c.structured(dns.TypeToString[qt], s)}
	case *rules.DNSSRV:
		return []string{c.structured("SRV", fmt.Sprintf("%d %d %d %s", v.Priority, v.Weight, v.Port, v.Target))}
	case nil:
		return []string{"?nil"}
	default:
		return []string{fmt.Sprintf("?%T", v)}
	}
}

func (c *zzG02Conc) structured(t, text string) (tok string) {
	for k, v := range zzG02ValText {
		if strings.HasPrefix(k, t+"/") && v == text {
			return strings.TrimPrefix(k, t+"/")
		}
	}

	return "?" + t + ":" + text
}

// abs projects a Result onto the spec's outcome.
func (c *zzG02Conc) abs(res *Result, qt uint16) (o zzG02Out) {
	o = zzG02Out{Canon: []string{}, Vals: [][]string{}}
	switch res.Reason {
	case NotFilteredNotFound:
		o.R = "none"
	case Rewritten:
		o.R, o.Rcode = "legacy", "NOERROR"
		o.Canon = c.absName(res.CanonName)
		for _, ip := range res.IPList {
			o.Vals = append(o.Vals, []string{c.absIP(ip)})
		}

		return o
	case RewrittenAutoHosts:
		o.R = "hosts"
	case RewrittenRule:
		o.R = "rule"
	case FilteredBlockList:
		o.R = "block"

		return o
	case NotFilteredAllowList:
		o.R = "allow"

		return o
	default:
		o.R = "other:" + res.Reason.String()

		return o
	}

	if res.CanonName != "" {
		o.Canon = c.absName(res.CanonName)
	}
	if rr := res.DNSRewriteResult; rr != nil {
		o.Rcode = dns.RcodeToString[rr.RCode]
		for _, v := range rr.Response[qt] {
			o.Vals = append(o.Vals, c.absValue(qt, v, res.Reason == RewrittenAutoHosts))
		}
	} else if res.CanonName == "" && res.Reason != NotFilteredNotFound {
		o.Rcode = "?nil"
	}

	return o
}

// ------------------------------------------------------------------ filter

type zzG02Filter struct {
	t        testing.TB
	conc     *zzG02Conc
	f        *DNSFilter
	conf     *Config
	hc       *aghnet.HostsContainer
	fsys     fstest.MapFS
	events   chan struct{}
	handlers map[string]http.HandlerFunc
	dir      string
	gen      int
	cur      zzG02Cfg
	curText  zzG02Text
	age      int
	// counters
	stats map[string]int
}

const (
	zzG02RuleMarker  = "g%d.zz-g02-marker.example"
	zzG02HostsMarker = "g%d.zz-g02-hosts-marker.example"
	zzG02AllowID     = 4201
	zzG02BlockID     = 4202
)

func (z *zzG02Filter) hostsData(lines []string) (b []byte) {
	z.gen++
	all := append(append([]string{"# zz-g02"}, lines...), "192.0.2.254 "+fmt.Sprintf(zzG02HostsMarker, z.gen))

	return []byte(strings.Join(all, "\n") + "\n")
}

func zzG02ListBody(lines []string) (b []byte) {
	return []byte("! Title: zz-g02\n" + strings.Join(lines, "\n") + "\n")
}

// zzG02NewFilter builds a fresh filter for cfg the way package home does:
// configuration object, New, Start, EnableFilters.
func zzG02NewFilter(t testing.TB, conc *zzG02Conc, cfg *zzG02Cfg, salt string, stats map[string]int) (z *zzG02Filter, err error) {
	z = &zzG02Filter{t: t, conc: conc, handlers: map[string]http.HandlerFunc{}, stats: stats}
	z.dir, err = os.MkdirTemp("", "zz-g02-")
	if err != nil {
		return nil, err
	}

	text := conc.render(cfg, salt)
	fdir := filepath.Join(z.dir, filterDir)
	if err = os.MkdirAll(fdir, 0o755); err != nil {
		return nil, err
	}

	z.gen++
	marker := "||" + fmt.Sprintf(zzG02RuleMarker, z.gen) + "^"
	z.conf = &Config{
		DataDir:           z.dir,
		UserRules:         append(append([]string{}, text.Custom...), marker),
		FilteringEnabled:  cfg.Filt,
		ProtectionEnabled: cfg.Prot,
		ConfigModified:    func() {},
		HTTPRegister: func(method, url string, h http.HandlerFunc) {
			z.handlers[method+" "+url] = h
		},
	}
	for _, e := range cfg.Legacy {
		z.conf.Rewrites = append(z.conf.Rewrites, conc.legacy(&e))
	}

	lists := []struct {
		id    int
		lines []string
		white bool
	}{{zzG02AllowID, text.Allow, true}, {zzG02BlockID, text.Block, false}}
	for _, l := range lists {
		if len(l.lines) == 0 {
			continue
		}
		p := filepath.Join(fdir, strconv.Itoa(l.id)+".txt")
		if err = os.WriteFile(p, zzG02ListBody(l.lines), 0o644); err != nil {
			return nil, err
		}
		y := FilterYAML{Enabled: true, URL: "https://lists.example/" + strconv.Itoa(l.id) + ".txt", Name: "zz-g02",
			Filter: Filter{ID: rulelist.URLFilterID(l.id)}}
		if l.white {
			z.conf.WhitelistFilters = append(z.conf.WhitelistFilters, y)
		} else {
			z.conf.Filters = append(z.conf.Filters, y)
		}
	}

	if cfg.HostsOn {
		// home: conf.EtcHosts is the container unless hosts_file_enabled is off.
		z.fsys = fstest.MapFS{"etc/hosts": &fstest.MapFile{Data: z.hostsData(text.Hosts)}}
		z.events = make(chan struct{})
		w := &aghtest.FSWatcher{
			OnStart:  func() (_ error) { return nil },
			OnEvents: func() (e <-chan struct{}) { return z.events },
			OnAdd:    func(_ string) (_ error) { return nil },
			OnClose:  func() (_ error) { return nil },
		}
		z.hc, err = aghnet.NewHostsContainer(z.fsys, w, "etc/hosts")
		if err != nil {
			return nil, fmt.Errorf("hosts container: %w", err)
		}
		z.conf.EtcHosts = z.hc
	}

	z.f, err = New(z.conf, nil)
	if err != nil {
		return nil, fmt.Errorf("filtering.New: %w", err)
	}

	// EnableFilters also puts Config.FilteringEnabled in force.
	z.f.Start()
	z.f.EnableFilters(false)
	z.cur, z.curText = *cfg, text
	stats["fresh_filters"]++

	return z, nil
}

func (z *zzG02Filter) close() {
	if z.f != nil {
		z.f.Close()
	}
	if z.hc != nil {
		_ = z.hc.Close()
	}
	_ = os.RemoveAll(z.dir)
}

func (z *zzG02Filter) call(key string, body any) (err error) {
	h, ok := z.handlers[key]
	if !ok {
		return fmt.Errorf("no handler %s", key)
	}

	b, _ := json.Marshal(body)
	parts := strings.SplitN(key, " ", 2)
	r := httptest.NewRequest(parts[0], parts[1], bytes.NewReader(b))
	r.Header.Set("Content-Type", "application/json")
	w := httptest.NewRecorder()
	h(w, r)
	if w.Code != http.StatusOK {
		return fmt.Errorf("%s %s: %d %s", key, b, w.Code, strings.TrimSpace(w.Body.String()))
	}

	return nil
}

// compatible: can the live filter be brought to cfg without a restart?
func (z *zzG02Filter) compatible(cfg *zzG02Cfg) (ok bool) {
	if z.cur.HostsOn != cfg.HostsOn {
		return false
	}

	lists := func(c *zzG02Cfg) (s string) {
		ls := []string{}
		for i := range c.Rules {
			if c.Rules[i].Place != "custom" {
				ls = append(ls, zzG02JSON(c.Rules[i]))
			}
		}
		sort.Strings(ls)

		return strings.Join(ls, ";")
	}

	return lists(&z.cur) == lists(cfg)
}

// apply brings the LIVE filter to cfg through the entry points a running
// server uses.  Only what differs is touched (and, seeded, sometimes what does
// not).
func (z *zzG02Filter) apply(cfg *zzG02Cfg, salt string) (err error) {
	text := z.conc.render(cfg, salt)
	h := z.conc.bits("apply/" + salt)

	customOf := func(c *zzG02Cfg) (s string) {
		ls := []string{}
		for i := range c.Rules {
			if c.Rules[i].Place == "custom" {
				ls = append(ls, zzG02JSON(c.Rules[i]))
			}
		}
		sort.Strings(ls)

		return strings.Join(ls, ";")
	}
	if customOf(&z.cur) != customOf(cfg) || h%5 == 0 {
		z.gen++
		marker := fmt.Sprintf(zzG02RuleMarker, z.gen)
		body := map[string]any{"rules": append(append([]string{}, text.Custom...), "||"+marker+"^")}
		if err = z.call("POST /control/filtering/set_rules", body); err != nil {
			return err
		}
		// The handler rebuilds the engines asynchronously: wait until the
		// rules of THIS request are in force.
		setts := &Settings{FilteringEnabled: true, ProtectionEnabled: true}
		deadline := time.Now().Add(10 * time.Second)
		for {
			res, cerr := z.f.CheckHostRules(marker, dns.TypeA, setts)
			if cerr == nil && res.IsFiltered {
				break
			}
			if time.Now().After(deadline) {
				return fmt.Errorf("engines not rebuilt within 10 s after set_rules")
			}
			time.Sleep(100 * time.Microsecond)
		}
		z.stats["live_set_rules"]++
	} else {
		text.Custom = z.curText.Custom
	}

	hostsOf := func(c *zzG02Cfg) (s string) { return zzG02CfgKey(&zzG02Cfg{Hosts: c.Hosts}) }
	if z.hc != nil && (hostsOf(&z.cur) != hostsOf(cfg) || h%7 == 0) {
		// The file changes and the watcher reports it.
		z.fsys["etc/hosts"] = &fstest.MapFile{Data: z.hostsData(text.Hosts)}
		marker := fmt.Sprintf(zzG02HostsMarker, z.gen)
		z.events <- struct{}{}
		deadline := time.Now().Add(10 * time.Second)
		for len(z.hc.ByName(marker)) == 0 {
			if time.Now().After(deadline) {
				return fmt.Errorf("hosts container not refreshed within 10 s")
			}
			time.Sleep(100 * time.Microsecond)
		}
		z.stats["live_hosts"]++
	} else {
		text.Hosts = z.curText.Hosts
	}

	if zzG02JSON(z.cur.Legacy) != zzG02JSON(cfg.Legacy) {
		for _, e := range z.cur.Legacy {
			rw := z.conc.legacy(&e)
			if err = z.call("POST /control/rewrite/delete", map[string]string{"domain": rw.Domain, "answer": rw.Answer}); err != nil {
				return err
			}
		}
		for _, e := range cfg.Legacy {
			rw := z.conc.legacy(&e)
			if err = z.call("POST /control/rewrite/add", map[string]string{"domain": rw.Domain, "answer": rw.Answer}); err != nil {
				return err
			}
		}
		z.stats["live_legacy"]++
	}

	if z.cur.Prot != cfg.Prot {
		z.f.SetProtectionEnabled(cfg.Prot)
		z.stats["live_prot"]++
	}
	if z.cur.Filt != cfg.Filt {
		// filtering_enabled: POST /control/filtering/config (the flag is in
		// force when the handler returns; interval 0 = no periodic refresh).
		if err = z.call("POST /control/filtering/config", map[string]any{"enabled": cfg.Filt, "interval": 0}); err != nil {
			return err
		}
		z.stats["live_filt"]++
	}

	z.cur, z.curText = *cfg, text
	z.age++

	return nil
}

// ask puts one question the way dnsforward does: the filter's settings, the
// protection status and the client's address.
func (z *zzG02Filter) ask(rq *zzG02Rq, variant uint32) (o zzG02Out, err error) {
	setts := z.f.Settings()
	setts.ProtectionEnabled, _ = z.f.ProtectionStatus()
	if rq.C1 {
		setts.ClientIP = netip.MustParseAddr(zzG02C1)
	} else {
		setts.ClientIP = netip.MustParseAddr(zzG02Other)
	}

	qt := zzG02QTypes[rq.Qt]
	name := zzG02Spell(z.conc.name(rq.Host), variant)
	res, err := z.f.CheckHost(name, qt, setts)
	z.stats["calls"]++
	if err != nil {
		return zzG02Out{R: "error:" + err.Error(), Canon: []string{}, Vals: [][]string{}}, nil
	}

	return z.conc.abs(&res, qt), nil
}

// zzG02Bad is a reproduced disagreement.
type zzG02Bad struct {
	Kind string     `json:"kind"`
	ID   int        `json:"id"`
	Fam  string     `json:"fam"`
	Cfg  zzG02Cfg   `json:"cfg"`
	Text zzG02Text  `json:"text"`
	Q    zzG02Rq    `json:"q"`
	Got  zzG02Out   `json:"got"`
	Want []zzG02Out `json:"want"`
	// KF: the observed outcome is among the outcomes of the known finding
	// (computed by the spec, DnsRewriteCore!SkipOutcomes).
	KF  bool   `json:"kf"`
	Via string `json:"via"`
	// Salt selects the spelling of the configuration.
	Salt string `json:"salt"`
	// Prev and Step describe the rehearsed reconfiguration.
	Prev *zzG02Cfg `json:"prev,omitempty"`
	Note string    `json:"note,omitempty"`
}

// checkAll asks every question of the vector on the live filter and returns
// the questions whose outcome is not admissible.
func (z *zzG02Filter) checkAll(v *zzG02Vec, salt string) (bad []zzG02Bad, n int, err error) {
	for gi := range v.Vd {
		g := &v.Vd[gi]
		for qi := range g.Q {
			rq := &g.Q[qi]
			variant := z.conc.bits(fmt.Sprintf("case/%s/%d/%d", salt, gi, qi))
			got, aerr := z.ask(rq, variant)
			if aerr != nil {
				return nil, n, aerr
			}
			n++
			if !zzG02In(&got, g.O) {
				bad = append(bad, zzG02Bad{Kind: "cand", ID: v.ID, Fam: v.Fam, Cfg: v.Cfg, Text: z.curText, Q: *rq,
					Got: got, Want: g.O, KF: zzG02In(&got, g.Kf), Salt: salt})
			}
		}
	}

	return bad, n, nil
}

// zzG02Confirm reproduces the candidates of one configuration: twice on a
// fresh filter built from the configuration with the same spelling; what does
// not show there, by rehearsing the last reconfiguration (fresh filter with
// the previous configuration, the same step).  It sets Kind of every candidate
// to "bad" (reproduced both times) or "flaky".
func zzG02Confirm(t testing.TB, conc *zzG02Conc, cands []zzG02Bad, prev *zzG02Cfg, prevSalt, salt string, stats map[string]int) {
	if len(cands) == 0 {
		return
	}

	same := make([]int, len(cands))
	for i := 0; i < 2; i++ {
		z, err := zzG02NewFilter(t, conc, &cands[0].Cfg, salt, stats)
		if err != nil {
			break
		}
		for ci := range cands {
			got, _ := z.ask(&cands[ci].Q, uint32(i))
			if !zzG02In(&got, cands[ci].Want) {
				same[ci]++
			}
		}
		z.close()
	}

	rest := []int{}
	for ci := range cands {
		if same[ci] == 2 {
			cands[ci].Kind, cands[ci].Via = "bad", "fresh"
		} else {
			cands[ci].Kind = "flaky"
			rest = append(rest, ci)
		}
	}
	if prev == nil || len(rest) == 0 {
		return
	}

	same = make([]int, len(cands))
	for i := 0; i < 2; i++ {
		z, err := zzG02NewFilter(t, conc, prev, prevSalt, stats)
		if err != nil {
			break
		}
		if z.compatible(&cands[0].Cfg) && z.apply(&cands[0].Cfg, salt) == nil {
			for _, ci := range rest {
				got, _ := z.ask(&cands[ci].Q, uint32(i))
				if !zzG02In(&got, cands[ci].Want) {
					same[ci]++
				}
			}
		}
		z.close()
	}
	for _, ci := range rest {
		if same[ci] == 2 {
			cands[ci].Kind, cands[ci].Via, cands[ci].Prev = "bad", "history", prev
		}
	}
}

func zzG02ReadVectors(t *testing.T) (vs []*zzG02Vec) {
	zzReadNDJSON(t, "VERIF_IN", func(line []byte) {
		v := &zzG02Vec{}
		if err := json.Unmarshal(line, v); err != nil {
			t.Fatalf("vector: %v", err)
		}
		vs = append(vs, v)
	})

	return vs
}

// TestZZVerifG02Replay is direction A at the filtering level.
func TestZZVerifG02Replay(t *testing.T) {
	vs := zzG02ReadVectors(t)
	w := zzNewWriter(t, "VERIF_OUT")
	defer w.close()

	seed := zzSeed()
	conc := zzG02NewConc(seed)
	rng := rand.New(rand.NewSource(seed))
	stats := map[string]int{}
	start := time.Now()

	// A seeded order inside blocks of one family keeps reconfigurations
	// small and frequent; the blocks themselves are shuffled too.
	rng.Shuffle(len(vs), func(i, j int) { vs[i], vs[j] = vs[j], vs[i] })
	sort.SliceStable(vs, func(i, j int) bool { return vs[i].Fam < vs[j].Fam })

	var z *zzG02Filter
	defer func() {
		if z != nil {
			z.close()
		}
	}()

	maxAge := 20 + rng.Intn(40)
	nbad, nflaky, ncfg := 0, 0, 0
	// at most 60 records per (family, known-finding?) class are written out
	written := map[string]int{}
	var prev *zzG02Cfg
	prevSalt := ""
	for _, v := range vs {
		if v.Kind != "cfg" {
			continue
		}

		salt := fmt.Sprintf("replay/%d", v.ID)
		var err error
		live := z != nil && z.age < maxAge && z.compatible(&v.Cfg)
		if live {
			err = z.apply(&v.Cfg, salt)
		} else {
			if z != nil {
				z.close()
			}
			prev = nil
			maxAge = 20 + rng.Intn(40)
			z, err = zzG02NewFilter(t, conc, &v.Cfg, salt, stats)
		}
		if err != nil {
			w.put(map[string]any{"kind": "harness-error", "id": v.ID, "err": err.Error(), "cfg": v.Cfg})
			t.Fatalf("configuration %d: %v", v.ID, err)
		}

		ncfg++
		if ncfg%1000 == 0 {
			var ms runtime.MemStats
			runtime.ReadMemStats(&ms)
			t.Logf("progress: %d configurations, %d goroutines, heap %d MiB, %s", ncfg, runtime.NumGoroutine(), ms.HeapAlloc>>20, time.Since(start).Round(time.Second))
		}
		cands, _, err := z.checkAll(v, salt)
		if err != nil {
			t.Fatalf("asking: %v", err)
		}

		zzG02Confirm(t, conc, cands, prev, prevSalt, salt, stats)
		for i := range cands {
			b := &cands[i]
			if b.Kind == "bad" {
				nbad++
				k := fmt.Sprintf("%s/%v", b.Fam, b.KF)
				if written[k]++; written[k] <= 60 {
					w.put(b)
				}
			} else {
				nflaky++
				w.put(b)
			}
		}

		c := v.Cfg
		prev, prevSalt = &c, salt
	}

	w.put(map[string]any{"kind": "summary", "n": ncfg, "bad": nbad, "flaky": nflaky, "stats": stats})
}

// TestZZVerifG02Probe re-runs single records (replay of a stored
// disagreement): VERIF_IN holds zzG02Bad records; each is asked on a fresh
// filter.
func TestZZVerifG02Probe(t *testing.T) {
	w := zzNewWriter(t, "VERIF_OUT")
	defer w.close()

	conc := zzG02NewConc(zzSeed())
	stats := map[string]int{}
	zzReadNDJSON(t, "VERIF_IN", func(line []byte) {
		b := &zzG02Bad{}
		if err := json.Unmarshal(line, b); err != nil {
			t.Fatalf("record: %v", err)
		}
		salt := b.Salt
		if salt == "" {
			salt = fmt.Sprintf("replay/%d", b.ID)
		}
		z, err := zzG02NewFilter(t, conc, &b.Cfg, salt, stats)
		if err != nil {
			t.Fatalf("filter: %v", err)
		}
		got, _ := z.ask(&b.Q, 0)
		text := z.curText
		z.close()
		w.put(map[string]any{"kind": "probe", "q": b.Q, "got": got, "want": b.Want, "text": text,
			"admissible": zzG02In(&got, b.Want), "kf": zzG02In(&got, []zzG02Out{b.Got}) && b.KF})
	})
}

// TestZZVerifG02Hist walks the edges of the reconfiguration machine on ONE
// live filter (direction A for histories).
func TestZZVerifG02Hist(t *testing.T) {
	vs := zzG02ReadVectors(t)
	w := zzNewWriter(t, "VERIF_OUT")
	defer w.close()

	seed := zzSeed()
	conc := zzG02NewConc(seed)
	rng := rand.New(rand.NewSource(seed))
	stats := map[string]int{}

	states := map[string]*zzG02Vec{}
	type edge struct {
		dst     string
		act     string
		covered bool
	}
	adj := map[string][]*edge{}
	nedges := 0
	for _, v := range vs {
		switch v.Kind {
		case "cfg":
			states[zzG02CfgKey(&v.Cfg)] = v
		case "edge":
			k := zzG02CfgKey(&v.Src)
			adj[k] = append(adj[k], &edge{dst: zzG02CfgKey(&v.Dst), act: v.Act})
			nedges++
		}
	}

	limit := nedges
	if s := zzGetenv("VERIF_G02_HIST_STEPS"); s != "" {
		limit, _ = strconv.Atoi(s)
	}

	keys := make([]string, 0, len(states))
	for k := range states {
		keys = append(keys, k)
	}
	sort.Strings(keys)
	if len(keys) == 0 {
		t.Fatalf("no states")
	}

	// nearest state with an uncovered edge (BFS), as a path of edges
	path := func(from string) (p []*edge) {
		type item struct {
			k string
			p []*edge
		}
		seen := map[string]bool{from: true}
		queue := []item{{k: from}}
		for len(queue) > 0 {
			it := queue[0]
			queue = queue[1:]
			es := adj[it.k]
			order := rng.Perm(len(es))
			for _, i := range order {
				if !es[i].covered {
					return append(it.p, es[i])
				}
			}
			for _, i := range order {
				e := es[i]
				if !seen[e.dst] {
					seen[e.dst] = true
					queue = append(queue, item{k: e.dst, p: append(append([]*edge{}, it.p...), e)})
				}
			}
		}

		return nil
	}

	cur := keys[rng.Intn(len(keys))]
	z, err := zzG02NewFilter(t, conc, &states[cur].Cfg, "hist/0", stats)
	if err != nil {
		t.Fatalf("filter: %v", err)
	}
	defer func() { z.close() }()

	steps, covered, nbad, nflaky, calls := 0, 0, 0, 0, 0
	maxAge := 150 + rng.Intn(100)
	prevSalt := "hist/0"
	for covered < limit {
		p := path(cur)
		if p == nil {
			break
		}
		for _, e := range p {
			steps++
			salt := fmt.Sprintf("hist/%d", steps)
			prev := z.cur
			dst := states[e.dst]
			if dst == nil {
				t.Fatalf("edge to an undescribed state")
			}
			if z.age >= maxAge {
				// a restart in the current state, then the step
				z.close()
				if z, err = zzG02NewFilter(t, conc, &prev, prevSalt, stats); err != nil {
					t.Fatalf("filter: %v", err)
				}
				maxAge = 150 + rng.Intn(100)
			}
			if err = z.apply(&dst.Cfg, salt); err != nil {
				w.put(map[string]any{"kind": "harness-error", "err": err.Error(), "cfg": dst.Cfg})
				t.Fatalf("step %d (%s): %v", steps, e.act, err)
			}
			if !e.covered {
				e.covered = true
				covered++
			}

			cands, n, cerr := z.checkAll(dst, salt)
			if cerr != nil {
				t.Fatalf("asking: %v", cerr)
			}
			calls += n
			zzG02Confirm(t, conc, cands, &prev, prevSalt, salt, stats)
			for i := range cands {
				b := &cands[i]
				b.Note = "after " + e.act
				if b.Kind == "bad" {
					nbad++
					if nbad <= 200 {
						w.put(b)
					}
				} else {
					nflaky++
					w.put(b)
				}
			}
			cur, prevSalt = e.dst, salt
		}
	}

	w.put(map[string]any{"kind": "summary", "n": steps, "edges": nedges, "covered": covered, "states": len(states),
		"bad": nbad, "flaky": nflaky, "calls": calls, "stats": stats})
}

// ------------------------------------------------------------- direction B

var zzG02BNames = [][]string{
	{"a", "c"}, {"x", "a", "c"}, {"y", "x", "a", "c"}, {"b", "c"}, {"z", "b", "c"}, {"e", "d"}, {"a", "d"},
	{"x", "y", "a", "d"},
}

func zzG02BRw(rng *rand.Rand, exc bool) (rw zzG02Rw) {
	none := []string{}
	vals := []zzG02Rw{
		{K: "rr", T: "A", V: "v4a", N: none}, {K: "rr", T: "A", V: "v4b", N: none}, {K: "rr", T: "A", V: "v4c", N: none},
		{K: "rr", T: "AAAA", V: "v6a", N: none}, {K: "rr", T: "AAAA", V: "v6b", N: none}, {K: "rr", T: "AAAA", V: "v6m", N: none},
		{K: "cname", N: []string{"b", "c"}}, {K: "cname", N: []string{"e", "d"}}, {K: "cname", N: []string{"a", "c"}},
		{K: "rcode", T: "NXDOMAIN", N: none}, {K: "rcode", T: "REFUSED", N: none}, {K: "rcode", T: "SERVFAIL", N: none},
		{K: "rr", T: "TXT", V: "t1", N: none}, {K: "rr", T: "TXT", V: "t2", N: none},
		{K: "rr", T: "MX", V: "m1", N: none}, {K: "rr", T: "MX", V: "m2", N: none},
		{K: "rr", T: "HTTPS", V: "s1", N: none}, {K: "rr", T: "SVCB", V: "s2", N: none},
		{K: "rr", T: "PTR", V: "p2", N: none}, {K: "rr", T: "SRV", V: "r2", N: none},
	}
	if exc {
		if rng.Intn(3) == 0 {
			return zzG02Rw{K: "empty", N: none}
		}
	} else if rng.Intn(12) == 0 {
		return zzG02Rw{K: "noerror", N: none}
	}

	return vals[rng.Intn(len(vals))]
}

// zzG02BCfg draws a random configuration from the larger universe.
func zzG02BCfg(rng *rand.Rand, hostsOn bool) (cfg zzG02Cfg) {
	cfg = zzG02Cfg{Rules: []zzG02Rule{}, Hosts: []zzG02Line{}, Legacy: []zzG02LEntry{}, HostsOn: hostsOn,
		Filt: rng.Intn(12) != 0, Prot: rng.Intn(4) != 0}
	nr := rng.Intn(7)
	for i := 0; i < nr; i++ {
		r := zzG02Rule{Place: "custom", Kind: "block", Pat: "domain", Dt: "none", Cl: "none", Da: [][]string{}}
		r.Tgt.N = zzG02BNames[rng.Intn(3)]
		if rng.Intn(4) == 0 {
			r.Tgt.N = zzG02BNames[rng.Intn(len(zzG02BNames))]
		}
		if rng.Intn(5) == 0 {
			r.Pat = "exact"
		}
		switch k := rng.Intn(10); {
		case k < 5:
			r.Rw = zzG02BRw(rng, false)
		case k < 8:
			r.Kind, r.Rw = "allow", zzG02BRw(rng, true)
		case k < 9:
			r.Rw = zzG02Rw{K: "none", N: []string{}}
		default:
			r.Kind, r.Rw = "allow", zzG02Rw{K: "none", N: []string{}}
		}
		r.Imp = rng.Intn(4) == 0
		if rng.Intn(4) == 0 {
			r.Dt = []string{"only", "except"}[rng.Intn(2)]
			r.Dtype = []string{"A", "AAAA", "TXT", "MX"}[rng.Intn(4)]
		}
		if rng.Intn(5) == 0 {
			r.Cl = []string{"only", "except"}[rng.Intn(2)]
		}
		if r.Pat == "domain" && rng.Intn(8) == 0 && len(r.Tgt.N) == 2 {
			r.Da = [][]string{append([]string{"x"}, r.Tgt.N...)}
		}
		dup := false
		for j := range cfg.Rules {
			dup = dup || zzG02JSON(cfg.Rules[j]) == zzG02JSON(r)
		}
		if !dup {
			cfg.Rules = append(cfg.Rules, r)
		}
	}

	if hostsOn || rng.Intn(2) == 0 {
		nl := rng.Intn(6)
		ips := []string{"h4a", "h4b", "h4c", "h6a", "h6b", "h6c", "h6m"}
		for i := 0; i < nl; i++ {
			l := zzG02Line{IP: ips[rng.Intn(len(ips))]}
			nn := 1 + rng.Intn(3)
			for j := 0; j < nn; j++ {
				n := zzG02BNames[rng.Intn(len(zzG02BNames))]
				dup := false
				for _, o := range l.Names {
					dup = dup || strings.Join(o, ".") == strings.Join(n, ".")
				}
				if !dup {
					l.Names = append(l.Names, n)
				}
			}
			dup := false
			for _, o := range cfg.Hosts {
				dup = dup || zzG02JSON(o) == zzG02JSON(l)
			}
			if !dup {
				cfg.Hosts = append(cfg.Hosts, l)
			}
		}
	}

	switch rng.Intn(6) {
	case 0:
		cfg.Legacy = append(cfg.Legacy, zzG02LEntry{N: zzG02BNames[rng.Intn(3)], K: "ip4", IP: "l4", T: []string{}})
	case 1:
		cfg.Legacy = append(cfg.Legacy, zzG02LEntry{W: true, N: []string{"a", "c"}, K: "ip6", IP: "l6", T: []string{}})
	}

	return cfg
}

func zzG02BQueries(rng *rand.Rand, cfg *zzG02Cfg, n int) (qs []zzG02Rq) {
	qts := []string{"A", "AAAA", "TXT", "MX", "PTR", "HTTPS", "SVCB", "SRV", "CNAME"}
	for i := 0; i < n; i++ {
		rq := zzG02Rq{Host: zzG02BNames[rng.Intn(len(zzG02BNames))], Qt: qts[rng.Intn(len(qts))], C1: rng.Intn(3) == 0}
		if rng.Intn(3) == 0 {
			rq.Qt = []string{"A", "AAAA"}[rng.Intn(2)]
		}
		if rng.Intn(6) == 0 {
			ips := []string{"h4a", "h4b", "h4c", "h6a", "h6b", "h6c", "h6m", "v4a"}
			rq.Host, rq.Qt = []string{ips[rng.Intn(len(ips))], "REV"}, "PTR"
		}
		qs = append(qs, rq)
	}

	return qs
}

// TestZZVerifG02Trace is direction B at the filtering level: lines
//
//	{"k":"cfg","cfg":...,"how":"fresh"|"live"}   the configuration in force from here on
//	{"k":"q","q":...,"out":...}                  one question and the projected result
func TestZZVerifG02Trace(t *testing.T) {
	w := zzNewWriter(t, "VERIF_OUT")
	defer w.close()

	seed := zzSeed()
	conc := zzG02NewConc(seed)
	rng := rand.New(rand.NewSource(seed ^ 0x6702))
	stats := map[string]int{}
	ncfg := 300
	if s := zzGetenv("VERIF_G02_TRACE_CFGS"); s != "" {
		ncfg, _ = strconv.Atoi(s)
	}

	var z *zzG02Filter
	defer func() {
		if z != nil {
			z.close()
		}
	}()

	for i := 0; i < ncfg; i++ {
		hostsOn := rng.Intn(5) != 0
		if z != nil && rng.Intn(8) != 0 {
			hostsOn = z.cur.HostsOn
		}
		cfg := zzG02BCfg(rng, hostsOn)
		salt := fmt.Sprintf("trace/%d", i)
		how := "live"
		var err error
		if z != nil && z.age < 40 && z.compatible(&cfg) {
			err = z.apply(&cfg, salt)
		} else {
			if z != nil {
				z.close()
			}
			how = "fresh"
			z, err = zzG02NewFilter(t, conc, &cfg, salt, stats)
		}
		if err != nil {
			t.Fatalf("configuration %d: %v", i, err)
		}

		w.put(map[string]any{"k": "cfg", "cfg": cfg, "how": how, "text": z.curText, "salt": salt})
		for qi, rq := range zzG02BQueries(rng, &cfg, 14) {
			got, _ := z.ask(&rq, conc.bits(fmt.Sprintf("%s/%d", salt, qi)))
			w.put(map[string]any{"k": "q", "q": rq, "out": got})
		}
	}
}
