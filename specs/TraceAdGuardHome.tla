-------------------------- MODULE TraceAdGuardHome --------------------------
(***************************************************************************)
(* G09 -- histories recorded from the fully wired server, judged by the    *)
(* operators of AdGuardHomeCore.tla (both binding directions use this      *)
(* module: direction A's histories are paths through AdGuardHome.tla's     *)
(* universe planned by checks/g09.py, direction B's are drawn by the Go    *)
(* driver from a larger universe).                                         *)
(*                                                                         *)
(* trace.ndjson: one line per executed step,                               *)
(*   [h, i, op, obs]                                                       *)
(*   h, i   history number, step number inside the history                 *)
(*   op     the abstract operation in the JSON form of the TLA+ value      *)
(*          (sets are arrays: AbsOp turns them back), or [k |-> "reset"]:  *)
(*          the harness posted every family's default value, cleared the   *)
(*          log and reset the statistics -- a history starts there         *)
(*   obs    what the harness saw AFTER the step:                           *)
(*            code    "ok" / "err" of an admin call                        *)
(*            reply   [c, rcode, cname, addrs] of a query                  *)
(*            asked   the questions the mock upstream received             *)
(*            head, tail   GET /control/querylog, newest first, as a delta *)
(*                    against the previous observation: the view is head   *)
(*                    followed by the last `tail' items of the previous    *)
(*                    view (keeps the trace small)                         *)
(*            stats   projection of GET /control/stats                     *)
(*            err     harness-level failure (HTTP 5xx, malformed reply)    *)
(*                                                                         *)
(* A step is accepted when SOME admissible result of Apply explains the    *)
(* whole observation; the state then continues from that result.  The      *)
(* first rejected line of a history is recorded with what the spec         *)
(* expected and the rest of that history is skipped (its state is off the  *)
(* spec); the next history starts from the reset state again.              *)
(***************************************************************************)
EXTENDS AdGuardHomeCore, Json

Trace == ndJsonDeserialize("trace.ndjson")

VARIABLES l,      \* next line
          S,      \* system state of the specification
          ov,     \* the observed log view after the previous line
          skip,   \* the current history has a rejected line
          bad     \* the rejected lines (first of each history)
vars == <<l, S, ov, skip, bad>>

\* ------------------------------------------------- JSON value -> TLA+ value
AbsClient(j) == [name |-> j.name, ids |-> SeqToSet(j.ids), own |-> j.own, bs |-> j.bs, vals |-> j.vals,
                 svcs |-> SeqToSet(j.svcs), pause |-> j.pause, ignQ |-> j.ignQ, ignS |-> j.ignS]
\* Access-list entries and blocked-host patterns are rebuilt with AccessCore's
\* own constructors (the harness writes plain entries: no exception rules, no
\* mapped or fully qualified spellings), so that fields the module adds to its
\* records do not have to be known here.
AbsEntry(j) == CASE j.k = "ip"   -> AC!Ip(j.fam, j.bits)
                 [] j.k = "cidr" -> AC!Cidr(j.fam, j.bits)
                 [] j.k = "id"   -> AC!Id(j.id)
AbsPat(j) == AC!PatT(j.k, j.n, j.qt)
AbsOp(j) ==
    CASE j.k = "client_add"       -> [k |-> j.k, c |-> AbsClient(j.c)]
      [] j.k = "client_update"    -> [k |-> j.k, name |-> j.name, c |-> AbsClient(j.c)]
      [] j.k = "access_set"       -> [k |-> j.k, allowed |-> {AbsEntry(x) : x \in SeqToSet(j.allowed)},
                                      disallowed |-> {AbsEntry(x) : x \in SeqToSet(j.disallowed)},
                                      hosts |-> {AbsPat(x) : x \in SeqToSet(j.hosts)}]
      [] j.k = "set_rules"        -> [k |-> j.k, rules |-> SeqToSet(j.rules)]
      [] j.k = "blocked_services" -> [k |-> j.k, svcs |-> SeqToSet(j.svcs)]
      [] j.k = "qlog_config"      -> [k |-> j.k, enabled |-> j.enabled, anon |-> j.anon, ignored |-> SeqToSet(j.ignored)]
      [] j.k = "stats_config"     -> [k |-> j.k, enabled |-> j.enabled, ignored |-> SeqToSet(j.ignored)]
      [] OTHER                    -> j

ViewOf(obs) == obs.head \o SubSeq(ov, Len(ov) - obs.tail + 1, Len(ov))

\* ------------------------------------------------------------- judging
OutOK(op, out, obs) ==
    IF op.k = "query" THEN ReplyOK(out, obs.reply, obs.asked)
    ELSE obs.code = out /\ Len(obs.asked) = 0

Why(op, r, obs, view) ==
    (IF obs.err # "" THEN {"error"} ELSE {})
    \cup (IF OutOK(op, r.out, obs) THEN {} ELSE {"reply"})
    \cup (IF LogOK(r.S, view) THEN {} ELSE {"log"})
    \cup (IF StatsOK(r.S, obs.stats) THEN {} ELSE {"stats"})

BagPairs(f) == {[k |-> k, c |-> f[k]] : k \in DOMAIN f}
Expected(r) == [out |-> r.out, log |-> LogView(r.S),
                stats |-> [total |-> r.S.st.total, blocked |-> r.S.st.blocked, dom |-> BagPairs(r.S.st.dom),
                           bdom |-> BagPairs(r.S.st.bdom), cli |-> BagPairs(r.S.st.cli), anonst |-> r.S.anonst]]

Reject(ln, why, exp) == Append(bad, [l |-> l, h |-> ln.h, i |-> ln.i, why |-> why, exp |-> exp])

Judge(ln, op, view) ==
    \E cands \in {Apply(S, op)} :
    \E good \in {{r \in cands : Why(op, r, ln.obs, view) = {}}} :
        IF good # {}
        THEN /\ S' = (CHOOSE r \in good : TRUE).S
             /\ skip' = FALSE /\ bad' = bad
        ELSE \E r \in {CHOOSE x \in cands : TRUE} :
             /\ S' = r.S /\ skip' = TRUE
             /\ bad' = Reject(ln, Why(op, r, ln.obs, view), Expected(r))

Line ==
    /\ l <= Len(Trace)
    /\ l' = l + 1
    /\ \E ln \in {Trace[l]} :
       \E view \in {ViewOf(ln.obs)} :
         /\ ov' = view
         /\ IF ln.op.k = "reset"
            THEN \* a new history: the reset must have left nothing behind
                 /\ S' = SReset
                 /\ \E why \in {(IF ln.obs.err # "" THEN {"error"} ELSE {})
                                \cup (IF Len(view) = 0 THEN {} ELSE {"log"})
                                \cup (IF StatsOK(SReset, ln.obs.stats) THEN {} ELSE {"stats"})} :
                      IF why = {} THEN skip' = FALSE /\ bad' = bad
                      ELSE skip' = TRUE /\ bad' = Reject(ln, why, Expected([S |-> SReset, out |-> "ok"]))
            ELSE IF skip THEN UNCHANGED <<S, skip, bad>>
            ELSE Judge(ln, AbsOp(ln.op), view)
    /\ (l' = Len(Trace) + 1 => PrintT(<<"@@V", ToJson([n |-> Len(Trace), bad |-> bad'])>>))

Init == l = 1 /\ S = S0 /\ ov = <<>> /\ skip = FALSE /\ bad = <<>>
Spec == Init /\ [][Line]_vars
=============================================================================
