--------------------------- MODULE UpstreamsCore ---------------------------
(***************************************************************************)
(* G11 -- upstream configuration, upstream selection, fallback, private    *)
(* reverse lookups: the constant-level vocabulary.                         *)
(*                                                                         *)
(* Sources (documentation, not control flow): openapi DNSConfig            *)
(* ("Upstream servers, port is optional after colon.  Empty value will     *)
(* reset it to default values", "List of fallback DNS servers used when    *)
(* upstream DNS servers are not responding"), the settings page texts      *)
(* (client/src/__locales/en.json: bootstrap_dns_desc "IP addresses of DNS  *)
(* servers ... Comments are not permitted", fallback_dns_desc "The syntax  *)
(* is the same as in the main upstreams field", local_ptr_desc,            *)
(* use_private_ptr_resolvers_desc), the CHANGELOG (#2704 #2889 #3028 #3136 *)
(* #4503 #4699 #4865 #4977 #6182 #6231 #6820 "requires a valid Private     *)
(* reverse DNS servers, when enabled"), and the documentation comment of   *)
(* ParseUpstreamsConfig, which the "Learn more" link of the settings page  *)
(* reproduces:                                                             *)
(*                                                                         *)
(*   [/host.com/]1.2.3.4            reserved upstreams for host.com and    *)
(*                                  its subdomains                         *)
(*   [/www.host.com/]2.3.4.5        "More specific domains take priority"  *)
(*   [/maps.host.com/]#             "will go to default server"            *)
(*   [/*.domain.com/]1.2.3.4        "all subdomains ... but domain.com     *)
(*                                  query will be sent to default server"  *)
(*   # comment, empty line          skipped                                *)
(*                                                                         *)
(* A domain name is a sequence of labels, TOP-LEVEL LABEL FIRST            *)
(* (www.example.com = <<"com","example","www">>), so that "is a subdomain  *)
(* of" is "has as a prefix".  Reverse names are ordinary names:            *)
(* 77.11.168.192.in-addr.arpa = <<"arpa","in-addr","192","168","11","77">>.*)
(***************************************************************************)
EXTENDS Naturals, Sequences, FiniteSets

CONSTANT Up        \* identifiers of the upstream servers of the universe

\* ------------------------------------------------------------------ names
IsPrefix(p, n) == Len(p) <= Len(n) /\ \A i \in 1..Len(p) : p[i] = n[i]

\* A pattern is what stands between the slashes of "[/.../]": a domain d,
\* or "*." + d (w = TRUE: the subdomains of d only, not d itself).
Pat(d, w) == [d |-> d, w |-> w]
PatMatches(p, n) == IsPrefix(p.d, n) /\ (p.w => Len(n) > Len(p.d))

\* ------------------------------------------------------------------ lists
\* A section is a pattern with the upstreams reserved for it; v = {} is
\* "[/d/]#": use the default (general) upstreams of the list.
Sec(p, v) == [p |-> p, v |-> v]

\* An upstream list (upstream_dns, fallback_dns, local_ptr_upstreams) is
\* abstracted to
\*   gen   the general ("default") upstreams: lines without a section,
\*   secs  the sections (at most one per pattern: several lines for one
\*         pattern are its union -- a concretisation choice),
\*   self  the list names AdGuard Home's own DNS address (only meaningful
\*         for local_ptr_upstreams: "except for the AdGuard Home IP
\*         addresses", #6231),
\*   bad   "ok", or the kind of the one invalid line it contains.
\* Comments and empty lines are not part of the abstraction: the statement
\* says they are ignored, so they are a concretisation choice as well (the
\* reported configuration is compared literally on the concrete side).
List(gen, secs) == [gen |-> gen, secs |-> secs, self |-> FALSE, bad |-> "ok"]
NoList == List({}, {})
Bad(l, kind) == [l EXCEPT !.bad = kind]
WithSelf(l) == [l EXCEPT !.self = TRUE]
IsEmpty(l) == l.gen = {} /\ l.secs = {} /\ ~l.self

\* -------------------------------------------------------------- selection
Matching(l, n) == {s \in l.secs : PatMatches(s.p, n)}
Deepest(S) == {s \in S : \A t \in S : Len(t.p.d) <= Len(s.p.d)}
Named(l, s) == IF s.v = {} THEN l.gen ELSE s.v

\* n is exactly the domain of a "subdomains only" section.
WildAt(l, n) == \E s \in l.secs : s.p.w /\ s.p.d = n

\* Sel(l, n): the SET OF ADMISSIBLE upstream sets for name n under list l.
\* Normally one: the upstreams of the most specific matching section, the
\* general ones if it says "#" or nothing matches.  Where the documentation
\* is silent there are two:
\*   * n is the domain d of "[/*.d/]...": the text says d "will be sent to
\*     default server ... as every other query" in an example without any
\*     less specific section; whether a less specific section ([/com/]...
\*     for d = example.com) still applies to d is not said.  Admitted: the
\*     most specific OTHER matching section, or the general upstreams.
\* (Two sections [/d/] and [/*.d/] for the same d are not generated: which
\* of them is "more specific" for the subdomains is not documented.  The
\* operator takes their union.)
Sel(l, n) ==
    LET M == Matching(l, n) IN
    (IF M = {} THEN {l.gen} ELSE {UNION {Named(l, s) : s \in Deepest(M)}})
        \cup (IF WildAt(l, n) THEN {l.gen} ELSE {})

\* Fallback servers: "The syntax is the same as in the main upstreams
\* field"; no fallback list, no fallback servers.
FbSel(fb, n) == IF IsEmpty(fb) THEN {{}} ELSE Sel(fb, n)

\* The union of everything a list can ever name for n (for the declarative
\* restatements only).
NamedFor(l, n) == l.gen \cup UNION {s.v : s \in Matching(l, n)}

\* --------------------------------------------------------------- outcomes
\* An admissible outcome of one question:
\*   cls   "up"    answered with the answer of an upstream in `by`
\*         "local" answered by AdGuard Home itself with data
\*         "nx"    NXDOMAIN made by AdGuard Home
\*         "fail"  SERVFAIL (nobody answered)
\*   may   the upstreams that MAY receive the question (nobody else may)
\*   must  the upstreams that MUST have received it
Alt(cls, by, may, must) == [cls |-> cls, by |-> by, may |-> may, must |-> must]
Local == Alt("local", {}, {}, {})
NX    == Alt("nx", {}, {}, {})

\* "List of fallback DNS servers used when upstream DNS servers are not
\* responding": while one selected upstream responds, the answer is its
\* answer and no fallback server sees the question; the fallback servers are
\* asked only after every selected upstream was asked and failed.
Fwd(P, F, down) ==
    IF P \ down # {} THEN Alt("up", P \ down, P, {})
    ELSE IF F \ down # {} THEN Alt("up", F \ down, P \cup F, P)
    ELSE Alt("fail", {}, P \cup F, P)

Forward(cfg, down, n) == {Fwd(P, F, down) : P \in Sel(cfg.up, n), F \in FbSel(cfg.fb, n)}

\* The private reverse DNS servers in effect: the configured ones without
\* AdGuard Home's own address; "If not set, the default DNS resolvers of your
\* OS will be used, except for the AdGuard Home IP addresses" (sys is what is
\* left of the OS's list).
PtrEff(ptr, sys) == IF IsEmpty(ptr) THEN List(sys, {}) ELSE [ptr EXCEPT !.self = FALSE]

\* Private questions never use the fallback servers (they are as public as
\* the main ones).
PrivFwd(E, n, down) ==
    {IF P \ down # {} THEN Alt("up", P \ down, P, {}) ELSE Alt("fail", {}, P, P) : P \in Sel(E, n)}

\* A question: k = "a" (an address question) or "ptr"; n its name; c its
\* class, which the harness realises by the choice of the name:
\*   a:   "plain"       an ordinary name
\*        "lanknown"    <host>.<dhcp.local_domain_name> of a DHCP lease
\*        "lanunknown"  <label>.<dhcp.local_domain_name> without a lease
\*   ptr: "pub"         reverse name of a public address
\*        "privknown"   reverse name of a private address that a DHCP lease
\*                      or the hosts file names
\*        "privunknown" reverse name of a private address nobody knows
\* loc: "local" = the client's address is in the private networks, "ext".
Out(cfg, sys, down, loc, q) ==
    CASE q.k = "a" /\ q.c = "plain" -> Forward(cfg, down, q.n)
      \* #2889/#4865: names of DHCP clients are not for outside clients, and
      \* an unknown one is "processed by filters" and then NXDOMAIN; never
      \* forwarded.
      [] q.k = "a" /\ q.c = "lanknown" -> IF loc = "local" THEN {Local} ELSE {NX}
      [] q.k = "a" /\ q.c = "lanunknown" -> {NX}
      [] q.k = "ptr" /\ q.c = "pub" -> Forward(cfg, down, q.n)
      [] OTHER ->
           IF loc # "local" THEN {NX}
           ELSE IF q.c = "privknown"
                \* use_private_ptr_resolvers_desc: "Resolve ... through private
                \* upstream servers, DHCP, /etc/hosts, etc.  If disabled,
                \* AdGuard Home will respond to all such requests with
                \* NXDOMAIN" against #4699 "PTR requests for addresses leased
                \* by DHCP will now be resolved": both admitted when off.
                THEN (IF cfg.use THEN {Local} ELSE {Local, NX})
           ELSE IF cfg.use THEN PrivFwd(PtrEff(cfg.ptr, sys), q.n, down)
           ELSE {NX}

\* An observation o = [rcv, cls, by] conforms to an admissible outcome a.
Conforms(o, a) ==
    /\ o.cls = a.cls
    /\ o.rcv \subseteq a.may
    /\ a.must \subseteq o.rcv
    /\ (a.cls = "up" => o.by \in a.by /\ o.by \in o.rcv)

\* ------------------------------------------------------------- validation
\* The configuration: up, fb, ptr lists; boot a token ("default" after an
\* empty list was sent: "Empty value will reset it to default values");
\* use = use_private_ptr_resolvers.
Fields == {"up", "fb", "boot", "ptr", "use"}

\* A request carries the fields of `has`; the other components are dummies.
Req(has, up, fb, boot, ptr, use) == [has |-> has, up |-> up, fb |-> fb, boot |-> boot, ptr |-> ptr, use |-> use]

Merge(cfg, r) ==
    [up   |-> IF "up" \in r.has THEN r.up ELSE cfg.up,
     fb   |-> IF "fb" \in r.has THEN r.fb ELSE cfg.fb,
     boot |-> IF "boot" \in r.has THEN (IF r.boot = "empty" THEN "default" ELSE r.boot) ELSE cfg.boot,
     ptr  |-> IF "ptr" \in r.has THEN r.ptr ELSE cfg.ptr,
     use  |-> IF "use" \in r.has THEN r.use ELSE cfg.use]

\* Bootstrap tokens that are lists of plain IP / IP-addressed secure
\* resolvers; every other token is a kind of invalid line (a comment, an
\* empty line, a resolver with a host name, an unknown scheme, a section).
BootGood == {"b1", "b2", "empty"}

\* "requires a valid Private reverse DNS servers, when enabled" (#6820): the
\* RESULTING pair (use, servers) must have a server in effect when use is on.
\* When it is off and the list only names AdGuard Home itself the
\* documentation does not say (TRUE and FALSE admitted).
PrivOK(use, ptr, sys) ==
    IF PtrEff(ptr, sys).gen # {} THEN {TRUE}
    ELSE IF use THEN {FALSE}
    ELSE IF IsEmpty(ptr) THEN {TRUE} ELSE BOOLEAN

FieldsOK(r) ==
    /\ "up" \in r.has => r.up.bad = "ok"
    /\ "fb" \in r.has => r.fb.bad = "ok"
    /\ "boot" \in r.has => r.boot \in BootGood
    /\ "ptr" \in r.has => r.ptr.bad = "ok"

\* The set of admissible verdicts on a request in configuration cfg.
Accepts(cfg, sys, r) ==
    IF ~FieldsOK(r) THEN {FALSE}
    ELSE IF r.has \cap {"ptr", "use"} = {} THEN {TRUE}
    ELSE PrivOK(Merge(cfg, r).use, Merge(cfg, r).ptr, sys)

\* The admissible results [code, cfg] of POST /control/dns_config.
Results(cfg, sys, r) ==
    {IF ok THEN [code |-> 200, cfg |-> Merge(cfg, r)] ELSE [code |-> 400, cfg |-> cfg] : ok \in Accepts(cfg, sys, r)}

\* ---------------------------------------------------- test_upstream_dns
\* POST /control/test_upstream_dns (openapi: "Status of testing each
\* requested server, with "OK" meaning that server works, any other text
\* means an error"): every server named by a line of the three lists is
\* reported, "OK" iff it responds; every invalid line is reported with an
\* error; nothing is stored.
NamedAll(l) == l.gen \cup UNION {s.v : s \in l.secs}
TestOut(r, down) ==
    LET N == NamedAll(r.up) \cup NamedAll(r.fb) \cup NamedAll(r.ptr) IN
    [ok |-> N \ down, notok |-> N \cap down, parse |-> {f \in {"up", "fb", "ptr"} : r[f].bad # "ok"}]

\* A stored configuration is always a valid one.
CfgValid(cfg, sys) ==
    /\ cfg.up.bad = "ok" /\ cfg.up.gen # {}
    /\ cfg.fb.bad = "ok"
    /\ cfg.ptr.bad = "ok"
    /\ cfg.boot \in (BootGood \ {"empty"}) \cup {"default"}
    /\ cfg.use => PtrEff(cfg.ptr, sys).gen # {}
=============================================================================
