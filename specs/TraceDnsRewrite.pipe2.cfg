SPECIFICATION Spec
