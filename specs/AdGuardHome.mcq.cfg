SPECIFICATION Spec
CONSTANTS
  W = 4
  LowBits = 1
  SvcDomains <- AllSvcDomains
  Svc2Domains <- AllSvcDomains
  Scale = 1
  MaxAdmin = 2
  MaxQuery = 2
  Fault = "none"
  MaxLen = 3
INVARIANTS TypeOK LogExactlyOnce StatsTotals DeniedLeavesNoTrace EffectOfSettings ViewSound AttributionsAgree
