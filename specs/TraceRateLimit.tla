--------------------------- MODULE TraceRateLimit ---------------------------
(***************************************************************************)
(* Direction B for the throttling half of C12.  Each line of the trace is  *)
(* one step of a seeded random timed history driven through the real       *)
(* POST /control/login handler: production parameters (5 attempts, 15 min) *)
(* and other limits / block durations, four addresses, time in             *)
(* milliseconds; a request may claim (headers) no address, the address of  *)
(* another client, one inside or one outside the trusted-proxy set.        *)
(* A line carries the action, the reply and the projected                  *)
(* failed-attempt table before and after it; the line is accepted iff      *)
(* RateLimit.tla's own transition operators (TableOutcomes,                *)
(* TableAfterTick, TableMatches) admit it.  Consecutive lines must be      *)
(* continuous (pre = previous post, clock advanced by ticks only), so      *)
(* accepting every line is accepting the whole history.                    *)
(***************************************************************************)
EXTENDS Integers, Sequences, FiniteSets, TLC, Json

Trace == ndJsonDeserialize("trace.ndjson")

\* The "minute" of the statement, in milliseconds; the harness logs the
\* code's constant and a line with another value is rejected.
W == 60000

\* RateLimit.tla's operators; its state variables are not used here.
RL == INSTANCE RateLimit WITH Addrs <- {}, Claims <- {}, MaxAttemptsSet <- {}, BlockDurSet <- {},
                              Window <- W, MaxTick <- 1,
                              n <- 0, b <- 0, rec <- <<>>, clock <- 0, evals <- 0,
                              hit <- <<>>, streak <- <<>>, burst <- <<>>, out <- <<>>

VARIABLES l, bad

Tbl(o) == [a \in DOMAIN o |-> [cnt |-> o[a][1], until |-> o[a][2]]]

Empty(t) == \A a \in DOMAIN t : t[a] = RL!NoRec

LineOk(i) ==
    LET L    == Trace[i]
        pre  == Tbl(L.pre)
        post == Tbl(L.post)
    IN
    /\ L.w = W /\ L.n >= 1 /\ L.b >= 1
    /\ CASE L.k = "reset"   -> Empty(pre) /\ Empty(post) /\ L.now = 0
         [] L.k = "attempt" ->
                /\ L.a \in DOMAIN pre
                /\ \E o \in RL!TableOutcomes(pre, L.a, L.c, L.ok, L.now, L.n, L.b) :
                      o.res = L.res /\ RL!TableMatches(o.tbl, post, L.now)
         [] L.k = "tick"    -> L.d >= 1 /\ RL!TableMatches(RL!TableAfterTick(pre, L.now), post, L.now)
         [] OTHER           -> FALSE
    /\ (i > 1 /\ L.k # "reset" =>
          LET P == Trace[i - 1] IN
          /\ P.tr = L.tr /\ P.n = L.n /\ P.b = L.b
          /\ L.pre = P.post
          /\ L.now = P.now + (IF L.k = "tick" THEN L.d ELSE 0))
    /\ (i = 1 => L.k = "reset")

Init == l = 1 /\ bad = {}
Next == /\ l <= Len(Trace)
        /\ bad' = IF LineOk(l) THEN bad ELSE bad \cup {l}
        /\ l' = l + 1
        /\ (l' = Len(Trace) + 1 => PrintT(<<"@@V", ToJson([n |-> Len(Trace), bad |-> bad'])>>))
Spec == Init /\ [][Next]_<<l, bad>>
=============================================================================
