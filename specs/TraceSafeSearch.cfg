SPECIFICATION Spec
CONSTANT TTL = 3
