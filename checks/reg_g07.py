PROPERTY = "G07"
ENTRY = {
        "text": "Growth item: the life cycle of filter lists through the admin API. FilterListsCore.tla describes what the administrator sees and what the "
                "resolver does as one abstract state (the table of lists keyed by URL with side, name, enabled, file content, id; the custom rules; the global "
                "switch; the ids handed out in the running process' life time) and one function per request (add_url, remove_url, set_url, set_rules, config, "
                "restart from the written configuration); the rules in force are a function of the table (custom rules + enabled block lists, overridden by enabled "
                "allow lists and custom exceptions), given as verdicts for probe names both for GET /control/filtering/check_host and for a DNS query. The statement "
                "(ids unique, never reserved, never reused within a life time; a refused request leaves no trace; remove takes list, rules and file out; set_url keeps id "
                "and side and on a failed download the whole old entry; a restart changes nothing) is asserted by TLC on every transition of FilterLists.tla, whose "
                "closed state graph over four small universes (all histories, no length bound) is emitted as edges. Edge-covering tours are walked on real DNSFilters "
                "created as package home does (New, EnableFilters, Start) and driven only through the handlers they register, against a scripted httptest list server; "
                "after every step the reply class, GET status, the files in data/filters, the ids and the verdicts of check_host and CheckHost are compared. Seeded random "
                "longer histories over three sources are recorded and validated by TraceFilterLists.tla.",
        "design_ref": "DESIGN.md section 5, item 8 (notes/G07.md)",
        "note": "Trusted: TLC; the projection functions of zz_verif_g07_test.go; testing/synctest (every DNSFilter lives in a bubble: virtual clock, so that a restart "
                "within the second and a later one are both deterministic, and synctest.Wait as the barrier for the asynchronous engine rebuild - a rebuild that never "
                "comes shows as stale verdicts). Restart = WriteDiskConfig -> YAML -> Close -> New over the same directory. Whether a list body without rules is a valid "
                "list is measured on add_url and then demanded of set_url as well. Not compared: last_updated, rules_count and file content of disabled lists, *.old files, "
                "reply bodies, the reply code of remove_url, list order. Scheduled refreshes are off (C15), local paths are C17. Negative control that must fail in TLC: "
                "FilterLists.forget.cfg (the process forgets the ids of its own table at a restart).",
        "technique": "TLA+ specs enumerated by TLC; edge-covering tours on the real code through the real handlers; TLC trace validation of recorded runs",
    }
