SPECIFICATION Spec
CONSTANT DoEmit = FALSE
INVARIANTS TypeOK StoreAgrees NoResurrection NoUnauthenticatedHandler OnlyPublic MutatingNeedsMethodAndJSON PublicReachable AuthServed
