PROPERTY = "C12"
ENTRY = {
        "text": "RateLimit.tla (failed-attempt table, written from the statement; 2 peer addresses, each request may claim another origin in a forwarding header -- "
                "none / another client / inside / outside the trusted-proxy set --, limit 1..3, block 1..3 ticks, minute = 2 ticks) and "
                "Auth.tla (sessions in memory + file, login/request/clock/restart and logout as call/effect/return so that TLC explores requests racing a logout; 3 token names, TTL 1..3 ticks) are explored by TLC "
                "exhaustively modulo time translation (no bound on history length) with the statement's properties as invariants / action properties; "
                "the same runs emit every labelled edge (about 1.4e4 after composing logout and logout||request outcomes) and the Go harness walks all of them, under the synctest virtual clock, "
                "with races forced by parking both requests on the sessions mutex or the database write transaction, against the real "
                "POST /control/login handler, a protected route behind the real optionalAuth, the real logout handler and a real sessions.db "
                "(restart = close and reopen), comparing reply and projected state after every step; seeded random timed histories with production "
                "parameters (5 attempts / 15 min / 30 days) and other parameter values are recorded and validated line by line by TraceRateLimit.tla / TraceAuth.tla.",
        "design_ref": "DESIGN.md section 4 C12",
        "note": "Open finding block-duration-overflow: initUsers wraps int64 for block_auth_min above 153722867 minutes and throttling is silently off (found through the config leg: huge block durations fed through the real initUsers). "
                "Trusted: TLC, the abstraction functions of zz_verif_c12_test.go, testing/synctest. Handler level (httptest through the real mux and wrappers), no sockets. "
                "'Within a minute' is read as the minute opened by the first counted failure (fixed window, as the anchors say). At the single instant where a window or a block ends "
                "the spec admits both 'count remembered' and 'count forgotten'; whether a request prolongs a session (the code does so once a day) is left open by the spec. "
                "'Password not evaluated' is observed as: correct password answered 429 while blocked and the table unchanged. The block does not survive a restart (not claimed by the statement, not modelled).",
        "technique": "TLA+ specs model-checked by TLC; exhaustive edge-covering walks + random walks of the spec graph against the real code; TLC trace validation",
    }
