package dnsforward

// C16 conformance harness: replays TLC-generated (input, admissible outcomes)
// vectors of specs/ClientID.tla against the real HandleBefore (direction A)
// and records a trace of random larger inputs for TLC to validate
// (direction B).

import (
	"crypto/tls"
	"encoding/binary"
	"encoding/json"
	"fmt"
	"math/rand"
	"net"
	"net/http"
	"net/netip"
	"net/url"
	"strings"
	"testing"

	"github.com/AdguardTeam/dnsproxy/proxy"
	"github.com/AdguardTeam/golibs/errors"
	"github.com/AdguardTeam/golibs/logutil/slogutil"
	"github.com/miekg/dns"
	"github.com/quic-go/quic-go"
)

type zzC16In struct {
	Proto  string   `json:"proto"`
	Host   []string `json:"host"`
	Strict bool     `json:"strict"`
	Cli    []string `json:"cli"`
	Via    string   `json:"via"`
	Port   bool     `json:"port"`
	Path   []string `json:"path"`
}

type zzC16Out struct {
	K string `json:"k"`
	V string `json:"v"`
}

type zzC16Vec struct {
	In  zzC16In    `json:"in"`
	Out []zzC16Out `json:"out"`
}

type zzC16TLSConn struct {
	net.Conn
	sn string
}

func (c zzC16TLSConn) ConnectionState() (cs tls.ConnectionState) { cs.ServerName = c.sn; return cs }

type zzC16QUICConn struct {
	quic.Connection
	sn string
}

func (c zzC16QUICConn) ConnectionState() (cs quic.ConnectionState) {
	cs.TLS.ServerName = c.sn

	return cs
}

// zzC16Label renders an abstract label.
func zzC16Label(l string) (s string) {
	switch l {
	case "L63":
		return strings.Repeat("x", 62) + "1"
	case "L64":
		return strings.Repeat("x", 63) + "1"
	case "EMPTY":
		return ""
	default:
		return l
	}
}

func zzC16Name(ls []string) (s string) {
	parts := make([]string, len(ls))
	for i, l := range ls {
		parts[i] = zzC16Label(l)
	}

	return strings.Join(parts, ".")
}

var zzC16Protos = map[string]proxy.Proto{
	"udp":      proxy.ProtoUDP,
	"tcp":      proxy.ProtoTCP,
	"dnscrypt": proxy.ProtoDNSCrypt,
	"tls":      proxy.ProtoTLS,
	"quic":     proxy.ProtoQUIC,
	"https":    proxy.ProtoHTTPS,
}

// zzC16PctEncode percent-encodes one seeded character of seg, if any.
func zzC16PctEncode(rng *rand.Rand, seg string) (enc string) {
	if seg == "" || rng.Intn(3) != 0 {
		return url.PathEscape(seg)
	}

	i := rng.Intn(len(seg))

	return url.PathEscape(seg[:i]) + fmt.Sprintf("%%%02X", seg[i]) + url.PathEscape(seg[i+1:])
}

// zzC16Run concretises one abstract input, drives the real server code and
// returns the abstract outcome together with a description of the concrete
// request.
func zzC16Run(in *zzC16In, rng *rand.Rand, reqID uint64) (out zzC16Out, concrete string, err error) {
	acc, err := newAccessCtx(nil, nil, nil)
	if err != nil {
		return out, "", fmt.Errorf("access ctx: %w", err)
	}

	srv := &Server{
		conf: ServerConfig{TLSConf: &TLSConfig{
			ServerName:     zzC16Name(in.Host),
			StrictSNICheck: in.Strict,
		}},
		baseLogger:    slogutil.NewDiscardLogger(),
		clientIDCache: zzNewClientIDCache(),
	}
	srv.access.Store(acc)

	cli := zzC16Name(in.Cli)
	req := (&dns.Msg{}).SetQuestion("probe.example.org.", dns.TypeA)
	pctx := &proxy.DNSContext{
		Proto:     zzC16Protos[in.Proto],
		Req:       req,
		Addr:      netip.MustParseAddrPort("192.0.2.7:5353"),
		RequestID: reqID,
	}

	switch in.Proto {
	case "tls":
		pctx.Conn = zzC16TLSConn{sn: cli}
		concrete = "sni=" + cli
	case "quic":
		pctx.QUICConnection = zzC16QUICConn{sn: cli}
		concrete = "sni=" + cli
	case "https":
		segs := make([]string, len(in.Path))
		for i, s := range in.Path {
			segs[i] = zzC16PctEncode(rng, zzC16Label(s))
		}

		raw := "/" + strings.Join(segs, "/")
		if rng.Intn(4) == 0 {
			raw += "/"
		}

		var u *url.URL
		u, err = url.Parse("https://placeholder.invalid" + raw)
		if err != nil {
			return out, raw, fmt.Errorf("parsing url: %w", err)
		}

		r := &http.Request{Method: http.MethodGet, ProtoMajor: 1, ProtoMinor: 1, URL: u, Header: http.Header{}}
		if in.Via == "sni" {
			r.TLS = &tls.ConnectionState{ServerName: cli}
			r.Host = "unrelated.host.example"
		} else {
			r.Host = cli
			if in.Port {
				r.Host += ":8443"
			}
		}

		pctx.HTTPRequest = r
		concrete = fmt.Sprintf("path=%q host=%q tls=%v", raw, r.Host, r.TLS != nil)
	default:
		// Plain protocols: offer a TLS-looking connection anyway, it must be
		// ignored.
		pctx.Conn = zzC16TLSConn{sn: cli}
		concrete = "plain, conn sni=" + cli
	}

	herr := srv.HandleBefore(nil, pctx)
	if herr != nil {
		var bre *proxy.BeforeRequestError
		if errors.As(herr, &bre) && bre.Response != nil && bre.Response.Rcode == dns.RcodeServerFailure {
			return zzC16Out{K: "err"}, concrete, nil
		}

		return zzC16Out{K: "other", V: herr.Error()}, concrete, nil
	}

	key := [8]byte{}
	binary.BigEndian.PutUint64(key[:], reqID)
	id := string(srv.clientIDCache.Get(key[:]))
	if id == "" {
		return zzC16Out{K: "none"}, concrete, nil
	}

	return zzC16Out{K: "id", V: id}, concrete, nil
}

func zzC16Admissible(v *zzC16Vec, got zzC16Out) (ok bool) {
	for _, o := range v.Out {
		if o.K != got.K {
			continue
		}

		if o.K != "id" || strings.ToLower(zzC16Label(o.V)) == got.V {
			return true
		}
	}

	return false
}

// TestZZVerifC16Replay is direction A.
func TestZZVerifC16Replay(t *testing.T) {
	w := zzNewWriter(t, "VERIF_OUT")
	defer w.close()

	rng := rand.New(rand.NewSource(zzSeed()))
	n, bad := 0, 0
	zzReadNDJSON(t, "VERIF_IN", func(line []byte) {
		v := &zzC16Vec{}
		if err := json.Unmarshal(line, v); err != nil {
			t.Fatalf("bad vector: %v", err)
		}

		n++
		got, conc, err := zzC16Run(&v.In, rng, uint64(n))
		if err != nil {
			w.put(map[string]any{"kind": "skip", "in": v.In, "err": err.Error()})

			return
		}

		if zzC16Admissible(v, got) {
			return
		}

		// Reproduce in isolation before reporting.
		got2, conc2, _ := zzC16Run(&v.In, rand.New(rand.NewSource(1)), uint64(n)+1<<40)
		if zzC16Admissible(v, got2) {
			got3, _, _ := zzC16Run(&v.In, rng, uint64(n)+2<<40)
			if zzC16Admissible(v, got3) {
				w.put(map[string]any{"kind": "flaky", "in": v.In, "got": got, "concrete": conc})

				return
			}
		} else {
			conc, got = conc2, got2
		}

		bad++
		w.put(map[string]any{"kind": "bad", "in": v.In, "want": v.Out, "got": got, "concrete": conc})
	})

	w.put(map[string]any{"kind": "summary", "n": n, "bad": bad})
}

// ---------------------------------------------------------------- direction B

const zzC16Alphabet = "abcxyzABCXYZ0189-_.é "

func zzC16RandLabel(rng *rand.Rand) (s string) {
	switch rng.Intn(10) {
	case 0:
		return strings.Repeat("q", 60+rng.Intn(6))
	case 1, 2, 3:
		n := 1 + rng.Intn(8)
		b := make([]byte, n)
		for i := range b {
			b[i] = "abcdefXYZ019-"[rng.Intn(13)]
		}

		return string(b)
	case 4:
		n := 1 + rng.Intn(5)
		rs := []rune(zzC16Alphabet)
		b := make([]rune, n)
		for i := range b {
			b[i] = rs[rng.Intn(len(rs))]
		}

		return string(b)
	default:
		return []string{"cli", "Client-1", "my-phone", "x", "7", "a--b", "tv"}[rng.Intn(7)]
	}
}

// zzC16Classify is the harness's own label classifier, written from RFC 1123
// host-label rules and independent of the code under test.
func zzC16Classify(l string) (valid bool, lower string) {
	if len(l) < 1 || len(l) > 63 {
		return false, l
	}

	for i := 0; i < len(l); i++ {
		c := l[i]
		alnum := c >= 'a' && c <= 'z' || c >= 'A' && c <= 'Z' || c >= '0' && c <= '9'
		if alnum {
			continue
		}

		if c == '-' && i > 0 && i < len(l)-1 {
			continue
		}

		return false, l
	}

	return true, strings.ToLower(l)
}

// TestZZVerifC16Trace is direction B: random inputs from a larger universe,
// logged in the vocabulary of TraceClientID.tla.
func TestZZVerifC16Trace(t *testing.T) {
	w := zzNewWriter(t, "VERIF_OUT")
	defer w.close()

	rng := rand.New(rand.NewSource(zzSeed()))
	n := 4000
	if strings.EqualFold(strings.TrimSpace(getenvDefault("VERIF_TIER", "quick")), "thorough") {
		n = 40000
	}

	hosts := [][]string{{}, {"example", "com"}, {"dns", "home", "example", "org"}, {"h", "test"}}
	protos := []string{"udp", "tcp", "dnscrypt", "tls", "quic", "https", "https", "https", "tls", "quic"}
	for i := 0; i < n; i++ {
		in := zzC16In{
			Proto:  protos[rng.Intn(len(protos))],
			Host:   hosts[rng.Intn(len(hosts))],
			Strict: rng.Intn(2) == 0,
			Via:    "sni",
			Cli:    []string{},
			Path:   []string{},
		}

		base := in.Host
		if len(base) == 0 {
			base = []string{"example", "com"}
		}

		switch rng.Intn(8) {
		case 0:
			// Empty client name.
		case 1:
			in.Cli = append(in.Cli, base...)
		case 2, 3, 4:
			in.Cli = append([]string{strings.ReplaceAll(zzC16RandLabel(rng), ".", "")}, base...)
		case 5:
			in.Cli = append([]string{"a", strings.ReplaceAll(zzC16RandLabel(rng), ".", "")}, base...)
		case 6:
			// Suffix look-alike of the first label.
			in.Cli = append([]string{"cli", "x" + base[0]}, base[1:]...)
		default:
			in.Cli = []string{"cli", "elsewhere", "net"}
		}

		for _, l := range in.Cli {
			// A space or a non-ASCII rune cannot appear in a real SNI or Host
			// header in a way that survives parsing; keep such labels to paths.
			if strings.ContainsAny(l, " é") {
				in.Cli = append([]string{"cli"}, base...)

				break
			}
		}

		if in.Proto == "https" {
			if rng.Intn(2) == 0 {
				in.Via = "hosthdr"
				in.Port = rng.Intn(2) == 0 && len(in.Cli) > 0
			}

			np := rng.Intn(6)
			segs := []string{"dns-query", "dns-query", "dns-query", "..", ".", "", "other", "DNS-QUERY", "dns-queryx", "dns-query-1", "adns-query", "dns-quer"}
			for j := 0; j < np; j++ {
				if rng.Intn(2) == 0 {
					in.Path = append(in.Path, segs[rng.Intn(len(segs))])
				} else {
					in.Path = append(in.Path, strings.ReplaceAll(zzC16RandLabel(rng), "/", ""))
				}
			}

			if rng.Intn(3) == 0 && np > 0 {
				in.Path[0] = "dns-query"
			}
		}

		got, conc, err := zzC16Run(&in, rng, uint64(i+1))
		if err != nil {
			continue
		}

		type lab struct {
			S     string `json:"s"`
			Valid bool   `json:"valid"`
			Lower string `json:"lower"`
		}

		labs := []lab{}
		seen := map[string]bool{}
		for _, l := range append(append([]string{}, in.Cli...), in.Path...) {
			if seen[l] {
				continue
			}

			seen[l] = true
			v, lo := zzC16Classify(l)
			labs = append(labs, lab{S: l, Valid: v, Lower: lo})
		}

		w.put(map[string]any{"in": in, "out": got, "labels": labs, "concrete": conc})
	}
}

func getenvDefault(k, d string) (v string) {
	if v = zzGetenv(k); v == "" {
		return d
	}

	return v
}
