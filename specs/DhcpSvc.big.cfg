SPECIFICATION GenSpec
CONSTANTS
  Macs = {"m1", "m2", "m3"}
  Pool = {11, 12, 21, 31}
  Outs = {13}
  GWs = {10}
  Fars = {20}
  Hosts = {"h1", "h2", "h3"}
INVARIANTS
  KeyedByAddress OneLeasePerClientAndNet HostsUnique DynamicInsideRange
  RejectedLeavesUnchanged DiskEqualsMemory RestartRestoresSameTable AnswersAreUnique
