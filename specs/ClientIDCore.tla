---------------------------- MODULE ClientIDCore ----------------------------
(***************************************************************************)
(* The decision procedure of C16, written from the statement.  Parametric  *)
(* in the label-level facts (which label strings are valid host-name       *)
(* labels, and their lower-case forms) so that the exhaustive model        *)
(* (ClientID.tla) and trace validation (TraceClientID.tla) share one text. *)
(***************************************************************************)
(***************************************************************************)
(* HISTORY INDEPENDENCE.  Extract is a function of the request and of the  *)
(* CURRENT configuration (server name, strict flag) only: nothing a server *)
(* has seen before -- earlier requests, earlier configurations, earlier    *)
(* request identifiers -- may influence it.  The conformance harness        *)
(* therefore replays every vector on ONE long-lived server that is really  *)
(* reconfigured between configurations, in several seeded orders, with     *)
(* request identifiers that collide in their low 32 bits.                  *)
(***************************************************************************)
EXTENDS Sequences, Naturals, FiniteSets

CONSTANTS ValidLabels,   \* set of label strings that are valid host-name labels
          LowerMap       \* function: label string -> its lower-case form

Lower(l) == IF l \in DOMAIN LowerMap THEN LowerMap[l] ELSE l

IsSuffixOf(s, t) == Len(s) <= Len(t) /\ SubSeq(t, Len(t) - Len(s) + 1, Len(t)) = s

None == [k |-> "none", v |-> ""]
Err  == [k |-> "err", v |-> ""]
Id(l) == [k |-> "id", v |-> Lower(l)]

Protos      == {"udp", "tcp", "dnscrypt", "tls", "quic", "https"}
PlainProtos == {"udp", "tcp", "dnscrypt"}

\* ------------------------------------------------------------------- path

RECURSIVE CleanAcc(_, _)
CleanAcc(rest, acc) ==
    IF rest = <<>> THEN acc
    ELSE LET s == Head(rest) IN
         IF s = "" \/ s = "." THEN CleanAcc(Tail(rest), acc)
         ELSE IF s = ".." THEN CleanAcc(Tail(rest), IF acc = <<>> THEN acc ELSE SubSeq(acc, 1, Len(acc) - 1))
         ELSE CleanAcc(Tail(rest), Append(acc, s))
\* The cleaned form of a rooted path: no empty, dot or dot-dot segments.
Clean(p) == CleanAcc(p, <<>>)

\* What the path alone says: an outcome, or "cont" when the path is the bare
\* /dns-query and the server name decides.
FromPath(p) ==
    LET c == Clean(p) IN
    IF c = <<>> \/ c[1] # "dns-query" THEN Err
    ELSE IF Len(c) = 1 THEN [k |-> "cont", v |-> ""]
    ELSE IF Len(c) > 2 THEN Err
    ELSE IF c[2] \in ValidLabels THEN Id(c[2]) ELSE Err

\* ------------------------------------------------------------ server name
\* Host names are compared up to letter case (DNS names are case-insensitive;
\* the quantifier names client server names "differing case"): neither the TLS
\* layer nor the configuration normalises them.
LowerName(n) == [i \in 1..Len(n) |-> Lower(n[i])]
Immediate(cli, h) == Len(cli) = Len(h) + 1 /\ LowerName(Tail(cli)) = LowerName(h)
Deeper(cli, h)    == Len(cli) > Len(h) + 1 /\ IsSuffixOf(LowerName(h), LowerName(cli))

\* The statement: id only from <id>.<configured name>; equal name = no id;
\* strict + a name outside the configured domain = rejected.  A deeper
\* subdomain (a.b.<name>) is inside the domain but not of the form
\* <id>.<name>: never an id; whether strict mode rejects it the statement
\* does not say, so both "none" and "err" are admissible there.
FromName(h, cli, strict) ==
    IF h = <<>> THEN {None}
    ELSE IF LowerName(cli) = LowerName(h) THEN {None}
    ELSE IF Immediate(cli, h)
         THEN IF Head(cli) \in ValidLabels THEN {Id(Head(cli))}
              \* ".<name>": an empty label is no id at all; the statement does
              \* not say whether that is "<id>.<name> with a bad id" (error) or
              \* simply a name that carries no id, so without strict checking
              \* both are admitted.  It is never attributed to anybody.
              ELSE IF Head(cli) \in {"EMPTY", ""} /\ ~strict THEN {None, Err}
              ELSE {Err}
    ELSE IF ~strict THEN {None}
    ELSE IF Deeper(cli, h) THEN {None, Err}
    ELSE {Err}

Foreign(h, cli) == h # <<>> /\ LowerName(cli) # LowerName(h) /\ ~IsSuffixOf(LowerName(h), LowerName(cli))

Extract(i) ==
    IF i.proto \in PlainProtos THEN {None}
    ELSE IF i.proto = "https"
    THEN LET fp == FromPath(i.path) IN
         IF fp.k = "cont" THEN FromName(i.host, i.cli, i.strict)
         ELSE IF fp.k = "id" /\ i.strict
                 /\ (\/ Foreign(i.host, i.cli)
                     \* ... or the connection is a TLS one whose server name by
                     \* itself would be an error (a label that is no host-name
                     \* label, no name at all): the TLS layer may refuse such a
                     \* name in the handshake before any path is seen.
                     \/ (i.via = "sni" /\ i.host # <<>> /\ Err \in FromName(i.host, i.cli, TRUE)))
              \* PathWins: the path carries a well-formed id and the server
              \* name is foreign under strict checking.  The statement demands
              \* both "id from the path" and "foreign name rejected"; the TLS
              \* layer enforces the latter at handshake time.  Either is admitted.
              THEN {fp, Err}
         ELSE {fp}
    ELSE FromName(i.host, i.cli, i.strict)

=============================================================================
