package home

// G04 conformance harness, the part that lives in package home: GET
// /control/status (handleStatus) over a real dnsforward.Server +
// filtering.DNSFilter under the virtual clock of testing/synctest.
//
// Direction B only: seeded random timed histories of POST /control/protection
// (the server's own handler, as registered through HTTPRegister), GET
// /control/status, GET /control/dns_info and clock advances in milliseconds,
// recorded as NDJSON in the line format of TraceProtection.tla.  The write-back
// worker always runs as the real goroutine here (the harness waits for it
// with synctest.Wait after every step).  dnsforward registers its handlers
// once per process, so there is one server and no restart in this file (the
// walks and restarts are in package dnsforward).

import (
	"bytes"
	"encoding/json"
	"fmt"
	"math/rand"
	"net"
	"net/http"
	"net/http/httptest"
	"net/netip"
	"strconv"
	"strings"
	"sync"
	"testing"
	"testing/synctest"
	"time"

	"github.com/AdguardTeam/AdGuardHome/internal/dnsforward"
	"github.com/AdguardTeam/AdGuardHome/internal/filtering"
	"github.com/AdguardTeam/AdGuardHome/internal/schedule"
	"github.com/AdguardTeam/golibs/logutil/slogutil"
	"github.com/AdguardTeam/golibs/netutil"
	"gopkg.in/yaml.v3"
)

const zzG04Horizon = int64(2000000000)

var (
	zzG04HugeMS = []string{
		"9223372036855", "9223372036854776", "18446744073709", "18446744073710", "9223372036854775807",
		"9223372036854775808", "18446744073709551615", "10000000000000000", "27670116110564", "36893488147419",
	}
	zzG04BigMS = []string{
		"31536000000", "1000000000000", "157680000000", "9223372036853", "9223372036854", "4611686018427",
	}
)

type zzG04DHCP struct{}

func (zzG04DHCP) HostByIP(netip.Addr) (host string) { return "" }
func (zzG04DHCP) IPByHost(string) (ip netip.Addr)   { return netip.Addr{} }
func (zzG04DHCP) Enabled() (ok bool)                { return false }

type zzG04Env struct {
	t        *testing.T
	flt      *filtering.DNSFilter
	srv      *dnsforward.Server
	web      *webAPI
	handlers map[string]http.HandlerFunc
	disk     []byte
	t0       time.Time
}

func (e *zzG04Env) configModified() {
	if e.flt == nil {
		return
	}

	c := &filtering.Config{}
	e.flt.WriteDiskConfig(c)
	b, err := yaml.Marshal(c)
	if err != nil {
		e.t.Fatalf("g04: yaml: %v", err)
	}

	e.disk = b
}

func zzG04NewEnv(t *testing.T) (e *zzG04Env) {
	e = &zzG04Env{t: t, handlers: map[string]http.HandlerFunc{}}
	fc := &filtering.Config{
		DataDir:           t.TempDir(),
		BlockingMode:      filtering.BlockingModeDefault,
		ProtectionEnabled: true,
		FilteringEnabled:  true,
		ConfigModified:    e.configModified,
		BlockedServices:   &filtering.BlockedServices{Schedule: schedule.EmptyWeekly(), IDs: []string{}},
	}

	var err error
	e.flt, err = filtering.New(fc, nil)
	if err != nil {
		t.Fatalf("g04: filtering.New: %v", err)
	}

	e.srv, err = dnsforward.NewServer(dnsforward.DNSCreateParams{
		DHCPServer: zzG04DHCP{}, DNSFilter: e.flt,
		PrivateNets: netutil.SubnetSetFunc(netutil.IsLocallyServed),
		Logger:      slogutil.NewDiscardLogger(),
	})
	if err != nil {
		t.Fatalf("g04: NewServer: %v", err)
	}

	err = e.srv.Prepare(&dnsforward.ServerConfig{
		UDPListenAddrs: []*net.UDPAddr{{IP: net.IP{127, 0, 0, 1}}},
		TCPListenAddrs: []*net.TCPAddr{{IP: net.IP{127, 0, 0, 1}}},
		TLSConf:        &dnsforward.TLSConfig{},
		Config: dnsforward.Config{
			UpstreamMode:     dnsforward.UpstreamModeLoadBalance,
			EDNSClientSubnet: &dnsforward.EDNSClientSubnet{},
			ClientsContainer: dnsforward.EmptyClientsContainer{},
		},
		ConfigModified: e.configModified,
		HTTPRegister: func(_, path string, h http.HandlerFunc) {
			e.handlers[path] = h
		},
		ServePlainDNS: true,
	})
	if err != nil {
		t.Fatalf("g04: Prepare: %v", err)
	}

	if e.handlers["/control/protection"] == nil || e.handlers["/control/dns_info"] == nil {
		t.Fatalf("g04: the server did not register its handlers")
	}

	e.web = &webAPI{tlsManager: &tlsManager{mu: &sync.Mutex{}, conf: &tlsConfigSettings{}}}
	prev := globalContext.dnsServer
	globalContext.dnsServer = e.srv
	t.Cleanup(func() { globalContext.dnsServer = prev })
	e.configModified()

	return e
}

func (e *zzG04Env) call(h http.HandlerFunc, method, path, body string) (code int, resp []byte) {
	var r *http.Request
	if body != "" {
		r = httptest.NewRequest(method, path, bytes.NewReader([]byte(body)))
		r.Header.Set("Content-Type", "application/json")
	} else {
		r = httptest.NewRequest(method, path, nil)
	}

	w := httptest.NewRecorder()
	h(w, r)

	return w.Code, w.Body.Bytes()
}

func (e *zzG04Env) setProtection(en bool, ms string) (res, detail string) {
	body := fmt.Sprintf(`{"enabled":%t}`, en)
	if ms != "" {
		body = fmt.Sprintf(`{"enabled":%t,"duration":%s}`, en, ms)
	}

	code, resp := e.call(e.handlers["/control/protection"], http.MethodPost, "/control/protection", body)
	switch code {
	case http.StatusOK:
		res = "ok"
	case http.StatusBadRequest, http.StatusUnprocessableEntity:
		res = "rej"
	default:
		res = "status:" + strconv.Itoa(code)
	}

	return res, fmt.Sprintf("%s -> %d %s", body, code, strings.TrimSpace(string(resp)))
}

type zzG04Proj struct {
	En bool  `json:"en"`
	U  int64 `json:"u"`
	W  bool  `json:"w"`
}

func (e *zzG04Env) msSince(until *time.Time) (u int64) {
	if until == nil {
		return 0
	}

	d := until.Sub(e.t0)
	switch {
	case d >= time.Duration(zzG04Horizon)*time.Millisecond:
		return zzG04Horizon
	case d <= 0:
		// At or before the origin: no instant of the trace (and not "none").
		return int64(d/time.Millisecond) - 1
	case d%time.Millisecond != 0:
		return -7777
	default:
		return int64(d / time.Millisecond)
	}
}

func (e *zzG04Env) cur() (mem, disk zzG04Proj) {
	en, until := e.flt.ProtectionStatus()
	mem = zzG04Proj{En: en, U: e.msSince(until)}
	v := &struct {
		En    bool       `yaml:"protection_enabled"`
		Until *time.Time `yaml:"protection_disabled_until"`
	}{}
	if err := yaml.Unmarshal(e.disk, v); err != nil {
		return mem, zzG04Proj{U: -8888}
	}

	return mem, zzG04Proj{En: v.En, U: e.msSince(v.Until)}
}

// maybeRuns says whether the next observation may start the write-back
// worker (a deadline is stored; no worker is ever in progress between the
// steps of this harness).  Whether it does is the code's decision; the worker,
// if started, has run when the step is over (synctest.Wait).
func (e *zzG04Env) maybeRuns() (ok bool) {
	_, until := e.flt.ProtectionStatus()

	return until != nil
}

func (e *zzG04Env) trace(w *zzWriter, k, steps int) {
	rng := rand.New(rand.NewSource(zzSeed()*1000033 + int64(k)))
	// A random phase; then the origin of the history: protection on or off.
	time.Sleep(time.Duration(rng.Int63n(int64(time.Hour))))
	e.setProtection(rng.Intn(3) != 0, "")
	synctest.Wait()
	e.t0 = time.Now()
	nowMS := func() (ms int64) { return int64(time.Since(e.t0) / time.Millisecond) }

	var pre zzG04Proj
	line := func(kind string, m map[string]any) {
		post, disk := e.cur()
		rec := map[string]any{"tr": k, "k": kind, "now": nowMS(), "pre": pre, "post": post, "disk": disk,
			"en": false, "d": 0, "dk": "num", "kind": "", "res": "", "ren": false, "ru": 0, "ran": false, "detail": ""}
		for kk, v := range m {
			rec[kk] = v
		}

		w.put(rec)
	}

	pre, _ = e.cur()
	line("reset", nil)
	base := []int64{1, 2, 5, 1000, 60000, 3600000, 86400000, 999999999}[rng.Intn(8)]
	for i := 0; i < steps && nowMS() < 400000000; i++ {
		pre, _ = e.cur()
		switch c := rng.Intn(100); {
		case c < 25:
			en := rng.Intn(4) == 0
			dk, d, ms := "num", int64(0), ""
			switch x := rng.Intn(40); {
			case x < 8:
				ms = []string{"", "0"}[rng.Intn(2)]
			case x < 34:
				d = []int64{1, base, base, base + 1, 2 * base, 1 + rng.Int63n(3*base)}[rng.Intn(6)]
				if d > 999999999 {
					d = 999999999
				}

				ms = strconv.FormatInt(d, 10)
			case x < 39:
				dk, ms = "big", zzG04BigMS[rng.Intn(len(zzG04BigMS))]
			default:
				dk, ms = "huge", zzG04HugeMS[rng.Intn(len(zzG04HugeMS))]
			}

			res, detail := e.setProtection(en, ms)
			synctest.Wait()
			line("set", map[string]any{"en": en, "d": d, "dk": dk, "res": res, "detail": detail})
		case c < 55:
			// GET /control/status.
			started := e.maybeRuns()
			r := httptest.NewRequest(http.MethodGet, "/control/status", nil)
			rw := httptest.NewRecorder()
			e.web.handleStatus(rw, r)
			synctest.Wait()
			v := &struct {
				Enabled *bool  `json:"protection_enabled"`
				Rem     *int64 `json:"protection_disabled_duration"`
			}{}
			m := map[string]any{"ran": started, "detail": strings.TrimSpace(rw.Body.String())}
			if err := json.Unmarshal(rw.Body.Bytes(), v); err != nil || rw.Code != http.StatusOK || v.Enabled == nil || v.Rem == nil {
				m["ru"] = -7777
			} else {
				m["ren"] = *v.Enabled
				m["ru"] = *v.Rem
				if *v.Rem >= zzG04Horizon {
					m["ru"] = zzG04Horizon
				}
			}

			line("status", m)
		case c < 65:
			// GET /control/dns_info.
			started := e.maybeRuns()
			code, resp := e.call(e.handlers["/control/dns_info"], http.MethodGet, "/control/dns_info", "")
			synctest.Wait()
			v := &struct {
				Enabled *bool      `json:"protection_enabled"`
				Until   *time.Time `json:"protection_disabled_until"`
			}{}
			m := map[string]any{"ran": started}
			if err := json.Unmarshal(resp, v); err != nil || code != http.StatusOK || v.Enabled == nil {
				m["ru"] = -7777
			} else {
				m["ren"] = *v.Enabled
				m["ru"] = e.msSince(v.Until)
				m["detail"] = fmt.Sprintf("protection_enabled=%t protection_disabled_until=%v", *v.Enabled, v.Until)
			}

			line("info", m)
		default:
			var d int64
			_, until := e.flt.ProtectionStatus()
			switch x := rng.Intn(10); {
			case x < 5 && until != nil && until.After(time.Now()):
				left := int64(until.Sub(time.Now()) / time.Millisecond)
				if left < 500000000 {
					d = left + int64(rng.Intn(3)) - 1
				}
			case x < 7:
				d = 1
			case x < 9:
				d = 1 + rng.Int63n(2*base)
			default:
				d = base
			}

			if d <= 0 {
				d = 1
			}

			// Keep every instant of the history below the horizon.
			if d > 300000000 {
				d = 300000000
			}

			time.Sleep(time.Duration(d) * time.Millisecond)
			synctest.Wait()
			line("tick", map[string]any{"d": d})
		}
	}
}

// TestZZVerifG04Status records the status histories (direction B).
func TestZZVerifG04Status(t *testing.T) {
	w := zzNewWriter(t, "VERIF_OUT_TRACE")
	defer w.close()

	ntr, steps := 150, 40
	if strings.TrimSpace(zzGetenv("VERIF_TIER")) == "thorough" {
		ntr, steps = 1000, 50
	}

	var sel []int
	if only := zzGetenv("VERIF_G04_ONLY"); only != "" {
		for _, f := range strings.Split(only, ",") {
			if k, err := strconv.Atoi(f); err == nil {
				sel = append(sel, k)
			}
		}
	} else {
		for k := 0; k < ntr; k++ {
			sel = append(sel, k)
		}
	}

	synctest.Run(func() {
		e := zzG04NewEnv(t)
		for _, k := range sel {
			e.trace(w, k, steps)
		}

		e.srv.Close()
		e.flt.Close()
	})
}
