SPECIFICATION Spec
