---------------------------- MODULE RuleListCore ----------------------------
(***************************************************************************)
(* C15, parser half: what it means to bring a filtering-rule list into     *)
(* its stored ("normal") form.  Written from the statement:                *)
(*                                                                         *)
(*   "A successful refresh stores the list in a normal form (comments and  *)
(*    blank lines dropped, lines trimmed) whose re-parse yields the same   *)
(*    rule count and checksum";  HTML or binary content is a failure.      *)
(*                                                                         *)
(* TLC cannot take strings apart, so a list text is a sequence of TOKENS;  *)
(* the Go harness owns conc() (token -> bytes, seeded spellings) and abs() *)
(* (a longest-match lexer over the very same spellings).  Pure operators   *)
(* only: shared by RuleList.tla (exhaustive universe), TraceRuleList.tla   *)
(* (random larger texts), FilterRefreshCore.tla (what a download yields).  *)
(*                                                                         *)
(* Token vocabulary                                                        *)
(*   "LF"            line feed - the only line terminator                  *)
(*   "CR"            carriage return: white space (so CRLF is LF with a    *)
(*                   trailing blank), NOT a terminator on its own: a bare  *)
(*                   CR glues two "lines" into one (the statement says     *)
(*                   "mixed line endings" but not what a bare CR is; the   *)
(*                   fixed point below must hold either way and is checked *)
(*                   on such texts too)                                    *)
(*   "SP"            a run of horizontal white space (blank, tab, NBSP,    *)
(*                   NEL, ideographic space)                               *)
(*   "VT"            vertical tab / form feed: white space at the ends of  *)
(*                   a line, a control byte inside it                      *)
(*   "HASH" "BANG"   a comment starter with its text ("# ...", "! ...")    *)
(*   "TITLE"         "! Title: ..." - a comment as far as C15 goes, but the *)
(*                   line that switches the parser's MODE (see Run)        *)
(*   "COSM"          a line that starts with "#" and is not a plain         *)
(*                   comment: "##sel", "#@#sel", "#?#..", "#$#..", "#%#.."  *)
(*                   (cosmetic / scriptlet rules of the adblock syntax)    *)
(*   "HTML"          "<html" / "<!doctype" in any letter case              *)
(*   "BIN"           a control byte other than TAB, CR, LF                 *)
(*   "XL"            rule text longer than any line buffer (> 64 KiB)      *)
(*   "L4095" "L4096" "L4097" "L5K" "L40K" "L65535" "L65536"                *)
(*                   rule text of exactly that many bytes (5K, 40K: about) *)
(*                   - LINE LENGTH as a dimension of the content: around   *)
(*                   4 KiB (a page, a typical write buffer), several       *)
(*                   buffers, and the two sides of the 64 KiB line limit:  *)
(*                   a line of 65535 bytes and its LF still fit a 64 KiB   *)
(*                   line buffer, anything more on that line does not, and *)
(*                   65536 bytes never do.  conc() puts at most one of     *)
(*                   these on a physical line.                             *)
(*   anything else   ("R1", "R2", "RL", ...) printable rule text           *)
(***************************************************************************)
EXTENDS Sequences, Naturals, FiniteSets

Space    == {"SP", "CR", "VT"}          \* removed from both ends of a line
Comment  == {"HASH", "BANG", "TITLE"}   \* a trimmed line starting so is dropped
Control  == {"BIN", "VT"}               \* inside a line: "binary content"

------------------------------------------------------------------------------
\* Physical lines: split at LF; what follows the last LF is a line only if it
\* is not empty.
RECURSIVE SplitAt(_, _, _, _)
SplitAt(t, i, from, acc) ==      \* index recursion: texts of a few thousand tokens
    IF i > Len(t) THEN (IF from > Len(t) THEN acc ELSE Append(acc, SubSeq(t, from, Len(t))))
    ELSE IF t[i] = "LF" THEN SplitAt(t, i + 1, i + 1, Append(acc, SubSeq(t, from, i - 1)))
    ELSE SplitAt(t, i + 1, from, acc)
Lines(t) == SplitAt(t, 1, 1, <<>>)

RECURSIVE TrimL(_)
TrimL(s) == IF s # <<>> /\ Head(s) \in Space THEN TrimL(Tail(s)) ELSE s
RECURSIVE TrimR(_)
TrimR(s) == IF s # <<>> /\ s[Len(s)] \in Space THEN TrimR(SubSeq(s, 1, Len(s) - 1)) ELSE s
\* "lines trimmed"
Trim(s) == TrimR(TrimL(s))

Has(s, S) == \E i \in DOMAIN s : s[i] \in S

(* Whether a COSM line is a comment or a rule the statement does not say.  *)
(* That is a POLICY of the implementation, and because a parser may look   *)
(* at such a line in two modes - before and after it has seen a title line *)
(* - the policy has two components:                                        *)
(*     pol = [pre |-> COSM is a rule before a title line was seen,         *)
(*            post |-> ... after]                                          *)
(* The stored form never contains a title line (it is a comment), so it is *)
(* always re-parsed in mode "pre": the fixed point can only hold for       *)
(* policies that do not depend on the mode.  Admissible policies are the   *)
(* Uniform ones; RuleList.modes.cfg lets TLC show that the others break    *)
(* NormalFormIsFixedPoint.                                                 *)
Uniform(b)      == [pre |-> b, post |-> b]
UniformPolicies == {Uniform(TRUE), Uniform(FALSE)}
ModePolicies    == {[pre |-> FALSE, post |-> TRUE], [pre |-> TRUE, post |-> FALSE]}

\* The class of a trimmed line.  first = nothing has been stored yet;
\* cosmRule = what the policy says in the current mode.
\*   blank, comment : dropped
\*   html           : the content is an HTML page   } the refresh fails
\*   binary         : the content is binary         }
\*   rule           : stored
Class(tl, first, cosmRule) ==
    IF tl = <<>> THEN "blank"
    ELSE IF Head(tl) \in Comment \/ (Head(tl) = "COSM" /\ ~cosmRule) THEN "comment"
    ELSE IF Head(tl) = "HTML" /\ first THEN "html"
    ELSE IF Has(tl, Control) THEN "binary"
    ELSE "rule"

\* Reference parse: a state machine over the lines with the state
\*   rules  - the trimmed rule lines accepted so far (on failure: what had
\*            been accepted before the offending line - a writer that streams
\*            into the destination has already written exactly these)
\*   titled - the mode: a title line has been seen
RECURSIVE Run(_, _, _, _, _)
Run(ls, i, rules, titled, pol) ==
    IF i > Len(ls) THEN [ok |-> TRUE, rules |-> rules, why |-> "ok"]
    ELSE CHOOSE r \in {IF c \in {"html", "binary"}
                       THEN [ok |-> FALSE, rules |-> rules, why |-> c]
                       ELSE Run(ls, i + 1, IF c = "rule" THEN Append(rules, tl) ELSE rules,
                                titled \/ (tl # <<>> /\ Head(tl) = "TITLE"), pol)
                       : tl \in {Trim(ls[i])},
                         c \in {Class(Trim(ls[i]), rules = <<>>, IF titled THEN pol.post ELSE pol.pre)}} : TRUE
\* (A value that is used more than once is bound by a quantifier over a
\* singleton set instead of a LET: TLC evaluates bound variables once, LET
\* definitions on every use - the difference is a factor of 30 on the texts
\* of trace validation.)
Parse(t, pol) == CHOOSE p \in {Run(ls, 1, <<>>, FALSE, pol) : ls \in {Lines(t)}} : TRUE

\* Where the statement is silent the outcome is a SET:
\*  - a control byte inside a comment ("binary content"? the line is dropped
\*    anyway),
\*  - an HTML-looking line after real rules (an HTML page? a rule?),
\*  - a line longer than a line buffer
\* may be rejected, or treated as the reference parse treats them.
\* A physical line (without its LF) that does not fit a 64 KiB line buffer.
TooLong(line) ==
    \/ Has(line, {"XL", "L65536"})
    \/ Has(line, {"L65535"}) /\ Len(line) > 1

Soft(t) ==
    \E ls \in {Lines(t)} : \E i \in DOMAIN ls : \E tl \in {Trim(ls[i])} :
        \/ TooLong(ls[i])
        \/ tl # <<>> /\ Head(tl) \in Comment \cup {"COSM"} /\ Has(tl, {"BIN", "VT"})
        \/ tl # <<>> /\ Head(tl) = "HTML"

Fail      == [ok |-> FALSE, rules |-> <<>>]
Ok(rules) == [ok |-> TRUE, rules |-> rules]

\* The admissible outcomes of parsing t under policy pol.
AdmissibleOf(p, t) ==
    IF ~p.ok THEN {Fail}
    ELSE {Ok(p.rules)} \cup (IF Soft(t) THEN {Fail} ELSE {})
Admissible(t, pol) == UNION {AdmissibleOf(p, t) : p \in {Parse(t, pol)}}
\* ... under any admissible policy, tagged with it (cosm = COSM lines are rules).
AdmissibleTagged(t) ==
    UNION {{[ok |-> o.ok, rules |-> o.rules, cosm |-> b] : o \in Admissible(t, Uniform(b))} : b \in BOOLEAN}

------------------------------------------------------------------------------
\* The stored form, the rule count and the checksum of a sequence of rules.
RECURSIVE Flat(_, _)
Flat(rules, sep) ==
    IF rules = <<>> THEN <<>> ELSE Head(rules) \o sep \o Flat(Tail(rules), sep)

Normal(rules) == Flat(rules, <<"LF">>)   \* one rule per line, LF-terminated
Count(rules)  == Len(rules)
\* The checksum is taken over the rule content.  It is abstracted to that
\* content itself (collisions of the real 32-bit sum are ignored): two texts
\* have the same checksum iff they have the same rule bytes in the same order.
\* Line boundaries are deliberately not part of it, as in a streaming sum
\* over the rule lines; in the universes explored no two different rule
\* sequences share their concatenation, so this choice is unobservable.
Sum(rules)    == Flat(rules, <<>>)

\* NormalFormIsFixedPoint for one text: the stored form parses (in the
\* reference semantics - it never contains a first HTML line, a control byte
\* or anything to trim) to the same rules, hence same Count, same Sum, and
\* Normal(Normal(t)) = Normal(t).
FixedPoint(t, pol) ==
    \A p \in {Parse(t, pol)} :
    p.ok => \A q \in {Parse(Normal(p.rules), pol)} :
            /\ q.ok
            /\ q.rules = p.rules
            /\ Count(q.rules) = Count(p.rules)
            /\ Sum(q.rules) = Sum(p.rules)
            /\ Normal(q.rules) = Normal(p.rules)

\* "comments and blank lines dropped, lines trimmed"
Clean(rules) ==
    \A i \in DOMAIN rules :
        /\ rules[i] # <<>>
        /\ Trim(rules[i]) = rules[i]
        /\ Head(rules[i]) \notin Comment     \* (a COSM line may be a rule)
        /\ ~Has(rules[i], Control \cup {"LF"})
=============================================================================
