package dnsforward

// G04 conformance harness: the protection on / off / pause timed automaton.
//
// Direction A: walks the labelled edge graph emitted by TLC for
// specs/Protection.tla against a real dnsforward.Server + filtering.DNSFilter
// under the virtual clock of testing/synctest: the real handlers of POST
// /control/protection, POST /control/dns_config and GET /control/dns_info,
// Server.handleDNSRequest with a recording mock upstream for the queries, the
// real write-back worker (enableProtectionAfterPause), and restarts through
// the YAML form of the filtering configuration (what home writes on every
// ConfigModified and loads at start-up).  After every step the reply and the
// projected state (stored flag + deadline in memory and on "disk", worker
// pending) must be one of the outcomes the spec admits from the current spec
// state.
//
// Direction B: seeded random timed histories in milliseconds (durations 1 ms
// .. days, "big" and "huge" ones), recorded as NDJSON for TraceProtection.tla.
//
// Unexported identifiers are used to construct objects the way the package's
// own tests do (handlers called as methods, upstreams replaced after Prepare),
// to read state for the abstraction function (ProtectionStatus,
// protectionUpdateInProgress) and -- one scheduling device -- to decide WHEN
// the write-back worker runs: to model a worker that has been started but not
// yet scheduled, the harness marks a worker as in progress
// (protectionUpdateInProgress) before an observation, so that the code's
// CompareAndSwap starts none, and later calls enableProtectionAfterPause
// synchronously, which is exactly what the started goroutine executes (see
// observe).

import (
	"bytes"
	"context"
	"encoding/json"
	"fmt"
	"io"
	"math/rand"
	"net"
	"net/http"
	"net/http/httptest"
	"net/netip"
	"os"
	"sort"
	"strconv"
	"strings"
	"sync"
	"testing"
	"testing/synctest"
	"time"

	"github.com/AdguardTeam/AdGuardHome/internal/aghtest"
	"github.com/AdguardTeam/AdGuardHome/internal/client"
	"github.com/AdguardTeam/AdGuardHome/internal/filtering"
	"github.com/AdguardTeam/AdGuardHome/internal/filtering/hashprefix"
	"github.com/AdguardTeam/AdGuardHome/internal/filtering/safesearch"
	"github.com/AdguardTeam/AdGuardHome/internal/schedule"
	"github.com/AdguardTeam/dnsproxy/proxy"
	"github.com/AdguardTeam/dnsproxy/upstream"
	"github.com/AdguardTeam/golibs/logutil/slogutil"
	"github.com/AdguardTeam/golibs/netutil"
	"github.com/AdguardTeam/golibs/timeutil"
	"github.com/miekg/dns"
	"gopkg.in/yaml.v3"
)

// ---------------------------------------------------------------- vocabulary

const (
	zzG04Sentinel = "203.0.113.77" // what the mock upstream answers
	zzG04RwAddr   = "198.51.100.1" // the answer of the legacy rewrite
	zzG04SBHost   = "192.0.2.66"   // safe-browsing block "host"
	zzG04ParHost  = "192.0.2.67"   // parental block "host"
	zzG04Anon     = "10.77.2.20"
	zzG04Kid      = "10.77.1.10"
	zzG04SvcG     = "4chan" // blocked globally
	zzG04SvcK     = "9gag"  // blocked for the persistent client
	zzG04SBName   = "malware.g04.example"
	zzG04ParName  = "adult.g04.example"

	// The largest duration (ms) whose deadline is representable:
	// time.Duration(d) * time.Millisecond does not overflow.
	zzG04MaxMS = uint64(9223372036854)

	// Deadlines at least this far (ms) from the origin of a history are
	// "forever" (Forever of Protection.tla).
	zzG04Horizon = int64(2000000000)
)

var zzG04InitOnce sync.Once

// zzG04Up is the recording mock upstream: every A question is answered with
// the sentinel address; the alias name with a CNAME to a blocked name first.
type zzG04Up struct {
	mu    sync.Mutex
	calls int
}

func (u *zzG04Up) Exchange(req *dns.Msg) (resp *dns.Msg, err error) {
	u.mu.Lock()
	defer u.mu.Unlock()

	u.calls++
	resp = (&dns.Msg{}).SetReply(req)
	resp.RecursionAvailable = true
	q := req.Question[0]
	hdr := func(name string, t uint16) dns.RR_Header {
		return dns.RR_Header{Name: name, Rrtype: t, Class: dns.ClassINET, Ttl: 300}
	}

	owner := q.Name
	if strings.HasPrefix(strings.ToLower(q.Name), "alias.") {
		tgt := "tracker.g04.example."
		resp.Answer = append(resp.Answer, &dns.CNAME{Hdr: hdr(q.Name, dns.TypeCNAME), Target: tgt})
		owner = tgt
	}

	if q.Qtype == dns.TypeA {
		resp.Answer = append(resp.Answer, &dns.A{Hdr: hdr(owner, dns.TypeA), A: net.ParseIP(zzG04Sentinel).To4()})
	}

	return resp, nil
}

func (u *zzG04Up) Address() (addr string) { return "zz-verif-g04-mock" }
func (u *zzG04Up) Close() (err error)     { return nil }

type zzG04DHCP struct{}

func (zzG04DHCP) HostByIP(netip.Addr) (host string) { return "" }
func (zzG04DHCP) IPByHost(string) (ip netip.Addr)   { return netip.Addr{} }
func (zzG04DHCP) Enabled() (ok bool)                { return false }

// zzG04Sys is a real server + filter (one "process" at a time) together with
// the "disk" a restart reads and the abstraction function.
type zzG04Sys struct {
	t    *testing.T
	dir  string
	unit time.Duration // one tick of the spec
	init string        // "on" / "off": what the configuration file says at first

	// Concretisation choices of this history.
	cache bool
	bmode filtering.BlockingMode

	f  *filtering.DNSFilter
	s  *Server
	up *zzG04Up
	st *client.Storage

	// disk is the YAML form of the filtering configuration as of the last
	// ConfigModified call (home: onConfigModified -> config.write ->
	// filters.WriteDiskConfig), and what the next start loads.
	disk   []byte
	nwrite int

	// vpend: the write-back worker has been "started" (see the file comment)
	// and has not run yet.
	vpend bool

	t0    time.Time
	reqID uint64
	nboot int
}

// zzG04Rules is the content of the one block list (id 7) and of the custom
// rules (id 0).
const (
	zzG04ListRules   = "||ads.g04.example^\n||tracker.g04.example^\n0.0.0.0 hosts.g04.example\n"
	zzG04CustomRules = "||custom.g04.example^\n"
)

// runtimeFields fills the members of the filtering configuration that do not
// come from the file.
func (z *zzG04Sys) runtimeFields(fc *filtering.Config) (err error) {
	fc.DataDir = z.dir
	fc.ConfigModified = z.configModified
	fc.ApplyClientFiltering = z.st.ApplyClientFiltering
	fc.SafeBrowsingChecker = hashprefix.New(&hashprefix.Config{
		CacheTime: 10 * time.Minute, CacheSize: 10000,
		Upstream: aghtest.NewBlockUpstream(zzG04SBName, true),
	})
	fc.ParentalControlChecker = hashprefix.New(&hashprefix.Config{
		CacheTime: 10 * time.Minute, CacheSize: 10000,
		Upstream: aghtest.NewBlockUpstream(zzG04ParName, true),
	})
	fc.SafeSearch, err = safesearch.NewDefault(context.Background(), &safesearch.DefaultConfig{
		Logger:         slogutil.NewDiscardLogger(),
		ServicesConfig: fc.SafeSearchConf,
		CacheSize:      1000,
		CacheTTL:       30 * time.Minute,
	})

	return err
}

func zzG04Services(ids ...string) (b *filtering.BlockedServices) {
	return &filtering.BlockedServices{Schedule: schedule.EmptyWeekly(), IDs: ids}
}

// initialConfig is the filtering section of a configuration file that was
// never touched by the API.
func (z *zzG04Sys) initialConfig() (fc *filtering.Config) {
	return &filtering.Config{
		BlockingMode:          z.bmode,
		BlockingIPv4:          netip.MustParseAddr("192.0.2.44"),
		BlockingIPv6:          netip.MustParseAddr("2001:db8:44::44"),
		BlockedResponseTTL:    10,
		SafeBrowsingBlockHost: zzG04SBHost,
		ParentalBlockHost:     zzG04ParHost,
		SafeSearchConf:        filtering.SafeSearchConfig{Enabled: true, Yandex: true},
		SafeSearchCacheSize:   1000,
		CacheTime:             30,
		BlockedServices:       zzG04Services(zzG04SvcG),
		Rewrites: []*filtering.LegacyRewrite{{
			Domain: "rw.g04.example", Answer: zzG04RwAddr,
		}},
		FilteringEnabled:    true,
		ParentalEnabled:     true,
		SafeBrowsingEnabled: true,
		ProtectionEnabled:   z.init == "on",
	}
}

// configModified is the ConfigModified callback of both the filter and the
// server: the configuration file is rewritten from the live objects.
func (z *zzG04Sys) configModified() {
	if z.f == nil {
		return
	}

	c := &filtering.Config{}
	z.f.WriteDiskConfig(c)
	b, err := yaml.Marshal(c)
	if err != nil {
		z.t.Fatalf("g04: yaml: %v", err)
	}

	z.disk = b
	z.nwrite++
}

// boot starts a "process" from the file.
func (z *zzG04Sys) boot() (err error) {
	zzG04InitOnce.Do(filtering.InitModule)

	ctx := context.Background()
	z.st, err = client.NewStorage(ctx, &client.StorageConfig{
		Logger: slogutil.NewDiscardLogger(), Clock: timeutil.SystemClock{}, DHCP: client.EmptyDHCP{},
	})
	if err != nil {
		return fmt.Errorf("client storage: %w", err)
	}

	err = z.st.Add(ctx, &client.Persistent{
		Name: "kid", UID: client.MustNewUID(),
		IPs:                   []netip.Addr{netip.MustParseAddr(zzG04Kid)},
		UseOwnSettings:        true,
		FilteringEnabled:      true,
		SafeBrowsingEnabled:   true,
		ParentalEnabled:       true,
		SafeSearchConf:        filtering.SafeSearchConfig{Enabled: true, Yandex: true},
		UseOwnBlockedServices: true,
		BlockedServices:       zzG04Services(zzG04SvcK),
	})
	if err != nil {
		return fmt.Errorf("adding client: %w", err)
	}

	fc := &filtering.Config{}
	if err = yaml.Unmarshal(z.disk, fc); err != nil {
		return fmt.Errorf("reading the file: %w", err)
	}

	if err = z.runtimeFields(fc); err != nil {
		return fmt.Errorf("runtime fields: %w", err)
	}

	z.f, err = filtering.New(fc, []filtering.Filter{
		{ID: 0, Data: []byte(zzG04CustomRules)},
		{ID: 7, Data: []byte(zzG04ListRules)},
	})
	if err != nil {
		return fmt.Errorf("filtering.New: %w", err)
	}

	z.f.SetEnabled(fc.FilteringEnabled)

	z.up = &zzG04Up{}
	z.s, err = NewServer(DNSCreateParams{
		DHCPServer: zzG04DHCP{}, DNSFilter: z.f,
		PrivateNets: netutil.SubnetSetFunc(netutil.IsLocallyServed),
		Logger:      slogutil.NewDiscardLogger(),
	})
	if err != nil {
		return fmt.Errorf("NewServer: %w", err)
	}

	sc := &ServerConfig{
		UDPListenAddrs: []*net.UDPAddr{{IP: net.IP{127, 0, 0, 1}}},
		TCPListenAddrs: []*net.TCPAddr{{IP: net.IP{127, 0, 0, 1}}},
		TLSConf:        &TLSConfig{},
		Config: Config{
			UpstreamMode:     UpstreamModeLoadBalance,
			EDNSClientSubnet: &EDNSClientSubnet{},
			ClientsContainer: z.st,
		},
		ConfigModified: z.configModified,
		ServePlainDNS:  true,
	}
	if z.cache {
		// The production default.
		sc.CacheSize = 4 * 1024 * 1024
	}

	if err = z.s.Prepare(sc); err != nil {
		return fmt.Errorf("Prepare: %w", err)
	}

	// As the package's own tests do: replace the upstreams after Prepare.
	z.s.conf.UpstreamConfig.Upstreams = []upstream.Upstream{z.up}
	z.vpend = false
	z.nboot++

	return nil
}

func (z *zzG04Sys) shutdown() {
	if z.s != nil {
		z.s.Close()
		z.s = nil
	}

	if z.f != nil {
		z.f.Close()
		z.f = nil
	}

	if z.st != nil {
		_ = z.st.Shutdown(context.Background())
		z.st = nil
	}
}

// reset starts a new history: a fresh file and a fresh process.
func (z *zzG04Sys) reset(seed int64) {
	z.shutdown()
	rng := rand.New(rand.NewSource(seed))
	z.cache = rng.Intn(2) == 0
	z.bmode = []filtering.BlockingMode{
		filtering.BlockingModeDefault, filtering.BlockingModeNullIP, filtering.BlockingModeNXDOMAIN,
		filtering.BlockingModeREFUSED, filtering.BlockingModeCustomIP,
	}[rng.Intn(5)]

	// A random phase, so that deadlines are not aligned with anything.
	time.Sleep(time.Duration(rng.Int63n(int64(time.Hour))))

	b, err := yaml.Marshal(z.initialConfig())
	if err != nil {
		z.t.Fatalf("g04: yaml: %v", err)
	}

	z.disk = b
	if err = z.boot(); err != nil {
		z.t.Fatalf("g04: boot: %v", err)
	}

	z.t0 = time.Now()
}

func (z *zzG04Sys) describe() (d string) {
	return fmt.Sprintf("unit=%s cache=%t mode=%s boots=%d writes=%d", z.unit, z.cache, z.bmode, z.nboot, z.nwrite)
}

// ------------------------------------------------------------------ actions

func zzG04Call(h http.HandlerFunc, method, path string, body []byte) (code int, resp []byte) {
	var rd io.Reader
	if body != nil {
		rd = bytes.NewReader(body)
	}

	r := httptest.NewRequest(method, path, rd)
	if body != nil {
		r.Header.Set("Content-Type", "application/json")
	}

	w := httptest.NewRecorder()
	h(w, r)

	return w.Code, w.Body.Bytes()
}

func zzG04Status(code int) (res string) {
	switch code {
	case http.StatusOK:
		return "ok"
	case http.StatusBadRequest, http.StatusUnprocessableEntity:
		return "rej"
	default:
		return "status:" + strconv.Itoa(code)
	}
}

// setProtection sends POST /control/protection.  ms < 0: no duration member.
func (z *zzG04Sys) setProtection(en bool, ms string) (res, detail string) {
	body := fmt.Sprintf(`{"enabled":%t}`, en)
	if ms != "" {
		body = fmt.Sprintf(`{"enabled":%t,"duration":%s}`, en, ms)
	}

	code, resp := zzG04Call(z.s.handleSetProtection, http.MethodPost, "/control/protection", []byte(body))

	return zzG04Status(code), fmt.Sprintf("%s -> %d %s", body, code, strings.TrimSpace(string(resp)))
}

// setFlag sends POST /control/dns_config with the protection_enabled member.
func (z *zzG04Sys) setFlag(en bool) (res, detail string) {
	body := fmt.Sprintf(`{"protection_enabled":%t}`, en)
	code, resp := zzG04Call(z.s.handleSetConfig, http.MethodPost, "/control/dns_config", []byte(body))

	return zzG04Status(code), fmt.Sprintf("%s -> %d %s", body, code, strings.TrimSpace(string(resp)))
}

// info sends GET /control/dns_info and returns protection_enabled and
// protection_disabled_until.
func (z *zzG04Sys) info() (en bool, until *time.Time, detail string, err error) {
	code, resp := zzG04Call(z.s.handleGetConfig, http.MethodGet, "/control/dns_info", nil)
	v := &struct {
		Enabled *bool      `json:"protection_enabled"`
		Until   *time.Time `json:"protection_disabled_until"`
	}{}
	if code != http.StatusOK {
		return false, nil, "", fmt.Errorf("dns_info: status %d", code)
	}

	if err = json.Unmarshal(resp, v); err != nil || v.Enabled == nil {
		return false, nil, "", fmt.Errorf("dns_info: %v in %s", err, resp)
	}

	return *v.Enabled, v.Until, fmt.Sprintf("protection_enabled=%t protection_disabled_until=%v", *v.Enabled, v.Until), nil
}

// zzG04Names are the names asked for each kind of query of the spec, by
// client (index 0: anonymous, 1: the persistent client).
var zzG04Names = map[string][2][]string{
	"rule":  {{"ads.g04.example", "sub.ads.g04.example", "hosts.g04.example", "custom.g04.example"}, {"ads.g04.example", "custom.g04.example", "hosts.g04.example"}},
	"svc":   {{"4chan.org", "boards.4chan.org", "4cdn.org"}, {"9gag.com", "img.9cache.com"}},
	"sb":    {{zzG04SBName}, {zzG04SBName}},
	"par":   {{zzG04ParName}, {zzG04ParName}},
	"ss":    {{"www.yandex.by", "www.yandex.com.am"}, {"www.yandex.az", "www.yandex.by"}},
	"cname": {{"alias.g04.example", "alias.cdn.g04.example"}, {"alias.g04.example"}},
	"rw":    {{"rw.g04.example"}, {"rw.g04.example"}},
	"clean": {{"clean.g04.example", "example.org"}, {"clean.g04.example", "9gag.org.example"}},
}

func zzG04MixCase(s string, rng *rand.Rand) (m string) {
	if rng.Intn(3) != 0 {
		return s
	}

	b := []byte(s)
	for i := range b {
		if b[i] >= 'a' && b[i] <= 'z' && rng.Intn(2) == 0 {
			b[i] -= 'a' - 'A'
		}
	}

	return string(b)
}

// query sends one A question through handleDNSRequest and classifies the
// answer: "up" the client got the upstream's answer, "rw" the rewrite's,
// "blk" neither (a synthetic answer without upstream data).
func (z *zzG04Sys) query(kind string, rng *rand.Rand) (res, detail string) {
	ci := rng.Intn(2)
	names := zzG04Names[kind][ci]
	if len(names) == 0 {
		return "unknown-kind", kind
	}

	name := zzG04MixCase(names[rng.Intn(len(names))], rng)
	cli := []string{zzG04Anon, zzG04Kid}[ci]
	m := &dns.Msg{}
	m.SetQuestion(dns.Fqdn(name), dns.TypeA)
	m.Id = uint16(rng.Intn(1 << 16))

	z.up.mu.Lock()
	before := z.up.calls
	z.up.mu.Unlock()

	z.reqID++
	pctx := &proxy.DNSContext{
		Proto: proxy.ProtoUDP, Req: m, RequestID: z.reqID,
		Addr: netip.AddrPortFrom(netip.MustParseAddr(cli), uint16(1024+rng.Intn(60000))),
	}
	herr := z.s.handleDNSRequest(z.s.dnsProxy, pctx)

	z.up.mu.Lock()
	calls := z.up.calls - before
	z.up.mu.Unlock()

	detail = fmt.Sprintf("%s A from %s: err=%v upstream_calls=%d", name, cli, herr, calls)
	if herr != nil || pctx.Res == nil {
		return "error", detail
	}

	var addrs []string
	for _, rr := range pctx.Res.Answer {
		if a, ok := rr.(*dns.A); ok {
			addrs = append(addrs, a.A.String())
		}
	}

	detail += fmt.Sprintf(" rcode=%s answer=%v", dns.RcodeToString[pctx.Res.Rcode], addrs)
	has := func(ip string) (ok bool) {
		for _, a := range addrs {
			if a == ip {
				return true
			}
		}

		return false
	}

	switch {
	case has(zzG04Sentinel) && pctx.Res.Rcode == dns.RcodeSuccess:
		return "up", detail
	case has(zzG04RwAddr):
		return "rw", detail
	default:
		// No upstream data.  A name blocked at the request stage must not
		// have been forwarded either.
		if kind != "cname" && calls != 0 {
			return "blk+forwarded", detail
		}

		return "blk", detail
	}
}

// observe runs f, an observation (dns_info read or query), which reports
// whether its reply shows protection in effect (known: the reply shows it at
// all).  Whether the observation starts the write-back worker is the code's
// decision and is not predicted here:
//
//   - lazy: a worker that the observation may start is held back.  The harness
//     marks a worker as in progress beforehand, so that the code starts none;
//     if the reply then shows that the code found the deadline reached (in
//     effect, though a deadline is stored), the mark stands for the worker it
//     would have started (vpend); otherwise the mark is taken back.
//   - not lazy: nothing is touched; a worker, if started, runs in its own
//     goroutine to completion (synctest.Wait) before observe returns.  maybeRan
//     says that this may have happened (a deadline was stored and no worker
//     was in progress).
func (z *zzG04Sys) observe(lazy bool, f func() (inEffect, known bool)) (maybeRan bool) {
	_, until := z.f.ProtectionStatus()
	free := until != nil && !z.s.protectionUpdateInProgress.Load()
	armed := free && lazy
	if armed {
		z.s.protectionUpdateInProgress.Store(true)
	}

	inEffect, known := f()
	if armed {
		_, until = z.f.ProtectionStatus()
		if known && inEffect && until != nil {
			z.vpend = true
		} else {
			z.s.protectionUpdateInProgress.Store(false)
		}
	}

	synctest.Wait()

	return free && !lazy
}

// zzG04Reveals says whether the reply to a query of this kind shows if
// protection is in effect.
func zzG04Reveals(kind string) (ok bool) { return kind != "rw" && kind != "clean" }

// worker lets the held-back worker run.
func (z *zzG04Sys) worker() {
	z.s.enableProtectionAfterPause()
	z.vpend = false
}

// restart stops the process and starts a new one from the file.
func (z *zzG04Sys) restart() (err error) {
	z.shutdown()

	return z.boot()
}

// ------------------------------------------------------------- abstraction

// zzG04Stored is the stored pair: the flag and the deadline (nil: none).
type zzG04Stored struct {
	en    bool
	until *time.Time
}

func (z *zzG04Sys) mem() (st zzG04Stored) {
	st.en, st.until = z.f.ProtectionStatus()

	return st
}

func (z *zzG04Sys) onDisk() (st zzG04Stored, err error) {
	v := &struct {
		En    bool       `yaml:"protection_enabled"`
		Until *time.Time `yaml:"protection_disabled_until"`
	}{}
	err = yaml.Unmarshal(z.disk, v)

	return zzG04Stored{en: v.En, until: v.Until}, err
}

// zzG04Units renders d in units, exactly.
func zzG04Units(d, unit time.Duration) (s string) {
	if d%unit == 0 {
		return strconv.FormatInt(int64(d/unit), 10)
	}

	return fmt.Sprintf("%d/%d", int64(d), int64(unit))
}

// rel is Rel of Protection.tla for a stored pair: "on", "off", "p<ticks
// left>", "pF" (forever), "pP" (deadline in the past).  A set flag together
// with a deadline still ahead has no counterpart in the spec and is shown as
// such; once the deadline is reached the flag beside it has no say any more
// (the pair stands for the pause that is over).
func (z *zzG04Sys) rel(st zzG04Stored) (s string) {
	if st.until == nil {
		if st.en {
			return "on"
		}

		return "off"
	}

	left := st.until.Sub(time.Now())
	p := "p"
	if st.en && left > 0 {
		p = "FLAG+p"
	}

	switch {
	case left < 0:
		return p + "P"
	case left >= time.Duration(zzG04Horizon)*time.Millisecond:
		return p + "F"
	default:
		return p + zzG04Units(left, z.unit)
	}
}

// state is the projected state: memory, worker pending; what the file holds
// is shown only when it differs from memory (the spec has one state: a
// restart must change nothing).
func (z *zzG04Sys) state() (s string) {
	s = z.rel(z.mem())
	d, err := z.onDisk()
	if err != nil {
		return s + "!disk:" + err.Error()
	}

	if ds := z.rel(d); ds != s {
		s += "!disk=" + ds
	}

	pend := z.s.protectionUpdateInProgress.Load()
	if pend != z.vpend {
		s += fmt.Sprintf("!inprogress=%t", pend)
	}

	if pend {
		s += "+w"
	}

	return s
}

// --------------------------------------------------------------- do (walk)

// zzG04HugeMS are durations (ms) whose deadline is not representable.
var zzG04HugeMS = []string{
	"9223372036855", "9223372036854776", "18446744073709", "18446744073710", "9223372036854775807",
	"9223372036854775808", "18446744073709551615", "10000000000000000", "27670116110564", "36893488147419",
}

// zzG04BigMS are representable durations (ms) beyond every horizon.
var zzG04BigMS = []string{
	"31536000000", "1000000000000", "157680000000", "9223372036853", "9223372036854", "4611686018427",
}

// durMS concretises a duration token of the spec: "0" .. "<MaxD>" ticks,
// "big", "huge".  Zero is an absent member or an explicit 0.
func (z *zzG04Sys) durMS(tok string, rng *rand.Rand) (ms string) {
	switch tok {
	case "0":
		if rng.Intn(2) == 0 {
			return ""
		}

		return "0"
	case "big":
		return zzG04BigMS[rng.Intn(len(zzG04BigMS))]
	case "huge":
		return zzG04HugeMS[rng.Intn(len(zzG04HugeMS))]
	default:
		d, _ := strconv.Atoi(tok)

		return strconv.FormatInt(int64(d)*int64(z.unit/time.Millisecond), 10)
	}
}

// relReply renders a reported deadline relative to now: "none", "F", ticks.
func (z *zzG04Sys) relReply(until *time.Time) (s string) {
	if until == nil {
		return "none"
	}

	left := until.Sub(time.Now())
	if left >= time.Duration(zzG04Horizon)*time.Millisecond {
		return "F"
	}

	return zzG04Units(left, z.unit)
}

// do executes one action of the spec's alphabet.  ran says that the
// observation may have started the write-back worker and that the worker (the
// real goroutine), if started, has run to completion.
func (z *zzG04Sys) do(act string, seed int64) (out, detail string, ran bool) {
	rng := rand.New(rand.NewSource(seed))
	f := strings.Fields(act)
	lazy := rng.Intn(5) < 3
	switch f[0] {
	case "set":
		// set <1|0> <duration token>
		out, detail = z.setProtection(f[1] == "1", z.durMS(f[2], rng))
	case "flag":
		out, detail = z.setFlag(f[1] == "1")
	case "info":
		ran = z.observe(lazy, func() (inEffect, known bool) {
			en, until, d, err := z.info()
			if err != nil {
				out, detail = "error", err.Error()

				return false, false
			}

			out, detail = fmt.Sprintf("%d,%s", zzG04B2I(en), z.relReply(until)), d

			return en, true
		})
	case "query":
		ran = z.observe(lazy && zzG04Reveals(f[1]), func() (inEffect, known bool) {
			out, detail = z.query(f[1], rng)

			return out == "blk", out == "blk" || out == "up"
		})
	case "worker":
		if !z.vpend {
			return "no-worker", "", false
		}

		z.worker()
		out = "none"
	case "restart":
		if err := z.restart(); err != nil {
			return "error", err.Error(), false
		}

		out = "none"
	case "tick":
		d, _ := strconv.Atoi(f[1])
		time.Sleep(time.Duration(d) * z.unit)
		out = "none"
	default:
		return "unknown-act", act, false
	}

	synctest.Wait()
	if ran {
		detail += " [a worker, if started, has run]"
	} else if z.vpend && f[0] != "worker" {
		detail += " [worker held back]"
	}

	return out, detail, ran
}

func zzG04B2I(b bool) (i int) {
	if b {
		return 1
	}

	return 0
}

// ------------------------------------------------------------------ walker

type zzG04Graph struct {
	Init  []string    `json:"init"`
	Edges [][4]string `json:"edges"`
}

type zzG04Edge struct {
	src, act, dst, out string
	covered            bool
	skipped            int
	idx                int
}

type zzG04Step struct {
	Seed   int64  `json:"seed"`
	Act    string `json:"act"`
	Out    string `json:"out"`
	State  string `json:"state"`
	Ran    bool   `json:"ran,omitempty"`
	Detail string `json:"detail,omitempty"`
}

type zzG04Walker struct {
	g       *zzG04Graph
	variant string
	sys     *zzG04Sys
	rng     *rand.Rand
	w       *zzWriter
	adj     map[string][]*zzG04Edge
	all     []*zzG04Edge
	cur     string
	init    string
	hist    []zzG04Step
	maxHist int
	rseed   int64

	steps, resets, bad, flaky, covered, samples, composites int
}

func zzG04NewWalker(g *zzG04Graph, variant string, sys *zzG04Sys, rng *rand.Rand, w *zzWriter) (wk *zzG04Walker) {
	wk = &zzG04Walker{g: g, variant: variant, sys: sys, rng: rng, w: w, adj: map[string][]*zzG04Edge{}, maxHist: 24}
	for i, e := range g.Edges {
		x := &zzG04Edge{src: e[0], act: e[1], dst: e[2], out: e[3], idx: i}
		wk.adj[e[0]] = append(wk.adj[e[0]], x)
		wk.all = append(wk.all, x)
	}

	return wk
}

func (wk *zzG04Walker) restart() {
	wk.rseed = wk.rng.Int63()
	wk.init = wk.g.Init[int(wk.rseed%int64(len(wk.g.Init)))]
	wk.sys.init = wk.init
	wk.sys.reset(wk.rseed)
	wk.cur = wk.init
	wk.hist = wk.hist[:0]
	wk.resets++
}

func (e *zzG04Edge) open() (ok bool) { return !e.covered && e.skipped < 2 }

// nextEdge returns the edge to try next: an open edge at the current state,
// else the first edge of a shortest path to a state that has one.
func (wk *zzG04Walker) nextEdge() (e *zzG04Edge) {
	var open []*zzG04Edge
	for _, x := range wk.adj[wk.cur] {
		if x.open() {
			open = append(open, x)
		}
	}

	if len(open) > 0 {
		return open[wk.rng.Intn(len(open))]
	}

	type item struct {
		st    string
		first *zzG04Edge
	}

	seen := map[string]bool{wk.cur: true}
	queue := []item{{st: wk.cur}}
	for len(queue) > 0 {
		it := queue[0]
		queue = queue[1:]
		edges := wk.adj[it.st]
		for _, i := range wk.rng.Perm(len(edges)) {
			x := edges[i]
			if x.skipped >= 2 {
				continue
			}

			first := it.first
			if first == nil {
				first = x
			}

			if x.open() {
				return first
			}

			if !seen[x.dst] {
				seen[x.dst] = true
				queue = append(queue, item{st: x.dst, first: first})
			}
		}
	}

	return nil
}

func (wk *zzG04Walker) acts() (acts []string) {
	seen := map[string]bool{}
	for _, x := range wk.adj[wk.cur] {
		if !seen[x.act] {
			seen[x.act] = true
			acts = append(acts, x.act)
		}
	}

	sort.Strings(acts)

	return acts
}

// admissible lists the (reply, state) pairs the spec admits for act from st.
// ran: if the observation starts the worker, the worker's step follows.
func (wk *zzG04Walker) admissible(st, act string, ran bool) (adm [][2]string, via map[[2]string][]*zzG04Edge) {
	via = map[[2]string][]*zzG04Edge{}
	starts := func(x *zzG04Edge) (ok bool) {
		return ran && strings.HasSuffix(x.dst, "+w") && !strings.HasSuffix(st, "+w")
	}

	for _, x := range wk.adj[st] {
		if x.act == act && !starts(x) {
			k := [2]string{x.out, x.dst}
			adm = append(adm, k)
			via[k] = []*zzG04Edge{x}
		}
	}

	// The observation starts the worker and the worker runs.  Where that
	// cannot be told from an observation that starts none (at the boundary
	// instant a worker may find nothing to do), the simpler reading stands.
	for _, x := range wk.adj[st] {
		if x.act != act || !starts(x) {
			continue
		}

		for _, y := range wk.adj[x.dst] {
			k := [2]string{x.out, y.dst}
			if _, ok := via[k]; y.act == "worker" && !ok {
				adm = append(adm, k)
				via[k] = []*zzG04Edge{x, y}
			}
		}
	}

	return adm, via
}

// exec performs one action and checks the observation against the edges of
// the spec.  It reports whether the walk may continue from the new state.
func (wk *zzG04Walker) exec(act string, planned *zzG04Edge) (ok bool) {
	seed := wk.rng.Int63()
	out, detail, ran := wk.sys.do(act, seed)
	obs := wk.sys.state()
	wk.steps++
	if zzGetenv("VERIF_G04_DEBUG") != "" && wk.steps%500 == 0 {
		fmt.Fprintf(os.Stderr, "g04: steps=%d resets=%d bad=%d covered=%d cur=%s act=%s\n", wk.steps, wk.resets, wk.bad, wk.covered, wk.cur, act)
	}

	adm, via := wk.admissible(wk.cur, act, ran)
	if edges, found := via[[2]string{out, obs}]; found {
		for _, x := range edges {
			if !x.covered {
				x.covered = true
				wk.covered++
			}
		}

		if len(edges) == 2 {
			wk.composites++
		}

		if planned != nil && planned != edges[0] {
			planned.skipped++
		}

		wk.hist = append(wk.hist, zzG04Step{Seed: seed, Act: act, Out: out, State: obs, Ran: ran, Detail: detail})
		wk.cur = obs
		if wk.samples < 2 && len(wk.hist) == 10 {
			wk.samples++
			wk.w.put(map[string]any{"kind": "sample", "variant": wk.variant, "init": wk.init, "history": wk.hist})
		}

		return true
	}

	// Disagreement: reproduce it in isolation (fresh objects, same history)
	// before reporting it.
	rec := map[string]any{
		"variant": wk.variant, "init": wk.init, "from": wk.cur,
		"history": append([]zzG04Step{}, wk.hist...), "act": act, "ran": ran, "admissible": adm,
		"reset_seed": wk.rseed, "act_seed": seed,
		"got": [2]string{out, obs}, "detail": detail, "concrete": wk.sys.describe(),
	}

	hist := append([]zzG04Step{}, wk.hist...)
	wk.sys.init = wk.init
	wk.sys.reset(wk.rseed)
	same := true
	for _, st := range hist {
		o, _, _ := wk.sys.do(st.Act, st.Seed)
		if o != st.Out || wk.sys.state() != st.State {
			same = false

			break
		}
	}

	reproduced := false
	if same {
		out2, detail2, ran2 := wk.sys.do(act, seed)
		obs2 := wk.sys.state()
		adm2, via2 := wk.admissible(wk.cur, act, ran2)
		_, found := via2[[2]string{out2, obs2}]
		reproduced = !found
		rec["got2"] = [2]string{out2, obs2}
		rec["detail2"] = detail2
		rec["admissible2"] = adm2
	}

	if reproduced {
		rec["kind"] = "bad"
		wk.bad++
	} else {
		rec["kind"] = "flaky"
		wk.flaky++
	}

	wk.w.put(rec)
	if planned != nil {
		planned.skipped = 2
	}

	wk.restart()

	return false
}

const zzG04MaxBad = 400

// tour covers every open edge once (greedy nearest-uncovered-edge walk).
func (wk *zzG04Walker) tour() {
	// The step bound is a safety net against a tour that does not converge.
	for limit := wk.steps + 60*len(wk.all); wk.bad < zzG04MaxBad && wk.steps < limit; {
		if len(wk.hist) >= wk.maxHist {
			wk.restart()
		}

		e := wk.nextEdge()
		if e == nil {
			if len(wk.hist) == 0 {
				// Nothing left from this initial state; try the others.
				left := false
				for _, in := range wk.g.Init {
					if in != wk.init {
						wk.cur = in
						if wk.nextEdge() != nil {
							left = true
						}

						wk.cur = wk.init
					}
				}

				if !left {
					return
				}
			}

			wk.restart()

			continue
		}

		wk.exec(e.act, e)
	}
}

// random performs n random steps of the spec's alphabet.
func (wk *zzG04Walker) random(n int) {
	for i := 0; i < n && wk.bad < zzG04MaxBad; i++ {
		if len(wk.hist) >= wk.maxHist {
			wk.restart()
		}

		acts := wk.acts()
		if len(acts) == 0 {
			wk.restart()

			continue
		}

		// Keep the known trouble makers rare: a disagreement ends a history.
		var pick []string
		for _, a := range acts {
			switch {
			case strings.HasSuffix(a, " huge"), strings.HasPrefix(a, "flag"):
				if wk.rng.Intn(12) == 0 {
					pick = append(pick, a)
				}
			case strings.HasPrefix(a, "tick"):
				if wk.rng.Intn(2) == 0 {
					pick = append(pick, a)
				}
			default:
				pick = append(pick, a)
			}
		}

		if len(pick) == 0 {
			pick = acts
		}

		wk.exec(pick[wk.rng.Intn(len(pick))], nil)
	}
}

func (wk *zzG04Walker) summary() {
	uncovered := []int{}
	for _, e := range wk.all {
		if !e.covered {
			uncovered = append(uncovered, e.idx)
		}
	}

	wk.w.put(map[string]any{
		"kind": "summary", "variant": wk.variant, "edges": len(wk.all), "covered": wk.covered,
		"steps": wk.steps, "resets": wk.resets, "bad": wk.bad, "flaky": wk.flaky, "composites": wk.composites,
		"uncovered_idx": uncovered,
	})
}

func zzG04Thorough() (ok bool) { return strings.TrimSpace(zzGetenv("VERIF_TIER")) == "thorough" }

// zzG04UnitsOf are the lengths of one tick of the exhaustive model in the
// walks (variant name -> duration).
var zzG04UnitsOf = []struct {
	name string
	d    time.Duration
}{
	{"1ms", time.Millisecond}, {"1s", time.Second}, {"1h", time.Hour}, {"7ms", 7 * time.Millisecond},
	{"1min", time.Minute}, {"1day", 24 * time.Hour},
}

// TestZZVerifG04Walk is direction A.
func TestZZVerifG04Walk(t *testing.T) {
	w := zzNewWriter(t, "VERIF_OUT")
	defer w.close()

	var g *zzG04Graph
	zzReadNDJSON(t, "VERIF_IN", func(line []byte) {
		g = &zzG04Graph{}
		if err := json.Unmarshal(line, g); err != nil {
			t.Fatalf("bad graph: %v", err)
		}
	})

	if g == nil || len(g.Init) == 0 {
		t.Fatalf("no graph")
	}

	nunits, tours, nrand := 3, 1, 1500
	if zzG04Thorough() {
		nunits, tours, nrand = len(zzG04UnitsOf), 2, 8000
	}

	dir := t.TempDir()
	for ui := 0; ui < nunits; ui++ {
		u := zzG04UnitsOf[ui]
		for tour := 0; tour < tours; tour++ {
			rng := rand.New(rand.NewSource(zzSeed()*7919 + int64(ui)*101 + int64(tour)))
			sys := &zzG04Sys{t: t, dir: dir, unit: u.d}
			wk := zzG04NewWalker(g, u.name, sys, rng, w)
			synctest.Run(func() {
				wk.restart()
				wk.tour()
				wk.restart()
				wk.random(nrand)
				sys.shutdown()
			})
			wk.summary()
		}
	}

	w.put(map[string]any{"kind": "done"})
}

// TestZZVerifG04Replay re-executes one stored disagreement (history + step).
func TestZZVerifG04Replay(t *testing.T) {
	w := zzNewWriter(t, "VERIF_OUT")
	defer w.close()

	zzReadNDJSON(t, "VERIF_IN", func(line []byte) {
		rec := &struct {
			Variant    string      `json:"variant"`
			Init       string      `json:"init"`
			History    []zzG04Step `json:"history"`
			Act        string      `json:"act"`
			ResetSeed  int64       `json:"reset_seed"`
			ActSeed    int64       `json:"act_seed"`
			Admissible [][2]string `json:"admissible"`
		}{}
		if err := json.Unmarshal(line, rec); err != nil {
			t.Fatalf("bad record: %v", err)
		}

		unit := time.Second
		for _, u := range zzG04UnitsOf {
			if u.name == rec.Variant {
				unit = u.d
			}
		}

		sys := &zzG04Sys{t: t, dir: t.TempDir(), unit: unit, init: rec.Init}
		synctest.Run(func() {
			sys.reset(rec.ResetSeed)
			var steps []zzG04Step
			for _, st := range rec.History {
				o, d, ran := sys.do(st.Act, st.Seed)
				steps = append(steps, zzG04Step{Seed: st.Seed, Act: st.Act, Out: o, State: sys.state(), Ran: ran, Detail: d})
			}

			out, detail, ran := sys.do(rec.Act, rec.ActSeed)
			obs := sys.state()
			ok := false
			for _, a := range rec.Admissible {
				if a[0] == out && a[1] == obs {
					ok = true
				}
			}

			w.put(map[string]any{"kind": "replay", "ok": ok, "act": rec.Act, "ran": ran, "admissible": rec.Admissible,
				"got": [2]string{out, obs}, "detail": detail, "history": steps, "concrete": sys.describe()})
			sys.shutdown()
		})
	})
}

// ------------------------------------------------------------- direction B

// zzG04TraceSel returns the indices of the traces to generate.
func zzG04TraceSel(n int) (sel []int) {
	if only := zzGetenv("VERIF_G04_ONLY"); only != "" {
		for _, f := range strings.Split(only, ",") {
			if k, err := strconv.Atoi(f); err == nil {
				sel = append(sel, k)
			}
		}

		return sel
	}

	for k := 0; k < n; k++ {
		sel = append(sel, k)
	}

	return sel
}

// zzG04Proj is the projected state of a trace line: the stored pair (deadline
// in ms since the origin of the trace; 0 none, zzG04Horizon forever) and the
// worker flag.
type zzG04Proj struct {
	En bool  `json:"en"`
	U  int64 `json:"u"`
	W  bool  `json:"w"`
}

func (z *zzG04Sys) msSince(until *time.Time) (u int64, exact bool) {
	if until == nil {
		return 0, true
	}

	d := until.Sub(z.t0)
	switch {
	case d >= time.Duration(zzG04Horizon)*time.Millisecond:
		return zzG04Horizon, true
	case d <= 0:
		// At or before the origin: no instant of the trace (and not "none").
		return int64(d/time.Millisecond) - 1, true
	default:
		return int64(d / time.Millisecond), d%time.Millisecond == 0
	}
}

func (z *zzG04Sys) proj(st zzG04Stored) (p zzG04Proj) {
	u, exact := z.msSince(st.until)
	if !exact {
		// Not a whole number of milliseconds: no instant of the trace.
		u = -7777
	}

	return zzG04Proj{En: st.en, U: u}
}

func zzG04Trace(t *testing.T, w *zzWriter, k, steps int) {
	rng := rand.New(rand.NewSource(zzSeed()*1000003 + int64(k)))
	sys := &zzG04Sys{t: t, dir: t.TempDir(), unit: time.Millisecond, init: []string{"on", "on", "off"}[rng.Intn(3)]}

	synctest.Run(func() {
		sys.reset(rng.Int63())
		defer sys.shutdown()

		nowMS := func() (ms int64) { return int64(time.Since(sys.t0) / time.Millisecond) }
		cur := func() (mem, disk zzG04Proj) {
			mem = sys.proj(sys.mem())
			mem.W = sys.s.protectionUpdateInProgress.Load()
			d, err := sys.onDisk()
			disk = sys.proj(d)
			if err != nil {
				disk.U = -8888
			}

			return mem, disk
		}

		var pre zzG04Proj
		line := func(kind string, m map[string]any) {
			post, disk := cur()
			rec := map[string]any{"tr": k, "k": kind, "now": nowMS(), "pre": pre, "post": post, "disk": disk,
				"en": false, "d": 0, "dk": "num", "kind": "", "res": "", "ren": false, "ru": 0, "ran": false,
				"detail": "", "concrete": sys.describe()}
			for kk, v := range m {
				rec[kk] = v
			}

			w.put(rec)
		}

		pre, _ = cur()
		line("reset", nil)
		// The durations this history plays with.
		base := []int64{1, 2, 5, 1000, 60000, 3600000, 86400000, 999999999}[rng.Intn(8)]
		// Every other history keeps clear of the inputs that end a history at
		// an open known finding (huge durations, the dns_config switch, a set
		// call while a worker is held back), so that it is validated to its
		// end.
		calm := k%2 == 1
		for i := 0; i < steps && nowMS() < 400000000; i++ {
			pre, _ = cur()
			lazy := rng.Intn(2) == 0
			c := rng.Intn(100)
			if calm && c < 22 && sys.vpend {
				c = 62
			} else if calm && c >= 22 && c < 25 {
				c = 30
			}

			switch {
			case c < 22:
				// POST /control/protection.
				en := rng.Intn(4) == 0
				dk, d, ms := "num", int64(0), ""
				switch x := rng.Intn(40); {
				case x < 8:
					ms = []string{"", "0"}[rng.Intn(2)]
				case x < 33:
					d = []int64{1, base, base, base + 1, 2 * base, 1 + rng.Int63n(3*base)}[rng.Intn(6)]
					if d > 999999999 {
						d = 999999999
					}

					ms = strconv.FormatInt(d, 10)
				case x < 39:
					dk, ms = "big", zzG04BigMS[rng.Intn(len(zzG04BigMS))]
				case calm:
					dk, ms = "big", zzG04BigMS[rng.Intn(len(zzG04BigMS))]
				default:
					dk, ms = "huge", zzG04HugeMS[rng.Intn(len(zzG04HugeMS))]
				}

				res, detail := sys.setProtection(en, ms)
				synctest.Wait()
				line("set", map[string]any{"en": en, "d": d, "dk": dk, "res": res, "detail": detail})
			case c < 25:
				en := rng.Intn(2) == 0
				res, detail := sys.setFlag(en)
				synctest.Wait()
				line("flag", map[string]any{"en": en, "res": res, "detail": detail})
			case c < 42 || c == 25:
				var m map[string]any
				ran := sys.observe(lazy, func() (inEffect, known bool) {
					en, until, d, err := sys.info()
					u, exact := sys.msSince(until)
					if err != nil || !exact {
						u = -7777
					}

					m = map[string]any{"ren": en, "ru": u, "detail": d}

					return en, err == nil
				})
				m["ran"] = ran
				line("info", m)
			case c < 62:
				kinds := []string{"rule", "svc", "sb", "par", "ss", "cname", "rw", "clean"}
				kind := kinds[rng.Intn(len(kinds))]
				var res, detail string
				ran := sys.observe(lazy && zzG04Reveals(kind), func() (inEffect, known bool) {
					res, detail = sys.query(kind, rng)

					return res == "blk", res == "blk" || res == "up"
				})
				line("query", map[string]any{"kind": kind, "res": res, "detail": detail, "ran": ran})
			case c < 70:
				if !sys.vpend {
					i--

					continue
				}

				sys.worker()
				synctest.Wait()
				line("worker", nil)
			case c < 76:
				if err := sys.restart(); err != nil {
					t.Fatalf("g04: restart: %v", err)
				}

				line("restart", nil)
			default:
				// Clock advance, biased towards the deadline.
				var d int64
				mem := sys.mem()
				switch x := rng.Intn(10); {
				case x < 5 && mem.until != nil && mem.until.After(time.Now()):
					left := int64(mem.until.Sub(time.Now()) / time.Millisecond)
					if left < 500000000 {
						d = left + int64(rng.Intn(3)) - 1
					}
				case x < 7:
					d = 1
				case x < 9:
					d = 1 + rng.Int63n(2*base)
				default:
					d = base
				}

				if d <= 0 {
					d = 1
				}

				// Keep every instant of the history below the horizon.
				if d > 300000000 {
					d = 300000000
				}

				time.Sleep(time.Duration(d) * time.Millisecond)
				synctest.Wait()
				line("tick", map[string]any{"d": d})
			}
		}
	})
}

// TestZZVerifG04Trace is direction B.
func TestZZVerifG04Trace(t *testing.T) {
	w := zzNewWriter(t, "VERIF_OUT_TRACE")
	defer w.close()

	ntr, steps := 300, 40
	if zzG04Thorough() {
		ntr, steps = 2000, 50
	}

	for _, k := range zzG04TraceSel(ntr) {
		zzG04Trace(t, w, k, steps)
	}
}

var _ = os.Getenv
