"""G03 -- generator of SafeSearchRules.tla from the repository's own rule files.

Reads <repo>/internal/filtering/safesearch/rules.go (which service embeds which
file) and rules/*.txt (one `|host^$dnsrewrite=NOERROR;TYPE;VALUE` line per
covered host name) and writes the TLA+ module SafeSearchRules: the rule table
(SSRules), the service names (SSServices) and the query-name universes the check
chose for this run (tier, seed).  The generator derives look-alike NAMES only;
whether a name is covered is decided by SafeSearchCore.tla from SSRules.

Also used stand-alone to refresh the snapshot specs/SafeSearchRules.tla:
    python3 checks/g03_rules.py /repo /verif/specs/SafeSearchRules.tla
"""
import os
import random
import re
import sys

RULE_RE = re.compile(r"^\|([A-Za-z0-9._-]+)\^\$dnsrewrite=NOERROR;(A|AAAA|CNAME);([A-Za-z0-9._:-]+)$")


class RulesError(Exception):
    pass


def read_rules(repo):
    """-> (services: sorted list, rules: list of dict(host, svc, rr, val))."""
    d = os.path.join(repo, "internal", "filtering", "safesearch")
    try:
        src = open(os.path.join(d, "rules.go")).read()
        main = open(os.path.join(d, "safesearch.go")).read()
    except OSError as e:
        raise RulesError("cannot read the safe search sources: %s" % e)
    # var <ident> string preceded by //go:embed rules/<file>
    embeds = dict((m.group(2), m.group(1)) for m in re.finditer(r"//go:embed\s+(rules/\S+)\s*\nvar\s+(\w+)\s+string", src))
    # Service constants: Bing Service = "bing"
    consts = dict(re.findall(r"^\s*(\w+)\s+Service\s*=\s*\"([^\"]+)\"", main, re.M))
    # safeSearchRules = map[Service]string{ Bing: bing, ... }
    m = re.search(r"safeSearchRules\s*=\s*map\[Service\]string\{(.*?)\n\}", src, re.S)
    if not m or not embeds or not consts:
        raise RulesError("rules.go / safesearch.go are not of the expected shape")
    svc_file = {}
    for k, v in re.findall(r"^\s*(\w+)\s*:\s*(\w+)\s*,", m.group(1), re.M):
        if k not in consts or v not in embeds:
            raise RulesError("cannot resolve map entry %s: %s" % (k, v))
        svc_file[consts[k]] = embeds[v]
    if set(svc_file) != set(consts.values()):
        raise RulesError("service constants %s and rule map %s differ" % (sorted(consts.values()), sorted(svc_file)))
    rules = []
    for svc in sorted(svc_file):
        p = os.path.join(d, svc_file[svc])
        n = 0
        for ln, line in enumerate(open(p), 1):
            line = line.strip()
            if not line or line.startswith("!") or line.startswith("#"):
                continue
            mm = RULE_RE.match(line)
            if not mm:
                raise RulesError("%s:%d: rule of a shape the specification does not model: %r" % (p, ln, line))
            host = mm.group(1)
            if host != host.lower():
                raise RulesError("%s:%d: rule host is not lower case: %r" % (p, ln, host))
            rules.append({"host": host, "svc": svc, "rr": mm.group(2), "val": mm.group(3)})
            n += 1
        if n == 0:
            raise RulesError("%s: no rules" % p)
    return sorted(svc_file), rules


def mixcase(s, rng):
    out = "".join(c.upper() if rng.random() < 0.5 else c for c in s)
    if out == s:
        out = s[:1].upper() + s[1:]
    return out


def near(host, val, rng):
    """Look-alikes of one covered host name: (form, name)."""
    labels = host.split(".")
    forms = [
        ("exact", host),
        ("upper", host.upper()),
        ("mixed", mixcase(host, rng)),
        ("sub", "x." + host),
        ("deep", "a.b." + host),
        ("suffix", host + ".example.org"),
        ("tldext", host + "x"),
        ("prefix", "x" + host),
        ("hyphen", host.replace(".", "-", 1)),
        ("sibling", "zz." + ".".join(labels[1:]) if len(labels) > 2 else "zz." + host),
    ]
    if len(labels) > 2:
        forms.append(("parent", ".".join(labels[1:])))
    if not re.match(r"^[0-9.:a-f]+$", val):
        forms.append(("safehost", val))
    return forms


def pick_hosts(rules, rng, per_service):
    by = {}
    for r in rules:
        by.setdefault(r["svc"], []).append(r)
    sel = []
    for svc in sorted(by):
        rs = by[svc]
        if per_service is None or len(rs) <= per_service:
            sel += rs
        else:
            sel += rng.sample(rs, per_service)
    return sel


def names_for(rules_sel, rng):
    seen, out = set(), []
    for r in rules_sel:
        for form, n in near(r["host"], r["val"], rng):
            if n not in seen:
                seen.add(n)
                out.append({"q": n, "lc": n.lower(), "form": form, "of": r["host"]})
    for n in ("example.org", "localhost", "com", "safe-search.example", "google", "www"):
        if n not in seen:
            seen.add(n)
            out.append({"q": n, "lc": n, "form": "unrelated", "of": ""})
    return out


def tla_str(s):
    if not re.match(r"^[A-Za-z0-9._:-]*$", s):
        raise RulesError("string not representable: %r" % s)
    return '"%s"' % s


def tla_set(xs):
    return "{" + ", ".join(tla_str(x) for x in xs) + "}"


def name_seq(ident, names):
    lines = ["%s == <<" % ident]
    body = ["  [q |-> %s, lc |-> %s]" % (tla_str(n["q"]), tla_str(n["lc"])) for n in names]
    lines.append(",\n".join(body))
    lines.append(">>")
    return "\n".join(lines)


def generate(repo, out_path, seed=1, tier="quick"):
    """Writes the module; returns a dict describing the chosen universes."""
    services, rules = read_rules(repo)
    rng = random.Random(seed * 7919 + (1 if tier == "quick" else 2))
    # Table universe: quick = every host of the small services + a seeded
    # handful of the large ones; thorough = every host.
    tab_rules = pick_hosts(rules, rng, 6 if tier == "quick" else None)
    tab_names = names_for(tab_rules, rng)
    # Response universe (dnsforward leg): fewer names.
    resp_rules = pick_hosts(rules, rng, 2 if tier == "quick" else 4)
    resp_names = [n for n in names_for(resp_rules, rng)
                  if n["form"] in ("exact", "mixed", "sub", "parent", "suffix", "prefix", "safehost", "unrelated")]
    # State-machine universe: one CNAME service and one address service, one
    # covered host each (the address one spelled in mixed case), one near miss.
    cname_svcs = sorted({r["svc"] for r in rules if r["rr"] == "CNAME"})
    addr_svcs = sorted({r["svc"] for r in rules if r["rr"] != "CNAME"})
    if not cname_svcs or not addr_svcs:
        raise RulesError("need at least one CNAME service and one address service for the state-machine universe")
    s1, s2 = rng.choice(cname_svcs), rng.choice(addr_svcs)
    h1 = rng.choice([r for r in rules if r["svc"] == s1 and r["rr"] == "CNAME"])["host"]
    h2 = rng.choice([r for r in rules if r["svc"] == s2 and r["rr"] != "CNAME"])["host"]
    miss = rng.choice(["x." + h1, h1 + ".example.org", "x" + h1])
    mc_names = [{"q": h1, "lc": h1}, {"q": mixcase(h2, rng), "lc": h2}, {"q": miss, "lc": miss}]
    resp_svcs = sorted(rng.sample(services, max(1, len(services) // 2)))

    rule_lines = ["  [host |-> %s, svc |-> %s, rr |-> %s, val |-> %s]" % (
        tla_str(r["host"]), tla_str(r["svc"]), tla_str(r["rr"]), tla_str(r["val"])) for r in rules]
    text = "\n".join([
        "-------------------------- MODULE SafeSearchRules --------------------------",
        "(* GENERATED by /verif/checks/g03_rules.py from the rule files of the       *)",
        "(* repository -- do not edit.  SSRules: one record per line                 *)",
        "(* |host^$dnsrewrite=NOERROR;rr;val of internal/filtering/safesearch/rules/ *)",
        "(* <file embedded for svc in rules.go>.  The name sequences are the query   *)",
        "(* universes chosen by the check for this run (q: the name as asked, lc:    *)",
        "(* its ASCII lower-case form).                                              *)",
        "\\* repo: %s   tier: %s   seed: %s   rules: %d" % (repo, tier, seed, len(rules)),
        "SSServices == " + tla_set(services),
        "SSRules == {",
        ",\n".join(rule_lines),
        "}",
        name_seq("SSNameSeq", tab_names),
        name_seq("SSRespNameSeq", resp_names),
        name_seq("MCNameSeq", mc_names),
        "MCSvcs == " + tla_set(sorted({s1, s2})),
        "SSRespSvcs == " + tla_set(resp_svcs),
        "=============================================================================",
        "",
    ])
    with open(out_path, "w") as fh:
        fh.write(text)
    return {"services": services, "rules": rules, "table_names": tab_names, "resp_names": resp_names,
            "mc_names": mc_names, "mc_svcs": sorted({s1, s2}), "resp_svcs": resp_svcs}


if __name__ == "__main__":
    info = generate(sys.argv[1], sys.argv[2], seed=1, tier="quick")
    print("rules=%d table_names=%d resp_names=%d mc=%s" % (
        len(info["rules"]), len(info["table_names"]), len(info["resp_names"]), info["mc_names"]))
