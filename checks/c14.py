"""C14 -- config file, DHCP lease database and filter-list files are replaced
atomically (crash-safe).

Half 1  AtomicFile.tla: TLC proves the protocol "temp in the same file system
        -> write all -> fsync -> close -> rename" against the file-system model
        of AtomicFileCore.tla (every interleaving with a concurrent reader,
        power failure before/after every step, every crash outcome), and that
        six realistic wrong protocols violate it (negative configurations).
Half 2  binding by trace validation of REAL system calls: the three real save
        paths (+ the two migration writers) run in child processes under
        strace; the logs are converted to events over the same file-system
        model and TraceAtomicFile.tla checks after every system call that the
        path holds old-or-new now (InstantOK) and after every outcome of a
        power failure injected there (CrashSafe).
Half 3  a concurrent reader polls the destination during back-to-back saves;
        its observations are validated by the same module (ReadOK).
"""
import concurrent.futures
import json
import os
import random
import re
import shutil
import subprocess
import tempfile

import vlib

PKG = {"filter": "internal/filtering", "config": "internal/home", "config-upgrade": "internal/home",
       "leases": "internal/dhcpd", "leases-migrate": "internal/dhcpd"}
FILES = ["zz_verif_common_test.go", "zz_verif_c14_test.go"]
SYSCALLS = ("open,openat,openat2,creat,write,pwrite64,writev,pwritev,pwritev2,fsync,fdatasync,sync,syncfs,"
            "sync_file_range,rename,renameat,renameat2,unlink,unlinkat,link,linkat,symlink,symlinkat,close,"
            "close_range,ftruncate,truncate,fallocate,dup,dup2,dup3,chdir,fchdir,mkdir,mkdirat,rmdir,"
            "copy_file_range,sendfile,splice,execve")
KiB, MiB = 1024, 1024 * 1024

NEG_CFGS = ["negNoFsync", "negRenameFirst", "negInPlace", "negUnlinkFirst", "negCopyBack", "negLateWrite"]
POS_CFGS = ["mc", "mc0", "mcdirsync"]
MC_ACTIONS = ["Begin", "Step", "Finish", "ROpen", "RRead", "Crash", "Recover"]


# --------------------------------------------------------------------- build
def build(ctx, pkg):
    """go test -c with the overlay harness; returns the path of the binary."""
    overlay = {os.path.join(vlib.REPO, pkg, f): os.path.join(vlib.HARNESS, pkg, f) for f in FILES}
    name = pkg.replace("/", "_")
    ov = ctx.path("overlay_%s.json" % name)
    with open(ov, "w") as fh:
        json.dump({"Replace": overlay}, fh)
    out = ctx.path(name + ".test")
    cmd = ["go", "test", "-c", "-overlay", ov, "-vet=off", "-o", out, "./" + pkg]
    try:
        p = subprocess.run(cmd, cwd=vlib.REPO, env=vlib.go_env(), capture_output=True, text=True, timeout=900)
    except subprocess.TimeoutExpired:
        raise vlib.Inconclusive("go test -c timeout in %s" % pkg)
    if p.returncode != 0 or not os.path.exists(out):
        raise vlib.Inconclusive("harness build failed in %s:\n%s" % (pkg, (p.stdout + p.stderr)[-3000:]))
    return out


# ------------------------------------------------------------------ scenario
class Scenario:
    """One child process = several successive real saves of one writer.

    pre: if given, a FIRST child runs these saves on the same scratch root and
    is killed (SIGKILL, by its own watcher) in the middle of the last of them;
    the scenario proper then starts from whatever that child left behind (its
    left-over temporary file in particular): the crash-leftover sequence."""

    def __init__(self, name, writer, mode, sizes, tmp, pre=None, faults=None, serve=None):
        self.name, self.writer, self.mode, self.sizes, self.tmp = name, writer, mode, sizes, tmp
        self.pre = pre
        # faults: per save (parallel to the saves, i.e. to sizes without the
        # set-up entry of the leases writer) the failure injected into it
        self.faults = faults
        # serve (filter writer): per save how the list is offered: "" / "length"
        # (Content-Length announced), "chunked", "file" (local source file)
        self.serve = serve
        self.events = None     # model events (dicts)
        self.src = None        # per event: strace line (str) or marker
        self.rows = None       # harness result rows
        self.info = {}

    def desc(self):
        d = {"name": self.name, "writer": self.writer, "mode": self.mode, "sizes": self.sizes, "tmp": self.tmp}
        if self.pre is not None:
            d["pre"] = self.pre
        if self.faults is not None:
            d["faults"] = self.faults
        if self.serve is not None:
            d["serve"] = self.serve
        return d


def clear_immutable(top):
    """Safety net: a child that died inside an immdir/immdst fault would leave
    an immutable file behind, which nothing could remove."""
    import fcntl
    import struct
    for dp, dns, fns in os.walk(top):
        for q in [dp] + [os.path.join(dp, f) for f in fns]:
            try:
                fd = os.open(q, os.O_RDONLY)
            except OSError:
                continue
            try:
                buf = bytearray(8)
                fcntl.ioctl(fd, 0x80086601, buf)
                fl = struct.unpack("l", buf)[0]
                if fl & 0x10:
                    fcntl.ioctl(fd, 0x40086602, struct.pack("l", fl & ~0x10))
            except OSError:
                pass
            finally:
                os.close(fd)


def run_child(ctx, bins, sc, tag=""):
    """Run one scenario in a child process; fills sc.rows and (trace mode)
    returns the path of the strace log."""
    base = ctx.path("scn_%s%s" % (sc.name, tag))
    shutil.rmtree(base, ignore_errors=True)
    root = os.path.join(base, "root")
    os.makedirs(root)
    rundir = os.path.join(base, "run")
    os.makedirs(rundir)
    out = os.path.join(base, "out.ndjson")
    log = os.path.join(base, "strace.log")
    shm = None
    if sc.tmp == "otherfs":
        if not os.path.isdir("/dev/shm"):
            raise vlib.Inconclusive("no second file system (/dev/shm) for TMPDIR")
        shm = tempfile.mkdtemp(prefix="zzc14-", dir="/dev/shm")
        tmpdir = shm
        if os.stat(shm).st_dev == os.stat(root).st_dev:
            raise vlib.Inconclusive("/dev/shm is not a different file system")
    else:
        tmpdir = os.path.join(root, "tmp")
        os.makedirs(tmpdir)
    env = dict(os.environ)
    env["TMPDIR"] = tmpdir
    binary = bins[PKG[sc.writer]]
    args = ["-test.run", "^TestZZVerifC14Child$", "-test.count=1", "-test.timeout=10m"]

    def spec(mode, sizes, resume, gen, faults=None):
        return json.dumps({"mode": mode, "writer": sc.writer, "root": root, "out": out, "sizes": sizes,
                           "seed": ctx.seed, "maxreads": 50000 if ctx.quick else 150000,
                           "resume": resume, "gen": gen, "faults": faults or [],
                           "serve": sc.serve or []})

    pre_files, pre_dirs = [], []
    try:
        if sc.pre is not None:
            # The crash-leftover sequence: a first child is killed in the
            # middle of its last save.  If the kill came too late (nothing
            # left behind) the attempt is repeated on a clean root.
            for attempt in range(6):
                env["ZZC14_SPEC"] = spec("crash", sc.pre, False, 0)
                # fsync and rename are slowed down (strace delay injection) so
                # that the window "written, not yet renamed" is wide enough for
                # the child's watcher even on a heavily loaded machine.
                slow = "fsync,fdatasync,rename,renameat,renameat2"
                crash_cmd = ["strace", "-f", "-o", "/dev/null", "-e", "trace=" + slow,
                             "-e", "inject=%s:delay_enter=40000" % slow, binary] + args
                try:
                    p = subprocess.run(crash_cmd, cwd=rundir, env=env, capture_output=True, text=True, timeout=300)
                except subprocess.TimeoutExpired:
                    raise vlib.Inconclusive("crash child timeout in scenario %s" % sc.name)
                pre_files, pre_dirs = [], []
                for top in sorted({root, tmpdir}):
                    for dp, _, fns in os.walk(top):
                        pre_dirs.append(dp)
                        for fn in fns:
                            fp = os.path.join(dp, fn)
                            pre_files.append((fp, os.path.getsize(fp)))
                if p.returncode == -9 and len(pre_files) >= 2:
                    break
                if p.returncode not in (0, -9):
                    raise vlib.Inconclusive("crash child of scenario %s failed (rc=%s):\n%s" % (
                        sc.name, p.returncode, (p.stdout + p.stderr)[-2000:]))
                for top in (root, tmpdir):
                    shutil.rmtree(top, ignore_errors=True)
                    os.makedirs(top)
                if os.path.exists(out):
                    os.unlink(out)
            else:
                raise vlib.Inconclusive("scenario %s: the killed child never left anything behind" % sc.name)
        env["ZZC14_SPEC"] = spec(sc.mode, sc.sizes, sc.pre is not None, 1 if sc.pre is not None else 0, sc.faults)
        cmd = [binary] + args
        if sc.mode == "trace":
            cmd = ["strace", "-f", "--seccomp-bpf", "-s", "16", "-o", log, "-e", "trace=" + SYSCALLS] + cmd
        try:
            p = subprocess.run(cmd, cwd=rundir, env=env, capture_output=True, text=True, timeout=600)
        except subprocess.TimeoutExpired:
            raise vlib.Inconclusive("child timeout in scenario %s" % sc.name)
    finally:
        if sc.faults:
            clear_immutable(root)
        if shm:
            shutil.rmtree(shm, ignore_errors=True)
    sc.rows = vlib.read_ndjson(out)
    if p.returncode != 0 or not sc.rows or sc.rows[-1].get("ev") != "done":
        raise vlib.Inconclusive("child of scenario %s did not complete (rc=%s):\n%s" % (
            sc.name, p.returncode, (p.stdout + p.stderr)[-2500:]))
    sc.info = {"root": root, "tmpdir": tmpdir, "cwd": rundir, "dst": sc.rows[0]["dst"], "preexisting": pre_files,
               "predirs": pre_dirs}
    # The big files are not needed any more.
    shutil.rmtree(root, ignore_errors=True)
    return log if sc.mode == "trace" else None


# -------------------------------------------------------------- strace -> events
_line_re = re.compile(r"^(\d+)\s+(.*)$")
_call_re = re.compile(r"^(\w+)\((.*)\)\s+=\s+(-?\d+|\?)(?:\s+(E[A-Z0-9]+))?.*$", re.S)
_unf_re = re.compile(r"^(\w+)\((.*) <unfinished \.\.\.>$", re.S)
_res_re = re.compile(r"^<\.\.\. (\w+) resumed>(.*)$", re.S)


def split_args(s):
    out, cur, depth, q, esc = [], [], 0, False, False
    for ch in s:
        if q:
            cur.append(ch)
            if esc:
                esc = False
            elif ch == "\\":
                esc = True
            elif ch == '"':
                q = False
            continue
        if ch == '"':
            q = True
            cur.append(ch)
        elif ch in "([{":
            depth += 1
            cur.append(ch)
        elif ch in ")]}":
            depth -= 1
            cur.append(ch)
        elif ch == "," and depth == 0:
            out.append("".join(cur).strip())
            cur = []
        else:
            cur.append(ch)
    if cur or out:
        out.append("".join(cur).strip())
    return out


def parse_strace(path):
    """Return (lineno, tid, name, args, ret, errno, line) in completion order
    (close: in entry order)."""
    pending = {}
    calls = []
    with open(path, errors="replace") as fh:
        for no, line in enumerate(fh, 1):
            line = line.rstrip("\n")
            m = _line_re.match(line)
            if not m:
                continue
            tid, rest = int(m.group(1)), m.group(2)
            if rest.startswith("+++") or rest.startswith("---"):
                continue
            u = _unf_re.match(rest)
            if u:
                if u.group(1) == "close":
                    # close releases the descriptor when it is ENTERED (another
                    # thread can be handed the same number before close has
                    # returned): it takes effect at its entry line.
                    calls.append((no, tid, "close", split_args(u.group(2)), 0, None, line))
                    pending[tid] = ("close!", "")
                else:
                    pending[tid] = (u.group(1), u.group(2))
                continue
            r = _res_re.match(rest)
            if r:
                name, head = pending.pop(tid, (r.group(1), ""))
                if name == "close!":
                    continue
                rest = "%s(%s%s" % (name, head, r.group(2))
                line = "%d %s" % (tid, rest)
            c = _call_re.match(rest)
            if not c:
                if "exited with" in rest or "<unfinished" in rest:
                    continue
                raise vlib.Inconclusive("unparsed strace line %d: %s" % (no, line[:200]))
            name, args, ret, errno = c.group(1), c.group(2), c.group(3), c.group(4)
            calls.append((no, tid, name, split_args(args), None if ret == "?" else int(ret), errno, line))
    return calls


def unq(s):
    s = s.strip()
    if s.endswith("..."):
        s = s[:-3]
    if len(s) >= 2 and s[0] == '"' and s[-1] == '"':
        return bytes(s[1:-1], "latin-1").decode("unicode_escape")
    return s


FL0 = {"creat": False, "excl": False, "trunc": False, "app": False, "sync": False}


def ev(name, **kw):
    d = {"ev": name, "fd": 0, "p": "", "q": "", "n": 0, "off": -1, "fl": dict(FL0), "c": {"v": 0, "n": 0}, "id": 0}
    d.update(kw)
    return d


UNREACHABLE = 2000000000   # no file here ever gets that long (TLC integers are 32 bit)


def declared(r, k):
    """The size of version k as declared to the model.  If the harness found
    the complete version k at the path after the save: its length.  If the save
    was made to fail by cutting the download: the length of the document the
    server intended to send.  Otherwise (the save failed under an injected
    fault, or what it installed is not the document it was asked to save)
    there is no complete version k: an unreachable size, so that NOTHING the
    path holds can pass for "the complete new version"."""
    if r.get("is") == k:
        return r["n"]
    if r.get("noop") and r.get("decl", -1) >= 0:
        return r["decl"]
    return UNREACHABLE


def to_events(sc, log):
    """Convert the system-call log of a scenario into model events."""
    calls = parse_strace(log)
    info = sc.info
    root, tmpdir, dst = info["root"], info["tmpdir"], info["dst"]
    dstdir = os.path.dirname(dst)
    ends = {r["id"]: r for r in sc.rows if r.get("ev") == "end"}
    wants = {r["id"]: r.get("want", 0) for r in sc.rows if r.get("ev") == "begin"}
    cwd = info["cwd"]
    dirs = {root, tmpdir}
    filefds, dirfds = {}, {}
    events, src = [ev("reset")], ["reset %s" % sc.name]
    execs = 0
    done = False
    exdev_dst = []
    ineffective = []
    moved = {}   # new real location of a moved directory -> its logical name

    def relevant(p):
        return p.startswith(root + "/") or p.startswith(tmpdir + "/")

    def P(p):
        return "DST" if p == dst else p

    # What an earlier, killed child left behind: files the model must know
    # about, with content of unknown origin (written while nothing is armed:
    # v = -1), so that re-using one of them without truncation is seen.
    dirs.update(info.get("predirs", []))
    for i, (fp, size) in enumerate(info.get("preexisting", [])):
        fd = 1000000 + i
        note = "left behind by the killed child: %s (%d bytes)" % (fp, size)
        events.append(ev("open", fd=fd, p=P(fp), fl=dict(FL0, creat=True)))
        src.append(note)
        if size:
            events.append(ev("write", fd=fd, n=size))
            src.append(note)
        events.append(ev("close", fd=fd))
        src.append(note)

    def resolve(dirfd, p, raw=False):
        if not os.path.isabs(p):
            if dirfd == "AT_FDCWD":
                p = os.path.join(cwd, p)
            else:
                try:
                    base = dirfds.get(int(dirfd.split("<")[0]))
                except ValueError:
                    base = None
                if base is None:
                    return None
                p = os.path.join(base, p)
        p = os.path.normpath(p)
        if raw:
            return p
        for new, old in moved.items():
            if p == new or p.startswith(new + "/"):
                return old + p[len(new):]
            if p == old or p.startswith(old + "/"):
                return "/zzc14-moved-away" + p   # the old name is vacant now
        return p

    def emit(e, line):
        events.append(e)
        src.append(line)

    def bad(what, line):
        raise vlib.Inconclusive("scenario %s: %s: %s" % (sc.name, what, line[:240]))

    for no, tid, name, a, ret, errno, line in calls:
        if done:
            break
        ok = ret is not None and ret >= 0
        if name == "execve":
            if ok:
                execs += 1
                if execs > 1:
                    bad("second execve", line)
            continue
        if name in ("open", "openat", "openat2", "creat"):
            if name == "open":
                dirfd, path, flags = "AT_FDCWD", unq(a[0]), a[1] if len(a) > 1 else ""
            elif name == "creat":
                dirfd, path, flags = "AT_FDCWD", unq(a[0]), "O_WRONLY|O_CREAT|O_TRUNC"
            elif name == "openat":
                dirfd, path, flags = a[0], unq(a[1]), a[2] if len(a) > 2 else ""
            else:
                dirfd, path = a[0], unq(a[1])
                m = re.search(r"flags=([A-Z_|0-9x]+)", a[2] if len(a) > 2 else "")
                flags = m.group(1) if m else ""
            if path.startswith("/zzc14/"):
                mk = path[len("/zzc14/"):].split("/")
                if mk[0] == "arm":
                    emit(ev("arm", n=int(mk[1])), line)
                elif mk[0] == "begin":
                    k = int(mk[1])
                    r = ends.get(k)
                    if r is None:
                        bad("no result row for save %d" % k, line)
                    n = declared(r, k)
                    if not r.get("ok"):
                        ineffective.append(k)
                    emit(ev("begin", id=k, n=n), line)
                elif mk[0] == "end":
                    emit(ev("end", id=int(mk[1])), line)
                elif mk[0] == "done":
                    done = True
                continue
            if not ok:
                continue
            p = resolve(dirfd, path)
            if p is None:
                continue
            fl = set(flags.split("|"))
            if ret in filefds or ret in dirfds:
                bad("descriptor %d reused without a close" % ret, line)
            if p in dirs or "O_DIRECTORY" in fl:
                dirfds[ret] = p
                continue
            if not relevant(p):
                continue
            if "O_TMPFILE" in fl or "__O_TMPFILE" in fl:
                bad("O_TMPFILE is not modelled", line)
            if "O_PATH" in fl:
                dirfds[ret] = p
                continue
            filefds[ret] = p
            emit(ev("open", fd=ret, p=P(p), fl={
                "creat": "O_CREAT" in fl, "excl": "O_EXCL" in fl, "trunc": "O_TRUNC" in fl,
                "app": "O_APPEND" in fl, "sync": bool(fl & {"O_SYNC", "O_DSYNC"})}), line)
            continue
        if name in ("mkdir", "mkdirat"):
            if ok:
                p = resolve("AT_FDCWD" if name == "mkdir" else a[0], unq(a[0] if name == "mkdir" else a[1]))
                if p:
                    dirs.add(p)
            continue
        if name == "rmdir":
            if ok:
                dirs.discard(resolve("AT_FDCWD", unq(a[0])))
            continue
        if name == "chdir":
            if ok:
                cwd = resolve("AT_FDCWD", unq(a[0]))
            continue
        if name == "fchdir":
            if ok:
                bad("fchdir is not modelled", line)
            continue
        if name == "close":
            fd = int(a[0])
            if ok or errno == "EINTR":
                if fd in filefds:
                    del filefds[fd]
                    emit(ev("close", fd=fd), line)
                dirfds.pop(fd, None)
            continue
        if name == "close_range":
            if ok:
                lo, hi = int(a[0]), int(a[1]) if a[1].isdigit() else 1 << 30
                if any(lo <= fd <= hi for fd in list(filefds) + list(dirfds)):
                    bad("close_range over tracked descriptors", line)
            continue
        if name in ("dup", "dup2", "dup3"):
            if ok and (int(a[0]) in filefds or (name != "dup" and int(a[1]) in filefds)):
                bad("dup of a tracked descriptor is not modelled", line)
            continue
        if name in ("write", "writev", "pwrite64", "pwritev", "pwritev2"):
            fd = int(a[0])
            if fd in filefds and ok:
                off = -1
                if name == "pwrite64":
                    off = int(a[3])
                elif name in ("pwritev", "pwritev2"):
                    off = int(a[3])
                emit(ev("write", fd=fd, n=ret, off=off), line)
            continue
        if name in ("copy_file_range", "sendfile", "splice"):
            ofd = int(a[0]) if name == "sendfile" else int(a[2])
            if ofd in filefds and ok:
                ooff = None if name == "sendfile" else a[3]
                if ooff not in (None, "NULL"):
                    bad("positioned %s into a tracked file" % name, line)
                emit(ev("write", fd=ofd, n=ret, off=-1), line)
            continue
        if name in ("fsync", "fdatasync"):
            fd = int(a[0])
            if ok and fd in filefds:
                emit(ev("fsync", fd=fd), line)
            elif ok and dirfds.get(fd) == dstdir:
                emit(ev("fsyncdir"), line)
            continue
        if name in ("sync", "syncfs"):
            emit(ev("sync"), line)
            continue
        if name == "sync_file_range":
            continue   # no durability guarantee: ignored (conservative)
        if name == "fallocate":
            if ok and int(a[0]) in filefds:
                bad("fallocate on a tracked file is not modelled", line)
            continue
        if name in ("rename", "renameat", "renameat2"):
            if name == "rename":
                ra, rb, fl = ("AT_FDCWD", unq(a[0])), ("AT_FDCWD", unq(a[1])), ""
            else:
                ra, rb, fl = (a[0], unq(a[1])), (a[2], unq(a[3])), a[4] if len(a) > 4 else ""
            rpa, rpb = resolve(*ra, raw=True), resolve(*rb, raw=True)
            if ok and rpa is not None and rpb is not None and (rpa in moved or rpa in dirs):
                # A directory is moved (the harness's "nodir" fault moves the
                # destination's directory away and back).  The model's path
                # names are logical: files keep their names, real paths under
                # the new location are mapped back (resolve).
                if rpa in moved and moved[rpa] == rpb:
                    del moved[rpa]
                elif rpa in dirs and not moved and relevant(rpa) and relevant(rpb) and rpb not in dirs:
                    moved[rpb] = rpa
                elif relevant(rpa) or relevant(rpb):
                    bad("directory rename inside the watched tree", line)
                continue
            pa, pb = resolve(*ra), resolve(*rb)
            if pa is None or pb is None:
                continue
            if not ok:
                if errno == "EXDEV" and pb == dst:
                    exdev_dst.append(line)
                continue
            if "RENAME_EXCHANGE" in fl:
                bad("RENAME_EXCHANGE is not modelled", line)
            if relevant(pa) and relevant(pb):
                emit(ev("rename", p=P(pa), q=P(pb)), line)
            elif relevant(pa):
                emit(ev("unlink", p=P(pa)), line)
            elif relevant(pb):
                bad("file renamed into the watched tree from outside", line)
            continue
        if name in ("unlink", "unlinkat"):
            if not ok:
                continue
            p = resolve("AT_FDCWD", unq(a[0])) if name == "unlink" else resolve(a[0], unq(a[1]))
            if p is None:
                continue
            if p in dirs:
                dirs.discard(p)
            elif relevant(p):
                emit(ev("unlink", p=P(p)), line)
            continue
        if name in ("link", "linkat"):
            if not ok:
                continue
            if name == "link":
                pa, pb = resolve("AT_FDCWD", unq(a[0])), resolve("AT_FDCWD", unq(a[1]))
            else:
                pa, pb = resolve(a[0], unq(a[1])), resolve(a[2], unq(a[3]))
            if pa and pb and relevant(pa) and relevant(pb):
                emit(ev("link", p=P(pa), q=P(pb)), line)
            elif pb and relevant(pb):
                bad("link into the watched tree from outside", line)
            continue
        if name in ("symlink", "symlinkat"):
            if ok:
                pb = resolve("AT_FDCWD", unq(a[1])) if name == "symlink" else resolve(a[1], unq(a[2]))
                if pb and relevant(pb):
                    bad("symlink inside the watched tree is not modelled", line)
            continue
        if name == "ftruncate":
            if ok and int(a[0]) in filefds:
                emit(ev("ftrunc", fd=int(a[0]), n=int(a[1])), line)
            continue
        if name == "truncate":
            if ok:
                p = resolve("AT_FDCWD", unq(a[0]))
                if p and relevant(p):
                    emit(ev("trunc", p=P(p), n=int(a[1])), line)
            continue
    if not done:
        raise vlib.Inconclusive("scenario %s: no 'done' marker in the strace log" % sc.name)
    sc.events, sc.src = events, src
    sc.info.update({"exdev_dst": exdev_dst, "ineffective": ineffective, "syscalls": len(calls)})


def poll_events(sc):
    """Events of a poll-mode run (no system calls: the save-level part of the
    model only)."""
    events, src = [ev("reset")], ["reset %s" % sc.name]
    sizes = {r["id"]: declared(r, r["id"]) for r in sc.rows if r.get("ev") == "end"}
    oks = {r["id"] for r in sc.rows if r.get("ev") == "end" and r.get("ok")}
    ineffective = []
    for r in sc.rows:
        e = r["ev"]
        if e == "arm":
            events.append(ev("parm", n=r["n"]))
        elif e == "begin":
            k = r["id"]
            if k not in oks:
                ineffective.append(k)
            events.append(ev("begin", id=k, n=sizes.get(k, 0)))
        elif e == "end":
            k = r["id"]
            if r["is"] >= 1:
                c = {"v": r["is"] if r["n"] > 0 else 0, "n": r["n"]}
            elif r["is"] == 0:
                c = {"v": -2, "n": 0}
            else:
                c = {"v": -1, "n": r["n"]} if r["n"] > 0 else {"v": 0, "n": 0}
            events.append(ev("pend", id=k, c=c))
        elif e == "rbegin":
            events.append(ev("rbegin", id=r["id"]))
        elif e == "rend":
            v, n = r.get("ver", -1), r["n"]
            if v == -2:
                c = {"v": -2, "n": 0}
            elif v >= 1:
                c = {"v": v if n > 0 else 0, "n": n}
            else:
                c = {"v": -1, "n": n} if n > 0 else {"v": 0, "n": 0}
            events.append(ev("rend", id=r["id"], c=c))
        else:
            continue
        src.append(json.dumps(r, sort_keys=True))
    sc.events, sc.src = events, src
    sc.info.update({"ineffective": ineffective, "exdev_dst": []})


# --------------------------------------------------------------------- TLC
def validate(ctx, scs, tag):
    """Concatenate the events of the scenarios, run TraceAtomicFile, return
    {scenario name: [(local index, inv)]} and the consumed count."""
    rows, owner = [], []
    for sc in scs:
        for i, e in enumerate(sc.events):
            rows.append(e)
            owner.append((sc, i))
    tp = ctx.path("trace_%s.ndjson" % tag)
    vlib.write_ndjson(tp, rows)
    r = ctx.tlc("TraceAtomicFile", "TraceAtomicFile.cfg", workers=1, timeout=1500,
                extra_files=[(tp, "trace.ndjson")], heap="6g")
    if not r["vectors"]:
        raise vlib.Inconclusive("TraceAtomicFile produced no verdict:\n" + r["out"][-2000:])
    v = r["vectors"][-1]
    if v["n"] != len(rows):
        raise vlib.Inconclusive("TraceAtomicFile read %s lines, wrote %d" % (v["n"], len(rows)))
    if v["consumed"] != len(rows):
        sc, i = owner[v["consumed"]]
        raise vlib.Inconclusive(
            "trace of scenario %s is not a behaviour of the file-system model: event %d not enabled: %s  <- %s" % (
                sc.name, i, json.dumps(sc.events[i]), sc.src[i][:200]))
    res = {sc.name: [] for sc in scs}
    for x in v["viol"]:
        sc, i = owner[x["l"] - 1]
        res[sc.name].append((i, x["inv"]))
    return res, len(rows)


def pattern(sc, i, inv):
    """Name the non-atomic pattern at event i (for the report and as the
    known-finding key)."""
    e = sc.events[i]
    if inv == "ReadOK":
        return "reader-saw-neither-old-nor-new"
    if inv == "InstantOK":
        if e["ev"] == "pend":
            return "dst-incomplete-after-save"
        if e["ev"] == "open" and e["fl"]["trunc"]:
            return "dst-opened-with-O_TRUNC"
        if e["ev"] in ("write", "ftrunc", "trunc"):
            return "dst-written-in-place"
        if e["ev"] == "unlink":
            return "dst-unlinked"
        if e["ev"] == "rename":
            return "dst-replaced-by-incomplete-file" if e["q"] == "DST" else "dst-renamed-away"
        if e["ev"] == "open" and e["fl"]["creat"]:
            return "dst-created-in-place"
        return "dst-not-old-or-new"
    if inv == "CrashSafe":
        if e["ev"] == "rename" and e["q"] == "DST":
            return "rename-before-data-fsync"
        if e["ev"] in ("write", "ftrunc", "trunc") or (e["ev"] == "open" and e["fl"]["trunc"]):
            return "dst-data-not-durable-in-place"
        return "crash-leaves-incomplete-dst"
    return "other"


def mutants(sc):
    """Corrupted copies of a good real trace: each must be rejected (the
    regression test of the trace specification)."""
    ev_ = sc.events
    out = {}
    # which fds are the temp files renamed onto DST
    ren = [i for i, e in enumerate(ev_) if e["ev"] == "rename" and e["q"] == "DST"]
    if len(ren) < 2:
        return out
    out["no-fsync"] = ([e for e in ev_ if e["ev"] != "fsync"], "CrashSafe")
    # rename moved in front of the fsync of the same save
    m, j = list(ev_), ren[-1]
    f = max(i for i in range(j) if ev_[i]["ev"] == "fsync")
    r = m.pop(j)
    m.insert(f, r)
    out["rename-before-fsync"] = (m, "CrashSafe")
    # in place: last save writes DST directly
    tmp = ev_[j]["p"]
    o = max(i for i in range(j) if ev_[i]["ev"] == "open" and ev_[i]["p"] == tmp)
    m = []
    for i, e in enumerate(ev_):
        if i == o:
            e = dict(e, p="DST", fl=dict(e["fl"], excl=False, trunc=True))
        if i == j:
            continue
        m.append(e)
    out["in-place"] = (m, "InstantOK")
    # unlink first
    m = list(ev_)
    m.insert(j, ev("unlink", p="DST"))
    out["unlink-first"] = (m, "InstantOK")
    # a write after the fsync
    w = [i for i in range(f) if ev_[i]["ev"] == "write" and ev_[i]["fd"] == ev_[f]["fd"] and i > o]
    if w:
        m = list(ev_)
        x = m.pop(w[-1])
        m.insert(f, x)   # f shifted by one to the left: lands right after the fsync
        out["write-after-fsync"] = (m, "CrashSafe")
    return out


# --------------------------------------------------------------------- plan
def plan(ctx):
    rng = random.Random(ctx.seed)
    j = lambda lo, hi: rng.randint(lo, hi)

    def fail(kind, lo, hi):
        """A filter refresh that fails after about n good bytes; kind 0: binary
        character, 1: Content-Length not honoured, 2: chunked body aborted."""
        n = j(lo, hi)
        return -(n - n % 3 + kind)

    def leftovers(suffix, tmps):
        """The crash-leftover sequences: a child is killed in the middle of a
        LARGE save; the next child starts from what it left behind and makes
        SMALLER saves (a re-used, not truncated temporary file shows)."""
        t = lambda: rng.choice(tmps)
        return [
            Scenario("leases-crash" + suffix, "leases", "trace", [-1, 0, 1, 1, -2], t(), pre=[j(40, 400) * KiB, 1]),
            Scenario("config-crash" + suffix, "config", "trace", [0, j(1, 3000), j(4, 90) * KiB], t(),
                     pre=[0, j(100, 900) * KiB]),
            Scenario("filter-crash" + suffix, "filter", "trace", [j(20, 3000), j(4, 60) * KiB, 0, j(20, 900)], t(),
                     pre=[j(20, 3000), j(100, 900) * KiB]),
        ]

    def faulty(suffix, tmp, n):
        """Fault sequences: every second save runs under an injected failure
        (write cut short by RLIMIT_FSIZE after K bytes, directory moved away,
        directory immutable, destination immutable), each followed by a
        normal save."""
        out = []
        for writer, first, size in (("config", [], lambda: j(0, 1) * j(1, 300000)),
                                    ("leases", [j(4, 300) * KiB], lambda: rng.choice([1, 1, 1, -2, 0])),
                                    ("filter", [], lambda: j(3000, 300000))):
            kinds = ["fsize:%d" % j(0, 3000), "nodir", "immdir", "immdst", "fsize:%d" % (1 << j(0, 11))]
            rng.shuffle(kinds)
            kinds = (kinds * 3)[:n]
            sizes, faults = [size()], [""]
            if writer == "leases":
                sizes[0] = 1
            for kd in kinds:
                sizes += [size(), size()]
                faults += [kd, ""]
            if writer == "leases":
                sizes = [1 if (f and x == 0) else x for x, f in zip(sizes, faults)]
            out.append(Scenario("%s-fault%s" % (writer, suffix), writer, "trace", first + sizes, tmp, faults=faults))
        return out

    def poll_faults(n):
        """In the poll runs about every 12th save runs under a fault that does
        not hide the path from the reader."""
        return [rng.choice(["fsize:%d" % j(0, 3000), "immdir", "immdst"]) if i % 12 == 7 else "" for i in range(n)]

    scs = []
    if ctx.quick:
        scs.append(Scenario("filter-a", "filter", "trace",
                            [j(20, 4000), j(200, 900) * KiB, fail(0, 7000, 90000), fail(1, 7000, 200000), 0,
                             fail(2, 7000, 200000), j(20, 90000)], "otherfs"))
        scs.append(Scenario("filter-b", "filter", "trace",
                            [j(1, 3) * MiB, fail(j(1, 2), 7000, 900000), j(20, 400), j(6000, 70000)], "samefs"))
        scs.append(Scenario("config-a", "config", "trace", [0, j(100, 600) * KiB, j(1, 5000), 0], "otherfs"))
        scs.append(Scenario("config-up", "config-upgrade", "trace", [j(0, 200000)], rng.choice(["otherfs", "samefs"])))
        scs.append(Scenario("leases-a", "leases", "trace", [j(0, 300) * KiB, 1, 1, -2, 0, 1], "otherfs"))
        scs.append(Scenario("leases-mig", "leases-migrate", "trace", [j(0, 100000)], rng.choice(["otherfs", "samefs"])))
        scs += leftovers("", ["otherfs", "samefs"])
        scs += faulty("", rng.choice(["otherfs", "samefs"]), 5)
        # The size dimension up to "tens of megabytes", with the size announced
        # (Content-Length), taken from a local source file, and not announced.
        scs.append(Scenario("filter-big", "filter", "trace",
                            [j(20, 4000), 17 * MiB + j(0, 99999), 33 * MiB + j(0, 99999), 18 * MiB + j(0, 99999), j(20, 4000)],
                            rng.choice(["otherfs", "samefs"]), serve=["", "length", "file", "chunked", "file"]))
        npoll = 200
    else:
        scs.append(Scenario("filter-a", "filter", "trace",
                            [j(20, 4000), 0, j(1, 9), 32 * MiB, fail(0, MiB, 4 * MiB), j(20, 500), j(1, 8) * MiB,
                             fail(1, 7000, 4 * MiB), fail(2, 7000, 4 * MiB)] +
                            [j(-1, 3) * j(1, 200000) for _ in range(13)], "otherfs"))
        scs.append(Scenario("filter-b", "filter", "trace",
                            [j(8, 24) * MiB, 0, j(100, 900) * KiB, fail(1, 7000, 9000), 64 * KiB, fail(2, 20, 7000),
                             64 * KiB + 1] +
                            [1 << j(3, 20) for _ in range(10)], "samefs"))
        scs.append(Scenario("config-a", "config", "trace",
                            [0, j(1, 5000), 32 * MiB, 0, j(1, 3) * MiB] + [j(0, 2) * j(1, 300000) for _ in range(15)],
                            "otherfs"))
        scs.append(Scenario("config-b", "config", "trace",
                            [j(4, 10) * MiB] + [1 << j(3, 20) for _ in range(9)], "samefs"))
        for i, t in enumerate(["otherfs", "samefs"]):
            scs.append(Scenario("config-up%d" % i, "config-upgrade", "trace", [j(0, 2 + 6 * i) * MiB + j(0, 5000)], t))
            scs.append(Scenario("leases-mig%d" % i, "leases-migrate", "trace", [j(0, 1 + 3 * i) * MiB + j(0, 5000)], t))
        scs.append(Scenario("leases-a", "leases", "trace",
                            [32 * MiB] + [rng.choice([1, 1, 1, -2]) for _ in range(12)] + [0] +
                            [rng.choice([1, 1, -2]) for _ in range(8)], "otherfs"))
        scs.append(Scenario("leases-b", "leases", "trace",
                            [-1] + [rng.choice([1, 1, 1, -2, 0]) for _ in range(20)], "samefs"))
        scs.append(Scenario("leases-c", "leases", "trace", [j(1, 3) * MiB, 1, 0, 1, 1], "samefs"))
        scs.append(Scenario("filter-c", "filter", "trace", [32 * MiB, j(1, 16) * MiB, -32 * MiB, 33 * MiB, 0, 1], "samefs"))
        scs += leftovers("-a", ["otherfs"]) + leftovers("-b", ["samefs"])
        scs += faulty("-a", "otherfs", 10) + faulty("-b", "samefs", 10)
        scs.append(Scenario("filter-big", "filter", "trace",
                            [j(20, 4000), 17 * MiB + j(0, 99999), 33 * MiB + j(0, 99999), 18 * MiB + j(0, 99999),
                             j(20, 4000), j(17, 40) * MiB, fail(1, 17 * MiB, 24 * MiB), j(17, 40) * MiB, 16 * MiB, 16 * MiB + 1],
                            "otherfs", serve=["", "length", "file", "chunked", "file", "length", "", "file", "length", "length"]))
        npoll = 400
    scs.append(Scenario("poll-filter", "filter", "poll",
                        [j(20, 300000) * (-1 if i % 9 == 5 else 1) for i in range(npoll)], "otherfs",
                        faults=poll_faults(npoll)))
    scs.append(Scenario("poll-config", "config", "poll", [j(0, 300000) for _ in range(npoll)], "otherfs",
                        faults=poll_faults(npoll)))
    scs.append(Scenario("poll-leases", "leases", "poll", [j(4000, 100000)] + [1] * npoll, "otherfs",
                        faults=poll_faults(npoll)))
    # How the filter lists are offered: anything above 16 MiB in turn with an
    # announced size, from a local file, chunked; the rest at random.
    turn = 0
    for sc in scs:
        if sc.writer != "filter":
            continue
        if sc.mode == "poll":
            sc.sizes[2] = 17 * MiB + j(0, 99999)
        if sc.serve is None:
            sc.serve = []
            for x in sc.sizes:
                if abs(x) > 16 * MiB:
                    sc.serve.append(["length", "file", "chunked"][turn % 3])
                    turn += 1
                else:
                    sc.serve.append(rng.choice(["", "length", "chunked", "file"]))
    return scs


# ---------------------------------------------------------------------- run
def model_check(ctx):
    demo = {}
    for i, c in enumerate(POS_CFGS + ([] if ctx.quick else ["mcbig"])):
        r = ctx.tlc("AtomicFile", "AtomicFile.%s.cfg" % c, workers=4, timeout=900, coverage=(i == 0))
        if i == 0:
            taken = dict((m.group(1), int(m.group(2))) for m in
                         re.finditer(r"^<(\w+) line \d+, col \d+ to line \d+, col \d+ of module AtomicFile>: (\d+):\d+", r["out"], re.M))
            never = [a for a in MC_ACTIONS if taken.get(a, 0) == 0]
            if never:
                raise vlib.Inconclusive("vacuous: actions never taken in AtomicFile.mc: %s" % never)
            demo["mc_actions_taken"] = taken
    for c in NEG_CFGS:
        r = ctx.tlc("AtomicFile", "AtomicFile.%s.cfg" % c, workers=2, timeout=300, expect_violation=True)
        if r["violated"] not in ("DstOldOrNew", "CrashSafe", "ReaderOK"):
            raise vlib.Inconclusive("negative configuration %s was not rejected by TLC (violated=%s)" % (c, r["violated"]))
        demo[c] = r["violated"]
    return demo


def record(sc, i, inv):
    lo = max(0, i - 6)
    return {"scenario": sc.desc(), "event_index": i, "invariant": inv, "pattern": pattern(sc, i, inv),
            "event": sc.events[i], "syscall": sc.src[i][:300],
            "context": [s[:200] for s in sc.src[lo:i + 2]]}


def execute(ctx, bins, sc, tag=""):
    log = run_child(ctx, bins, sc, tag)
    if sc.mode == "trace":
        to_events(sc, log)
        if not os.environ.get("VERIF_KEEP"):
            os.unlink(log)
    else:
        poll_events(sc)


def run(ctx):
    for m in ("AtomicFileCore", "AtomicFile", "TraceAtomicFile"):
        ctx.sany(m)
    scs = plan(ctx)
    pkgs = sorted({PKG[sc.writer] for sc in scs})
    # Half 1 (TLC on the exhaustive model) runs in one background thread
    # while the harness is built and the children run; no other ctx.tlc call
    # is made until it has finished.
    with concurrent.futures.ThreadPoolExecutor(max_workers=1) as bg:
        half1 = bg.submit(model_check, ctx)
        with concurrent.futures.ThreadPoolExecutor(max_workers=3) as ex:
            bins = dict(zip(pkgs, ex.map(lambda p: build(ctx, p), pkgs)))
        ctx.log("built %d test binaries" % len(bins))
        with concurrent.futures.ThreadPoolExecutor(max_workers=3) as ex:
            list(ex.map(lambda sc: execute(ctx, bins, sc), scs))
        ctx.log("ran %d scenarios" % len(scs))
        demo = half1.result()

    res, nlines = validate(ctx, scs, "all")

    # The regression test of the trace specification on a real trace: a
    # scenario that was accepted is corrupted in five ways; every corrupted
    # copy must be rejected.
    base, muts = None, {}
    for sc in sorted(scs, key=lambda x: len(x.events)):
        if sc.mode == "trace" and not res[sc.name] and not sc.info["ineffective"]:
            muts = mutants(sc)
            if len(muts) >= 5:
                base = sc
                break
    if base is None:
        if not any(res.values()):
            raise vlib.Inconclusive("could not derive the corrupted traces from any accepted scenario")
        demo["corrupted_traces"] = "skipped: no accepted scenario to derive them from"
    else:
        msc = []
        for name, (evs, want) in muts.items():
            m = Scenario("mut-" + name, base.writer, "trace", base.sizes, base.tmp)
            m.events, m.src, m.want = evs, ["-"] * len(evs), want
            msc.append(m)
        mres, _ = validate(ctx, msc, "mut")
        for m in msc:
            got = {inv for _, inv in mres[m.name]}
            if m.want not in got:
                raise vlib.Inconclusive("corrupted trace %s was accepted by TraceAtomicFile (wanted %s, got %s)" % (
                    m.name, m.want, sorted(got)))
            demo[m.name] = sorted(got)
        demo["corrupted_traces_from"] = base.name

    # Disagreements: reproduce each one by running its scenario again, alone.
    saves = reads = 0
    nontrivial = set()
    unclear = []   # reasons for "inconclusive", raised only if nothing was reproduced
    for sc in scs:
        saves += sum(1 for e in sc.events if e["ev"] == "begin")
        reads += sum(1 for e in sc.events if e["ev"] == "rend")
        for r in sc.rows:
            if r.get("ev") == "end" and r.get("ok"):
                nontrivial.add((sc.writer, r["n"], bool(r.get("noop"))))
        firsts = res[sc.name][:1]
        bad_save = sc.info["ineffective"]
        if not firsts and not bad_save:
            continue
        again = Scenario(sc.name, sc.writer, sc.mode, sc.sizes, sc.tmp, sc.pre, sc.faults, sc.serve)
        execute(ctx, bins, again, "-again")
        ares, _ = validate(ctx, [again], "again-" + sc.name)
        for i, inv in firsts:
            pat = pattern(sc, i, inv)
            same = [(i2, inv2) for i2, inv2 in ares[again.name] if inv2 == inv and pattern(again, i2, inv2) == pat]
            if not same:
                unclear.append("violation %s/%s in scenario %s was not reproduced" % (inv, pat, sc.name))
                continue
            i2, _ = same[0]
            rec = record(again, i2, inv)
            rec["all_violations"] = [{"event_index": a, "invariant": b, "pattern": pattern(again, a, b)}
                                     for a, b in ares[again.name][:12]]
            ctx.disagreement("%s:%s" % (sc.writer, pat), rec,
                             "%s writer: %s violated at system call [%s] (%s)" % (sc.writer, inv, again.src[i2][:160], pat))
        if bad_save and not firsts:
            if sc.info["exdev_dst"] and again.info["exdev_dst"] and again.info["ineffective"]:
                rec = {"scenario": sc.desc(), "pattern": "temp-file-on-other-filesystem", "saves": again.info["ineffective"],
                       "syscall": again.info["exdev_dst"][0][:300]}
                ctx.disagreement("%s:temp-file-on-other-filesystem" % sc.writer, rec,
                                 "%s writer: the rename onto the destination fails with EXDEV (temporary file not in the "
                                 "destination's file system); the new version is never installed" % sc.writer)
            else:
                rows = [r for r in sc.rows if r.get("ev") == "end" and r["id"] in bad_save][:3]
                unclear.append("scenario %s: saves %s did not install the new version (%s)" % (
                    sc.name, bad_save[:5], json.dumps(rows)[:600]))
    if unclear and not ctx.violations and not ctx.known_hits:
        raise vlib.Inconclusive("; ".join(unclear[:4]))
    if unclear:
        cov_unclear = unclear[:10]
    else:
        cov_unclear = []

    # What the injected faults did: per class [saves that failed and left the
    # previous version, saves that went through, fault could not be produced].
    fstat = {}
    for sc in scs:
        for r in sc.rows:
            if r.get("ev") == "end" and r.get("fault"):
                st = fstat.setdefault(r["fault"].split(":")[0], [0, 0, 0])
                st[2 if not r.get("faulted") else (0 if r.get("noop") else 1)] += 1
    for cls in ("fsize", "nodir"):
        if fstat.get(cls, [0])[0] == 0 and not ctx.violations and not ctx.known_hits:
            raise vlib.Inconclusive("vacuous: no save failed under the injected fault %s (%s)" % (cls, fstat))
    tr = [sc for sc in scs if sc.mode == "trace"]
    if saves == 0 or reads == 0 or not tr:
        raise vlib.Inconclusive("vacuous: %d saves, %d reads" % (saves, reads))
    demo_sc = tr[0]
    k = next(i for i, e in enumerate(demo_sc.events) if e["ev"] == "begin")
    brief = lambda e: {a: b for a, b in e.items() if a == "ev" or (a == "fl" and any(b.values())) or
                       (a not in ("fl", "c") and b not in (0, "", -1))}
    samples = [{"scenario": demo_sc.desc()}] + [
        {"event": brief(demo_sc.events[i]), "syscall": demo_sc.src[i][:160]}
        for i in range(k, min(k + 30, len(demo_sc.events))) if demo_sc.events[i]["ev"] not in ("close", "unlink")][:12]
    cov = {
        "traces_validated_against_impl": len(scs),
        "evaluations": nlines,
        "distinct_nontrivial": len(nontrivial),
        "rule": "one trace per scenario (one child process = several successive real saves of one writer); an "
                "evaluation = one system call / marker after which TLC evaluates InstantOK and CrashSafe (= a power "
                "failure injected after that prefix, all outcomes); non-trivial = a distinct (writer, document size) "
                "whose save completed and was verified byte-complete by the harness",
        "saves": saves, "reader_observations": reads,
        "syscalls_seen": sum(sc.info.get("syscalls", 0) for sc in tr),
        "scenarios": [dict(sc.desc(), events=len(sc.events),
                           **({"left_behind": [[os.path.basename(a), b] for a, b in sc.info.get("preexisting", [])]}
                              if sc.pre is not None else {}),
                           sizes=sc.sizes if len(sc.sizes) <= 30 else
                           {"count": len(sc.sizes), "min": min(sc.sizes), "max": max(sc.sizes), "first": sc.sizes[:8]})
                      for sc in scs],
        "binding_demo": demo, "unclear": cov_unclear, "fault_saves_failed_passed_notapplied": fstat,
        "exhaustive": False,
        "samples": samples,
    }
    return ctx.finish("model_checking", cov, assumptions=[
        "TLC; the durability model D1-D3 of AtomicFileCore.tla (what the kernel does below fsync is trusted)",
        "strace reports every system call of the child in kernel order; writes through mmap are not seen",
        "after a power failure the path may hold an EARLIER complete version than the previous one: none of the "
        "writers fsyncs the directory and the statement is read as 'always a complete version'",
        "the harness's own byte-level check that the file found after a save is the document it asked to be saved"])


def replay(ctx, path):
    rec = json.load(open(path))["record"]
    d = rec["scenario"]
    sc = Scenario(d["name"], d["writer"], d["mode"], d["sizes"], d["tmp"], d.get("pre"), d.get("faults"), d.get("serve"))
    bins = {PKG[sc.writer]: build(ctx, PKG[sc.writer])}
    execute(ctx, bins, sc)
    res, _ = validate(ctx, [sc], "replay")
    got = [{"event_index": i, "invariant": inv, "pattern": pattern(sc, i, inv), "syscall": sc.src[i][:200]}
           for i, inv in res[sc.name]]
    if sc.info["ineffective"] and sc.info["exdev_dst"]:
        got.append({"pattern": "temp-file-on-other-filesystem", "syscall": sc.info["exdev_dst"][0][:200]})
    print(json.dumps({"expected": "no violation of InstantOK / CrashSafe / ReadOK; every save installs the new version",
                      "recorded": {"invariant": rec.get("invariant"), "pattern": rec.get("pattern")},
                      "observed": got[:10] or "admissible"}, indent=1))
    return 1 if got else 0
