package querylog

// C20 conformance harness: builds real query-log files from the layouts the
// orchestrator derived from TLC's enumeration, drives the real qLogFile /
// qLogReader on them and logs, for every call, the reply (error class, index
// of the returned line) and the projected state (current file, position,
// bufferStart) as NDJSON.  It decides nothing: the orchestrator looks the
// observed edges up in the relation emitted by specs/QLogFileProps.tla
// (direction A, mode "walk") and hands the op logs to TLC with
// specs/TraceQLogFile.tla and specs/TraceQLogFileAlg.tla (mode "ops").
//
// Every call of the code under test runs under a watchdog: the statement says
// "without ever looping".

import (
	"bytes"
	"context"
	"encoding/json"
	"fmt"
	"io"
	"math/rand"
	"os"
	"path/filepath"
	"sort"
	"strconv"
	"strings"
	"sync"
	"sync/atomic"
	"testing"
	"time"

	"github.com/AdguardTeam/golibs/errors"
	"github.com/AdguardTeam/golibs/logutil/slogutil"
)

// zzC20FilePlan is one file of a case: abstract timestamps (small integers,
// strictly increasing over the whole case; indices into the case's TSMap) and
// content lengths in bytes (without the newline).
type zzC20FilePlan struct {
	TS  []int64 `json:"ts"`
	Len []int   `json:"len"`
	// Lay is the record layout of every line (QLogFile!Layouts): -1 or
	// absent for the bare record {"T":..}, else order*12 + addr*3 + tsf.
	Lay []int `json:"lay"`
}

// zzC20Case is one unit of work.
type zzC20Case struct {
	// Level is "file" (qLogFile driven directly) or "reader" (qLogReader).
	Level string `json:"level"`
	// Mode is "walk" (edge cover of the abstract reader) or "ops".
	Mode  string          `json:"mode"`
	Files []zzC20FilePlan `json:"files"`
	// Ops, for mode "ops": [0] SeekStart; [1, t] seekTS(t); [2, k, detail]
	// up to k ReadNext calls (k < 0: until eof has been reported), detail
	// 1 = log position and bufferStart after every call.
	Ops [][]int64 `json:"ops"`
	ID  int       `json:"id"`
	// TSMap maps an abstract timestamp a (stored or sought) to the real one,
	// TSMap[a] ns since the epoch; strictly increasing, irregular gaps.
	TSMap []int64 `json:"tsmap"`
	// Seed drives the choice of navigation in mode "walk".
	Seed int64 `json:"seed"`
}

// zzC20Built is a case rendered to disk, with what the harness needs to
// recognise lines and to project positions.
type zzC20Built struct {
	paths []string
	data  [][]byte
	// ends[f][i] is the offset of the newline of line i of file f.
	ends [][]int64
	// off[f] is the number of lines in the files older than f.
	off []int
	n   int
}

// Vocabulary of record layouts, in the order of QLogFile!Orders, !Addrs and
// !TsForms as checks/c20.py numbers them.
var (
	zzC20Addrs = []string{
		"192.168.10.77",
		"2001:db8::1",
		"2001:0db8:85a3:0000:1111:8a2e:0370:7334",
		"fe80::1234:5678:9abc:def0%enp0s31f6",
	}
	zzC20LongPre = []int{0, 0, 130, 260, 1100, 0}
	zzC20ZoneOff = time.FixedZone("", 5*3600+45*60)
	zzC20ZoneNs  = time.FixedZone("", -(7*3600 + 30*60))
)

// zzC20Time spells the timestamp in form tsf: 0 UTC with the shortest
// fraction, 1 numeric zone offset, 2 nine fraction digits and a numeric zone
// offset.
func zzC20Time(ns int64, tsf int) (s string) {
	t := time.Unix(0, ns)
	switch tsf {
	case 1:
		return t.In(zzC20ZoneOff).Format(time.RFC3339Nano)
	case 2:
		return t.In(zzC20ZoneNs).Format("2006-01-02T15:04:05.000000000Z07:00")
	default:
		return t.UTC().Format(time.RFC3339Nano)
	}
}

// zzC20Line renders global line g with timestamp ns in layout lay to exactly
// ln bytes.  The padding goes into the property "F".
func zzC20Line(g int, ns int64, ln, lay int) (b []byte) {
	var head, tail string
	idx := `"I":` + strconv.Itoa(g)
	if lay < 0 {
		head = `{"T":"` + zzC20Time(ns, 0) + `",` + idx + `,"F":"`
		tail = `"}`
	} else {
		order, addr, tsf := lay/12, zzC20Addrs[(lay/3)%4], lay%3
		tprop := `"T":"` + zzC20Time(ns, tsf) + `"`
		ip := `"IP":"` + addr + `"`
		switch order {
		case 0:
			// The current writer: the time comes first.
			head = `{` + tprop + `,"QH":"example.org","QT":"A","QC":"IN",` + ip + `,` + idx + `,"F":"`
			tail = `"}`
		case 1:
			// Older files and the package's own tests: the address first.
			head = `{` + ip + `,` + tprop + `,"QH":"example.org","QT":"A","QC":"IN",` + idx + `,"F":"`
			tail = `"}`
		case 5:
			// The time is the last property of the record.
			head = `{` + ip + `,"QT":"A",` + idx + `,"F":"`
			tail = `",` + tprop + `}`
		default:
			// Long properties and the address before the time.
			head = `{"QH":"` + strings.Repeat("h", zzC20LongPre[order]) + `.example.org","QT":"A","QC":"IN",` +
				ip + `,` + tprop + `,` + idx + `,"F":"`
			tail = `"}`
		}
	}

	pad := ln - len(head) - len(tail)
	if pad < 0 {
		panic(fmt.Sprintf("zzC20: line %d (layout %d) cannot be rendered in %d bytes (needs %d)", g, lay, ln, len(head)+len(tail)))
	}

	b = make([]byte, 0, ln+1)
	b = append(b, head...)
	b = append(b, bytes.Repeat([]byte{byte('a' + g%26)}, pad)...)
	b = append(b, tail...)
	b = append(b, '\n')

	return b
}

func zzC20Build(dir string, c *zzC20Case) (bl *zzC20Built, err error) {
	bl = &zzC20Built{}
	g := 0
	for fi, fp := range c.Files {
		name := filepath.Join(dir, fmt.Sprintf("c20_%d.json", c.ID))
		// Oldest first: the rotated file carries the suffix, as in
		// setQLogReader.
		if c.Level == "reader" && len(c.Files) == 2 && fi == 0 {
			name += ".1"
		}

		var buf bytes.Buffer
		ends := make([]int64, 0, len(fp.TS))
		bl.off = append(bl.off, g)
		for i := range fp.TS {
			g++
			lay := -1
			if i < len(fp.Lay) {
				lay = fp.Lay[i]
			}

			buf.Write(zzC20Line(g, c.TSMap[fp.TS[i]], fp.Len[i], lay))
			ends = append(ends, int64(buf.Len()-1))
		}

		err = os.WriteFile(name, buf.Bytes(), 0o644)
		if err != nil {
			return nil, err
		}

		bl.paths = append(bl.paths, name)
		bl.data = append(bl.data, buf.Bytes())
		bl.ends = append(bl.ends, ends)
	}
	bl.n = g

	return bl, nil
}

func (bl *zzC20Built) remove() {
	for _, p := range bl.paths {
		_ = os.Remove(p)
	}
}

// identify returns the global index of the stored line equal to s, or -1 if s
// is not exactly one stored line.
func (bl *zzC20Built) identify(s string) (g int) {
	const key = `,"I":`
	i := strings.Index(s, key)
	if i < 0 {
		return -1
	}

	j := i + len(key)
	k := j
	for k < len(s) && s[k] >= '0' && s[k] <= '9' {
		k++
	}

	g, err := strconv.Atoi(s[j:k])
	if err != nil || g < 1 || g > bl.n {
		return -1
	}

	f := len(bl.off) - 1
	for f > 0 && bl.off[f] >= g {
		f--
	}

	li := g - bl.off[f] - 1
	if li < 0 || li >= len(bl.ends[f]) {
		return -1
	}

	start := int64(0)
	if li > 0 {
		start = bl.ends[f][li-1] + 1
	}

	if string(bl.data[f][start:bl.ends[f][li]]) != s {
		return -1
	}

	return g
}

// cursor is the abstraction function: the number of lines still to be
// returned by a reader whose current file is cf (0-based, -1 = none left) at
// byte position pos; -3 if pos is neither 0 nor the newline of a line.
func (bl *zzC20Built) cursor(cf int, pos int64) (cur int) {
	if cf < 0 {
		return 0
	}

	if pos == 0 {
		return bl.off[cf]
	}

	e := bl.ends[cf]
	i := sort.Search(len(e), func(i int) bool { return e[i] >= pos })
	if i == len(e) || e[i] != pos {
		return -3
	}

	return bl.off[cf] + i + 1
}

// zzC20Drv drives either level through one interface.
type zzC20Drv struct {
	qf    *qLogFile
	rd    *qLogReader
	level string
}

func zzC20Open(c *zzC20Case, bl *zzC20Built) (d *zzC20Drv, err error) {
	d = &zzC20Drv{level: c.Level}
	if c.Level == "file" {
		d.qf, err = newQLogFile(bl.paths[0])
	} else {
		d.rd, err = newQLogReader(context.Background(), slogutil.NewDiscardLogger(), bl.paths)
	}

	return d, err
}

func (d *zzC20Drv) close() {
	if d.qf != nil {
		_ = d.qf.Close()
	}

	if d.rd != nil {
		_ = d.rd.Close()
	}
}

func zzC20SeekClass(err error) (res, detail string) {
	switch {
	case err == nil:
		return "ok", ""
	case errors.Is(err, errTSTooEarly):
		return "tooEarly", ""
	case errors.Is(err, errTSTooLate):
		return "tooLate", ""
	case errors.Is(err, errTSNotFound):
		return "notFound", ""
	case errors.Is(err, io.EOF):
		return "ioerr", err.Error()
	default:
		return "other", err.Error()
	}
}

func (d *zzC20Drv) start() (res, detail string) {
	var err error
	if d.qf != nil {
		_, err = d.qf.SeekStart()
	} else {
		err = d.rd.SeekStart()
	}

	if err != nil {
		return "other", err.Error()
	}

	return "ok", ""
}

func (d *zzC20Drv) seek(ns int64) (res, detail string, depth int) {
	var err error
	if d.qf != nil {
		_, depth, err = d.qf.seekTS(context.Background(), slogutil.NewDiscardLogger(), ns)
	} else {
		depth = -1
		err = d.rd.seekTS(context.Background(), ns)
	}

	res, detail = zzC20SeekClass(err)

	return res, detail, depth
}

func (d *zzC20Drv) read() (line, res, detail string) {
	var err error
	if d.qf != nil {
		line, err = d.qf.ReadNext()
	} else {
		line, err = d.rd.ReadNext()
	}

	switch {
	case err == nil:
		return line, "ok", ""
	case errors.Is(err, io.EOF):
		return "", "eof", ""
	default:
		return "", "other", err.Error()
	}
}

// proj reads the state the specifications talk about: the current file
// (0-based; -1 when the reader has run past the oldest file), its position,
// bufferStart and whether the buffer is nil.
func (d *zzC20Drv) proj() (cf int, pos, bs int64, bufNil bool) {
	q := d.qf
	if d.rd != nil {
		cf = d.rd.currentFile
		if cf < 0 || cf >= len(d.rd.qFiles) {
			return -1, 0, 0, true
		}

		q = d.rd.qFiles[cf]
	}

	return cf, q.position, q.bufferStart, q.buffer == nil
}

// zzC20Rec is one log record.
type zzC20Rec map[string]any

// zzC20Run executes one case, appending records through emit.  callStart is
// set to the start time (ns) of the call in progress and to 0 between calls;
// the watchdog in the caller reads it.
type zzC20Run struct {
	emit      func(zzC20Rec)
	c         *zzC20Case
	bl        *zzC20Built
	d         *zzC20Drv
	callStart *atomic.Int64
	// inflight describes the call in progress, for the hang report.
	inflight atomic.Value
	// kept holds every line exactly as ReadNext returned it (the string
	// value, no copy) until the end of the case; keptAt is the line it was
	// recognised as at that moment.  The statement is about the SEQUENCE of
	// values returned: what the records finally say is what these values are
	// at the end of the behaviour, after all later reads and seeks on the
	// same object (see finish).
	kept   []string
	keptAt []int
	// fin are the finalisers that fill the line indices into the records.
	fin    []func()
	calls  int
	seeked bool
}

// keep retains a returned line and reports what it is right now.
func (r *zzC20Run) keep(line string) (slot, g int) {
	g = r.bl.identify(line)
	r.kept = append(r.kept, line)
	r.keptAt = append(r.keptAt, g)

	return len(r.kept) - 1, g
}

// final reports what the retained value in slot is at the end of the case.
func (r *zzC20Run) final(slot int) (g int, note string) {
	g = r.bl.identify(r.kept[slot])
	if g != r.keptAt[slot] {
		note = fmt.Sprintf("a returned value changed after it was returned: was line %d, is now %d (len=%d head=%.40q)",
			r.keptAt[slot], g, len(r.kept[slot]), r.kept[slot])
		g = -1
	} else if g < 0 {
		note = fmt.Sprintf("not a stored line: len=%d head=%.60q", len(r.kept[slot]), r.kept[slot])
	}

	return g, note
}

// finish runs the finalisers.  It is called once, by the goroutine that
// writes the records out, after the case has ended (or hung).
func (r *zzC20Run) finish() {
	for _, f := range r.fin {
		f()
	}

	r.fin, r.kept, r.keptAt = nil, nil, nil
}

func (r *zzC20Run) guard(what string, f func()) {
	r.calls++
	r.inflight.Store(what)
	r.callStart.Store(time.Now().UnixNano())
	defer r.callStart.Store(0)

	f()
}

func (r *zzC20Run) cur() (cur int) {
	if !r.seeked {
		return -1
	}

	cf, pos, _, _ := r.d.proj()

	return r.bl.cursor(cf, pos)
}

func (r *zzC20Run) ns(t int64) (ns int64) { return r.c.TSMap[t] }

// edge performs one abstract action and logs the observed edge.
func (r *zzC20Run) edge(act string, arg int64) (res string) {
	src := r.cur()
	rec := zzC20Rec{"k": "edge", "id": r.c.ID, "src": src, "act": act, "arg": arg, "line": 0}

	var detail string
	switch act {
	case "start":
		r.guard("SeekStart", func() { res, detail = r.d.start() })
		r.seeked = r.seeked || res == "ok"
	case "seek":
		r.guard(fmt.Sprintf("seekTS(abstract %d)", arg), func() { res, detail, _ = r.d.seek(r.ns(arg)) })
		// Only a seek that succeeds positions the object; one that reports
		// an error must leave it as it was (never positioned included).
		r.seeked = r.seeked || res == "ok"
	case "read":
		var line string
		r.guard("ReadNext", func() { line, res, detail = r.d.read() })
		if res == "ok" {
			slot, _ := r.keep(line)
			r.fin = append(r.fin, func() {
				g, note := r.final(slot)
				if g < 0 {
					rec["res"], rec["detail"] = "fragment", note
				} else {
					rec["line"] = g
				}
			})
		}
	}

	rec["res"] = res
	rec["dst"] = r.cur()
	if detail != "" {
		rec["detail"] = detail
	}

	r.emit(rec)

	return res
}

// reopen replaces the object under test by a fresh one (state "never
// positioned").
func (r *zzC20Run) reopen() (err error) {
	r.d.close()
	r.d, err = zzC20Open(r.c, r.bl)
	r.seeked = false

	return err
}

// goTo brings the real object into abstract state src using calls that are
// themselves logged (and therefore checked) as edges.  It reports whether the
// state was reached.
func (r *zzC20Run) goTo(src int, rng *rand.Rand) (ok bool) {
	if r.cur() == src {
		return true
	}

	if src == -1 {
		return r.reopen() == nil
	}

	n := r.bl.n
	if src >= 1 && src < n && rng.Intn(3) > 0 {
		// Line g carries abstract timestamp 2g in walk mode.
		r.edge("seek", int64(2*src))
	}

	// Whatever the seek did (it may legitimately or illegitimately have
	// failed), SeekStart and reads lead to every state.
	if c := r.cur(); c < src {
		r.edge("start", 0)
	}

	for i := 0; i <= n && r.cur() > src; i++ {
		r.edge("read", 0)
	}

	return r.cur() == src
}

// walk covers every (state, action, argument) of the abstract reader.
func (r *zzC20Run) walk() {
	rng := rand.New(rand.NewSource(r.c.Seed))
	n := r.bl.n

	type step struct {
		act string
		arg int64
		src int
	}

	var steps []step
	for src := -1; src <= n; src++ {
		steps = append(steps, step{src: src, act: "start"})
		if src >= 0 {
			steps = append(steps, step{src: src, act: "read"})
		}

		for t := 1; t <= 2*n+1; t++ {
			steps = append(steps, step{src: src, act: "seek", arg: int64(t)})
		}
	}

	rng.Shuffle(len(steps), func(i, j int) { steps[i], steps[j] = steps[j], steps[i] })
	// Keep steps from the same state together most of the time, so that the
	// tour continues from the real object's current state.
	sort.SliceStable(steps, func(i, j int) bool { return steps[i].src < steps[j].src })

	for _, s := range steps {
		if !r.goTo(s.src, rng) {
			r.emit(zzC20Rec{"k": "unreached", "id": r.c.ID, "src": s.src, "act": s.act, "arg": s.arg, "at": r.cur()})

			continue
		}

		r.emit(zzC20Rec{"k": "cover", "id": r.c.ID, "src": s.src, "act": s.act, "arg": s.arg})
		res := r.edge(s.act, s.arg)
		if s.act == "seek" && res != "ok" && s.src >= 0 {
			// read -> failed seek -> read: what the next read returns after
			// a seek that reported an error is observed directly, not only
			// through the projected cursor.
			r.edge("read", 0)
		}
	}
}

// ops executes the scripted operations of mode "ops".
func (r *zzC20Run) ops() {
	for oi, op := range r.c.Ops {
		rec := zzC20Rec{"k": "op", "id": r.c.ID, "oi": oi}
		switch op[0] {
		case 0:
			var res, detail string
			r.guard("SeekStart", func() { res, detail = r.d.start() })
			r.seeked = r.seeked || res == "ok"
			rec["op"], rec["res"] = "start", res
			if detail != "" {
				rec["detail"] = detail
			}
		case 1:
			var res, detail string
			var depth int
			r.guard(fmt.Sprintf("seekTS(abstract %d)", op[1]), func() { res, detail, depth = r.d.seek(r.ns(op[1])) })
			r.seeked = r.seeked || res == "ok"
			rec["op"], rec["t"], rec["res"], rec["depth"] = "seek", op[1], res, depth
			if detail != "" {
				rec["detail"] = detail
			}
		case 2:
			r.reads(rec, int(op[1]), op[2] == 1)
		}

		cf, pos, bs, bn := r.d.proj()
		rec["cf"], rec["pos"], rec["bs"], rec["bn"], rec["cur"] = cf+1, pos, bs, bn, r.cur()
		r.emit(rec)
	}
}

// reads performs up to k ReadNext calls (k < 0: until eof was reported once).
func (r *zzC20Run) reads(rec zzC20Rec, k int, detail bool) {
	// Per call: the slot of the retained line (-1: io.EOF, -2: read error).
	slots := []int{}
	poss, bss, cfs := []int64{}, []int64{}, []int{}
	eof := false
	bad := ""
	n := 0
	for k < 0 || n < k {
		var line, res, dt string
		r.guard("ReadNext", func() { line, res, dt = r.d.read() })
		n++
		switch res {
		case "ok":
			slot, g := r.keep(line)
			slots = append(slots, slot)
			if g < 0 {
				// Garbage already now: no point in reading on.
				bad = fmt.Sprintf("fragment at read %d", n)
			}
		case "eof":
			eof = true
			slots = append(slots, -1)
		default:
			slots = append(slots, -2)
			bad = "read error: " + dt
		}

		if detail {
			cf, pos, bs, _ := r.d.proj()
			poss, bss, cfs = append(poss, pos), append(bss, bs), append(cfs, cf+1)
		}

		if eof || bad != "" {
			break
		}
	}

	rec["op"], rec["n"], rec["eof"] = "reads", n, eof
	if detail {
		rec["ps"], rec["bss"], rec["cfs"] = poss, bss, cfs
	}

	if bad != "" {
		rec["detail"] = bad
	}

	// The indices of the returned lines are filled in at the end of the case,
	// from the retained values.
	r.fin = append(r.fin, func() {
		idx := []int{}
		runs := [][2]int{}
		for _, slot := range slots {
			g := 0
			switch {
			case slot == -2:
				g = -2
			case slot >= 0:
				var note string
				g, note = r.final(slot)
				if note != "" {
					if _, ok := rec["detail"]; !ok {
						rec["detail"] = note
					}
				}
			}

			if detail {
				idx = append(idx, g)
			} else if slot != -1 {
				if l := len(runs); l > 0 && g > 0 && runs[l-1][1] == g+1 {
					runs[l-1][1] = g
				} else {
					runs = append(runs, [2]int{g, g})
				}
			}
		}

		if detail {
			rec["idx"] = idx
		} else {
			rec["runs"] = runs
		}
	})
}

// TestZZVerifC20Run executes the cases of VERIF_IN and logs to VERIF_OUT.
func TestZZVerifC20Run(t *testing.T) {
	dir := zzGetenv("VERIF_DIR")
	if dir == "" {
		t.Skip("no VERIF_DIR")
	}

	wd := 10 * time.Second
	if ms, err := strconv.Atoi(zzGetenv("VERIF_WD_MS")); err == nil && ms > 0 {
		wd = time.Duration(ms) * time.Millisecond
	}

	w := zzNewWriter(t, "VERIF_OUT")
	defer w.close()

	var cases, calls, hangs int
	zzReadNDJSON(t, "VERIF_IN", func(b []byte) {
		c := &zzC20Case{}
		if err := json.Unmarshal(b, c); err != nil {
			t.Fatalf("bad case: %v", err)
		}

		cases++
		if hangs >= 3 {
			// Stuck goroutines keep spinning; what has been seen is enough
			// for the orchestrator to re-run those cases alone.
			w.put(zzC20Rec{"k": "skipped", "id": c.ID})

			return
		}

		bl, err := zzC20Build(dir, c)
		if err != nil {
			t.Fatalf("building case %d: %v", c.ID, err)
		}
		defer bl.remove()

		d, err := zzC20Open(c, bl)
		if err != nil {
			t.Fatalf("opening case %d: %v", c.ID, err)
		}

		var mu sync.Mutex
		var recs []zzC20Rec
		callStart := &atomic.Int64{}
		run := &zzC20Run{c: c, bl: bl, d: d, callStart: callStart, emit: func(r zzC20Rec) {
			mu.Lock()
			defer mu.Unlock()

			recs = append(recs, r)
		}}

		done := make(chan string, 1)
		go func() {
			defer func() {
				if p := recover(); p != nil {
					done <- fmt.Sprint(p)
				}
			}()

			if c.Mode == "walk" {
				run.walk()
			} else {
				run.ops()
			}

			done <- ""
		}()

		tick := time.NewTicker(wd / 8)
		defer tick.Stop()

		status := ""
	wait:
		for {
			select {
			case p := <-done:
				if p != "" {
					status = "panic: " + p
				}

				break wait
			case <-tick.C:
				if s := callStart.Load(); s != 0 && time.Now().UnixNano()-s > int64(wd) {
					status = "hang"
					hangs++

					break wait
				}
			}
		}

		// The retained lines are looked at now, at the end of the behaviour.
		run.finish()

		mu.Lock()
		for _, r := range recs {
			w.put(r)
		}
		nrec := len(recs)
		mu.Unlock()

		calls += run.calls
		if status == "hang" {
			// The goroutine is stuck inside the code under test and holds
			// its lock: the objects are abandoned, not closed.
			what, _ := run.inflight.Load().(string)
			w.put(zzC20Rec{"k": "hang", "id": c.ID, "after_records": nrec, "wd_ms": wd.Milliseconds(), "call": what})
		} else {
			run.d.close()
			if status != "" {
				w.put(zzC20Rec{"k": "panic", "id": c.ID, "after_records": nrec, "detail": status})
			}
		}

		w.put(zzC20Rec{"k": "done", "id": c.ID, "calls": run.calls, "status": status})
	})

	w.put(zzC20Rec{"k": "summary", "cases": cases, "calls": calls, "hangs": hangs})
}
