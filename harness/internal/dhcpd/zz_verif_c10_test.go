//go:build darwin || freebsd || linux || openbsd

package dhcpd

// C10 conformance harness.
//
// Direction A: the state graph of specs/Dhcp4.tla (one line per reachable
// spec state with the admissible outcomes of every action instance, emitted by
// TLC) is loaded, the real server (Create + real packet path + HTTP handlers
// for static leases + real leases.json) is walked through every abstract state
// it can reach, every action instance of the alphabet is tried in every such
// state, and after every step the projected real state (lease list, indexes,
// bitset, GetLeases, DNS answers, leases.json) and the reply are looked up in
// the spec's outcome set.
//
// Direction B: long seeded random histories over a larger universe are
// recorded as NDJSON for specs/TraceDhcp4.tla.
//
// Lease expiry is simulated by setting the Expiry field of the lease in memory
// to a past instant and storing the database (the only write to unexported
// state; everything else is driven through packetHandler, the HTTP handlers
// and Create).

import (
	"bytes"
	"encoding/json"
	"fmt"
	"math/rand"
	"net"
	"net/http"
	"net/http/httptest"
	"net/netip"
	"os"
	"path/filepath"
	"sort"
	"strconv"
	"strings"
	"sync"
	"sync/atomic"
	"testing"
	"time"

	"github.com/AdguardTeam/AdGuardHome/internal/aghnet"
	"github.com/AdguardTeam/AdGuardHome/internal/dhcpsvc"
	"github.com/insomniacslk/dhcp/dhcpv4"
)

// ---------------------------------------------------------------- universe

// zzC10Univ is the finite universe of a run and its concretisation.
type zzC10Univ struct {
	Macs      []string `json:"macs"`
	Pool      []int    `json:"pool"`
	Outs      []int    `json:"outs"`
	GW        int      `json:"gw"`
	Far       int      `json:"far"`
	ReqHosts  []string `json:"reqhosts"`
	StatHosts []string `json:"stathosts"`
	// BadHosts are the request names that are to be concretised as host names
	// the server cannot use.
	BadHosts []string `json:"badhosts"`
	// LeaseT is the configured lease time in clock ticks of zzC10Tick.
	LeaseT int `json:"leaset"`

	seed    int64
	ipOf    map[int]netip.Addr
	absIP   map[netip.Addr]int
	macOf   map[string]net.HardwareAddr
	absMAC  map[string]string
	hostOf  map[string]string
	genOf   map[string]int
	absHost map[string]string
}

var (
	zzC10GWAddr   = netip.MustParseAddr("192.168.10.1")
	zzC10SelfAddr = netip.MustParseAddr("192.168.10.2")
	zzC10FarAddr  = netip.MustParseAddr("10.77.0.9")
	zzC10Mask     = netip.MustParseAddr("255.255.255.0")
)

const zzC10PoolBase = 100

// zzC10Tick is the real duration of one clock tick of the specification.  It
// is far longer than the life of any server under test (seconds), so the wall
// time that passes while the harness runs never moves a lease to another tick.
const zzC10Tick = 10 * time.Minute

func (u *zzC10Univ) init(seed int64) {
	u.seed = seed
	sort.Ints(u.Pool)
	sort.Ints(u.Outs)
	u.ipOf = map[int]netip.Addr{u.GW: zzC10GWAddr, u.Far: zzC10FarAddr}
	for i, p := range u.Pool {
		u.ipOf[p] = netip.AddrFrom4([4]byte{192, 168, 10, byte(zzC10PoolBase + i)})
	}
	for j, o := range u.Outs {
		// Below and above the range alternately.
		b := byte(40 + j)
		if j%2 == 1 {
			b = byte(zzC10PoolBase + len(u.Pool) + 10 + j)
		}
		u.ipOf[o] = netip.AddrFrom4([4]byte{192, 168, 10, b})
	}
	u.absIP = map[netip.Addr]int{}
	for a, ip := range u.ipOf {
		u.absIP[ip] = a
	}
	u.macOf = map[string]net.HardwareAddr{}
	u.absMAC = map[string]string{}
	for i, m := range u.Macs {
		hw := net.HardwareAddr{0x02, byte(seed % 251), 0x5e, 0x10, byte(i / 200), byte(i%200 + 1)}
		if (int64(i)+seed)%3 == 1 {
			// "Any set of hardware addresses": every third client has an
			// EUI-64 address (hlen 8), the others Ethernet ones (hlen 6).
			hw = net.HardwareAddr{0x02, byte(seed % 251), 0x5e, 0xff, 0xfe, 0x10, byte(i / 200), byte(i%200 + 1)}
		}
		u.macOf[m] = hw
		u.absMAC[hw.String()] = m
	}
	u.hostOf = map[string]string{"": ""}
	u.absHost = map[string]string{"": ""}
	names := map[string]bool{}
	for _, h := range append(append([]string{}, u.ReqHosts...), u.StatHosts...) {
		names[h] = true
	}
	bad := map[string]bool{}
	for _, h := range u.BadHosts {
		bad[h] = true
	}
	// Names no server can use: FQDN with the trailing dot, empty label, label
	// of 64 octets.
	unusable := []string{"workstation.example.org.", "work..station", strings.Repeat("a", 64)}
	for h := range names {
		switch {
		case h == "":
			continue
		case bad[h]:
			u.hostOf[h] = unusable[int(seed%3+3)%3]

			continue
		case len(h) > 1 && h[0] == 'g':
			// A client that calls itself like the name the server derives
			// from an address ("g<address>" in the specification).
			if a, err := strconv.Atoi(h[1:]); err == nil {
				if ip, ok := u.ipOf[a]; ok {
					u.hostOf[h] = aghnet.GenerateHostname(ip)

					continue
				}
			}
		}
		c := fmt.Sprintf("%s-cli%d", h, seed%89)
		u.hostOf[h] = c
		u.absHost[c] = h
	}
	u.genOf = map[string]int{}
	for a, ip := range u.ipOf {
		g := aghnet.GenerateHostname(ip)
		u.absHost[g] = "g" + strconv.Itoa(a)
		u.genOf[g] = a
	}
}

func (u *zzC10Univ) aIP(ip netip.Addr) (a int) {
	if a, ok := u.absIP[ip]; ok {
		return a
	}

	return -1
}

func (u *zzC10Univ) aMAC(hw net.HardwareAddr) (m string) {
	if m, ok := u.absMAC[hw.String()]; ok {
		return m
	}
	if hw.String() == "00:00:00:00:00:00" {
		// The hardware address of nobody: what an address conflict leaves.
		return "blk"
	}

	return "?" + hw.String()
}

func (u *zzC10Univ) aHost(h string) (a string) {
	if a, ok := u.absHost[h]; ok {
		return a
	}
	// Another name derived from an address: the derived name with a numeric
	// suffix ("u<address>" in the specification).
	if i := strings.LastIndexByte(h, '-'); i > 0 {
		if _, err := strconv.Atoi(h[i+1:]); err == nil {
			if ad, ok := u.genOf[h[:i]]; ok {
				return "u" + strconv.Itoa(ad)
			}
		}
	}

	return "?" + h
}

// zzC10Act is one action instance of the alphabet.
type zzC10Act struct {
	Name string `json:"act"`
	M    string `json:"m"`
	Kind string `json:"kind"`
	A    int    `json:"a"`
	H    string `json:"h"`
	// V selects among equivalent packet spellings (seeded).
	V int `json:"v"`
}

func (a zzC10Act) key() (k string) {
	return a.Name + "|" + a.M + "|" + a.Kind + "|" + strconv.Itoa(a.A) + "|" + a.H
}

var zzC10Kinds = []string{"selecting", "initreboot", "renew"}

// alphabet lists every action instance of the universe.
func (u *zzC10Univ) alphabet() (acts []zzC10Act) {
	reqAddrs := append(append([]int{}, u.Pool...), u.Outs...)
	statAddrs := append(append([]int{}, reqAddrs...), u.GW, u.Far)
	for _, m := range u.Macs {
		acts = append(acts, zzC10Act{Name: "Discover", M: m})
		for _, k := range zzC10Kinds {
			for _, a := range reqAddrs {
				for _, h := range u.ReqHosts {
					acts = append(acts, zzC10Act{Name: "Request", M: m, Kind: k, A: a, H: h})
				}
			}
		}
		for _, a := range reqAddrs {
			acts = append(acts,
				zzC10Act{Name: "Decline", M: m, A: a},
				zzC10Act{Name: "Release", M: m, A: a},
				zzC10Act{Name: "RemoveStatic", M: m, A: a})
		}
		for _, a := range statAddrs {
			for _, h := range u.StatHosts {
				acts = append(acts,
					zzC10Act{Name: "AddStatic", M: m, A: a, H: h},
					zzC10Act{Name: "UpdateStatic", M: m, A: a, H: h})
			}
		}
	}
	for _, a := range u.Pool {
		acts = append(acts, zzC10Act{Name: "Expire", A: a}, zzC10Act{Name: "BlockEnd", A: a})
	}
	acts = append(acts, zzC10Act{Name: "Tick"}, zzC10Act{Name: "Restart"})

	return acts
}

// ------------------------------------------------------------ observations

// zzC10L is an abstract lease: mac, address, remaining ticks of the
// acknowledged life (0 = offered or expired, -1 = static), host.
type zzC10L struct {
	Mac  string
	IP   int
	F    int
	Host string
}

func (l zzC10L) MarshalJSON() (b []byte, err error) {
	return json.Marshal([]any{l.Mac, l.IP, l.F, l.Host})
}

func (l *zzC10L) UnmarshalJSON(b []byte) (err error) {
	var raw []any
	if err = json.Unmarshal(b, &raw); err != nil {
		return err
	}
	if len(raw) != 4 {
		return fmt.Errorf("bad lease %s", b)
	}
	l.Mac, _ = raw[0].(string)
	ip, _ := raw[1].(float64)
	f, _ := raw[2].(float64)
	l.IP, l.F = int(ip), int(f)
	l.Host, _ = raw[3].(string)

	return nil
}

func (l zzC10L) String() (s string) {
	return l.Mac + "/" + strconv.Itoa(l.IP) + "/" + strconv.Itoa(l.F) + "/" + l.Host
}

func zzC10Key(ls []zzC10L) (k string) {
	parts := make([]string, len(ls))
	for i, l := range ls {
		parts[i] = l.String()
	}
	sort.Strings(parts)

	return strings.Join(parts, ",")
}

// zzC10Reply is the abstract reply: offer/ack/nak/none/other for packets,
// ok/err for the static-lease API, "-" for Expire and Restart.
type zzC10Reply struct {
	K  string `json:"k"`
	IP int    `json:"ip"`
	// T is the lease time a DHCPACK announces, in ticks.
	T int `json:"t"`
}

// zzC10Obs is the projection of the real server after a step.
type zzC10Obs struct {
	// Ls is the lease list in the order of the server's slice.
	Ls []zzC10L `json:"ls"`
	// Disk is the content of leases.json.
	Disk []zzC10L `json:"disk"`
	// Prob lists disagreements between the structures (empty = all agree).
	Prob []string `json:"prob"`
	// Note is not compared: facts hidden from the abstraction that help to
	// tell causes apart when a disagreement is classified ("pastexpiry:<a>" =
	// the nameless dynamic entry on a has a past, non-zero expiry).
	Note []string `json:"note"`
	key  string
	ord  string
}

// ------------------------------------------------------------- real system

type zzC10Conn struct {
	net.PacketConn
	out [][]byte
}

func (c *zzC10Conn) WriteTo(p []byte, _ net.Addr) (n int, err error) {
	c.out = append(c.out, bytes.Clone(p))

	return len(p), nil
}

// zzC10Sys is one real DHCP server on its own data directory.
type zzC10Sys struct {
	u    *zzC10Univ
	base string
	dir  string
	srv  *server
	s4   *v4Server
	n    int
}

func zzC10NewSys(u *zzC10Univ, base string) (y *zzC10Sys, err error) {
	y = &zzC10Sys{u: u, base: base}
	err = y.reset()

	return y, err
}

// reset starts from an empty data directory.
func (y *zzC10Sys) reset() (err error) {
	y.close()
	y.dir, err = os.MkdirTemp(y.base, "c10-")
	if err != nil {
		return err
	}

	return y.start()
}

func (y *zzC10Sys) close() {
	if y.dir != "" {
		_ = os.RemoveAll(y.dir)
		y.dir = ""
	}
}

// start creates the server the way home does: Create loads leases.json.
func (y *zzC10Sys) start() (err error) {
	u := y.u
	conf := &ServerConfig{
		ConfigModified: func() {},
		Enabled:        true,
		InterfaceName:  "zzverif0",
		WorkDir:        y.dir,
		DataDir:        y.dir,
		Conf4: V4ServerConf{
			GatewayIP:     zzC10GWAddr,
			SubnetMask:    zzC10Mask,
			RangeStart:    u.ipOf[u.Pool[0]],
			RangeEnd:      u.ipOf[u.Pool[len(u.Pool)-1]],
			LeaseDuration: uint32(time.Duration(u.LeaseT) * zzC10Tick / time.Second),
		},
	}
	s, err := Create(conf)
	if err != nil {
		return fmt.Errorf("create: %w", err)
	}
	s4, ok := s.srv4.(*v4Server)
	if !ok || s4.conf == nil {
		return fmt.Errorf("no v4 server")
	}
	// Normally set by Start from the interface addresses.
	s4.conf.dnsIPAddrs = []netip.Addr{zzC10SelfAddr}
	y.srv, y.s4 = s, s4

	return nil
}

func (y *zzC10Sys) packet(req *dhcpv4.DHCPv4) (r zzC10Reply, err error) {
	// Through the wire format, as server4 would deliver it.
	parsed, err := dhcpv4.FromBytes(req.ToBytes())
	if err != nil {
		return r, fmt.Errorf("request does not parse: %w", err)
	}
	conn := &zzC10Conn{}
	peer := &net.UDPAddr{IP: net.IPv4bcast, Port: dhcpv4.ClientPort}
	y.s4.packetHandler(conn, peer, parsed)
	if len(conn.out) == 0 {
		return zzC10Reply{K: "none"}, nil
	} else if len(conn.out) > 1 {
		return r, fmt.Errorf("%d replies", len(conn.out))
	}
	resp, err := dhcpv4.FromBytes(conn.out[0])
	if err != nil {
		return r, fmt.Errorf("reply does not parse: %w", err)
	}
	switch resp.MessageType() {
	case dhcpv4.MessageTypeOffer:
		r.K = "offer"
	case dhcpv4.MessageTypeAck:
		r.K = "ack"
	case dhcpv4.MessageTypeNak:
		r.K = "nak"
	default:
		r.K = "other"
	}
	if yi := resp.YourIPAddr; yi != nil && !yi.IsUnspecified() {
		ip, _ := netip.AddrFromSlice(yi.To4())
		r.IP = y.u.aIP(ip)
	}
	if r.K == "ack" && parsed.MessageType() == dhcpv4.MessageTypeRequest {
		// What the client now believes: usable for this long.
		r.T = zzC10Ticks(resp.IPAddressLeaseTime(0))
	}

	return r, nil
}

func (y *zzC10Sys) static(path string, a zzC10Act) (r zzC10Reply, err error) {
	host := y.u.hostOf[a.H]
	body, _ := json.Marshal(map[string]string{
		"mac":      y.u.macOf[a.M].String(),
		"ip":       y.u.ipOf[a.A].String(),
		"hostname": host,
	})
	req := httptest.NewRequest(http.MethodPost, "/control/dhcp/"+path, bytes.NewReader(body))
	w := httptest.NewRecorder()
	switch path {
	case "add_static_lease":
		y.srv.handleDHCPAddStaticLease(w, req)
	case "update_static_lease":
		y.srv.handleDHCPUpdateStaticLease(w, req)
	default:
		y.srv.handleDHCPRemoveStaticLease(w, req)
	}
	if w.Code == http.StatusOK {
		return zzC10Reply{K: "ok"}, nil
	}

	return zzC10Reply{K: "err"}, nil
}

// exec performs one action on the real server.
func (y *zzC10Sys) exec(a zzC10Act) (r zzC10Reply, err error) {
	u := y.u
	y.n++
	ip := net.IP(nil)
	if addr, ok := u.ipOf[a.A]; ok {
		ip = net.IP(addr.AsSlice())
	}
	mac := u.macOf[a.M]
	mods := []dhcpv4.Modifier{dhcpv4.WithHwAddr(mac)}
	if a.V&1 == 1 {
		mods = append(mods, dhcpv4.WithBroadcast(true))
	}
	switch a.Name {
	case "Discover":
		if a.V&2 == 2 {
			// Any requested address; the spec leaves the choice to the server.
			want := u.ipOf[u.Pool[(a.V>>2)%len(u.Pool)]]
			mods = append(mods, dhcpv4.WithOption(dhcpv4.OptRequestedIPAddress(net.IP(want.AsSlice()))))
		}
		if a.V&4 == 4 {
			mods = append(mods, dhcpv4.WithOption(dhcpv4.OptHostName("zz-any-name")))
		}
		req, rerr := dhcpv4.NewDiscovery(mac, mods...)
		if rerr != nil {
			return r, rerr
		}

		return y.packet(req)
	case "Request":
		mods = append(mods, dhcpv4.WithMessageType(dhcpv4.MessageTypeRequest))
		switch a.Kind {
		case "selecting":
			mods = append(mods,
				dhcpv4.WithOption(dhcpv4.OptServerIdentifier(net.IP(zzC10SelfAddr.AsSlice()))),
				dhcpv4.WithOption(dhcpv4.OptRequestedIPAddress(ip)))
		case "initreboot":
			mods = append(mods, dhcpv4.WithOption(dhcpv4.OptRequestedIPAddress(ip)))
		default:
			mods = append(mods, dhcpv4.WithClientIP(ip))
		}
		if a.H != "" {
			mods = append(mods, dhcpv4.WithOption(dhcpv4.OptHostName(u.hostOf[a.H])))
		}
		if a.V&2 == 2 {
			mods = append(mods, dhcpv4.WithRequestedOptions(dhcpv4.OptionHostName, dhcpv4.OptionRouter))
		}
		req, rerr := dhcpv4.New(mods...)
		if rerr != nil {
			return r, rerr
		}

		return y.packet(req)
	case "Decline", "Release":
		mt := dhcpv4.MessageTypeDecline
		if a.Name == "Release" {
			mt = dhcpv4.MessageTypeRelease
		}
		mods = append(mods, dhcpv4.WithMessageType(mt),
			dhcpv4.WithOption(dhcpv4.OptServerIdentifier(net.IP(zzC10SelfAddr.AsSlice()))))
		// RFC 2131: DECLINE names the address in the requested-address
		// option, RELEASE in ciaddr; the server accepts both spellings.
		inOpt := a.Name == "Decline"
		if a.V&2 == 2 {
			inOpt = !inOpt
		}
		if inOpt {
			mods = append(mods, dhcpv4.WithOption(dhcpv4.OptRequestedIPAddress(ip)))
		} else {
			mods = append(mods, dhcpv4.WithClientIP(ip))
		}
		req, rerr := dhcpv4.New(mods...)
		if rerr != nil {
			return r, rerr
		}

		return y.packet(req)
	case "AddStatic":
		return y.static("add_static_lease", a)
	case "UpdateStatic":
		return y.static("update_static_lease", a)
	case "RemoveStatic":
		// The UI sends the lease as listed, including its host name.
		host := ""
		y.s4.leasesLock.Lock()
		for _, l := range y.s4.leases {
			if l.IP == u.ipOf[a.A] {
				host = l.Hostname
			}
		}
		y.s4.leasesLock.Unlock()
		body, _ := json.Marshal(map[string]string{
			"mac": mac.String(), "ip": u.ipOf[a.A].String(), "hostname": host,
		})
		req := httptest.NewRequest(http.MethodPost, "/control/dhcp/remove_static_lease", bytes.NewReader(body))
		w := httptest.NewRecorder()
		y.srv.handleDHCPRemoveStaticLease(w, req)
		if w.Code == http.StatusOK {
			return zzC10Reply{K: "ok"}, nil
		}

		return zzC10Reply{K: "err"}, nil
	case "Expire":
		// Time passes for the lease on this address.
		target := u.ipOf[a.A]
		found := false
		y.s4.leasesLock.Lock()
		for _, l := range y.s4.leases {
			if l.IP == target && !l.IsStatic && l.Expiry.After(time.Now()) {
				l.Expiry = time.Now().Add(-time.Hour).Truncate(time.Second)
				found = true
			}
		}
		y.s4.leasesLock.Unlock()
		if !found {
			return r, fmt.Errorf("expire: no acknowledged dynamic lease on %d", a.A)
		}
		y.srv.onNotify(LeaseChangedDBStore)

		return zzC10Reply{K: "-"}, nil
	case "BlockEnd":
		// The aftermath of an address conflict that the harness cannot
		// provoke (it needs an address that answers an ICMP echo): the entry of
		// an address nobody holds becomes what blocklistLease leaves behind,
		// after its time has run out.
		target := u.ipOf[a.A]
		found := false
		y.s4.leasesLock.Lock()
		for _, l := range y.s4.leases {
			if l.IP == target && !l.IsStatic && !l.Expiry.After(time.Now()) {
				if l.Hostname != "" && y.s4.hostsIndex[l.Hostname] == l {
					delete(y.s4.hostsIndex, l.Hostname)
				}
				l.HWAddr = make(net.HardwareAddr, defaultHwAddrLen)
				l.Hostname = ""
				l.Expiry = time.Now().Add(-time.Hour).Truncate(time.Second)
				found = true
			}
		}
		y.s4.leasesLock.Unlock()
		if !found {
			return r, fmt.Errorf("blockend: no entry that nobody holds on %d", a.A)
		}
		y.srv.onNotify(LeaseChangedDBStore)

		return zzC10Reply{K: "-"}, nil
	case "Tick":
		// One tick passes for everybody: the server compares expiry instants
		// with time.Now, so moving the instants of the running leases back by
		// a tick is the same as waiting for a tick.  (Leases that are not
		// running stay as they are: offered ones have the zero instant.)
		found := false
		now := time.Now()
		y.s4.leasesLock.Lock()
		for _, l := range y.s4.leases {
			if !l.IsStatic && l.Expiry.After(now) {
				l.Expiry = l.Expiry.Add(-zzC10Tick)
				found = true
			}
		}
		y.s4.leasesLock.Unlock()
		if !found {
			return r, fmt.Errorf("tick: no running lease")
		}
		y.srv.onNotify(LeaseChangedDBStore)

		return zzC10Reply{K: "-"}, nil
	case "Restart":
		return zzC10Reply{K: "-"}, y.start()
	default:
		return r, fmt.Errorf("unknown action %q", a.Name)
	}
}

func (y *zzC10Sys) absLease(l *dhcpsvc.Lease, now time.Time) (a zzC10L) {
	a = zzC10L{Mac: y.u.aMAC(l.HWAddr), IP: y.u.aIP(l.IP), Host: y.u.aHost(l.Hostname)}
	if l.IsStatic {
		a.F = -1
	} else if l.Expiry.After(now) {
		// Remaining life in ticks; a running lease has at least one.
		a.F = max(zzC10Ticks(l.Expiry.Sub(now)), 1)
	}

	return a
}

// zzC10Ticks rounds a duration to clock ticks.
func zzC10Ticks(d time.Duration) (n int) {
	return int((d + zzC10Tick/2) / zzC10Tick)
}

// abs projects the real server onto the spec's state and checks the mutual
// agreement of the structures.
func (y *zzC10Sys) abs() (o *zzC10Obs) {
	o = &zzC10Obs{Ls: []zzC10L{}, Disk: []zzC10L{}, Prob: []string{}, Note: []string{}}
	u, s4 := y.u, y.s4
	now := time.Now()
	prob := map[string]bool{}

	s4.leasesLock.Lock()
	seen := map[*dhcpsvc.Lease]bool{}
	held := map[string]int{}
	macs := []string{}
	byIP := map[netip.Addr]*dhcpsvc.Lease{}
	for _, l := range s4.leases {
		al := y.absLease(l, now)
		o.Ls = append(o.Ls, al)
		macs = append(macs, al.Mac)
		if seen[l] {
			prob["list:dup"] = true
		}
		if !l.IsStatic && l.Hostname == "" && !l.Expiry.IsZero() && !l.Expiry.After(now) {
			o.Note = append(o.Note, "pastexpiry:"+strconv.Itoa(al.IP))
		}
		seen[l] = true
		if al.F != 0 {
			held[al.String()]++
		}
		if _, ok := byIP[l.IP]; !ok {
			byIP[l.IP] = l
		}
		if s4.ipIndex[l.IP] != l {
			prob["ipindex:miss"] = true
		}
		if l.Hostname != "" && s4.hostsIndex[l.Hostname] != l {
			prob["hostindex:miss"] = true
		}
	}
	for ip, l := range s4.ipIndex {
		if !seen[l] || l.IP != ip {
			prob["ipindex:extra"] = true
		}
	}
	for h, l := range s4.hostsIndex {
		if !seen[l] || l.Hostname != h {
			prob["hostindex:extra"] = true
		}
	}
	n := uint64(len(u.Pool))
	for i := uint64(0); i < n; i++ {
		_, want := byIP[u.ipOf[u.Pool[i]]]
		if got := s4.leasedOffsets.isSet(i); got && !want {
			prob["bitset:+"+strconv.Itoa(int(i))] = true
		} else if !got && want {
			prob["bitset:-"+strconv.Itoa(int(i))] = true
		}
	}
	for w, bits := range s4.leasedOffsets.words {
		for b := uint64(0); b < bitsPerWord; b++ {
			if bits&(1<<b) != 0 && w*bitsPerWord+b >= n {
				prob["bitset:+beyond"] = true
			}
		}
	}
	s4.leasesLock.Unlock()

	// The public answers.
	got := map[string]int{}
	for _, l := range y.srv.Leases() {
		al := y.absLease(l, now)
		got[al.String()]++
		if got[al.String()] > 1 {
			prob["getleases:dup"] = true
		}
	}
	if !zzC10SameCount(got, held) {
		prob["getleases:differs"] = true
	}
	for ip, l := range byIP {
		if y.srv.HostByIP(ip) != l.Hostname {
			prob["dns:hostbyip"] = true
		}
		if l.Hostname != "" && y.srv.IPByHost(l.Hostname) != l.IP {
			prob["dns:ipbyhost"] = true
		}
	}

	// The database.
	mem := map[string]int{}
	for _, al := range o.Ls {
		mem[al.String()]++
	}
	data, err := os.ReadFile(filepath.Join(y.dir, dataFilename))
	if err != nil {
		if len(o.Ls) != 0 {
			prob["disk:missing"] = true
		}
	} else {
		dl := &dataLeases{}
		if err = json.Unmarshal(data, dl); err != nil {
			prob["disk:corrupt"] = true
		}
		disk := map[string]int{}
		for _, d := range dl.Leases {
			l, lerr := d.toLease()
			if lerr != nil {
				prob["disk:corrupt"] = true

				continue
			}
			al := y.absLease(l, now)
			o.Disk = append(o.Disk, al)
			disk[al.String()]++
		}
		if !zzC10SameCount(disk, mem) {
			prob["disk:differs"] = true
		}
	}

	for p := range prob {
		o.Prob = append(o.Prob, p)
	}
	sort.Strings(o.Prob)
	o.key = zzC10Key(o.Ls)
	o.ord = strings.Join(macs, ">")

	return o
}

func zzC10SameCount(a, b map[string]int) (ok bool) {
	if len(a) != len(b) {
		return false
	}
	for k, v := range a {
		if b[k] != v {
			return false
		}
	}

	return true
}

// ------------------------------------------------------------- spec graph

type zzC10Out struct {
	Same bool
	Dst  string
	K    string
	IP   int
	T    int
}

type zzC10Node struct {
	noadd bool
	noupd map[string]bool
	edges map[string][]zzC10Out
}

type zzC10Opts struct {
	Order      bool  `json:"order"`
	Workers    int   `json:"workers"`
	MaxSteps   int64 `json:"maxsteps"`
	DeadlineS  int   `json:"deadline_s"`
	ResetEvery int   `json:"resetevery"`
	MaxRepro   int   `json:"maxrepro"`
	TraceSteps int   `json:"tracesteps"`
	TraceRuns  int   `json:"traceruns"`
}

type zzC10Hdr struct {
	Univ *zzC10Univ `json:"univ"`
	Opts zzC10Opts  `json:"opts"`
}

type zzC10Graph struct {
	u     *zzC10Univ
	acts  []zzC10Act
	nodes map[string]*zzC10Node
	// changes counts, per action name, the (state, instance) pairs of the
	// emission that can change the table (vacuity check).
	changes map[string]int
}

// zzC10Defaults are the outcome sets (replies; the table does not change) that
// the emission of Dhcp4.tla leaves out.
var zzC10Defaults = map[string][]string{
	"Discover": {"none"}, "Request": {"refuse"}, "Decline": {"any"}, "Release": {"any"},
	"AddStatic": {"err"}, "UpdateStatic": {"err"}, "RemoveStatic": {"err", "ok"},
}

func zzC10ParseOuts(raw []any) (outs []zzC10Out) {
	for _, r := range raw {
		t := r.([]any)
		o := zzC10Out{Same: t[0].(bool), K: t[2].(string), IP: int(t[3].(float64)), T: int(t[4].(float64))}
		if !o.Same {
			ls := []zzC10L{}
			for _, x := range t[1].([]any) {
				e := x.([]any)
				ls = append(ls, zzC10L{Mac: e[0].(string), IP: int(e[1].(float64)), F: int(e[2].(float64)), Host: e[3].(string)})
			}
			o.Dst = zzC10Key(ls)
		}
		outs = append(outs, o)
	}

	return outs
}

// zzC10Header reads the run's universe and options from VERIF_HDR.
func zzC10Header(t testing.TB) (hdr *zzC10Hdr) {
	hdr = &zzC10Hdr{}
	if err := json.Unmarshal([]byte(zzGetenv("VERIF_HDR")), hdr); err != nil || hdr.Univ == nil {
		t.Skipf("no usable VERIF_HDR: %v", err)
	}
	hdr.Univ.init(zzSeed())

	return hdr
}

// zzC10LoadGraph reads the state lines of Dhcp4.tla's emission.  VERIF_IN is
// either NDJSON or TLC's own output, where each line of interest has the form
// <<"@@V", "<json as a TLA+ string literal>">>.
func zzC10LoadGraph(t testing.TB, hdr *zzC10Hdr) (g *zzC10Graph) {
	g = &zzC10Graph{nodes: map[string]*zzC10Node{}, changes: map[string]int{}}
	const pre, suf = `<<"@@V", `, `>>`
	zzReadNDJSON(t, "VERIF_IN", func(line []byte) {
		if bytes.HasPrefix(line, []byte(pre)) && bytes.HasSuffix(line, []byte(suf)) {
			lit := string(line[len(pre) : len(line)-len(suf)])
			js, err := strconv.Unquote(lit)
			if err != nil {
				t.Fatalf("bad emission line: %v", err)
			}
			line = []byte(js)
		} else if len(line) == 0 || line[0] != '{' {
			return
		}
		var rec struct {
			S     []zzC10L `json:"s"`
			Noadd bool     `json:"noadd"`
			Noupd []string `json:"noupd"`
			E     [][]any  `json:"e"`
		}
		if err := json.Unmarshal(line, &rec); err != nil {
			t.Fatalf("bad state line: %v", err)
		}
		if rec.E == nil {
			return
		}
		n := &zzC10Node{noadd: rec.Noadd, noupd: map[string]bool{}, edges: map[string][]zzC10Out{}}
		for _, m := range rec.Noupd {
			n.noupd[m] = true
		}
		for _, e := range rec.E {
			a := zzC10Act{Name: e[0].(string), M: e[1].(string), Kind: e[2].(string), A: int(e[3].(float64)), H: e[4].(string)}
			outs := zzC10ParseOuts(e[5].([]any))
			n.edges[a.key()] = outs
			for _, o := range outs {
				if !o.Same {
					g.changes[a.Name]++

					break
				}
			}
			if a.Name == "Restart" {
				g.changes[a.Name]++
			}
		}
		g.nodes[zzC10Key(rec.S)] = n
	})
	g.u = hdr.Univ
	g.acts = g.u.alphabet()

	return g
}

// enabled tells whether the spec enables a in the state of n, and returns the
// admissible outcomes (nil = the default: refused, nothing changes).
func (n *zzC10Node) enabled(a zzC10Act) (outs []zzC10Out, ok bool) {
	outs, listed := n.edges[a.key()]
	switch a.Name {
	case "Expire", "Tick", "BlockEnd":
		return outs, listed && len(outs) > 0
	case "AddStatic":
		if n.noadd {
			return nil, false
		}
	case "UpdateStatic":
		if n.noupd[a.M] {
			return nil, false
		}
	}

	return outs, true
}

// zzC10Admits reports whether the observed step is one of the admissible
// outcomes.  why is empty iff it is.
func zzC10Admits(a zzC10Act, src string, outs []zzC10Out, r zzC10Reply, post *zzC10Obs) (why string) {
	if outs == nil {
		for _, k := range zzC10Defaults[a.Name] {
			outs = append(outs, zzC10Out{Same: true, K: k})
		}
	}
	dstOK := false
	for _, o := range outs {
		dst := o.Dst
		if o.Same {
			dst = src
		}
		if dst != post.key {
			continue
		}
		dstOK = true
		if zzC10ReplyOK(a, o, r, post) {
			return ""
		}
	}
	if !dstOK {
		return "state"
	}

	return "reply"
}

func zzC10ReplyOK(a zzC10Act, o zzC10Out, r zzC10Reply, post *zzC10Obs) (ok bool) {
	switch o.K {
	case "offer":
		return r.K == o.K && r.IP == o.IP
	case "ack":
		// The announced lease time is what the table must then hold.
		return r.K == o.K && r.IP == o.IP && r.T == o.T
	case "refuse":
		return r.K == "none" || r.K == "nak"
	case "any":
		// No reply is defined; an address in it must be the client's lease.
		if r.IP == 0 {
			return true
		}
		for _, l := range post.Ls {
			if l.Mac == a.M && l.IP == r.IP {
				return true
			}
		}

		return false
	case "ok", "err":
		return r.K == o.K
	default:
		return r.K == "-"
	}
}

// ------------------------------------------------------------------ walker

// zzC10WNode is a node of the walker's own graph: an abstract state the real
// server has been seen in (refined by the order of its lease slice when
// opts.Order is set), the action instances not yet tried there and the
// successors observed so far.
type zzC10WNode struct {
	id     int
	key    string
	state  string
	remain []int
	// succ maps an action index to the node it led to last time (-1 = not
	// tried or not to be walked through).
	succ []int32
	// nbrs lists (action, node) pairs for planning; entries may be stale, the
	// walker checks where a planned step really leads.
	nbrs [][2]int32
}

type zzC10Bad struct {
	Kind       string         `json:"kind"`
	Act        zzC10Act       `json:"act"`
	Src        []zzC10L       `json:"src"`
	SrcDisk    []zzC10L       `json:"srcdisk"`
	SrcProb    []string       `json:"srcprob"`
	SrcNote    []string       `json:"srcnote"`
	Want       []zzC10Out     `json:"want"`
	Why        string         `json:"why"`
	Reply      zzC10Reply     `json:"reply"`
	Post       *zzC10Obs      `json:"post"`
	History    []zzC10Act     `json:"history"`
	Reproduced bool           `json:"reproduced"`
	Minimal    bool           `json:"minimal"`
	Sig        string         `json:"sig"`
	Univ       *zzC10Univ     `json:"univ"`
	Extra      map[string]any `json:"extra,omitempty"`
}

type zzC10Walk struct {
	g    *zzC10Graph
	opts zzC10Opts
	base string
	w    *zzWriter

	mu        sync.Mutex
	nodes     []*zzC10WNode
	index     map[string]int
	stamp     []int32
	epoch     int32
	looseLeft int
	sigs      map[string]int
	steps     atomic.Int64
	stop      atomic.Bool
	idle      int
	bad       int
	flaky     int
	truncated int
	resets    int
	unknown   int
	nontriv   map[string]bool
	samples   []any
	deadline  time.Time
}

func (wk *zzC10Walk) nodeKey(o *zzC10Obs) (k string) {
	if wk.opts.Order {
		return o.key + "#" + o.ord
	}

	return o.key
}

// node returns the walker node of o; mu must be held.
func (wk *zzC10Walk) node(o *zzC10Obs, rng *rand.Rand) (n *zzC10WNode) {
	k := wk.nodeKey(o)
	if id, ok := wk.index[k]; ok {
		return wk.nodes[id]
	}
	n = &zzC10WNode{id: len(wk.nodes), key: k, state: o.key, succ: make([]int32, len(wk.g.acts))}
	for i := range n.succ {
		n.succ[i] = -1
	}
	wk.nodes = append(wk.nodes, n)
	wk.stamp = append(wk.stamp, 0)
	wk.index[k] = n.id
	if sn := wk.g.nodes[o.key]; sn != nil {
		for i, a := range wk.g.acts {
			if _, ok := sn.enabled(a); ok {
				n.remain = append(n.remain, i)
			}
		}
		rng.Shuffle(len(n.remain), func(i, j int) { n.remain[i], n.remain[j] = n.remain[j], n.remain[i] })
	}

	return n
}

// link records that action ai led from n to d; mu must be held.
func (wk *zzC10Walk) link(n *zzC10WNode, ai int, d *zzC10WNode) {
	if n.succ[ai] == int32(d.id) {
		return
	}
	n.succ[ai] = int32(d.id)
	n.nbrs = append(n.nbrs, [2]int32{int32(ai), int32(d.id)})
}

type zzC10Hop struct {
	act int
	dst int
}

// search is a breadth-first search over the observed successors from node
// from; it stops at the first node for which goal holds and returns the
// path to it.  mu must be held.
func (wk *zzC10Walk) search(from int, loose bool, goal func(n *zzC10WNode) bool) (path []zzC10Hop, ok bool) {
	type item struct {
		n    int32
		prev int32
		act  int32
	}
	wk.epoch++
	q := []item{{n: int32(from), prev: -1}}
	wk.stamp[from] = wk.epoch
	for i := 0; i < len(q); i++ {
		cur := wk.nodes[q[i].n]
		if goal(cur) {
			for j := int32(i); q[j].prev >= 0; j = q[j].prev {
				path = append(path, zzC10Hop{act: int(q[j].act), dst: int(q[j].n)})
			}
			for l, r := 0, len(path)-1; l < r; l, r = l+1, r-1 {
				path[l], path[r] = path[r], path[l]
			}

			return path, true
		}
		for _, e := range cur.nbrs {
			if (!loose && cur.succ[e[0]] != e[1]) || wk.stamp[e[1]] == wk.epoch {
				continue
			}
			wk.stamp[e[1]] = wk.epoch
			q = append(q, item{n: e[1], prev: int32(i), act: e[0]})
		}
	}

	return nil, false
}

// plan returns a shortest known path from n to another node with untried
// actions; mu must be held.  The server has state the abstraction does not
// show (the order of its slice, above all), so an action may lead elsewhere
// than it did before: when no path of up-to-date edges exists, edges that led
// to the goal at some time are tried as well (a bounded number of times).
func (wk *zzC10Walk) plan(from *zzC10WNode) (path []zzC10Hop) {
	goal := func(n *zzC10WNode) bool { return n.id != from.id && len(n.remain) > 0 }
	path, ok := wk.search(from.id, false, goal)
	if !ok && wk.looseLeft > 0 {
		path, ok = wk.search(from.id, true, goal)
		if ok {
			wk.looseLeft--
		}
	}

	return path
}

// pathFromInit returns a shortest known action path from the empty table to
// the walker node key; mu must be held.
func (wk *zzC10Walk) pathFromInit(target string) (acts []int, ok bool) {
	start := ""
	if wk.opts.Order {
		start = "#"
	}
	from, ok1 := wk.index[start]
	to, ok2 := wk.index[target]
	if !ok1 || !ok2 {
		return nil, false
	}
	path, ok := wk.search(from, false, func(n *zzC10WNode) bool { return n.id == to })
	for _, h := range path {
		acts = append(acts, h.act)
	}

	return acts, ok
}

func zzC10Soft(prob []string) (ok bool) {
	for _, p := range prob {
		if !strings.HasPrefix(p, "bitset:") && p != "disk:differs" {
			return false
		}
	}

	return true
}

func zzC10SameStrs(a, b []string) (ok bool) {
	return strings.Join(a, ";") == strings.Join(b, ";")
}

// zzC10Judge compares one executed step with the spec.  why is empty iff the
// step is admissible and introduced no new structural disagreement.
func zzC10Judge(g *zzC10Graph, a zzC10Act, src *zzC10Obs, r zzC10Reply, post *zzC10Obs) (why string, want []zzC10Out) {
	sn := g.nodes[src.key]
	if sn == nil {
		return "src-unknown", nil
	}
	want, _ = sn.enabled(a)
	if a.Name == "Restart" {
		// RestartOut(disk): the table is what the database holds.
		want = []zzC10Out{{Dst: zzC10Key(src.Disk), K: "none"}}
	}
	why = zzC10Admits(a, src.key, want, r, post)
	if why == "" && !zzC10SameStrs(post.Prob, src.Prob) {
		// Inherited disagreements are reported where they arise, once.
		fresh := false
		have := map[string]bool{}
		for _, p := range src.Prob {
			have[p] = true
		}
		for _, p := range post.Prob {
			if !have[p] {
				fresh = true
			}
		}
		if fresh {
			why = "structures"
		}
	}

	return why, want
}

// runHistory replays acts on a fresh server and returns the observations
// around the last step.
func zzC10RunHistory(u *zzC10Univ, base string, acts []zzC10Act) (src *zzC10Obs, r zzC10Reply, post *zzC10Obs, err error) {
	y, err := zzC10NewSys(u, base)
	if err != nil {
		return nil, r, nil, err
	}
	defer y.close()
	for i, a := range acts {
		if i == len(acts)-1 {
			src = y.abs()
		}
		r, err = y.exec(a)
		if err != nil {
			return nil, r, nil, fmt.Errorf("step %d %v: %w", i, a, err)
		}
	}

	return src, r, y.abs(), nil
}

// sig is the signature under which disagreements are counted; only the first
// few of a signature are reproduced and written out in full.  It contains the
// shape of the change (kinds of the leases that disappeared and appeared:
// s static, r running, o offered/expired; for Restart relative to the
// database), so that different failures of one action are not lumped.
func (wk *zzC10Walk) sig(a zzC10Act, why string, src, post *zzC10Obs) (s string) {
	from := src.Ls
	if a.Name == "Restart" {
		from = src.Disk
	}

	return a.Name + "|" + why + "|" + strings.Join(src.Prob, ";") + "|" + strings.Join(post.Prob, ";") +
		"|" + zzC10Shape(from, post.Ls)
}

func zzC10Shape(from, to []zzC10L) (shape string) {
	class := func(l zzC10L) string {
		c := "o"
		if l.F < 0 {
			c = "s"
		} else if l.F > 0 {
			c = "r"
		}
		if strings.HasPrefix(l.Mac, "?") {
			c += "?"
		}
		if l.Host == "" {
			c += "_"
		}

		return c
	}
	cnt := map[string]int{}
	for _, l := range from {
		cnt[l.String()]--
	}
	for _, l := range to {
		cnt[l.String()]++
	}
	minus, plus := []string{}, []string{}
	for _, l := range from {
		if cnt[l.String()] < 0 {
			cnt[l.String()]++
			minus = append(minus, class(l))
		}
	}
	for _, l := range to {
		if cnt[l.String()] > 0 {
			cnt[l.String()]--
			plus = append(plus, class(l))
		}
	}
	sort.Strings(minus)
	sort.Strings(plus)

	return "-" + strings.Join(minus, ",") + "+" + strings.Join(plus, ",")
}

// report handles a disagreement: reproduces it in isolation (shortest known
// path first, then the full history since the last reset) and writes it out.
func (wk *zzC10Walk) report(a zzC10Act, srcNode string, src *zzC10Obs, want []zzC10Out, why string, r zzC10Reply, post *zzC10Obs, hist []zzC10Act) {
	sig := wk.sig(a, why, src, post)
	wk.mu.Lock()
	wk.bad++
	wk.sigs[sig]++
	cnt := wk.sigs[sig]
	var short []zzC10Act
	if p, ok := wk.pathFromInit(srcNode); ok {
		for _, i := range p {
			short = append(short, wk.g.acts[i])
		}
		short = append(short, a)
	}
	wk.mu.Unlock()
	rec := &zzC10Bad{Kind: "bad", Act: a, Src: src.Ls, SrcDisk: src.Disk, SrcProb: src.Prob, SrcNote: src.Note, Want: want, Why: why, Reply: r, Post: post, Sig: sig, Univ: wk.g.u}
	if cnt > wk.opts.MaxRepro {
		rec.Kind = "bad-more"
		rec.Post = nil
		rec.Want = nil
		wk.mu.Lock()
		wk.w.put(rec)
		wk.mu.Unlock()

		return
	}
	same := func(s2 *zzC10Obs, r2 zzC10Reply, p2 *zzC10Obs, err error) bool {
		return err == nil && s2 != nil && s2.key == src.key && zzC10SameStrs(s2.Prob, src.Prob) &&
			p2.key == post.key && zzC10SameStrs(p2.Prob, post.Prob) && r2 == r
	}
	if short != nil && len(short) <= len(hist) {
		ok := true
		for i := 0; i < 2 && ok; i++ {
			ok = same(zzC10RunHistory(wk.g.u, wk.base, short))
		}
		if ok {
			rec.History, rec.Reproduced, rec.Minimal = short, true, true
		}
	}
	if !rec.Reproduced {
		ok := true
		for i := 0; i < 2 && ok; i++ {
			ok = same(zzC10RunHistory(wk.g.u, wk.base, hist))
		}
		rec.History, rec.Reproduced = hist, ok
	}
	wk.mu.Lock()
	if !rec.Reproduced {
		rec.Kind = "flaky"
		wk.flaky++
	}
	wk.w.put(rec)
	wk.mu.Unlock()
}

func (wk *zzC10Walk) worker(t testing.TB, id int) {
	rng := rand.New(rand.NewSource(zzSeed()*1000 + int64(id)))
	y, err := zzC10NewSys(wk.g.u, wk.base)
	if err != nil {
		t.Errorf("worker %d: %v", id, err)
		wk.stop.Store(true)

		return
	}
	defer y.close()
	cur := y.abs()
	hist := []zzC10Act{}
	isIdle := false
	var path []zzC10Hop
	reset := func() {
		path = nil
		if err = y.reset(); err != nil {
			t.Errorf("worker %d: reset: %v", id, err)
			wk.stop.Store(true)
		}
		cur = y.abs()
		hist = hist[:0]
		wk.mu.Lock()
		wk.resets++
		wk.mu.Unlock()
	}
	for !wk.stop.Load() {
		if wk.opts.MaxSteps > 0 && wk.steps.Load() >= wk.opts.MaxSteps || time.Now().After(wk.deadline) {
			wk.stop.Store(true)

			break
		}
		if len(hist) >= wk.opts.ResetEvery {
			reset()
		}
		wk.mu.Lock()
		n := wk.node(cur, rng)
		ai := -1
		if len(n.remain) > 0 {
			ai = n.remain[len(n.remain)-1]
			n.remain = n.remain[:len(n.remain)-1]
			path = nil
		} else {
			if len(path) == 0 {
				path = wk.plan(n)
			}
			if len(path) > 0 {
				ai = path[0].act
			}
		}
		if ai < 0 {
			atInit := len(cur.Ls) == 0 && len(hist) == 0
			if atInit {
				if !isIdle {
					isIdle = true
					wk.idle++
				}
				done := wk.idle >= wk.opts.Workers
				wk.mu.Unlock()
				if done {
					return
				}
				time.Sleep(2 * time.Millisecond)

				continue
			}
			wk.mu.Unlock()
			reset()

			continue
		}
		if isIdle {
			isIdle = false
			wk.idle--
		}
		wk.mu.Unlock()

		a := wk.g.acts[ai]
		a.V = rng.Intn(64)
		src := cur
		r, xerr := y.exec(a)
		if xerr != nil {
			t.Errorf("worker %d: exec %v: %v", id, a, xerr)
			wk.stop.Store(true)

			return
		}
		post := y.abs()
		hist = append(hist, a)
		wk.steps.Add(1)
		why, want := zzC10Judge(wk.g, a, src, r, post)

		wk.mu.Lock()
		srcKey := wk.nodeKey(src)
		goOn := why == "" || (wk.g.nodes[post.key] != nil && zzC10Soft(post.Prob))
		if goOn {
			d := wk.node(post, rng)
			wk.link(n, ai, d)
			if len(path) > 0 {
				// Follow the plan only as long as it leads where it did.
				if path[0].act == ai && path[0].dst == d.id {
					path = path[1:]
				} else {
					path = nil
				}
			}
		} else {
			n.succ[ai] = -1
			path = nil
		}
		if post.key != src.key {
			wk.nontriv[src.key+"|"+a.key()] = true
		}
		if len(wk.samples) < 4 && post.key != src.key && rng.Intn(50) == 0 {
			wk.samples = append(wk.samples, map[string]any{"src": src.Ls, "act": a, "reply": r, "dst": post.Ls})
		}
		wk.mu.Unlock()

		cur = post
		if why == "" {
			continue
		}
		wk.report(a, srcKey, src, want, why, r, post, append([]zzC10Act{}, hist...))
		if !goOn {
			// The server is no longer in a state of the specification.
			wk.mu.Lock()
			wk.truncated++
			wk.mu.Unlock()
			reset()
		}
	}
}

func zzC10Base(t testing.TB) (base string) {
	base = zzGetenv("VERIF_TMP")
	if base == "" {
		base = t.TempDir()
	}

	return base
}

// TestZZVerifC10Walk is direction A.
func TestZZVerifC10Walk(t *testing.T) {
	hdr := zzC10Header(t)
	g := zzC10LoadGraph(t, hdr)
	w := zzNewWriter(t, "VERIF_OUT")
	defer w.close()
	opts := hdr.Opts
	if opts.Workers <= 0 {
		opts.Workers = 1
	}
	if opts.ResetEvery <= 0 {
		opts.ResetEvery = 400
	}
	if opts.MaxRepro <= 0 {
		opts.MaxRepro = 3
	}
	if opts.DeadlineS <= 0 {
		opts.DeadlineS = 600
	}
	wk := &zzC10Walk{g: g, opts: opts, base: zzC10Base(t), w: w, index: map[string]int{},
		looseLeft: 20000, sigs: map[string]int{}, nontriv: map[string]bool{}, deadline: time.Now().Add(time.Duration(opts.DeadlineS) * time.Second)}
	var wg sync.WaitGroup
	for i := 0; i < opts.Workers; i++ {
		wg.Add(1)
		go func(id int) {
			defer wg.Done()
			wk.worker(t, id)
		}(i)
	}
	wg.Wait()
	remaining, walkable := 0, 0
	states := map[string]bool{}
	for _, n := range wk.nodes {
		remaining += len(n.remain)
		states[n.state] = true
		if g.nodes[n.state] != nil {
			walkable++
		}
	}
	w.put(map[string]any{
		"kind": "summary", "steps": wk.steps.Load(), "nodes": len(wk.nodes), "walkable_nodes": walkable,
		"abstract_states": len(states), "spec_states": len(g.nodes), "alphabet": len(g.acts),
		"remaining": remaining, "closed": remaining == 0 && !t.Failed(),
		"bad": wk.bad, "flaky": wk.flaky, "truncated": wk.truncated, "resets": wk.resets,
		"spec_changing": g.changes, "nontrivial": len(wk.nontriv), "samples": wk.samples, "order": opts.Order, "workers": opts.Workers,
	})
}

// TestZZVerifC10Replay re-runs stored histories (one JSON record per line of
// VERIF_IN: {"univ":…, "history":[…]}) and writes what the last step did.
func TestZZVerifC10Replay(t *testing.T) {
	w := zzNewWriter(t, "VERIF_OUT")
	defer w.close()
	base := zzC10Base(t)
	zzReadNDJSON(t, "VERIF_IN", func(line []byte) {
		var rec struct {
			Univ    *zzC10Univ `json:"univ"`
			History []zzC10Act `json:"history"`
			Seed    int64      `json:"seed"`
		}
		if err := json.Unmarshal(line, &rec); err != nil || rec.Univ == nil || len(rec.History) == 0 {
			t.Fatalf("bad replay record: %v", err)
		}
		if rec.Seed == 0 {
			rec.Seed = zzSeed()
		}
		rec.Univ.init(rec.Seed)
		src, r, post, err := zzC10RunHistory(rec.Univ, base, rec.History)
		if err != nil {
			w.put(map[string]any{"kind": "error", "error": err.Error()})

			return
		}
		post.key = zzC10Key(post.Ls)
		w.put(map[string]any{"kind": "replayed", "src": src.Ls, "srcprob": src.Prob, "reply": r, "post": post,
			"act": rec.History[len(rec.History)-1]})
	})
}

// ---------------------------------------------------------- direction B

type zzC10TraceLine struct {
	Reset   bool       `json:"reset"`
	Act     zzC10Act   `json:"act"`
	Src     []zzC10L   `json:"src"`
	Dst     []zzC10L   `json:"dst"`
	Disk    []zzC10L   `json:"disk"`
	Out     zzC10Reply `json:"out"`
	Prob    []string   `json:"prob"`
	SrcProb []string   `json:"srcprob"`
	SrcNote []string   `json:"srcnote"`
	SrcDisk []zzC10L   `json:"srcdisk"`
	Run     int        `json:"run"`
	Step    int        `json:"step"`
}

// zzC10Pick draws the next action of a random history, biased towards
// actions that do something in the current table.
func zzC10Pick(u *zzC10Univ, rng *rand.Rand, cur *zzC10Obs) (a zzC10Act) {
	reqAddrs := append(append([]int{}, u.Pool...), u.Outs...)
	statAddrs := append(append([]int{}, reqAddrs...), u.GW, u.Far)
	pickMac := func() string { return u.Macs[rng.Intn(len(u.Macs))] }
	var mine *zzC10L
	if len(cur.Ls) > 0 && rng.Intn(4) != 0 {
		mine = &cur.Ls[rng.Intn(len(cur.Ls))]
	}
	a.V = rng.Intn(64)
	switch x := rng.Intn(100); {
	case x < 22:
		a.Name, a.M = "Discover", pickMac()
	case x < 52:
		a.Name, a.Kind = "Request", zzC10Kinds[rng.Intn(3)]
		a.H = u.ReqHosts[rng.Intn(len(u.ReqHosts))]
		if mine != nil && mine.IP >= 0 {
			a.M, a.A = mine.Mac, mine.IP
		} else {
			a.M, a.A = pickMac(), reqAddrs[rng.Intn(len(reqAddrs))]
		}
	case x < 60:
		a.Name = "Decline"
		if mine != nil && mine.IP >= 0 {
			a.M, a.A = mine.Mac, mine.IP
		} else {
			a.M, a.A = pickMac(), reqAddrs[rng.Intn(len(reqAddrs))]
		}
	case x < 68:
		a.Name = "Release"
		if mine != nil && mine.IP >= 0 {
			a.M, a.A = mine.Mac, mine.IP
		} else {
			a.M, a.A = pickMac(), reqAddrs[rng.Intn(len(reqAddrs))]
		}
	case x < 78:
		// Time: mostly one tick for everybody (so that leases are renewed
		// early, late and not at all), sometimes one lease runs out alone.
		cands := []int{}
		for _, l := range cur.Ls {
			if l.F > 0 {
				cands = append(cands, l.IP)
			}
		}
		switch {
		case len(cands) == 0:
			a.Name, a.M = "Discover", pickMac()
		case x < 71:
			a.Name, a.A = "Expire", cands[rng.Intn(len(cands))]
		default:
			a.Name = "Tick"
		}
	case x < 84:
		a.Name, a.M = "AddStatic", pickMac()
		a.A = statAddrs[rng.Intn(len(statAddrs))]
		a.H = u.StatHosts[rng.Intn(len(u.StatHosts))]
	case x < 89:
		a.Name, a.M = "UpdateStatic", pickMac()
		if mine != nil && rng.Intn(3) != 0 {
			a.M = mine.Mac
		}
		a.A = statAddrs[rng.Intn(len(statAddrs))]
		a.H = u.StatHosts[rng.Intn(len(u.StatHosts))]
	case x < 95:
		a.Name = "RemoveStatic"
		if mine != nil && mine.IP >= 0 {
			a.M, a.A = mine.Mac, mine.IP
		} else {
			a.M, a.A = pickMac(), reqAddrs[rng.Intn(len(reqAddrs))]
		}
	case x < 97:
		// The record of an ended address conflict on an entry nobody holds.
		a.Name = "Restart"
		for _, l := range cur.Ls {
			if l.F == 0 && l.Mac != "blk" {
				a.Name, a.A = "BlockEnd", l.IP
			}
		}
	default:
		a.Name = "Restart"
	}
	if strings.HasPrefix(a.M, "?") || a.M == "blk" {
		a.M = pickMac()
	}

	return a
}

// zzC10WellFormed reports whether ls can be a table of the specification at
// all: one lease per client, per address and per host name.
func zzC10WellFormed(ls []zzC10L) (ok bool) {
	seen := map[string]bool{}
	for _, l := range ls {
		keys := []string{"m" + l.Mac, "i" + strconv.Itoa(l.IP)}
		if l.Host != "" {
			keys = append(keys, "h"+l.Host)
		}
		for _, k := range keys {
			if seen[k] {
				return false
			}
			seen[k] = true
		}
		if l.IP < 0 || strings.HasPrefix(l.Mac, "?") || strings.HasPrefix(l.Host, "?") {
			return false
		}
	}

	return true
}

// TestZZVerifC10Trace is direction B: random histories, recorded.
func TestZZVerifC10Trace(t *testing.T) {
	hdr := zzC10Header(t)
	w := zzNewWriter(t, "VERIF_OUT")
	defer w.close()
	u := hdr.Univ
	rng := rand.New(rand.NewSource(zzSeed()))
	base := zzC10Base(t)
	for run := 0; run < hdr.Opts.TraceRuns; run++ {
		y, err := zzC10NewSys(u, base)
		if err != nil {
			t.Fatalf("new: %v", err)
		}
		cur := y.abs()
		fresh := true
		for step := 0; step < hdr.Opts.TraceSteps; step++ {
			a := zzC10Pick(u, rng, cur)
			r, xerr := y.exec(a)
			if xerr != nil {
				if a.Name == "Expire" || a.Name == "Tick" || a.Name == "BlockEnd" {
					continue
				}
				t.Fatalf("run %d step %d %v: %v", run, step, a, xerr)
			}
			post := y.abs()
			w.put(&zzC10TraceLine{Reset: fresh, Act: a, Src: cur.Ls, Dst: post.Ls, Disk: post.Disk, Out: r,
				Prob: post.Prob, SrcProb: cur.Prob, SrcNote: cur.Note, SrcDisk: cur.Disk, Run: run, Step: step})
			fresh = false
			cur = post
			if !zzC10Soft(post.Prob) || !zzC10WellFormed(post.Ls) {
				// Not a state of the specification any more: start afresh.
				if err = y.reset(); err != nil {
					t.Fatalf("reset: %v", err)
				}
				cur = y.abs()
				fresh = true
			}
		}
		y.close()
	}
}
