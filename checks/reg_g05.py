PROPERTY = "G05"
ENTRY = {
        "text": "placeholder",
        "design_ref": "DESIGN.md section 5 items 5 and 6",
        "note": "placeholder",
        "technique": "TLA+ state machine explored by TLC; edge-covering tour replay into real code + TLC trace validation",
    }
