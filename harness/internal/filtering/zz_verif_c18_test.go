package filtering

// C18 conformance harness, filtering half: the schedule as the DNS path
// consults it.  A sample of the rows of the TLC verdict tables
// (specs/ScheduleHost.tla) is replayed through
//
//	PUT /control/blocked_services/update   (global schedule, JSON form)
//	DNSFilter.ApplyAdditionalFiltering     (global and per-client schedule)
//	DNSFilter.CheckHost
//
// at the *virtual* time of the row's instant (testing/synctest: time.Now()
// inside the bubble is the fake clock, advanced by sleeping).  The services
// must be blocked exactly when the spec says the pause schedule is not in
// effect.

import (
	"encoding/json"
	"fmt"
	"math/rand"
	"net/http"
	"net/http/httptest"
	"net/netip"
	"strconv"
	"strings"
	"testing"
	"testing/synctest"
	"time"

	"github.com/AdguardTeam/AdGuardHome/internal/schedule"
	"github.com/miekg/dns"
	"gopkg.in/yaml.v3"
)

type zzC18Vec struct {
	K     string     `json:"k"`
	C     string     `json:"c"`
	Zone  string     `json:"zone"`
	Shape string     `json:"shape"`
	W     [][2]int64 `json:"w"`
	Pts   [][7]int64 `json:"pts"`
}

var zzC18DayKeys = [7]string{"sun", "mon", "tue", "wed", "thu", "fri", "sat"}

const (
	zzC18GlobalSvc = "youtube"
	zzC18GlobalDom = "www.youtube.com"
	zzC18ClientSvc = "facebook"
	zzC18ClientDom = "www.facebook.com"
)

// zzC18ScheduleJSON renders the schedule (seconds) in the API form.
func zzC18ScheduleJSON(zone string, w [][2]int64) (doc string) {
	parts := []string{fmt.Sprintf("\"time_zone\":%q", zone)}
	for i, r := range w {
		if r == [2]int64{} {
			continue
		}

		parts = append(parts, fmt.Sprintf("%q:{\"start\":%d,\"end\":%d}", zzC18DayKeys[i], r[0]*1000, r[1]*1000))
	}

	return "{" + strings.Join(parts, ",") + "}"
}

// zzC18ScheduleYAML renders the schedule in the configuration-file form of a
// persistent client's blocked_services section.
func zzC18ClientYAML(zone string, w [][2]int64) (doc string) {
	b := &strings.Builder{}
	fmt.Fprintf(b, "schedule:\n  time_zone: %s\n", zone)
	for i, r := range w {
		if r == [2]int64{} {
			continue
		}

		fmt.Fprintf(b, "  %s:\n    start: %s\n    end: %s\n", zzC18DayKeys[i],
			time.Duration(r[0])*time.Second, time.Duration(r[1])*time.Second)
	}

	fmt.Fprintf(b, "ids:\n- %s\n", zzC18ClientSvc)

	return b.String()
}

type zzC18Obs struct {
	globalBlocked bool
	clientBlocked bool
	foreign       bool
	now           time.Time

	// panicked is the panic value if setting up or checking the request
	// panicked (the DNS path does not recover: the process would be gone).
	panicked string
}

// zzC18At runs one request's filtering set-up at virtual time t.
func zzC18At(d *DNSFilter, t time.Time, client bool, useClient *bool) (o zzC18Obs) {
	synctest.Run(func() {
		defer func() {
			if r := recover(); r != nil {
				o.panicked = fmt.Sprint(r)
			}
		}()

		time.Sleep(time.Until(t))
		o.now = time.Now()
		*useClient = client
		setts := &Settings{ProtectionEnabled: true, FilteringEnabled: true}
		d.ApplyAdditionalFiltering(netip.MustParseAddr("192.0.2.18"), "c18", setts)
		// The observable: is a host of the service answered as blocked by
		// "blocked services" at this moment?
		rg, errG := d.CheckHost(zzC18GlobalDom, dns.TypeA, setts)
		rc, errC := d.CheckHost(zzC18ClientDom, dns.TypeA, setts)
		o.globalBlocked = rg.Reason == FilteredBlockedService && rg.IsFiltered
		o.clientBlocked = rc.Reason == FilteredBlockedService && rc.IsFiltered
		o.foreign = errG != nil || errC != nil
	})

	return o
}

// TestZZVerifC18Apply replays every VERIF_C18_EVERY-th row.
func TestZZVerifC18Apply(t *testing.T) {
	w := zzNewWriter(t, "VERIF_OUT")
	defer w.close()

	rng := rand.New(rand.NewSource(zzSeed()))
	every := 0
	if v, err := strconv.Atoi(zzGetenv("VERIF_C18_EVERY")); err == nil && v > 0 {
		every = v
	}

	InitModule()

	var clientBS *BlockedServices
	useClient := false
	d, err := New(&Config{
		BlockedServices: &BlockedServices{Schedule: schedule.EmptyWeekly(), IDs: []string{zzC18GlobalSvc}},
		ApplyClientFiltering: func(_ string, _ netip.Addr, setts *Settings) {
			if useClient && clientBS != nil {
				// As client.Storage.ApplyClientFiltering does.
				setts.BlockedServices = clientBS.Clone()
			}
		},
		ConfigModified: func() {},
	}, []Filter{{ID: 0, Data: []byte("||example.org^\n")}})
	if err != nil {
		t.Fatalf("creating filter: %v", err)
	}
	t.Cleanup(d.Close)

	var lines, evals, bad, skipped, blockedN int
	zzReadNDJSON(t, "VERIF_IN", func(line []byte) {
		v := &zzC18Vec{}
		if jerr := json.Unmarshal(line, v); jerr != nil {
			t.Fatalf("bad vector: %v", jerr)
		}

		if v.K != "eval" || len(v.W) != 7 {
			return
		}

		// Choose the rows of this table first; most tables contribute a few.
		idx := []int{}
		for i := range v.Pts {
			if every <= 1 || rng.Intn(every) == 0 {
				idx = append(idx, i)
			}
		}

		if len(idx) == 0 {
			return
		}

		lines++
		loc, lerr := time.LoadLocation(v.Zone)
		if lerr != nil {
			skipped++

			return
		}

		// Global schedule: through the HTTP API.
		putGlobal := func(sched string) (ok bool) {
			body := fmt.Sprintf("{\"schedule\":%s,\"ids\":[%q]}", sched, zzC18GlobalSvc)
			rec := httptest.NewRecorder()
			req := httptest.NewRequest(http.MethodPut, "/control/blocked_services/update", strings.NewReader(body))
			d.handleBlockedServicesUpdate(rec, req)
			if rec.Code == http.StatusOK {
				return true
			}

			bad++
			w.put(map[string]any{
				"kind": "bad", "what": "build", "c": v.C, "zone": v.Zone, "shape": v.Shape, "w": v.W,
				"detail": fmt.Sprintf("PUT update %s: %d %s", sched, rec.Code, rec.Body.String()),
			})

			return false
		}

		if !putGlobal(zzC18ScheduleJSON(v.Zone, v.W)) {
			return
		}

		// Per-client schedule: the configuration-file form.
		cbs := &BlockedServices{}
		if yerr := yaml.Unmarshal([]byte(zzC18ClientYAML(v.Zone, v.W)), cbs); yerr != nil {
			bad++
			w.put(map[string]any{
				"kind": "bad", "what": "build", "c": v.C, "zone": v.Zone, "shape": v.Shape, "w": v.W,
				"detail": "client yaml: " + yerr.Error(),
			})

			return
		}

		clientBS = cbs

		// The rows judged against the global schedule first; then the global
		// schedule is replaced by an unrelated one (never or always in
		// effect) and the remaining rows are judged against the client's.
		rng.Shuffle(len(idx), func(a, b int) { idx[a], idx[b] = idx[b], idx[a] })
		nGlobal := (len(idx) + rng.Intn(2)) / 2
		for k, i := range idx {
			p := v.Pts[i]
			at := time.Unix(p[0], p[1])
			want := p[5] == 1
			client := k >= nGlobal
			if k == nGlobal {
				other := [][2]int64{{}, {}, {}, {}, {}, {}, {}}
				if rng.Intn(2) == 0 {
					other = [][2]int64{{0, 86400}, {0, 86400}, {0, 86400}, {0, 86400}, {0, 86400}, {0, 86400}, {0, 86400}}
				}

				if !putGlobal(zzC18ScheduleJSON("UTC", other)) {
					return
				}
			}

			o := zzC18At(d, at, client, &useClient)
			if !o.now.Equal(at) {
				skipped++
				w.put(map[string]any{"kind": "skip", "c": v.C, "pt": p, "now": o.now.UnixNano()})

				continue
			}

			evals++
			ok, what, got := zzC18Judge(o, client, want)
			if (client && o.clientBlocked) || (!client && o.globalBlocked) {
				blockedN++
			}

			if ok {
				continue
			}

			// Once more, alone.
			o2 := zzC18At(d, at, client, &useClient)
			if ok2, _, _ := zzC18Judge(o2, client, want); ok2 {
				w.put(map[string]any{"kind": "flaky", "c": v.C, "pt": p})

				continue
			}

			bad++
			w.put(map[string]any{
				"kind": "bad", "what": what, "c": v.C, "zone": v.Zone, "shape": v.Shape, "w": v.W,
				"pt": p, "range": v.W[p[3]], "want": want, "got": got,
				"utc":   at.UTC().Format(time.RFC3339Nano),
				"local": at.In(loc).Format("Mon 2006-01-02 15:04:05.999999999 -07:00"),
			})
		}
	})

	w.put(map[string]any{
		"kind": "summary", "lines": lines, "evals": evals, "bad": bad, "skipped": skipped, "blocked": blockedN,
	})
}

// zzC18Judge compares one observation with the spec's verdict want (= the
// pause schedule is in effect).  got is the observed value of "in effect".
func zzC18Judge(o zzC18Obs, client, want bool) (ok bool, what string, got bool) {
	if o.foreign || o.panicked != "" {
		return false, "apply-error", !want
	}

	if client {
		return o.clientBlocked == !want, "apply-client", !o.clientBlocked
	}

	return o.globalBlocked == !want, "apply-global", !o.globalBlocked
}
