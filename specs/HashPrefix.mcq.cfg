\* As HashPrefix.mc.cfg with a smaller service database universe (quick tier).
SPECIFICATION Spec
CONSTANTS
  T = 2
  DbIds = {"com", "x.com", "a.x.com", "io"}
  EmitOn = FALSE
  ImplOnly = FALSE
  ImplNegAgain = FALSE
VIEW GraphView
INVARIANTS TypeOK CacheTransparent RefAdmissible
PROPERTIES StepProps
