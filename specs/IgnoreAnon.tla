----------------------------- MODULE IgnoreAnon -----------------------------
(***************************************************************************)
(* C08 -- ignored names / clients and un-anonymised addresses never reach  *)
(* the query log or the statistics.                                        *)
(*                                                                         *)
(* A tail-stage model: what happens to a query AFTER it has been answered. *)
(* One behaviour is one server life ("script") over four configurations    *)
(* K0..K3:                                                                 *)
(*                                                                         *)
(*   Pick -> Record round 1 (+ ANY probes) under K0 -> Flush (memory       *)
(*   buffer to querylog.json) -> Reconf to K1 -> Record round 2 -> Flush   *)
(*   -> Reconf to K2 -> Record round 3 (stays in memory) -> Reconf to K3   *)
(*   -> done.                                                              *)
(*                                                                         *)
(* A reconfiguration is what the admin API can do to the tail stage:       *)
(* replace the ignore lists, flip the persistent client's ignore flags,    *)
(* and SetAnonymise / SetQueryLogEnabled / SetStatsEnabled -- the "toggle  *)
(* plan" of a script is the triple of (anon, qlogOn, statsOn) states of    *)
(* K0, K1, K2 (K3 keeps K2's), applied either through the current          *)
(* endpoints (PUT .../config/update, which also carries the new list) or   *)
(* through the legacy partial-update endpoint POST /control/querylog_config *)
(* (ep = "legacy": only the changed switches are sent, the list stays).    *)
(* So anonymisation can be switched while the log is disabled and the log  *)
(* re-enabled later by either endpoint.                                    *)
(*                                                                         *)
(* Obligations are tied to the configuration in force when a record is     *)
(* MADE: a record made under Ki is judged by Ki's lists/flags and must be  *)
(* anonymised iff Ki.anon; the log API is judged by the current            *)
(* configuration, and a reported address must be anonymised if             *)
(* anonymisation has been on ever since the record was made.  Nothing is   *)
(* demanded of records made before a toggle.                               *)
(*                                                                         *)
(* Stores: mem (query-log ring buffer), file (querylog.json), unit (the    *)
(* current statistics unit: domains and clients / top-clients are          *)
(* projections of it).  The log API is the operator Search.                *)
(*                                                                         *)
(* The MECHANISM is modelled in two variants selected by Design:           *)
(*   "intended"  the client is looked up by the address the query came     *)
(*               from, the address is anonymised for storing only; the     *)
(*               log API re-applies the current ignore list and client     *)
(*               flag to memory and file entries alike (this is the code   *)
(*               after fixes 950f1cb and c004ed7);                         *)
(*   "asbuilt"   the code as it was found: the address is anonymised first *)
(*               and the client looked up by the result; the log API       *)
(*               re-filters file entries only.                             *)
(* The STATEMENT is the set of invariants at the end.  TLC shows           *)
(* intended |= invariants (gen cfgs), that asbuilt violates them           *)
(* (IgnoreAnon.asbuilt*.cfg, expected violations), and that no design can  *)
(* satisfy the strict search-time clause once the stored address is        *)
(* anonymised (IgnoreAnon.strict.cfg, expected violation; open finding).   *)
(*                                                                         *)
(* Direction A: the final action of every script prints one JSON line      *)
(* with the four configurations and the verdict tables of the statement    *)
(* (IgnoreAnonCore: LogVerdict, CountVerdict, ApiVerdict) for every query  *)
(* and observation point; the Go harness runs the script against the real  *)
(* wiring of package home.                                                 *)
(***************************************************************************)
EXTENDS Sequences, Naturals, FiniteSets, TLC, Json

CONSTANTS Design,  \* "intended" | "asbuilt"
          Lis,     \* which rotations of the list family are enumerated
          Plans    \* "cover": toggle plans x,y,x (every ordered pair of switch
                   \* states occurs as a step); "all": every triple

INSTANCE IgnoreAnonCore WITH LowBits <- 2

VARIABLES ph,     \* phase of the script
          par,    \* the script's parameters
          cfg,    \* current configuration
          reg,    \* registry of the extra persistent clients: [set, done]
          mem, file, unit
vars == <<ph, par, cfg, reg, mem, file, unit>>

\* ----------------------------------------------------------------- universe
\* Labels contain the boundary letters of the alphabet (the Go side varies
\* the letter case per position); xaz.com is a suffix look-alike of az.com.
Names == << Root, <<"com">>, <<"az", "com">>, <<"zb", "az", "com">>, <<"xaz", "com">>, <<"zb", "org">> >>

P(k, n) == [k |-> k, n |-> n]
Lists == << {},
            {P("plain", <<"az", "com">>)},
            {P("domain", <<"az", "com">>)},
            {P("wild", <<"az", "com">>)},
            {P("root", Root)},
            {P("plain", <<"zb", "org">>), P("wild", <<"com">>)} >>
NL == Len(Lists)
L(i) == Lists[(i % NL) + 1]

A(f, b) == [fam |-> f, bits |-> b]
T4 == A("v4", <<0, 1, 1, 0>>)     \* the client that gets marked
S4 == A("v4", <<0, 1, 0, 1>>)     \* same anonymised form as T4, another host
U4 == A("v4", <<1, 0, 1, 1>>)     \* unrelated
Z4 == A("v4", <<0, 1, 0, 0>>)     \* = Anon(T4): a host whose own low bits are 0
T6 == A("v6", <<0, 1, 1, 0>>)
S6 == A("v6", <<0, 1, 0, 1>>)
M4 == A("m4", <<0, 1, 1, 0>>)     \* T4 in IPv4-mapped form
L6 == A("z6", <<0, 1, 1, 0>>)     \* link-local IPv6 address with a zone
X4 == A("v4", <<1, 1, 0, 1>>)     \* carrier address of the ClientID clients

\* The querying principals.  qt = question type in rounds 1, 2, 3: the type is
\* the tag by which an observed entry is attributed to its query (addresses
\* cannot, they get anonymised).
Senders == <<
    [cl |-> "T4", addr |-> T4, cid |-> "",      qt |-> <<"A", "AAAA", "NS">>],
    [cl |-> "S4", addr |-> S4, cid |-> "",      qt |-> <<"TXT", "MX", "SOA">>],
    [cl |-> "U4", addr |-> U4, cid |-> "",      qt |-> <<"SRV", "CAA", "DNSKEY">>],
    [cl |-> "Z4", addr |-> Z4, cid |-> "",      qt |-> <<"NAPTR", "LOC", "NSEC">>],
    [cl |-> "T6", addr |-> T6, cid |-> "",      qt |-> <<"HINFO", "RP", "OPENPGPKEY">>],
    [cl |-> "S6", addr |-> S6, cid |-> "",      qt |-> <<"AFSDB", "SSHFP", "SMIMEA">>],
    [cl |-> "M4", addr |-> M4, cid |-> "",      qt |-> <<"TLSA", "URI", "EUI48">>],
    [cl |-> "C1", addr |-> X4, cid |-> "cliz1", qt |-> <<"CERT", "SPF", "EUI64">>],
    [cl |-> "C2", addr |-> X4, cid |-> "cliz2", qt |-> <<"KX", "DNAME", "CSYNC">>],
    \* The same unconfigured ClientID as C2, but from the target client's
    \* address: a ClientID that is no persistent client does not stop the sender
    \* from being the client its address says it is.
    [cl |-> "C3", addr |-> T4, cid |-> "cliz2", qt |-> <<"HIP", "NID", "L32">>],
    [cl |-> "L6", addr |-> L6, cid |-> "",      qt |-> <<"RT", "X25", "ISDN">>] >>

\* A query is identified by <<name index, sender index, round>>; round 4 is
\* the ANY probe, sent by T4 together with round 1.
Q(ni, si, r) == [id |-> <<ni, si, r>>, name |-> Names[ni], addr |-> Senders[si].addr,
                 cid |-> Senders[si].cid,
                 qt |-> IF r = 4 THEN "ANY" ELSE Senders[si].qt[r]]
Round(r) == {Q(ni, si, r) : ni \in DOMAIN Names, si \in DOMAIN Senders}
AnyProbe == {Q(ni, 1, 4) : ni \in DOMAIN Names}
\* What is recorded under K(i).
Batch(i) == IF i = 0 THEN Round(1) \cup AnyProbe ELSE Round(i + 1)
KOfRound(r) == IF r = 4 THEN 0 ELSE r - 1

ClientVariants ==
    { [kind |-> "ip", addr |-> T4], [kind |-> "ip", addr |-> Z4], [kind |-> "ip", addr |-> T6],
      \* identified by the zoned / the IPv4-mapped spelling of an address
      [kind |-> "ip", addr |-> L6], [kind |-> "ip", addr |-> M4],
      [kind |-> "cidr", fam |-> "v4", bits |-> <<0, 1>>],
      [kind |-> "cidr", fam |-> "v4", bits |-> <<0, 1, 1>>],
      [kind |-> "cidr", fam |-> "v6", bits |-> <<0, 1, 1>>],
      [kind |-> "mac", addr |-> T4],
      [kind |-> "cid", cid |-> "cliz1"] }
NoClient == [kind |-> "none"]
FlagPairs == {<<TRUE, FALSE>>, <<FALSE, TRUE>>, <<TRUE, TRUE>>}

\* Switch states and toggle plans.
Sw(a, q, s) == [anon |-> a, qlogOn |-> q, statsOn |-> s]
Switches == {Sw(a, q, s) : a \in BOOLEAN, q \in BOOLEAN, s \in BOOLEAN}
Steady(a) == <<Sw(a, TRUE, TRUE), Sw(a, TRUE, TRUE), Sw(a, TRUE, TRUE)>>
TogglePlans == IF Plans = "all" THEN {<<x, y, z>> : x \in Switches, y \in Switches, z \in Switches}
               ELSE {<<x, y, x>> : x \in Switches, y \in Switches}

\* Family I: every client variant, flags, list rotation, anonymisation and
\* ANY-refusal, switches steady.  Family T: every toggle plan by either
\* endpoint on one base configuration (client by exact IP, both flags).
FamilyI == {[li |-> li, client |-> cf[1], fl |-> cf[2], refuseAny |-> ra, plan |-> Steady(an), ep |-> "put", hist |-> <<>>] :
              li \in Lis, an \in BOOLEAN, ra \in BOOLEAN,
              cf \in ({<<NoClient, <<FALSE, FALSE>>>>} \cup (ClientVariants \X FlagPairs))}
FamilyT == {[li |-> 2, client |-> [kind |-> "ip", addr |-> T4], fl |-> <<TRUE, TRUE>>, refuseAny |-> FALSE,
             plan |-> pl, ep |-> ep, hist |-> <<>>] : pl \in TogglePlans, ep \in {"put", "legacy"}}

\* Family N: nested subnets.  The primary client is the inner subnet around
\* T4 (its flags flip as everywhere); the extra clients are the enclosing
\* subnet O with the complementary flags and an unrelated, still longer subnet
\* A.  Before the first query the registry goes through a history of
\* AddClient / RemoveClient / UpdateClient calls.  Whatever the history, a
\* sender belongs to the most specific client that is registered at the end.
Op(o, w) == [op |-> o, who |-> w]
Hists == { <<Op("add", "A"), Op("add", "O")>>,
           <<Op("add", "O"), Op("add", "A")>>,
           <<Op("add", "A"), Op("add", "O"), Op("del", "A")>>,
           <<Op("add", "A"), Op("add", "O"), Op("del", "A"), Op("add", "A")>>,
           <<Op("add", "A"), Op("add", "O"), Op("upd", "A")>>,
           <<Op("add", "O"), Op("add", "A"), Op("upd", "O")>>,
           <<Op("add", "A"), Op("add", "O"), Op("del", "O"), Op("add", "O")>> }
FamilyN == {[li |-> 1, client |-> [kind |-> "cidr", fam |-> "v4", bits |-> <<0, 1, 1>>], fl |-> f,
             refuseAny |-> FALSE, plan |-> Steady(an), ep |-> "put", hist |-> h] :
              f \in FlagPairs, an \in BOOLEAN, h \in Hists}
ExtraDef(p, w) ==
    IF w = "O" THEN [id |-> [kind |-> "cidr", fam |-> "v4", bits |-> <<0, 1>>], flagQ |-> ~p.fl[1], flagS |-> ~p.fl[2]]
    ELSE [id |-> [kind |-> "cidr", fam |-> "v4", bits |-> <<1, 0, 1, 0>>], flagQ |-> FALSE, flagS |-> FALSE]
\* One registry call.  An update re-submits the client's data (the code
\* removes and re-adds it).
ApplyOp(p, set, o) == IF o.op = "del" THEN set \ {ExtraDef(p, o.who)} ELSE set \cup {ExtraDef(p, o.who)}
RECURSIVE FoldOps(_, _, _)
FoldOps(p, h, set) == IF h = <<>> THEN set ELSE FoldOps(p, Tail(h), ApplyOp(p, set, Head(h)))
FinalReg(p) == FoldOps(p, p.hist, {})

Scripts == FamilyI \cup FamilyT \cup FamilyN

\* ------------------------------------------------------------ configurations
HasClient(p) == p.client.kind # "none"
\* The legacy endpoint cannot replace the list.
ListQ(p, i) == IF i = 3 THEN L(p.li + 5)
               ELSE IF p.ep = "legacy" THEN L(p.li)
               ELSE L(p.li + 2 * i)
K(p, i) ==
    LET sw == p.plan[IF i = 3 THEN 3 ELSE i + 1] IN
    [ignQ |-> ListQ(p, i),
     ignS |-> IF i = 0 THEN L(p.li + 1) ELSE L(p.li + 3),
     client |-> p.client,
     \* the query-log flag is flipped by every reconfiguration, the
     \* statistics flag by the first one
     flagQ |-> HasClient(p) /\ (IF i % 2 = 0 THEN p.fl[1] ELSE ~p.fl[1]),
     flagS |-> HasClient(p) /\ (IF i = 0 THEN p.fl[2] ELSE ~p.fl[2]),
     anon |-> sw.anon, qlogOn |-> sw.qlogOn, statsOn |-> sw.statsOn,
     refuseAny |-> p.refuseAny,
     extra |-> FinalReg(p)]

\* ---------------------------------------------------------------- mechanism
LookupAddr(c, q) == IF Design = "asbuilt" THEN StoredAddr(c, q) ELSE q.addr
Refused(c, q)    == q.qt = "ANY" /\ c.refuseAny     \* answered by the proxy itself
MechLog(c, q)    == /\ c.qlogOn /\ ~Refused(c, q)
                    /\ ~IgnBy(c, "q", LookupAddr(c, q), q.cid)
                    /\ ~IgnoreMatch(c.ignQ, q.name)
MechCount(c, q)  == /\ c.statsOn /\ ~Refused(c, q)
                    /\ ~IgnBy(c, "s", LookupAddr(c, q), q.cid)
                    /\ ~IgnoreMatch(c.ignS, q.name)

\* A stored entry: the query's id (its round says which configuration it was
\* recorded under -- history information for the invariants) and the address
\* as stored.
Entry(c, q) == [q |-> q.id, addr |-> StoredAddr(c, q)]
QOf(e)   == Q(e.q[1], e.q[2], e.q[3])
RecOf(e) == K(par, KOfRound(e.q[3]))

\* The log API under configuration cur.  A stored entry can only be
\* re-identified by what was stored.
Visible(cur, e) == /\ ~IgnoreMatch(cur.ignQ, QOf(e).name)
                   /\ ~IgnBy(cur, "q", e.addr, QOf(e).cid)
Search(cur) == {e \in file : Visible(cur, e)}
                 \cup (IF Design = "asbuilt" THEN mem ELSE {e \in mem : Visible(cur, e)})
\* The API masks the address on output with the current anonymiser.
Reported(cur, e) == IF cur.anon THEN Anon(e.addr) ELSE e.addr

\* ------------------------------------------------------------- vector output
NonYes(t) == {x \in t : x.v # "yes"}
\* The log API under K(p, k): everything recorded so far.
ApiTbl(p, k) == UNION {{[q |-> q.id, v |-> ApiVerdict(K(p, i), K(p, k), q)] : q \in Batch(i)} : i \in 0..(IF k = 3 THEN 2 ELSE k)}
\* Rounds whose entries must be REPORTED anonymised under K(p, k):
\* anonymisation has been on ever since they were recorded.
AnonSince(p, r, k) == \A j \in KOfRound(r)..k : K(p, j).anon
Vector(p) ==
    [kind |-> "script", par |-> p, k |-> <<K(p, 0), K(p, 1), K(p, 2), K(p, 3)>>,
     \* the registry calls to make before the first query
     hist |-> [i \in DOMAIN p.hist |-> [op |-> p.hist[i].op, who |-> p.hist[i].who, c |-> ExtraDef(p, p.hist[i].who)]],
     \* record-time verdicts
     log |-> NonYes(UNION {{[q |-> q.id, v |-> LogVerdict(K(p, i), q)] : q \in Batch(i)} : i \in 0..2}),
     cnt |-> NonYes(UNION {{[q |-> q.id, v |-> CountVerdict(K(p, i), q)] : q \in Batch(i)} : i \in 0..2}),
     \* the log API under K1, K2, K3
     api |-> <<NonYes(ApiTbl(p, 1)), NonYes(ApiTbl(p, 2)), NonYes(ApiTbl(p, 3))>>,
     \* anonrep[k+1] = rounds to be reported anonymised under K(k)
     anonrep |-> [k \in 1..4 |-> {r \in 1..4 : KOfRound(r) <= k - 1 /\ AnonSince(p, r, k - 1)}]]

Universe == [kind |-> "universe", names |-> Names, senders |-> Senders, lowbits |-> 2, width |-> 4]

\* ---------------------------------------------------------------- behaviour
NoPar == [li |-> 0, client |-> NoClient, fl |-> <<FALSE, FALSE>>, refuseAny |-> FALSE,
          plan |-> Steady(FALSE), ep |-> "put", hist |-> <<>>]
NoReg == [set |-> {}, done |-> 0]

Init == /\ ph = "universe" /\ par = NoPar /\ cfg = K(NoPar, 0) /\ reg = NoReg
        /\ mem = {} /\ file = {} /\ unit = {}

EmitUniverse ==
    /\ ph = "universe"
    /\ PrintT(<<"@@V", ToJson(Universe)>>)
    /\ ph' = "pick"
    /\ UNCHANGED <<par, cfg, reg, mem, file, unit>>

Pick ==
    /\ ph = "pick"
    /\ \E p \in Scripts : par' = p /\ cfg' = K(p, 0)
    /\ ph' = "registry"
    /\ UNCHANGED <<reg, mem, file, unit>>

\* AddClient / RemoveClient / UpdateClient, one call of the history at a time.
RegistryCall ==
    /\ ph = "registry"
    /\ IF reg.done < Len(par.hist)
       THEN /\ reg' = [set |-> ApplyOp(par, reg.set, par.hist[reg.done + 1]), done |-> reg.done + 1]
            /\ ph' = ph
       ELSE /\ reg' = reg /\ ph' = "r1"
    /\ UNCHANGED <<par, cfg, mem, file, unit>>

Record(i, next) ==
    /\ mem'  = mem  \cup {Entry(cfg, q) : q \in {x \in Batch(i) : MechLog(cfg, x)}}
    /\ unit' = unit \cup {Entry(cfg, q) : q \in {x \in Batch(i) : MechCount(cfg, x)}}
    /\ ph' = next
    /\ UNCHANGED <<par, cfg, reg, file>>

FlushTo(next) == /\ file' = file \cup mem /\ mem' = {} /\ ph' = next
                 /\ UNCHANGED <<par, cfg, reg, unit>>

\* SetIgnoreLists + SetClientFlags + SetAnonymise + SetQueryLogEnabled +
\* SetStatsEnabled in one step, as far as the script's plan changes them.
Reconf(i, next) == /\ cfg' = K(par, i) /\ ph' = next
                   /\ UNCHANGED <<par, reg, mem, file, unit>>

Record1 == ph = "r1" /\ Record(0, "flush1")
Flush1  == ph = "flush1" /\ FlushTo("reconf1")
Reconf1 == ph = "reconf1" /\ Reconf(1, "r2")
Record2 == ph = "r2" /\ Record(1, "flush2")
Flush2  == ph = "flush2" /\ FlushTo("reconf2")
Reconf2 == ph = "reconf2" /\ Reconf(2, "r3")
Record3 == ph = "r3" /\ Record(2, "reconf3")
Reconf3 == /\ ph = "reconf3" /\ Reconf(3, "done")
           /\ PrintT(<<"@@V", ToJson(Vector(par))>>)

Next == EmitUniverse \/ Pick \/ RegistryCall \/ Record1 \/ Flush1 \/ Reconf1 \/ Record2 \/ Flush2 \/ Reconf2
          \/ Record3 \/ Reconf3
Spec == Init /\ [][Next]_vars

\* ------------------------------------------------- the statement, as invariants
Stored == mem \cup file
\* Index of the configuration in force in the current phase.
CurIdx == CASE ph \in {"r2", "flush2", "reconf2"} -> 1
            [] ph \in {"r3", "reconf3"} -> 2
            [] ph = "done" -> 3
            [] OTHER -> 0

\* The configurations handed to the harness describe the registry the history
\* of calls really leads to.
RegistryAsConfigured == ph \notin {"universe", "pick", "registry"} => reg.set = cfg.extra

\* "... are never recorded in the query log (resp. statistics), neither in
\* memory nor on disk"
NoIgnoredLogged  == \A e \in Stored : ShouldLog(RecOf(e), QOf(e))
NoIgnoredCounted == \A e \in unit   : ShouldCount(RecOf(e), QOf(e))
\* "... every client address stored ..." -- under the setting in force when
\* the record was made
AnonStored       == \A e \in Stored \cup unit : RecOf(e).anon => IsAnon(e.addr)
\* "... or reported ..." -- for records made since anonymisation was last
\* switched on
AnonReported     == \A e \in Search(cfg) : AnonSince(par, e.q[3], CurIdx) => IsAnon(Reported(cfg, e))
\* "... the log API does not return entries whose name ... is currently ignored"
SearchNames      == \A e \in Search(cfg) : ~IgnoreMatch(cfg.ignQ, QOf(e).name)
\* "... or client is currently ignored" -- as far as the stored entry still
\* identifies its sender (a ClientID, the full address, or an address whose
\* anonymised form is still inside the client's subnet) ...
SearchClientsIdentifiable ==
    \A e \in Search(cfg) : ~(IgnoredClientQ(cfg, QOf(e)) /\ ~Lost(cfg, "q", QOf(e), e.addr))
\* ... and as the statement literally says.  No mechanism can satisfy this one
\* for entries stored anonymised (strict.cfg shows the counterexample).
SearchClientsStrict == \A e \in Search(cfg) : ~IgnoredClientQ(cfg, QOf(e))

\* The verdict tables handed to the harness agree with the intended mechanism:
\* nothing recorded is "no", everything "yes" is recorded / returned.
OracleConsistent ==
    LET logged  == {e.q : e \in Stored}
        counted == {e.q : e \in unit}
        found   == {e.q : e \in Search(cfg)}
        Agree(i) ==
            \A q \in Batch(i) :
                LET c == K(par, i) IN
                /\ IsNo(LogVerdict(c, q))      => q.id \notin logged
                /\ LogVerdict(c, q) = "yes"    => q.id \in logged
                /\ IsNo(CountVerdict(c, q))    => q.id \notin counted
                /\ CountVerdict(c, q) = "yes"  => q.id \in counted
        \* The strict search-time clause is unattainable for entries whose
        \* sender can no longer be identified: excluded here, see
        \* SearchClientsStrict.
        AgreeApi(i) ==
            \A q \in Batch(i) :
                LET rec == K(par, i) IN
                /\ IsNo(ApiVerdict(rec, cfg, q)) /\ ~Lost(cfg, "q", q, StoredAddr(rec, q)) => q.id \notin found
                /\ ApiVerdict(rec, cfg, q) = "yes" => q.id \in found
    IN /\ ph = "reconf1" => Agree(0) /\ AgreeApi(0)
       /\ ph = "done"    => Agree(1) /\ Agree(2) /\ AgreeApi(0) /\ AgreeApi(1) /\ AgreeApi(2)

\* Non-vacuity (every kind of verdict occurs, every reason occurs, every
\* switch transition occurs) is checked by checks/c08.py on the emitted tables.
=============================================================================
