PROPERTY = "G08"
ENTRY = {
        "text": "Two admin state machines of package home that no listed property covers. Install.tla: the first-run wizard (get_addresses, check_config, configure; "
                "restart, factory reset, unwritable configuration location) -- before configuration only the wizard is served, check_config and get_addresses change nothing, "
                "configure checks its parameters again and either installs completely (administrator, configuration file, services, wizard closed with 403, normal API "
                "behind the new credentials) or changes nothing, and a failed attempt can be repeated. TLSSettings.tla: /control/tls/status|validate|configure over abstract "
                "certificates (trusted chain, self-signed, expired, not yet valid, other name, no PEM, missing file) given inline or as files -- validate and status change "
                "nothing, configure puts in force only what validates (enabled settings only with a complete matching pair; DNS must stay served), answers with the same "
                "status fields as validate, never returns the private key, a refused configure leaves everything as it was, disabling keeps the stored material and stops "
                "serving, settings survive a restart through the written file. The requirement is a list of invariants quantifying over the outgoing transitions of every "
                "reachable state; TLC explores all histories over the request universes (17 + 20 states, 4846 + 1920 (state, label) vectors with their sets of admissible "
                "outcomes). The Go harness boots package home's globals by a transcription of run() (first run / configured installation; restart = cleanup() + boot over the "
                "same directory), drives the real handlers through the real mux and walks label-covering tours, comparing after every step the projection (firstRun, accounts, "
                "configuration file content, bind settings, DNS running, probe route without / with credentials, wizard open; settings in force via GET status, tls section on "
                "disk, what HTTPS would serve) and the reply (code, check_config verdicts, validation status fields) with the emitted outcomes; seeded random longer histories "
                "over a larger universe are validated by TraceInstall.tla / TraceTLSSettings.tla.",
        "design_ref": "DESIGN.md section 5 item 9; notes/G08.md",
        "note": "Trusted: TLC; the transcription of run() in the harness (boot/teardown), the projection and concretisation functions (ports, accounts, certificate ids by subject CN, "
                "key ids by content), the test PKI trusted through SSL_CERT_FILE. No web listener is started (what HTTPS would serve is read from web.httpsServer as home's own "
                "tests do); the plain DNS server is really started on a picked loopback port. set_static_ip / autofix are never requested. Seven findings are open "
                "(known_findings/G08.jsonl), six with proposed fixes; behaviours end at a known finding (coverage.truncated_by_known_finding).",
        "technique": "TLA+ state machines with nondeterministic outcome sets checked by TLC; exhaustive (state, label) tours on the real handlers + TLC trace validation of random histories",
    }
