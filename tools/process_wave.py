#!/usr/bin/env python3
"""process_wave.py <outsuffix> <Cxx>... : confirm + check + store every seeded change of /tmp/atk-cxx-out<suffix>/<i>/.
Properties run in parallel (one process each), changes of one property sequentially."""
import glob, json, os, re, subprocess, sys
from concurrent.futures import ThreadPoolExecutor
V = "/verif"
PREFIX = os.environ.get("ATK_PREFIX", "atk-")

def guess(dirp):
    readme = open(os.path.join(dirp, "README.md")).read() if os.path.exists(os.path.join(dirp, "README.md")) else ""
    demo = open(os.path.join(dirp, "demo_test.go")).read()
    pkgname = re.search(r"^package (\w+)", demo, re.M).group(1)
    cands = re.findall(r"\./(internal/[\w/]+?)/?(?:\s|`|$|\.\.\.)", readme)
    cands = [c.rstrip("/") for c in cands if not c.endswith("...")]
    # prefer a candidate whose last element matches the demo's package clause
    for c in cands:
        if c.split("/")[-1] == pkgname.replace("_test", ""):
            return c, ("-race" in readme and re.search(r"go test[^\n`]*-race", readme) is not None)
    patch = open(os.path.join(dirp, "patch.diff")).read()
    dirs = re.findall(r"^\+\+\+ b/(internal/[\w/]+)/[\w.]+$", patch, re.M)
    for d in dirs:
        if d.split("/")[-1] == pkgname.replace("_test", ""):
            return d, False
    return (cands or dirs or ["internal/" + pkgname])[0], False

def one(prop, suffix):
    low = prop.lower()
    wt = "/tmp/%s%s" % (PREFIX, low)
    head = subprocess.run(["git", "-C", "/repo", "rev-parse", "HEAD"], capture_output=True, text=True).stdout.strip()
    subprocess.run(["git", "-C", wt, "reset", "-q", "--hard"])
    subprocess.run(["git", "-C", wt, "checkout", "-q", "--detach", head])
    out = []
    existing = [int(os.path.basename(d).split("-")[1]) for d in glob.glob(os.path.join(V, "seeded", prop + "-*"))]
    n = max(existing or [0])
    for d in sorted(glob.glob("/tmp/%s%s-out%s/[0-9]*" % (PREFIX, low, suffix))):
        if not os.path.exists(os.path.join(d, "patch.diff")) or not os.path.exists(os.path.join(d, "demo_test.go")):
            continue
        n += 1
        pkg, race = guess(d)
        cmd = ["python3", os.path.join(V, "tools", "keep_seeded.py"), "%s-%d" % (prop, n), prop, d, wt, pkg] + (["-race"] if race else [])
        p = subprocess.run(cmd, capture_output=True, text=True, cwd=V)
        out.append("%s-%d [%s%s] %s" % (prop, n, pkg, " -race" if race else "", (p.stdout + p.stderr).strip().replace("\n", " ")[:260]))
    return out

if __name__ == "__main__":
    suffix = sys.argv[1]
    props = sys.argv[2:]
    with ThreadPoolExecutor(max_workers=len(props)) as ex:
        for res in ex.map(lambda p: one(p, suffix), props):
            for l in res:
                print(l, flush=True)
