\* Same as TraceProtection.cfg; one name per concurrent shard (see checks/g04.py validate).
SPECIFICATION Spec
