SPECIFICATION Spec
CONSTANTS
  MaxEntry = 4
  BufSize = 12
  DepthLimit = 100
  EmptyFileSeek = {"ioerr", "tooEarly"}
  MaxLines = 4
  MinLen = 1
  MaxLen = 4
  SkipEmpty = TRUE
VIEW View
PROPERTY Refines
