---------------------------- MODULE TraceMigrate ----------------------------
(***************************************************************************)
(* Direction B for C13.  The configuration upgrade is a function of one    *)
(* document, so a "trace" is a list of inputs chosen by the Go driver from *)
(* a larger universe than Migrate.tla enumerates (two to five simultaneous *)
(* deviations of ten kinds off a golden file, seeded).  Each line is       *)
(* evaluated with Migrate.tla's own operators: the invariants of the       *)
(* module are checked on it, and the admissible outcome set is handed back *)
(* to the harness, which runs the real code on the document and compares.  *)
(***************************************************************************)
EXTENDS Migrate

Trace == ndJsonDeserialize("trace.ndjson")

TNext == \/ /\ st = "pick"
            /\ \E i \in DOMAIN Trace : st' = "line" /\ vec' = [v |-> Trace[i].v, i |-> i]
         \/ /\ st = "line"
            /\ Finish("trace", vec.v, Trace[vec.i].devs)
\* The trace lines alone ...
TSpec == Init /\ [][TNext]_vars
\* ... or together with Migrate.tla's own enumeration in one TLC run (one JVM
\* start, the module's constants evaluated once): what ./check runs.
AllSpec == Init /\ [][Next \/ TNext]_vars
=============================================================================
