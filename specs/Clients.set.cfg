SPECIFICATION Spec
CONSTANTS
  U <- USet
  W = 4
VIEW view
INVARIANTS TypeOK UniqueOwner Precedence OwnSettingsOnlyWhenOptedOut ResolvesToOwnerOrNone
PROPERTY RejectedLeavesUnchanged
