SPECIFICATION Spec
