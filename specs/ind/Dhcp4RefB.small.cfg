SPECIFICATION Spec
CONSTANTS
  Macs = {"m1", "m2"}
  Pool = {1, 2}
  Outs = {3}
  GW = 0
  Far = 4
  ReqHosts = {"", "h1"}
  StaticHosts = {"", "h1"}
  MaxStatic = 1
  LeaseT = 1
  GenNameOf <- MCGenNameOf
INVARIANTS IndInvB Safety OrigInvs
PROPERTIES OrigSpec StaticsStableP
