"""G09 -- system composition: AdGuardHome.tla against the fully wired server (growth item).

specs/AdGuardHomeCore.tla composes AccessCore, ClientsCore, RewritesCore,
DnsPipelineCore/RuleEngine and IgnoreAnonCore over one shared state record (the
registry feeds the pipeline's settings, the log's and statistics' ignore
decisions and the name the log shows; the access lists gate everything; the
pipeline's outcome feeds the log entry and the statistics category).

1. TLC checks specs/AdGuardHome.tla exhaustively over all histories of at most
   three operations (<= 2 admin calls, <= 2 queries) from the base
   configurations, with the statement (notes/G09.md) as invariants; a vacuity
   probe lists what every action did from the initial states.
2. Direction A: the universe of admin calls and queries TLC prints is turned
   into long histories by a seeded planner that covers (admin call, query)
   pairs; the Go harness executes them on the really booted system (admin API
   through the real mux, queries over real UDP/TCP sockets from the clients'
   loopback addresses, DoH + ClientID through the mux) and records reply,
   upstream questions, GET /control/querylog and GET /control/stats after
   every step; TLC (TraceAdGuardHome.tla, same operators) decides.
3. Direction B: the Go driver draws random histories from a larger universe;
   same recording, same judge.
4. A rejected line counts only when the whole history, replayed on a freshly
   booted system (longer time-outs), is rejected at the same step again.
"""
import collections
import json
import os
import random
import subprocess
import threading
import time

import vlib

PKG = "internal/home"
FILES = ["zz_verif_common_test.go", "zz_verif_g09_test.go"]
SHIM = "internal/querylog/zz_verif_g09_shim.go"

KINDS = {"client_add", "client_update", "client_delete", "access_set", "set_rules", "rewrite_add",
         "rewrite_delete", "blocked_services", "protection", "filtering", "qlog_config", "stats_config",
         "qlog_clear", "stats_reset", "query"}
REASONS = {"NotFilteredNotFound", "NotFilteredWhiteList", "FilteredBlackList", "FilteredBlockedService", "Rewrite"}


# ------------------------------------------------------------------- TLC side
def universe(ctx):
    """The universe of operations and the vacuity probe (every transition out of
    an initial state of the thorough universe)."""
    r = ctx.tlc("AdGuardHome", "AdGuardHome.universe.cfg", workers=2, timeout=300, heap="2g")
    uni = [v for v in r["vectors"] if v.get("k") == "universe"]
    edges = [v for v in r["vectors"] if v.get("k") == "edge"]
    if len(uni) != 1 or not edges:
        raise vlib.Inconclusive("AdGuardHome.universe.cfg: %d universe vectors, %d edges" % (len(uni), len(edges)))
    kinds = {e["op"] for e in edges}
    if kinds != KINDS:
        raise vlib.Inconclusive("vacuous: actions never taken from the initial states: %s" % sorted(KINDS - kinds))
    q = [e["out"] for e in edges if e["op"] == "query"]
    need = {
        "dropped": any(o["cls"] == "drop" for o in q),
        "refused": any(o["rcode"] == "REFUSED" and not o["served"] for o in q),
        "served but not logged": any(o["served"] and not o["logged"] for o in q),
        "served but not counted": any(o["served"] and not o["counted"] for o in q),
        "cname": any(o["cname"] for o in q),
        "admin call refused": any(e["op"] != "query" and e["out"]["cls"] == "err" for e in edges),
    }
    for rs in REASONS:
        need["reason " + rs] = any(o["reason"] == rs for o in q)
    missing = [k for k, v in need.items() if not v]
    if missing:
        raise vlib.Inconclusive("vacuous: outcomes never produced from the initial states: %s" % missing)
    return uni[0], edges


NEG = {"neglog": "LogExactlyOnce", "negcount": "StatsTotals", "negprot": "EffectOfSettings"}


def model_check(ctx, out):
    """The exhaustive run, then the three deliberately mis-wired compositions:
    each must violate the invariant that speaks of what it breaks."""
    try:
        cfg = "AdGuardHome.mcq.cfg" if ctx.quick else "AdGuardHome.mct.cfg"
        out["mc"] = ctx.tlc("AdGuardHome", cfg, workers=6, timeout=1500, heap="6g")
        out["neg"] = {}
        for n, inv in NEG.items():
            x = ctx.tlc("AdGuardHome", "AdGuardHome.%s.cfg" % n, workers=1, timeout=300, heap="2g", expect_violation=True)
            if x["violated"] != inv:
                raise vlib.Inconclusive("negative configuration %s: expected %s to be violated, got %s" % (n, inv, x["violated"]))
            out["neg"][n] = x["violated"]
    except Exception as e:        # noqa: BLE001
        out["mc"] = e


# ------------------------------------------------------------------- planner
def family(op):
    k = op["k"]
    if k.startswith("client_"):
        return "clients"
    if k.startswith("rewrite_"):
        return "rewrite"
    return k


def degrading(op):
    """Operations after which most queries look alike (nobody is served,
    nothing is recorded, nothing is filtered): the planner does not stay there."""
    k = op["k"]
    return ((k == "access_set" and op["allowed"]) or (k in ("qlog_config", "stats_config") and not op["enabled"])
            or (k in ("protection", "filtering") and not op["on"]))


def plan(uni, rng, n_hist, hist_len, first_h):
    """Histories over TLC's universe.  An admin call (sometimes two) is followed
    by a burst of queries chosen to cover (admin call, query) pairs not seen yet;
    the log is cleared before it grows beyond what one observation should carry."""
    admin, queries = uni["admin"], uni["queries"]
    fams = collections.defaultdict(list)
    for i, op in enumerate(admin):
        fams[family(op)].append(i)
    famnames = sorted(fams)
    clear = next(i for i, op in enumerate(admin) if op["k"] == "qlog_clear")
    uncovered = {(a, q) for a in range(len(admin)) for q in range(len(queries))}
    total_pairs = len(uncovered)
    left = collections.Counter(a for a, _ in uncovered)
    hists = []
    for hn in range(n_hist):
        ops, since_clear, degraded = [], 0, {}
        while len(ops) < hist_len:
            last = None
            for _ in range(1 if rng.random() < 0.75 else 2):
                stale = [f for f, n in degraded.items() if n >= 2]
                if stale:
                    f = rng.choice(stale)
                    cands = [i for i in fams[f] if not degrading(admin[i])]
                elif rng.random() < 0.5:
                    f = rng.choice(famnames)
                    cands = fams[f]
                else:
                    # the family with the most (admin call, query) pairs still to follow up
                    f = max(famnames, key=lambda x: (sum(left[i] for i in fams[x]), rng.random()))
                    cands = fams[f]
                if rng.random() < 0.8:
                    best = max(left[i] for i in cands)
                    cands = [i for i in cands if left[i] == best]
                last = rng.choice(cands)
                ops.append(admin[last])
                if degrading(admin[last]):
                    degraded[f] = 0
                else:
                    degraded.pop(f, None)
                if admin[last]["k"] == "qlog_clear":
                    since_clear = 0
            burst = rng.randint(3, 6)
            fresh = [q for q in range(len(queries)) if (last, q) in uncovered]
            rng.shuffle(fresh)
            picks = fresh[:burst]
            while len(picks) < burst:
                picks.append(rng.randrange(len(queries)))
            for q in picks:
                if (last, q) in uncovered:
                    uncovered.discard((last, q))
                    left[last] -= 1
                ops.append(queries[q])
            since_clear += burst
            for f in degraded:
                degraded[f] += 1
            if since_clear > 24:
                ops.append(admin[clear])
                since_clear = 0
        hists.append({"h": first_h + hn, "fresh": False, "ops": ops})
    return hists, total_pairs - len(uncovered), total_pairs


def base_histories(uni, rng, first_h):
    """Every query of the universe from every base configuration of the model
    (the query transitions of the vacuity probe), in a seeded order."""
    out = []
    for n, ops in enumerate(uni["bases"]):
        qs = list(uni["queries"])
        rng.shuffle(qs)
        out.append({"h": first_h + n, "fresh": False, "ops": list(ops) + qs})
    return out


# -------------------------------------------------------------------- Go side
class Crash(Exception):
    """The test process (= the server) went down twice on the same input."""

    def __init__(self, tag, rows, log):
        Exception.__init__(self, tag)
        self.tag, self.rows, self.log = tag, rows, log


def build_binary(ctx):
    overlay = {os.path.join(vlib.REPO, PKG, f): os.path.join(vlib.HARNESS, PKG, f) for f in FILES}
    # A non-test shim in package querylog: "is a flush of the memory buffer in
    # progress" for the systems booted with a small buffer (no behaviour changes).
    overlay[os.path.join(vlib.REPO, SHIM)] = os.path.join(vlib.HARNESS, SHIM)
    ov = ctx.path("g09_overlay.json")
    with open(ov, "w") as fh:
        json.dump({"Replace": overlay}, fh)
    out = ctx.path("home.g09.test")
    p = subprocess.run(["go", "test", "-c", "-overlay", ov, "-vet=off", "-o", out, "./" + PKG], cwd=vlib.REPO,
                       env=vlib.go_env(), capture_output=True, text=True, timeout=900)
    if p.returncode != 0 or not os.path.exists(out):
        raise vlib.Inconclusive("G09 harness build failed:\n" + (p.stdout + p.stderr)[-3000:])
    return out


def run_go(ctx, binary, test, tag, env, timeout):
    """One test process = one boot of the system.  Returns the trace rows."""
    d = ctx.path("run_" + tag)
    os.makedirs(d, exist_ok=True)
    outp = os.path.join(d, "trace.ndjson")
    e = vlib.go_env({"VERIF_DIR": d, "VERIF_OUT": outp, "VERIF_SEED": str(ctx.seed)})
    e.update({k: str(v) for k, v in env.items()})
    logp = os.path.join(d, "log.txt")
    with open(logp, "w") as fh:
        try:
            p = subprocess.run([binary, "-test.run", "^%s$" % test, "-test.timeout", "%ds" % timeout], cwd=d, env=e,
                               stdout=fh, stderr=subprocess.STDOUT, timeout=timeout + 30)
            rc = p.returncode
        except subprocess.TimeoutExpired:
            rc = -9
    rows = vlib.read_ndjson(outp)
    if (rc != 0 or not rows) and not env.get("_retried"):
        # Two processes booting at once can pick the same free port: once more.
        time.sleep(0.5)
        return run_go(ctx, binary, test, tag, dict(env, _retried=1), timeout)
    if rc != 0 or not rows:
        log = open(logp, errors="replace").read()
        if rows and ("panic:" in log or "fatal error:" in log) and "zzG09" not in log.split("goroutine", 1)[0]:
            raise Crash(tag, rows, log)
        raise vlib.Inconclusive("G09 harness run %s failed (rc=%s):\n%s" % (tag, rc, log[-3000:]))
    return outp, rows


def memsize(p):
    """Every second system is booted with a memory buffer of 6 entries, so that
    the log it serves comes from the file and from memory."""
    return 6 if p % 2 == 1 else 1000


def run_scripts(ctx, binary, hists, tag, dropwait=400, rulewait=3000, timeout=600, mem=1000):
    inp = ctx.path("hist_%s.ndjson" % tag)
    vlib.write_ndjson(inp, hists)
    return run_go(ctx, binary, "TestZZVerifG09Run", tag,
                  {"VERIF_IN": inp, "VERIF_G09_DROPWAIT": dropwait, "VERIF_G09_RULEWAIT": rulewait,
                   "VERIF_G09_MEMSIZE": mem}, timeout)


def run_random(ctx, binary, tag, first_h, n_hist, steps, timeout=600, mem=1000):
    return run_go(ctx, binary, "TestZZVerifG09Random", tag,
                  {"VERIF_G09_HISTS": n_hist, "VERIF_G09_STEPS": steps, "VERIF_G09_FIRSTH": first_h,
                   "VERIF_G09_DROPWAIT": 400, "VERIF_G09_MEMSIZE": mem}, timeout)


def parallel(jobs, width):
    """jobs: list of (key, fn).  Runs at most `width` at a time; returns {key: result}; re-raises the first error."""
    res, errs = {}, []
    sem = threading.Semaphore(width)

    def one(k, fn):
        with sem:
            try:
                res[k] = fn()
            except Exception as e:        # noqa: BLE001
                errs.append(e)

    ths = [threading.Thread(target=one, args=j) for j in jobs]
    for t in ths:
        t.start()
    for t in ths:
        t.join()
    if errs:
        raise errs[0]
    return res


# ------------------------------------------------------------------ judging
_slot_lock = threading.Lock()
_slots = list(range(6))


def validate(ctx, path, nrows):
    """TraceAdGuardHome.tla on one trace file.  Returns the rejected lines."""
    with _slot_lock:
        slot = _slots.pop()
    try:
        # One cfg name per concurrent run: vlib derives the scratch directory from it.
        r = ctx.tlc("TraceAdGuardHome", "TraceAdGuardHome.s%d.cfg" % slot, workers=1, timeout=900, heap="3g",
                    extra_files=[(path, "trace.ndjson")])
    finally:
        with _slot_lock:
            _slots.append(slot)
    if not r["vectors"]:
        raise vlib.Inconclusive("TraceAdGuardHome produced no verdict for %s" % path)
    v = r["vectors"][-1]
    if v["n"] != nrows:
        raise vlib.Inconclusive("TraceAdGuardHome consumed %s of %d lines of %s" % (v["n"], nrows, path))
    return v["bad"]


def history_ops(rows, h, upto=None):
    ops = [r["op"] for r in rows if r["h"] == h and r["op"]["k"] != "reset"]
    return ops if upto is None else ops[:upto]


def is_fresh(rows, h):
    return not any(r["h"] == h and r["op"]["k"] == "reset" for r in rows)


def confirm(ctx, binary, kind, tag, rows, bad, mem=1000):
    """Replays the history of a rejected line on a freshly booted system, with
    longer time-outs; if it is accepted there, replays everything the process
    had done before it as well.  Returns (record or None, how)."""
    h, i = bad["h"], bad["i"]
    short = [{"h": h, "fresh": is_fresh(rows, h), "ops": history_ops(rows, h, i)}]
    hs = []
    for r in rows:
        if r["h"] not in hs:
            hs.append(r["h"])
    long = [{"h": x, "fresh": is_fresh(rows, x), "ops": history_ops(rows, x, i if x == h else None)} for x in hs[:hs.index(h) + 1]]
    for how, hists in (("alone", short), ("with-predecessors", long)):
        if how == "with-predecessors" and len(long) == 1:
            break
        p2, rows2 = run_scripts(ctx, binary, hists, "%s_confirm_%s_%d" % (tag, how[:5], h), dropwait=1200, rulewait=8000, mem=mem)
        bad2 = [b for b in validate(ctx, p2, len(rows2)) if b["h"] == h]
        if bad2 and bad2[0]["i"] == i and set(bad2[0]["why"]) & set(bad["why"]):
            line = next(r for r in rows2 if r["h"] == h and r["i"] == i)
            return {"kind": kind, "seed": ctx.seed, "tier": ctx.tier, "h": h, "i": i, "why": bad2[0]["why"],
                    "op": line["op"], "observed": line["obs"], "expected": bad2[0]["exp"], "replayed": how,
                    "memsize": mem, "histories": hists}, how
    return None, "not reproduced"


def crashed(ctx, c):
    """The server process died (a panic outside an HTTP handler) in two runs of
    the same input: reported with the operation that was being executed."""
    last = c.rows[-1]
    top = [ln.strip() for ln in c.log.splitlines() if ln.startswith(("panic:", "fatal error:"))][:1]
    frames = [ln.strip() for ln in c.log.splitlines() if ln.startswith("github.com/AdguardTeam/AdGuardHome/internal/") and ".zzG09" not in ln][:4]
    rec = {"kind": "crash", "seed": ctx.seed, "tier": ctx.tier, "trace": c.tag, "h": last["h"], "after_step": last["i"],
           "last_op_completed": last["op"], "panic": top, "frames": frames, "log": c.log[-6000:]}
    ctx.disagreement(None, rec, "the server process went down (twice) after step %d of history %d in run %s: %s at %s" % (
        last["i"], last["h"], c.tag, top, frames[:2]))
    return ctx.finish("model_checking", {"traces_validated_against_impl": 0, "evaluations": len(c.rows), "distinct_nontrivial": 1,
                                         "rule": "run ended by a crash of the server process", "samples": [rec["panic"]], "exhaustive": False})


def describe(rec):
    o, e = rec["observed"], rec["expected"]
    parts = []
    if "reply" in rec["why"] or "error" in rec["why"]:
        parts.append("reply %s asked %s code %s err %r, spec: %s" % (
            json.dumps(o["reply"]), json.dumps(o["asked"]), o["code"], o["err"], json.dumps(e["out"])[:400]))
    if "log" in rec["why"]:
        parts.append("log view (newest first, delta) %s +%d kept, spec: %s" % (
            json.dumps(o["head"][:2])[:500], o["tail"], json.dumps(e["log"][:2])[:600]))
    if "stats" in rec["why"]:
        parts.append("stats %s, spec: %s" % (json.dumps(o["stats"])[:400], json.dumps(e["stats"])[:400]))
    return ("history %d (%s, replayed %s), step %d %s: %s" % (
        rec["h"], rec["kind"], rec["replayed"], rec["i"], json.dumps(rec["op"])[:300], "; ".join(parts)))[:1400]


def classify(rec):
    """Narrow keys of known findings (none so far)."""
    return None


def signature(row):
    """What a step did, for the non-triviality count."""
    op, o = row["op"], row["obs"]
    if op["k"] == "query":
        newest = o["head"][0] if o["head"] else None
        return ("query", op["proto"], op["cid"] != 0, o["reply"]["c"], o["reply"]["rcode"], bool(o["reply"]["cname"]),
                tuple(o["reply"]["addrs"]), newest["reason"] if newest else "", len(o["asked"]))
    return (op["k"], o["code"], len(o["head"]) > 0)


def corrupt_selftest(ctx, path, rows):
    """Binding demonstration run every time: one observed field of a recorded
    trace is changed; TLC must reject exactly that line."""
    idx = next((n for n, r in enumerate(rows) if r["op"]["k"] == "query" and r["obs"]["reply"]["c"] == "answer"
                and r["obs"]["head"] and n >= 10), None)
    if idx is None:
        raise vlib.Inconclusive("no line to corrupt for the binding self-test")
    cut = [json.loads(json.dumps(r)) for r in rows[:idx + 3]]
    cut[idx]["obs"]["stats"]["total"] += 1
    p = ctx.path("corrupt.ndjson")
    vlib.write_ndjson(p, cut)
    bad = validate(ctx, p, len(cut))
    ok = [b for b in bad if b["h"] == cut[idx]["h"] and b["i"] == cut[idx]["i"] and "stats" in b["why"]]
    if not ok:
        raise vlib.Inconclusive("binding self-test: a corrupted statistics total in line %d was not rejected" % (idx + 1))
    cut[idx]["obs"]["stats"]["total"] -= 1
    cut[idx]["obs"]["head"][0]["reason"] = "FilteredSafeBrowsing"
    vlib.write_ndjson(p, cut)
    bad = validate(ctx, p, len(cut))
    ok2 = [b for b in bad if b["h"] == cut[idx]["h"] and b["i"] == cut[idx]["i"] and "log" in b["why"]]
    if not ok2:
        raise vlib.Inconclusive("binding self-test: a corrupted log reason in line %d was not rejected" % (idx + 1))
    return {"line": idx + 1, "rejected_for": [ok[0]["why"], ok2[0]["why"]]}


# ----------------------------------------------------------------------- run
def run(ctx):
    t0 = time.time()
    uni, edges = universe(ctx)
    ctx.log("universe: %d admin calls, %d queries; probe: %d transitions out of the initial states" % (
        len(uni["admin"]), len(uni["queries"]), len(edges)))
    bg = {}
    mc_thread = threading.Thread(target=model_check, args=(ctx, bg))
    mc_thread.start()
    binary = build_binary(ctx)

    rng = random.Random(ctx.seed * 7919 + 13)
    if ctx.quick:
        procs, a_hists, a_len, b_hists, b_len = 3, 5, 120, 5, 100
    else:
        procs, a_hists, a_len, b_hists, b_len = 4, 22, 130, 22, 140
    plans, covered, pairs = [], 0, 0
    hists, covered, pairs = plan(uni, rng, procs * a_hists, a_len, 1)
    bases = base_histories(uni, rng, 900)
    for p in range(procs):
        mine = hists[p * a_hists:(p + 1) * a_hists]
        mine[0]["fresh"] = True       # the first history of a process starts from the boot state
        # the bases' query transitions: on one system with the default log buffer, on one with the small one
        plans.append(mine + ([dict(b, h=b["h"] + 10 * p) for b in bases] if p < 2 else []))
    ctx.log("plan: %d histories, %d steps, %d/%d (admin call, query) pairs followed up" % (
        len(hists), sum(len(h["ops"]) for h in hists), covered, pairs))

    jobs = []
    for p in range(procs):
        jobs.append((("A", p), (lambda p=p: run_scripts(ctx, binary, plans[p], "A%d" % p, timeout=900, mem=memsize(p)))))
        jobs.append((("B", p), (lambda p=p: run_random(ctx, binary, "B%d" % p, 1000 * (p + 1), b_hists, b_len, timeout=900, mem=memsize(p + 1)))))
    try:
        traces = parallel(jobs, 4)
    except Crash as c:
        return crashed(ctx, c)
    ctx.log("recorded %d lines (A %d, B %d) in %.0fs" % (
        sum(len(r) for _, r in traces.values()), sum(len(r) for k, (_, r) in traces.items() if k[0] == "A"),
        sum(len(r) for k, (_, r) in traces.items() if k[0] == "B"), time.time() - t0))

    verdicts = parallel([(k, (lambda k=k: validate(ctx, traces[k][0], len(traces[k][1])))) for k in traces], 4)

    # ---- rejected lines: reproduce on a fresh boot
    nbad, flaky, confirmed = 0, [], []
    for k in sorted(verdicts):
        for b in verdicts[k][:6]:
            nbad += 1
            if len(confirmed) + len(flaky) >= 10:
                continue              # a broken tree: the rest is only counted
            rec, how = confirm(ctx, binary, k[0], "%s%d" % k, traces[k][1], b, mem=memsize(k[1] + (1 if k[0] == "B" else 0)))
            if rec is None:
                flaky.append({"trace": "%s%d" % k, "h": b["h"], "i": b["i"], "why": b["why"]})
                continue
            confirmed.append(rec)
            ctx.disagreement(classify(rec), rec, describe(rec))
        if len(verdicts[k]) > 6:
            nbad += len(verdicts[k]) - 6
    ctx.log("TraceAdGuardHome: %d histories with a rejected line, %d reproduced on a fresh boot, %d not reproduced" % (
        nbad, len(confirmed), len(flaky)))

    # ---- vacuity of the recorded traces
    allrows = {d: [r for k, (_, rows) in traces.items() if k[0] == d for r in rows] for d in ("A", "B")}
    for d, rows in allrows.items():
        kinds = {r["op"]["k"] for r in rows}
        replies = collections.Counter((r["obs"]["reply"]["c"], r["obs"]["reply"]["rcode"]) for r in rows if r["op"]["k"] == "query")
        reasons = {it["reason"] for r in rows for it in r["obs"]["head"]}
        errs = sum(1 for r in rows if r["op"]["k"] != "query" and r["obs"]["code"] == "err")
        if (KINDS - kinds or REASONS - reasons or not replies[("drop", "")] or not replies[("answer", "REFUSED")] or not errs) and not ctx.violations:
            raise vlib.Inconclusive("vacuous traces (%s): kinds missing %s, reasons missing %s, replies %s, refused admin calls %d" % (
                d, sorted(KINDS - kinds), sorted(REASONS - reasons), dict(replies), errs))
    if len(flaky) > 3 and not ctx.violations:
        raise vlib.Inconclusive("%d rejected lines were not reproduced on a fresh boot, e.g. %s" % (len(flaky), flaky[:2]))

    selftest = corrupt_selftest(ctx, *traces[("A", 0)]) if not ctx.violations else None

    mc_thread.join()
    if isinstance(bg.get("mc"), Exception):
        raise bg["mc"]
    mc = bg["mc"]

    sigs = {d: {signature(r) for r in rows} for d, rows in allrows.items()}
    nhist = sum(len({r["h"] for r in rows}) for _, rows in traces.values())
    samples = []
    for d in ("A", "B"):
        for want in ("FilteredBlockedService", "Rewrite"):
            r = next((r for r in allrows[d] if r["op"]["k"] == "query" and r["obs"]["head"] and r["obs"]["head"][0]["reason"] == want), None)
            if r:
                samples.append({"direction": d, "op": r["op"], "reply": r["obs"]["reply"], "asked": r["obs"]["asked"],
                                "newest_log_item": r["obs"]["head"][0], "stats_total": r["obs"]["stats"]["total"]})
    cov = {
        "traces_validated_against_impl": nhist,
        "evaluations": sum(len(r) for _, r in traces.values()),
        "lines_direction_A": len(allrows["A"]), "lines_direction_B": len(allrows["B"]),
        "distinct_nontrivial": len(sigs["A"] | sigs["B"]),
        "rule": "an evaluation is one executed step (admin call or DNS query) on the booted system whose reply, upstream questions, "
                "query-log view and statistics were judged by TLC; non-trivial = distinct (operation kind, transport, ClientID present, "
                "reply class, rcode, CNAME, answer addresses, reason of the newest log item, number of upstream questions) signatures",
        "pairs_admin_call_then_query_covered": covered, "pairs_total": pairs,
        "universe_admin_calls": len(uni["admin"]), "universe_queries": len(uni["queries"]),
        "probe_transitions": len(edges),
        "histories_with_rejected_line": nbad, "reproduced": len(confirmed), "unreproduced": flaky,
        "binding_demo": selftest, "negative_configurations": bg.get("neg"),
        "exhaustive": False,
        "samples": samples[:4],
        "states": mc["distinct"], "transitions": mc["generated"],
    }
    return ctx.finish("model_checking", cov, assumptions=[
        "TLC; conc()/abs() of zz_verif_g09_test.go (addresses 127.(8+n/2).0.(n%2), names, tokens of answer addresses)",
        "one boot per test process (the real initContextClients, setupDNSFilteringConf, registerControlHandlers, initDNS, startDNSServer); "
        "mock UDP upstream answering A/AAAA with a sentinel; DoH through the admin mux with tls.allow_unencrypted_doh, the sender's address as RemoteAddr",
        "silence over UDP for 400 ms (1.2 s in the confirmation run) while some access list is non-empty, for 4 s otherwise, is 'no reply'",
        "after set_rules the harness waits (bounded) until a marker rule posted in the same call is in the engines; nothing is rebuilt on its behalf",
        "histories replayed are paths planned by a seeded planner over TLC's universe (pair coverage), not the exhaustively enumerated bounded histories",
    ])


def replay(ctx, path):
    rec = json.load(open(path))["record"]
    ctx.seed, ctx.tier = rec["seed"], rec.get("tier", "quick")
    if rec["kind"] == "crash":
        print(json.dumps({k: rec[k] for k in ("trace", "h", "after_step", "panic", "frames")}, indent=1))
        print("a crash is replayed by running the check again with VERIF_SEED=%d (%s tier)" % (rec["seed"], rec["tier"]))
        return 1
    binary = build_binary(ctx)
    p, rows = run_scripts(ctx, binary, rec["histories"], "replay", dropwait=1200, rulewait=8000, mem=rec.get("memsize", 1000))
    bad = [b for b in validate(ctx, p, len(rows)) if b["h"] == rec["h"]]
    hit = bool(bad) and bad[0]["i"] == rec["i"]
    line = next((r for r in rows if r["h"] == rec["h"] and r["i"] == rec["i"]), None)
    print("history %d step %d (%d earlier histories replayed first), op %s" % (
        rec["h"], rec["i"], len(rec["histories"]) - 1, json.dumps(rec["op"])))
    if line:
        print("observed: " + json.dumps({k: line["obs"][k] for k in ("code", "reply", "asked", "head", "tail", "stats", "err")})[:3000])
    if hit:
        print("rejected for %s; spec expected: %s" % (bad[0]["why"], json.dumps(bad[0]["exp"])[:3000]))
    print("verdict: " + ("DISAGREEMENT" if hit else "accepted"))
    return 1 if hit else 0
