------------------------------ MODULE DnsFront ------------------------------
(***************************************************************************)
(* G01 -- the front stages of the DNS request pipeline, exhaustively over  *)
(* a finite universe.                                                      *)
(*                                                                         *)
(* The verdict for a request depends on the CURRENT configuration (server  *)
(* settings, lease table) and the request only -- nothing a server has     *)
(* answered or been configured with before may influence it.  The state    *)
(* of the model is therefore the configuration; one step (Configure)       *)
(* reaches any configuration of the universe, computes the verdict table   *)
(* of that configuration (every request of the universe), checks the       *)
(* sentences of the statement on it (invariant Statements) and prints it   *)
(* for the Go harness, which walks the real server through the             *)
(* configurations in seeded orders (real reconfigurations in between) and  *)
(* replays every table.  Every configuration of a group is reachable from  *)
(* every other one by one reconfiguration, and the verdict must not depend *)
(* on the path: an outcome that is admissible on a fresh server but not on *)
(* the live one is reported as history-dependent, with the shortest        *)
(* history the harness could find (known finding                           *)
(* dns64-prefix-stale-after-disable was found this way).                   *)
(*                                                                         *)
(* Three strata of configurations:                                         *)
(*  D  everything but the encryption settings: aaaa_disabled x refuse_any  *)
(*     x handle_ddr x DHCP on/off x lease table x local domain x private   *)
(*     networks x use_private_ptr_resolvers x blocklist, all requests;     *)
(*  T  the encryption settings (which endpoints, certificate with or       *)
(*     without an IP address) x handle_ddr x aaaa_disabled x refuse_any x  *)
(*     blocklist, the requests that concern DDR;                           *)
(*  N  DNS64: off / Well-Known Prefix / two custom prefixes x              *)
(*     aaaa_disabled x use_private_ptr_resolvers x blocklist; the requests *)
(*     are crossed with what the upstream answers (AAAA records inside /   *)
(*     outside the exclusion prefixes, none, NXDOMAIN; A records or none). *)
(***************************************************************************)
EXTENDS Sequences, Naturals, FiniteSets, TLC, Json, DnsFrontCore

CONSTANTS Full       \* TRUE: both local domains and both lease-table variants with leases (thorough)

VARIABLES phase, cfg, grp
vars == <<phase, cfg, grp>>

\* ------------------------------------------------------------- the universe
LAN  == <<"lan">>
HOME == <<"home", "internal">>
Suffixes == IF Full THEN {LAN, HOME} ELSE {LAN}
Other(s) == IF s = LAN THEN HOME ELSE LAN

\* address tokens: a1 a2 inside 192.168.0.0/16 (private in both network sets),
\* a3 inside 10.0.0.0/8 (private by default only), a4 public;
\* z1 = the zone 168.192.in-addr.arpa
R1 == <<"5", "10", "168", "192", "in-addr", "arpa">>
R2 == <<"99", "10", "168", "192", "in-addr", "arpa">>
R3 == <<"7", "0", "0", "10", "in-addr", "arpa">>
R4 == <<"4", "4", "8", "8", "in-addr", "arpa">>
Z1 == <<"168", "192", "in-addr", "arpa">>

\* IPv6 reverse names (32 nibbles): w1 = 64:ff9b::102:304 under the Well-Known
\* Prefix, c1 = 2001:67c:27e4:1064::102:305 under the first custom prefix,
\* p6 = 2606:4700::1111 under no DNS64 prefix.
RW == <<"4","0","3","0","2","0","1","0","0","0","0","0","0","0","0","0","0","0","0","0","0","0","0","0","b","9","f","f","4","6","0","0", "ip6", "arpa">>
RC == <<"5","0","3","0","2","0","1","0","0","0","0","0","0","0","0","0","4","6","0","1","4","e","7","2","c","7","6","0","1","0","0","2", "ip6", "arpa">>
RP == <<"1","1","1","1","0","0","0","0","0","0","0","0","0","0","0","0","0","0","0","0","0","0","0","0","0","0","7","4","6","0","6","2", "ip6", "arpa">>

\* mode = the DNS64 setting: "off", "wkp" (on, no prefix configured), "custom".
\* PTR questions under the Well-Known Prefix count whatever is configured.
RevOf(n, nets, mode) ==
    CASE n = R1 -> [ok |-> TRUE, priv |-> TRUE, a |-> "a1", n64 |-> FALSE]
      [] n = R2 -> [ok |-> TRUE, priv |-> TRUE, a |-> "a2", n64 |-> FALSE]
      [] n = R3 -> [ok |-> TRUE, priv |-> (nets = "default"), a |-> "a3", n64 |-> FALSE]
      [] n = R4 -> [ok |-> TRUE, priv |-> FALSE, a |-> "a4", n64 |-> FALSE]
      [] n = Z1 -> [ok |-> TRUE, priv |-> TRUE, a |-> "z1", n64 |-> FALSE]
      [] n = RW -> [ok |-> TRUE, priv |-> FALSE, a |-> "w1", n64 |-> (mode # "off")]
      [] n = RC -> [ok |-> TRUE, priv |-> FALSE, a |-> "c1", n64 |-> (mode = "custom")]
      [] n = RP -> [ok |-> TRUE, priv |-> FALSE, a |-> "p6", n64 |-> FALSE]
      [] OTHER  -> [ok |-> FALSE, priv |-> FALSE, a |-> "", n64 |-> FALSE]

\* What the upstream answers.  AAAA tokens: o1 outside every prefix, w1 under
\* the Well-Known Prefix, c1 / c2 under the first / second custom prefix; a
\* configured prefix set replaces the Well-Known Prefix.
Excl(tok, mode) == CASE mode = "wkp" -> tok = "w1" [] mode = "custom" -> tok \in {"c1", "c2"} [] OTHER -> FALSE
A6Variants == << <<"o1">>, <<>>, <<"w1">>, <<"c1">>, <<"c2">>, <<"w1", "o1">>, <<"c1", "o1">>, <<"c1", "c2">> >>
\* The default script: the sentinel answers (one AAAA outside, one A).
Up0 == [nx |-> FALSE, a6 |-> <<"o1">>, a4 |-> <<"s4">>]
UpVariants ==
    [i \in 1..(2 * Len(A6Variants) + 2) |->
        IF i <= 2 * Len(A6Variants)
        THEN [nx |-> FALSE, a6 |-> A6Variants[((i - 1) \div 2) + 1], a4 |-> IF i % 2 = 1 THEN <<"s4">> ELSE <<>>]
        ELSE [nx |-> TRUE, a6 |-> <<>>, a4 |-> IF i % 2 = 1 THEN <<"s4">> ELSE <<>>]]
SeqSet(q) == {q[i] : i \in DOMAIN q}
UpOf(u, mode) == [nx |-> u.nx, a6 |-> {[a |-> t, excl |-> Excl(t, mode)] : t \in SeqSet(u.a6)}, a4 |-> SeqSet(u.a4)]

\* clients: "in" 192.168.10.77, "alt" a loopback address (private by default
\* only), "pub" a public address
CliPriv(cli, nets) == CASE cli = "in" -> TRUE [] cli = "alt" -> (nets = "default") [] OTHER -> FALSE
Clients == <<"in", "alt", "pub">>

LeaseSets == <<{}, {[h |-> "printer", a |-> "a1"]},
               {[h |-> "printer", a |-> "a1"], [h |-> "nas", a |-> "a3"]}>>

\* Question names for local domain s: the special names with sub- and
\* look-alike names, DHCP host names (leased, unknown, deeper, look-alikes of
\* the local domain), ordinary names, reverse names.
NamesFor(s) ==
    << CANARY, <<"www">> \o CANARY, <<"xuse-application-dns", "net">>,
       HEALTH, <<"x">> \o HEALTH,
       DDRNAME, <<"x">> \o DDRNAME, DDRNAME \o <<"example", "com">>, <<"resolver", "arpa">>,
       <<"printer">> \o s, <<"nas">> \o s, <<"ghost">> \o s, <<"phantom">> \o s,
       <<"a", "printer">> \o s, s,
       <<"printer", "x" \o Head(s)>> \o Tail(s), <<"printer">> \o s \o <<"example", "com">>,
       <<"printer">> \o Other(s),
       <<"plain", "example">>, <<"blocked", "example">>, <<"sub", "blocked", "example">>,
       R1, R2, R3, R4, Z1 >>
DDRNames == << DDRNAME, <<"x">> \o DDRNAME, DDRNAME \o <<"example", "com">>, <<"resolver", "arpa">>,
               CANARY, <<"plain", "example">> >>
QTypes == <<"A", "AAAA", "ANY", "SVCB", "PTR", "SOA", "TXT">>

\* The requests of a name list in one spelling, as a sequence (name-major).
ReqsOf(names, canon) ==
    LET nq == Len(QTypes)  nc == Len(Clients)
    IN [i \in 1..(Len(names) * nq * nc) |->
          [name  |-> names[((i - 1) \div (nq * nc)) + 1],
           qt    |-> QTypes[(((i - 1) \div nc) % nq) + 1],
           cli   |-> Clients[((i - 1) % nc) + 1],
           canon |-> canon, up |-> Up0]]

\* Stratum N: names x {A, AAAA, PTR} x {in, pub} x upstream scripts.
Names64(s) == << <<"plain", "example">>, <<"blocked", "example">>, <<"printer">> \o s, <<"ghost">> \o s, RW, RC, RP >>
QTypes64 == <<"A", "AAAA", "PTR">>
Clients64 == <<"in", "pub">>
Reqs64(s) ==
    LET names == Names64(s)  nq == Len(QTypes64)  nc == Len(Clients64)  nu == Len(UpVariants)
    IN [i \in 1..(Len(names) * nq * nc * nu) |->
          [name  |-> names[((i - 1) \div (nq * nc * nu)) + 1],
           qt    |-> QTypes64[(((i - 1) \div (nc * nu)) % nq) + 1],
           cli   |-> Clients64[(((i - 1) \div nu) % nc) + 1],
           canon |-> TRUE, up |-> UpVariants[((i - 1) % nu) + 1]]]

\* Names that are also asked in a spelling with upper-case letters: the special
\* names (the statement is silent there), a DHCP host name and a reverse name
\* (which must be recognised in any spelling), an ordinary and a blocked name.
CaseNamesFor(s) == << CANARY, HEALTH, DDRNAME, <<"printer">> \o s, <<"ghost">> \o s, R1,
                      <<"plain", "example">>, <<"blocked", "example">> >>

SetName(str, s) == str \o ":" \o s[1]
ReqSet(str, s) ==
    IF str = "T" THEN ReqsOf(DDRNames, TRUE) \o ReqsOf(<<DDRNAME, CANARY>>, FALSE)
    ELSE IF str = "N" THEN Reqs64(s)
    ELSE ReqsOf(NamesFor(s), TRUE) \o ReqsOf(CaseNamesFor(s), FALSE)

\* The blocklist: a leased and an unknown host name of each local domain, the
\* special names, an ordinary name.
BlockList == {<<"printer">> \o LAN, <<"ghost">> \o LAN, <<"printer">> \o HOME, <<"ghost">> \o HOME,
              CANARY, HEALTH, DDRNAME, <<"blocked", "example">>}
BlockSets == <<{}, BlockList>>

NoTLS  == [on |-> FALSE, doh |-> "", dot |-> "", doq |-> "", certIP |-> FALSE]
AllTLS == [on |-> TRUE, doh |-> "443", dot |-> "853", doq |-> "784", certIP |-> TRUE]
TLSVariants ==
    {NoTLS} \cup {[on |-> TRUE, doh |-> h, dot |-> t, doq |-> q, certIP |-> ip] :
                    h \in {"", "443"}, t \in {"", "853"}, q \in {"", "784"}, ip \in BOOLEAN}

NoCfg == [aaaaOff |-> FALSE, refuseAny |-> FALSE, ddr |-> FALSE, tls |-> NoTLS, dhcp |-> FALSE,
          leases |-> {}, suffix |-> LAN, privPTR |-> FALSE, nets |-> "default", blocked |-> {},
          dns64 |-> "off"]

LeaseIx == IF Full THEN {1, 2, 3} ELSE {1, 3}

\* ------------------------------------------------------------------ verdicts
Norm(c, r) == [name |-> r.name, canon |-> r.canon, qt |-> r.qt,
               cpriv |-> CliPriv(r.cli, c.nets), rev |-> RevOf(r.name, c.nets, c.dns64),
               up |-> UpOf(r.up, c.dns64)]
CoreCfg(c) == [aaaaOff |-> c.aaaaOff, refuseAny |-> c.refuseAny, ddr |-> c.ddr, tls |-> c.tls,
               dhcp |-> c.dhcp, leases |-> c.leases, suffix |-> c.suffix, privPTR |-> c.privPTR,
               blocked |-> c.blocked, dns64 |-> (c.dns64 # "off")]
Table(c, reqs) == [i \in DOMAIN reqs |-> Verdict(CoreCfg(c), Norm(c, reqs[i]))]

Emit(rec) == PrintT(<<"@@V", ToJson(rec)>>)

\* ------------------------------------------------------------------ behaviour
Init == phase = "init" /\ cfg = NoCfg /\ grp = <<"", "">>

\* Level 1: a stratum, a local domain, a set of private networks, a blocklist
\* (what a server is created with); prints the request list of the group.
PickGroup ==
    /\ phase = "init"
    /\ \E str \in {"D", "T", "N"}, s \in Suffixes, n \in {"default", "custom"}, b \in DOMAIN BlockSets :
         /\ (str \in {"T", "N"} => s = LAN /\ n = "default")
         /\ grp' = <<str, SetName(str, s)>>
         /\ cfg' = [NoCfg EXCEPT !.suffix = s, !.nets = n, !.blocked = BlockSets[b]]
         /\ phase' = "group"
         /\ Emit([kind |-> "reqs", set |-> SetName(str, s), reqs |-> ReqSet(str, s)])

\* Level 2: the settings that change on a live server.
ConfigureD ==
    /\ phase = "group" /\ grp[1] = "D"
    /\ \E a, r, d, h, p \in BOOLEAN, li \in LeaseIx :
         /\ cfg' = [cfg EXCEPT !.aaaaOff = a, !.refuseAny = r, !.ddr = d, !.dhcp = h, !.privPTR = p,
                               !.leases = LeaseSets[li], !.tls = AllTLS]
         /\ phase' = "done"
         /\ grp' = grp
         /\ LET reqs == ReqSet("D", cfg.suffix)
            IN Emit([kind |-> "cfg", set |-> grp[2], cfg |-> cfg',
                     idx |-> [i \in DOMAIN reqs |-> i], tab |-> Table(cfg', reqs)])

ConfigureT ==
    /\ phase = "group" /\ grp[1] = "T"
    /\ \E a, r, d \in BOOLEAN, t \in TLSVariants :
         /\ cfg' = [cfg EXCEPT !.aaaaOff = a, !.refuseAny = r, !.ddr = d, !.dhcp = TRUE, !.privPTR = TRUE,
                               !.leases = LeaseSets[2], !.tls = t]
         /\ phase' = "done"
         /\ grp' = grp
         /\ LET reqs == ReqSet("T", cfg.suffix)
            IN Emit([kind |-> "cfg", set |-> grp[2], cfg |-> cfg',
                     idx |-> [i \in DOMAIN reqs |-> i], tab |-> Table(cfg', reqs)])

ConfigureN ==
    /\ phase = "group" /\ grp[1] = "N"
    /\ \E a, p \in BOOLEAN, m \in {"off", "wkp", "custom"} :
         /\ cfg' = [cfg EXCEPT !.aaaaOff = a, !.dhcp = TRUE, !.privPTR = p, !.leases = LeaseSets[2], !.dns64 = m]
         /\ phase' = "done"
         /\ grp' = grp
         /\ LET reqs == ReqSet("N", cfg.suffix)
            IN Emit([kind |-> "cfg", set |-> grp[2], cfg |-> cfg',
                     idx |-> [i \in DOMAIN reqs |-> i], tab |-> Table(cfg', reqs)])

Next == PickGroup \/ ConfigureD \/ ConfigureT \/ ConfigureN
Spec == Init /\ [][Next]_vars

\* ---------------------------------------------- the statement, on every table
Statements ==
    phase = "done" =>
        LET reqs == ReqSet(grp[1], cfg.suffix)
        IN \A i \in DOMAIN reqs :
             LET rq == Norm(cfg, reqs[i])
             IN StAll(CoreCfg(cfg), rq, Verdict(CoreCfg(cfg), rq))

\* Sanity of the universe itself.
TypeOK ==
    /\ phase \in {"init", "group", "done"}
    /\ cfg.suffix \in {LAN, HOME}
    /\ cfg.tls.on \/ cfg.tls = NoTLS
    \* no reverse name is on the blocklist (the statement does not order S8 / S9
    \* against blocking)
    /\ \A d \in cfg.blocked : ~RevOf(d, "default", "custom").ok
=============================================================================
