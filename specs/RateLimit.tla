------------------------------ MODULE RateLimit ------------------------------
(***************************************************************************)
(* C12, first half -- login throttling.                                    *)
(*                                                                         *)
(* Statement: "After the configured number of failed logins from one       *)
(* address within a minute, every further login attempt from that address, *)
(* correct password included, is rejected without the password being       *)
(* evaluated until the block period has elapsed; a successful login before *)
(* the limit clears the count."                                            *)
(*                                                                         *)
(* The model is written from that sentence.  Per address it keeps the      *)
(* number of failed logins counted so far and one instant `until`:         *)
(*   0 < cnt < N : `until` is the end of the minute opened by the first    *)
(*                 counted failure (failures after it start a new count);  *)
(*   cnt = N     : the limit was reached, `until` is the end of the block  *)
(*                 period (N-th failure + BlockDur).                       *)
(* Time is an integer; the module is used with two scales: small "ticks"   *)
(* (Window = 2) for exhaustive exploration and edge generation, and        *)
(* milliseconds with the production parameters (5 attempts, 15 min, 1 min) *)
(* by TraceRateLimit.tla, which reuses the pure operators below.           *)
(*                                                                         *)
(* Reading of "within a minute": the minute is anchored at the first       *)
(* counted failure (fixed window), as named by the property's anchors      *)
(* ("the window of the first failure").  See notes/C12.md.                 *)
(*                                                                         *)
(* Where the statement is precise the model is deterministic:              *)
(*   - the attempt after exactly N failures is the first rejected one;     *)
(*   - a blocked attempt changes nothing and evaluates nothing, whatever   *)
(*     the password;                                                       *)
(*   - at `until` of a block the period HAS elapsed: the attempt is        *)
(*     evaluated (blocked <=> now < until).                                *)
(* Where it is silent the model admits a SET of outcomes: at the single    *)
(* instant now = until the old count may be still remembered or already    *)
(* forgotten (an open or closed interval end cannot be told apart by a     *)
(* sentence about continuous time); see Bases.                             *)
(*                                                                         *)
(* "From one address": a login request has two kinds of address -- the     *)
(* PEER it really comes from (the connection's remote address) and an      *)
(* address it may merely CLAIM (X-Real-IP, CF-Connecting-IP,               *)
(* True-Client-IP, X-Forwarded-For).  Anybody can write anything into      *)
(* those headers, so the address of the statement is the peer; the claim   *)
(* is part of the request vocabulary precisely so that the model can say   *)
(* it is ignored: whatever a request claims -- nothing, the address of     *)
(* another client, an address inside the configured trusted-proxy set, an  *)
(* address outside it -- it spends the budget of its peer and only of its  *)
(* peer.  (Peers that are themselves configured trusted proxies are not    *)
(* generated: for them the statement does not say whose address counts.)   *)
(*                                                                         *)
(* An element of Addrs is one client as the server sees it: the exact text *)
(* of its remote address, the same in every request of a history.  The     *)
(* model does not care how that text looks; the harness therefore renders  *)
(* each client, per history, in one of the forms a remote address takes    *)
(* (plain IPv4, plain IPv6, link-local IPv6 with a zone, IPv4-mapped       *)
(* IPv6), and every edge -- in particular "blocked after N failures" and   *)
(* "success clears" -- must hold for each of them.                         *)
(***************************************************************************)
EXTENDS Integers, FiniteSets, Sequences, TLC, Json

CONSTANTS
    Addrs,           \* peer addresses (strings); none of them is a trusted proxy
    Claims,          \* what a request may claim about its origin (strings, see above)
    MaxAttemptsSet,  \* values of the configured attempt limit to explore
    BlockDurSet,     \* values of the configured block duration to explore
    Window,          \* the "minute", in the time unit of the model
    MaxTick          \* largest single clock advance (> Window, > BlockDur: forgets everything)

Min(x, y) == IF x < y THEN x ELSE y

(***************************************************************************)
(* Pure part: one address record r = [cnt, until], the instant `now`, the  *)
(* limit n and the block duration b.                                       *)
(***************************************************************************)
NoRec == [cnt |-> 0, until |-> 0]

\* Rejected without evaluation: the limit was reached and the block period
\* has not elapsed yet.
Blocked(r, now, n) == r.cnt >= n /\ now < r.until

\* A record that can no longer matter is no record.
Normalise(r, now) == IF r.cnt > 0 /\ now <= r.until THEN r ELSE NoRec

\* The count an evaluated attempt starts from.  Strictly inside the window /
\* block the count is remembered, strictly after it is forgotten, exactly at
\* the end both are admitted.
Bases(r, now) ==
    IF r.cnt > 0 /\ now < r.until THEN {r.cnt}
    ELSE IF r.cnt > 0 /\ now = r.until THEN {r.cnt, 0}
    ELSE {0}

\* All admissible results of one login attempt with a right (ok) or wrong
\* password: the new record, the reply and whether the password was looked at.
AttemptOutcomes(r, now, n, b, ok) ==
    IF Blocked(r, now, n)
    THEN {[rec |-> r, res |-> "blocked", eval |-> FALSE, base |-> -1]}
    ELSE IF ok
    THEN {[rec |-> NoRec, res |-> "ok", eval |-> TRUE, base |-> -1]}
    ELSE {LET n1 == Min(base + 1, n) IN
          [rec |-> [cnt   |-> n1,
                    until |-> IF n1 >= n THEN now + b            \* limit reached: block starts now
                              ELSE IF base = 0 THEN now + Window \* first failure opens the minute
                              ELSE r.until],                     \* the minute keeps running
           res |-> "fail", eval |-> TRUE, base |-> base] : base \in Bases(r, now)}

\* The same for the whole table (address -> record): an attempt touches the
\* record of its own address only; the passage of time forgets what can no
\* longer matter.
\* `a` is the peer, `claim` what the request says about its origin: the
\* outcome is a function of the peer's record alone, and no other record moves.
TableOutcomes(tbl, a, claim, ok, now, n, b) ==
    {[tbl |-> [tbl EXCEPT ![a] = o.rec], res |-> o.res, eval |-> o.eval, base |-> o.base] :
        o \in AttemptOutcomes(tbl[a], now, n, b, ok)}

TableAfterTick(tbl, now2) == [a \in DOMAIN tbl |-> Normalise(tbl[a], now2)]

\* Tolerant comparison used by the conformance side: an implementation may
\* have dropped a record at the very instant it ends.
RecMatches(specRec, implRec, now) ==
    \/ specRec = implRec
    \/ specRec.cnt > 0 /\ specRec.until = now /\ implRec = NoRec

TableMatches(specTbl, implTbl, now) ==
    /\ DOMAIN specTbl = DOMAIN implTbl
    /\ \A a \in DOMAIN specTbl : RecMatches(specTbl[a], implTbl[a], now)

(***************************************************************************)
(* State machine.                                                          *)
(***************************************************************************)
VARIABLES
    n, b,      \* configuration of this behaviour (chosen in Init, then fixed)
    rec,       \* address -> record
    clock,
    evals,     \* ghost: number of password evaluations so far
    hit,       \* ghost: address -> instant of the latest failure that reached the limit, -1 if none since a success
    streak,    \* ghost: address -> failed logins since the last success (never forgotten by time; capped at n)
    burst,     \* ghost: address -> evaluated failures in the current instant since the last success / forgetting
    out        \* last step: [act, a, ok, res] (the claim is deliberately not remembered)

vars == <<n, b, rec, clock, evals, hit, streak, burst, out>>

NoOut == [act |-> "none", a |-> "", ok |-> FALSE, res |-> "none"]

\* What the harness can see of the state, relative to the clock: the model is
\* invariant under time translation, so TLC explores it modulo the absolute
\* clock (VIEW) and the edge graph is finite with no bound on history length.
Rel(r) == <<r.cnt, IF r.cnt > 0 THEN r.until - clock ELSE 0>>
Proj == [a \in Addrs |-> Rel(rec[a])]
RelHit(a) == IF hit[a] >= 0 /\ clock - hit[a] < b THEN clock - hit[a] ELSE -1
View == <<n, b, Proj, [a \in Addrs |-> RelHit(a)], streak, burst, out>>

Emit(act, dstProj, o) ==
    PrintT(<<"@@V", ToJson([m |-> "RL", n |-> n, b |-> b, src |-> Proj, act |-> act,
                            dst |-> dstProj, out |-> o])>>)

Init ==
    /\ n \in MaxAttemptsSet
    /\ b \in BlockDurSet
    /\ rec = [a \in Addrs |-> NoRec]
    /\ clock = 0
    /\ evals = 0
    /\ hit = [a \in Addrs |-> -1]
    /\ streak = [a \in Addrs |-> 0]
    /\ burst = [a \in Addrs |-> 0]
    /\ out = NoOut

Attempt(a, claim, ok) ==
    \E o \in TableOutcomes(rec, a, claim, ok, clock, n, b) :
        /\ rec' = o.tbl
        /\ evals' = IF o.eval THEN evals + 1 ELSE evals
        /\ hit' = [hit EXCEPT ![a] = IF o.res = "ok" THEN -1
                                      ELSE IF o.res = "fail" /\ o.tbl[a].cnt >= n THEN clock
                                      ELSE @]
        /\ streak' = [streak EXCEPT ![a] = IF o.res = "ok" THEN 0
                                            ELSE IF o.res = "fail" THEN Min(@ + 1, n) ELSE @]
        /\ burst' = [burst EXCEPT ![a] = IF o.res = "ok" THEN 0
                                          ELSE IF o.res = "fail" THEN (IF o.base = 0 THEN 1 ELSE @ + 1)
                                          ELSE @]
        /\ out' = [act |-> "attempt", a |-> a, ok |-> ok, res |-> o.res]
        /\ UNCHANGED <<n, b, clock>>
        /\ Emit([k |-> "attempt", a |-> a, c |-> claim, ok |-> ok, d |-> 0], Proj', o.res)

Tick(d) ==
    /\ clock' = clock + d
    /\ rec' = TableAfterTick(rec, clock')
    /\ burst' = [a \in Addrs |-> 0]
    /\ out' = [act |-> "tick", a |-> "", ok |-> FALSE, res |-> "none"]
    /\ UNCHANGED <<n, b, evals, hit, streak>>
    /\ Emit([k |-> "tick", a |-> "", c |-> "", ok |-> FALSE, d |-> d], Proj', "none")

Next ==
    \/ \E a \in Addrs, claim \in Claims, ok \in BOOLEAN : Attempt(a, claim, ok)
    \/ \E d \in 1..MaxTick : Tick(d)

Spec == Init /\ [][Next]_vars

(***************************************************************************)
(* Properties of the statement, checked by TLC on the model.               *)
(***************************************************************************)
TypeOK ==
    /\ \A a \in Addrs : rec[a].cnt \in 0..n /\ (rec[a].cnt = 0 => rec[a] = NoRec)
    /\ \A a \in Addrs : rec[a].cnt > 0 => clock <= rec[a].until
    /\ out.res \in {"none", "ok", "fail", "blocked"}

IsAttemptOn(a) == out'.act = "attempt" /\ out'.a = a

\* "rejected without the password being evaluated": a rejected attempt leaves
\* the evaluation counter and the whole table as they were -- and whether the
\* attempt is rejected does not depend on the password at all.
BlockedNeverEvaluates ==
    [][\A a \in Addrs : IsAttemptOn(a) =>
          /\ (out'.res = "blocked" => evals' = evals /\ rec' = rec)
          /\ (out'.res = "blocked" <=> Blocked(rec[a], clock, n))
          /\ (out'.res # "blocked" => evals' = evals + 1)]_vars

\* "until the block period has elapsed": counted from the failure that reached
\* the limit, rejection lasts exactly b time units, not one instant less or more.
BlockLastsExactly ==
    [][\A a \in Addrs : IsAttemptOn(a) =>
          (out'.res = "blocked" <=> hit[a] >= 0 /\ clock < hit[a] + b)]_vars

\* "a successful login ... clears the count".
SuccessClears ==
    [][\A a \in Addrs : IsAttemptOn(a) /\ out'.res = "ok" =>
          rec'[a] = NoRec /\ ~Blocked(rec'[a], clock', n) /\ streak'[a] = 0]_vars

\* Nobody is rejected before having failed N times since the last success
\* (independent of how the minute is read).
NoBlockBeforeLimit == out.res = "blocked" => streak[out.a] >= n

\* N failures at one instant are certainly "within a minute": the (N+1)-th
\* evaluated failure of an instant cannot exist.
LimitIsSharp == \A a \in Addrs : burst[a] <= n

\* The claim buys nothing: the reply to an attempt is determined by the peer's
\* own history (blocked iff the peer is blocked), whatever was claimed before or
\* is claimed now -- in particular rotating claims never yields a fresh budget
\* (NoBlockBeforeLimit / LimitIsSharp count per peer), and claiming another
\* client's address neither spends nor clears that client's count
\* (OthersUntouched).
ClaimIsIgnored ==
    [][\A a \in Addrs : IsAttemptOn(a) =>
          \A c2 \in Claims :
              \E o \in TableOutcomes(rec, a, c2, out'.ok, clock, n, b) : o.res = out'.res /\ o.tbl = rec']_vars

\* One address never influences another one.
OthersUntouched ==
    [][\A a \in Addrs : IsAttemptOn(a) => \A x \in Addrs \ {a} : rec'[x] = rec[x]]_vars
=============================================================================
