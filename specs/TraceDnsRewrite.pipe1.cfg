SPECIFICATION Spec
