---------------------------- MODULE Dhcp4IndApa ----------------------------
(***************************************************************************)
(* Apalache front end of Dhcp4Ind.tla.  Constants: ARBITRARY sets of at    *)
(* most the stated cardinalities, arbitrary integers; IndInit: an          *)
(* arbitrary table of at most N arbitrary leases satisfying IndInv.        *)
(* Q = quick bounds, T = thorough bounds.                                  *)
(***************************************************************************)
EXTENDS Dhcp4Ind, Apalache

\* S = the small bounds the quick tier uses for the (expensive) implications
\* IndInv => Safety: two clients, two pool addresses, a table of <= 3 leases.
CInitS ==
    /\ Macs = Gen(2)
    /\ Pool = Gen(2)
    /\ Outs = Gen(1)
    /\ GW \in Int
    /\ Far \in Int
    /\ ReqHosts = Gen(2)
    /\ BadHosts = Gen(1)
    /\ StaticHosts = Gen(1)
    /\ MaxStatic \in Nat
    /\ LeaseT \in Nat
    /\ GenNameOf = Gen(5)
    /\ AltNameOf = Gen(5)
    /\ ConstOK

IndInitS == ls = Gen(3) /\ disk = ls /\ IndInv

CInitQ ==
    /\ Macs = Gen(3)
    /\ Pool = Gen(3)
    /\ Outs = Gen(2)
    /\ GW \in Int
    /\ Far \in Int
    /\ ReqHosts = Gen(2)
    /\ BadHosts = Gen(1)
    /\ StaticHosts = Gen(2)
    /\ MaxStatic \in Nat
    /\ LeaseT \in Nat
    /\ GenNameOf = Gen(7)
    /\ AltNameOf = Gen(7)
    /\ ConstOK

IndInitQ == ls = Gen(3) /\ disk = ls /\ IndInv
IndInitBQ == ls = Gen(3) /\ disk = ls /\ IndInvB

CInitT ==
    /\ Macs = Gen(4)
    /\ Pool = Gen(4)
    /\ Outs = Gen(2)
    /\ GW \in Int
    /\ Far \in Int
    /\ ReqHosts = Gen(3)
    /\ BadHosts = Gen(2)
    /\ StaticHosts = Gen(3)
    /\ MaxStatic \in Nat
    /\ LeaseT \in Nat
    /\ GenNameOf = Gen(8)
    /\ AltNameOf = Gen(8)
    /\ ConstOK

IndInitT == ls = Gen(4) /\ disk = ls /\ IndInv
IndInitBT == ls = Gen(4) /\ disk = ls /\ IndInvB
=============================================================================
