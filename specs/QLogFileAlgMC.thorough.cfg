SPECIFICATION Spec
CONSTANTS
  MaxEntry = 4
  BufSize = 12
  DepthLimit = 100
  EmptyGuard = TRUE
  MaxLines = 6
  MinLen = 1
  EmitProbes = TRUE
  MaxLen = 3
VIEW View
PROPERTY Refines
INVARIANTS TargetInRange Premise PositionOnLine BufferCovers SearchInterval DepthBounded NLBelowAgrees NeverFragment
