PROPERTY = "G03"
ENTRY = {
        "text": "Growth item (no line in properties.jsonl; statement in notes/G03.md): safe search enforcement. The rule table of SafeSearchCore.tla is regenerated at every run from "
                "internal/filtering/safesearch/rules/*.txt + rules.go (checks/g03_rules.py); the decision (Decide / Effective / Answer / Response) is written from the statement. "
                "TLC enumerates (a) the decision table: 32 settings x every generated name (each covered host exact / upper / mixed case, sub- and parent domain, sibling, prefix / suffix look-alikes, "
                "the safe host, unrelated) x 8 query types; (b) scenario vectors global settings x persistent client x protection x requester x name; (c) the state machine of all histories of "
                "PUT settings / deprecated enable+disable / client add-update-delete / restart / clock tick / query over two services and three names (three universes, 5 invariants of the statement). "
                "Replay: (a) into fresh engines and one long-lived DNSFilter driven through its HTTP handlers; (b) into a real dnsforward.Server (response shape: CNAME + resolved safe host with the "
                "original question, fixed address, NODATA, untouched) and into package home's real client life cycle (HTTP add/update/delete, YAML restart); (c) edge-covering tour + seeded random walk on "
                "one real system under testing/synctest, reply, GET status, client record and what the engines still remember compared after every step. Seeded random histories over all services "
                "and rule hosts are validated by TraceSafeSearch.tla.",
        "design_ref": "DESIGN.md section 5 item 3; notes/G03.md",
        "note": "Trusted: TLC, the rule-file generator (unknown rule shapes make the check inconclusive), conc/abs of the three harnesses. The walk builds the persistent client's engine the way home does "
                "(home's own construction is exercised by the home leg). The proxy cache of dnsforward is off in the response leg. Other host checkers are configured not to match. "
                "Open finding: legacy-enable-keeps-stale-engine (proposed fix attached).",
        "technique": "TLA+ spec instantiated from the repository's rule files, checked by TLC; exhaustive vector replay + edge-covering state-machine walk under a virtual clock + TLC trace validation",
    }
