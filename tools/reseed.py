#!/usr/bin/env python3
"""reseed.py <worktree> <id>... : re-run the quick (and optionally thorough) check against stored seeded changes, update meta.json."""
import json, os, sys, subprocess
sys.path.insert(0, os.path.dirname(os.path.abspath(__file__)))
import seeded
wt = sys.argv[1]
tier = os.environ.get("TIER", "quick")
head = subprocess.run(["git", "-C", "/repo", "rev-parse", "HEAD"], capture_output=True, text=True).stdout.strip()
subprocess.run(["git", "-C", wt, "checkout", "-q", "--detach", head])
for sid in sys.argv[2:]:
    d = os.path.join("/verif/seeded", sid)
    meta = json.load(open(os.path.join(d, "meta.json")))
    r = seeded.check(wt, os.path.join(d, "patch.diff"), meta["property"], tier)
    meta.setdefault("history", []).append(meta.get("check_result"))
    meta["check_result"] = r
    meta["caught_by_" + tier] = r.get("exit") == 1
    json.dump(meta, open(os.path.join(d, "meta.json"), "w"), indent=1)
    print(sid, tier, "exit", r.get("exit"), (r.get("lines") or [""])[-1][:200])
