package home

// C08 conformance harness (specs/IgnoreAnon.tla).
//
// The tail stage of the DNS pipeline (query log + statistics) is built the way
// initDNS builds it: the real clientsContainer (clients.Init -> client.Storage)
// with its glue methods findMultiple / shouldCountClient, querylog.New,
// stats.New, the shared aghnet.IPMut anonymiser, dnsforward.NewServer +
// Prepare + Start.  Queries are sent over real UDP from source addresses under
// 127/8 and as DNS-over-HTTPS requests through Server.ServeHTTP (for IPv6,
// 4-in-6 and ClientID clients, with the client address supplied by a trusted
// proxy header).  Observed: /control/querylog replies, querylog.json bytes,
// /control/stats replies, TopClientsIP and the unit stored in stats.db.

import (
	"bytes"
	"context"
	"encoding/base64"
	"encoding/gob"
	"encoding/json"
	"fmt"
	"io"
	"math/rand"
	"net"
	"net/http"
	"net/http/httptest"
	"net/netip"
	"os"
	"path/filepath"
	"sort"
	"strings"
	"sync"
	"testing"
	"time"

	"github.com/AdguardTeam/AdGuardHome/internal/aghnet"
	"github.com/AdguardTeam/AdGuardHome/internal/dhcpsvc"
	"github.com/AdguardTeam/AdGuardHome/internal/dnsforward"
	"github.com/AdguardTeam/AdGuardHome/internal/filtering"
	"github.com/AdguardTeam/AdGuardHome/internal/querylog"
	"github.com/AdguardTeam/AdGuardHome/internal/schedule"
	"github.com/AdguardTeam/AdGuardHome/internal/stats"
	"github.com/AdguardTeam/golibs/logutil/slogutil"
	"github.com/AdguardTeam/golibs/netutil"
	"github.com/AdguardTeam/golibs/timeutil"
	"github.com/miekg/dns"
	"go.etcd.io/bbolt"
)

// ------------------------------------------------------------------ DHCP stub

// zzC08DHCP is the lease table used for "MAC via DHCP lease" clients.  It
// implements both client.DHCP and dnsforward.DHCP.
type zzC08DHCP struct {
	leases map[netip.Addr]net.HardwareAddr
}

func (d *zzC08DHCP) Leases() (leases []*dhcpsvc.Lease)        { return nil }
func (d *zzC08DHCP) HostByIP(_ netip.Addr) (host string)      { return "" }
func (d *zzC08DHCP) IPByHost(_ string) (ip netip.Addr)        { return netip.Addr{} }
func (d *zzC08DHCP) Enabled() (ok bool)                       { return false }
func (d *zzC08DHCP) MACByIP(ip netip.Addr) net.HardwareAddr { return d.leases[ip.Unmap()] }

// ------------------------------------------------------------- upstream mock

type zzC08Upstream struct {
	pc   net.PacketConn
	addr string
}

func zzC08NewUpstream() (u *zzC08Upstream, err error) {
	pc, err := net.ListenPacket("udp", "127.0.0.1:0")
	if err != nil {
		return nil, err
	}

	u = &zzC08Upstream{pc: pc, addr: pc.LocalAddr().String()}
	go func() {
		buf := make([]byte, 4096)
		for {
			n, from, rerr := pc.ReadFrom(buf)
			if rerr != nil {
				return
			}

			req := &dns.Msg{}
			if req.Unpack(buf[:n]) != nil {
				continue
			}

			resp := (&dns.Msg{}).SetReply(req)
			resp.RecursionAvailable = true
			if len(req.Question) == 1 && req.Question[0].Qtype == dns.TypeA {
				resp.Answer = append(resp.Answer, &dns.A{
					Hdr: dns.RR_Header{
						Name:   req.Question[0].Name,
						Rrtype: dns.TypeA,
						Class:  dns.ClassINET,
						Ttl:    60,
					},
					A: net.IP{192, 0, 2, 1},
				})
			}

			b, perr := resp.Pack()
			if perr == nil {
				_, _ = pc.WriteTo(b, from)
			}
		}
	}()

	return u, nil
}

// ------------------------------------------------------------------- wiring

// zzC08Conf is the concrete configuration of one server instance.
type zzC08Conf struct {
	IgnQ      []string            // query log ignore list (rule texts)
	IgnS      []string            // statistics ignore list
	Anon      bool                // anonymize_client_ip
	RefuseAny bool                // refuse_any
	ClientIDs []string            // ids of the single persistent client; empty = none
	FlagQ     bool                // ignore_querylog
	FlagS     bool                // ignore_statistics
	Leases    map[string]string   // ip -> mac
	QlogOff   bool                // query log disabled
	StatsOff  bool                // statistics disabled
}

const zzC08ClientName = "zzc08-client"

type zzC08Env struct {
	dir     string
	mux     map[string]http.HandlerFunc
	clients *clientsContainer
	stats   *stats.StatsCtx
	qlog    querylog.QueryLog
	srv     *dnsforward.Server
	flt     *filtering.DNSFilter
	up      *zzC08Upstream
	udpAddr *net.UDPAddr
	anon    *aghnet.IPMut
	stopped bool
}

func (e *zzC08Env) register(method, url string, h http.HandlerFunc) {
	e.mux[method+" "+url] = h
}

// zzC08Start mirrors initDNS / initDNSServer / startDNSServer with the
// global-state-dependent parts (config file writing, web mux, TLS manager)
// replaced by local ones.
func zzC08Start(dir string, c *zzC08Conf) (e *zzC08Env, err error) {
	ctx := context.Background()
	logger := slogutil.NewDiscardLogger()

	e = &zzC08Env{dir: dir, mux: map[string]http.HandlerFunc{}}
	defer func() {
		if err != nil {
			e.stop()
			e = nil
		}
	}()

	e.up, err = zzC08NewUpstream()
	if err != nil {
		return nil, fmt.Errorf("upstream: %w", err)
	}

	dhcp := &zzC08DHCP{leases: map[netip.Addr]net.HardwareAddr{}}
	for ip, mac := range c.Leases {
		var hw net.HardwareAddr
		hw, err = net.ParseMAC(mac)
		if err != nil {
			return nil, err
		}

		dhcp.leases[netip.MustParseAddr(ip)] = hw
	}

	var objs []*clientObject
	if len(c.ClientIDs) > 0 {
		objs = append(objs, &clientObject{
			Name:                     zzC08ClientName,
			IDs:                      c.ClientIDs,
			UseGlobalSettings:        true,
			UseGlobalBlockedServices: true,
			IgnoreQueryLog:           c.FlagQ,
			IgnoreStatistics:         c.FlagS,
		})
	}

	fltConf := &filtering.Config{
		DataDir:            dir,
		ProtectionEnabled:  true,
		BlockingMode:       filtering.BlockingModeDefault,
		BlockedResponseTTL: 10,
		FilteringEnabled:   true,
		CacheTime:          30,
		BlockedServices: &filtering.BlockedServices{
			Schedule: schedule.EmptyWeekly(),
			IDs:      []string{},
		},
	}

	e.clients = &clientsContainer{testing: true}
	err = e.clients.Init(ctx, logger, objs, dhcp, nil, nil, fltConf, newSignalHandler(nil, nil))
	if err != nil {
		return nil, fmt.Errorf("clients init: %w", err)
	}

	// As config.anonymizer() does.
	var anonFunc aghnet.IPMutFunc
	if c.Anon {
		anonFunc = querylog.AnonymizeIP
	}
	e.anon = aghnet.NewIPMut(anonFunc)

	// Statistics, as in initDNS.
	statsConf := stats.Config{
		Logger:            logger,
		Filename:          filepath.Join(dir, "stats.db"),
		Limit:             24 * time.Hour,
		ConfigModified:    func() {},
		HTTPRegister:      e.register,
		Enabled:           !c.StatsOff,
		ShouldCountClient: e.clients.shouldCountClient,
	}
	statsConf.Ignored, err = aghnet.NewIgnoreEngine(c.IgnS)
	if err != nil {
		return nil, fmt.Errorf("stats ignore engine: %w", err)
	}

	e.stats, err = stats.New(statsConf)
	if err != nil {
		return nil, fmt.Errorf("stats: %w", err)
	}

	// Query log, as in initDNS.
	qconf := querylog.Config{
		Logger:            logger,
		Anonymizer:        e.anon,
		ConfigModified:    func() {},
		HTTPRegister:      e.register,
		FindClient:        e.clients.findMultiple,
		BaseDir:           dir,
		AnonymizeClientIP: c.Anon,
		RotationIvl:       timeutil.Day,
		MemSize:           5000,
		Enabled:           !c.QlogOff,
		FileEnabled:       true,
	}
	qconf.Ignored, err = aghnet.NewIgnoreEngine(c.IgnQ)
	if err != nil {
		return nil, fmt.Errorf("querylog ignore engine: %w", err)
	}

	e.qlog, err = querylog.New(qconf)
	if err != nil {
		return nil, fmt.Errorf("querylog: %w", err)
	}

	e.flt, err = filtering.New(fltConf, nil)
	if err != nil {
		return nil, fmt.Errorf("filtering: %w", err)
	}

	// As initDNSServer.
	e.srv, err = dnsforward.NewServer(dnsforward.DNSCreateParams{
		Logger:      logger,
		DNSFilter:   e.flt,
		Stats:       e.stats,
		QueryLog:    e.qlog,
		PrivateNets: netutil.SubnetSetFunc(netutil.IsLocallyServed),
		Anonymizer:  e.anon,
		DHCPServer:  dhcp,
		LocalDomain: "lan",
	})
	if err != nil {
		return nil, fmt.Errorf("new server: %w", err)
	}

	e.clients.clientChecker = e.srv

	// Pick a loopback port that is free for both UDP and TCP.
	port := 0
	for try := 0; try < 20 && port == 0; try++ {
		var probe *net.UDPConn
		probe, err = net.ListenUDP("udp", &net.UDPAddr{IP: net.IP{127, 0, 0, 1}})
		if err != nil {
			return nil, err
		}

		p := probe.LocalAddr().(*net.UDPAddr).Port
		tl, terr := net.ListenTCP("tcp", &net.TCPAddr{IP: net.IP{127, 0, 0, 1}, Port: p})
		_ = probe.Close()
		if terr == nil {
			_ = tl.Close()
			port = p
		}
	}

	if port == 0 {
		return nil, fmt.Errorf("no free port")
	}

	e.udpAddr = &net.UDPAddr{IP: net.IP{127, 0, 0, 1}, Port: port}
	sconf := &dnsforward.ServerConfig{
		UDPListenAddrs: []*net.UDPAddr{e.udpAddr},
		TCPListenAddrs: []*net.TCPAddr{{IP: net.IP{127, 0, 0, 1}, Port: port}},
		TLSConf:        &dnsforward.TLSConfig{},
		Config: dnsforward.Config{
			ClientsContainer: e.clients.storage,
			UpstreamDNS:      []string{e.up.addr},
			RefuseAny:        c.RefuseAny,
			UpstreamMode:     dnsforward.UpstreamModeLoadBalance,
			TrustedProxies: []netutil.Prefix{{
				Prefix: netip.MustParsePrefix("127.0.0.0/8"),
			}},
			CacheSize:              0,
			RatelimitSubnetLenIPv4: 24,
			RatelimitSubnetLenIPv6: 56,
			EDNSClientSubnet:       &dnsforward.EDNSClientSubnet{},
		},
		TLSAllowUnencryptedDoH: true,
		UpstreamTimeout:        2 * time.Second,
		ConfigModified:         func() {},
		HTTPRegister:           e.register,
		ServePlainDNS:          true,
		UsePrivateRDNS:         false,
	}

	err = e.srv.Prepare(sconf)
	if err != nil {
		return nil, fmt.Errorf("prepare: %w", err)
	}

	// As startDNSServer.
	e.flt.EnableFilters(false)
	err = e.srv.Start()
	if err != nil {
		return nil, fmt.Errorf("start: %w", err)
	}

	e.stats.Start()
	err = e.qlog.Start(ctx)
	if err != nil {
		return nil, fmt.Errorf("qlog start: %w", err)
	}

	return e, nil
}

// stop mirrors stopDNSServer / closeDNSServer.
func (e *zzC08Env) stop() {
	if e == nil || e.stopped {
		return
	}

	e.stopped = true
	if e.srv != nil {
		_ = e.srv.Stop()
		e.srv.Close()
	}

	if e.clients != nil && e.clients.storage != nil {
		_ = e.clients.close(context.Background())
	}

	if e.flt != nil {
		e.flt.Close()
	}

	if e.stats != nil {
		_ = e.stats.Close()
	}

	if e.qlog != nil {
		_ = e.qlog.Shutdown(context.Background())
	}

	if e.up != nil {
		_ = e.up.pc.Close()
	}
}

// flush writes the query log's memory buffer to querylog.json, as a shutdown
// does.  An empty buffer is reported as an error by the code; it is none here.
func (e *zzC08Env) flush() (err error) {
	err = e.qlog.Shutdown(context.Background())
	if err != nil && strings.Contains(err.Error(), "nothing to write") {
		return nil
	}

	return err
}

// call invokes a registered admin handler.
func (e *zzC08Env) call(method, path, query string, body any) (code int, resp []byte, err error) {
	h, ok := e.mux[method+" "+path]
	if !ok {
		return 0, nil, fmt.Errorf("no handler for %s %s", method, path)
	}

	var rd io.Reader
	if body != nil {
		var b []byte
		b, err = json.Marshal(body)
		if err != nil {
			return 0, nil, err
		}

		rd = bytes.NewReader(b)
	}

	url := path
	if query != "" {
		url += "?" + query
	}

	r := httptest.NewRequest(method, url, rd)
	r.Header.Set("Content-Type", "application/json")
	w := httptest.NewRecorder()
	h(w, r)

	return w.Code, w.Body.Bytes(), nil
}

// ------------------------------------------------------------------ queries

// zzC08Query is one concrete DNS query.
type zzC08Query struct {
	Name  string // wire name, any letter case, fully qualified
	Qtype uint16
	Addr  string // client address
	DoH   bool   // via Server.ServeHTTP with a proxy header instead of UDP
	CID   string // ClientID (DoH only)
}

// send delivers one query and waits for the answer.
func (e *zzC08Env) send(q *zzC08Query) (rcode int, err error) {
	m := &dns.Msg{}
	m.Id = dns.Id()
	m.RecursionDesired = true
	m.Question = []dns.Question{{Name: q.Name, Qtype: q.Qtype, Qclass: dns.ClassINET}}

	if q.DoH {
		var b []byte
		b, err = m.Pack()
		if err != nil {
			return -1, err
		}

		path := "/dns-query"
		if q.CID != "" {
			path += "/" + q.CID
		}

		r := httptest.NewRequest(http.MethodGet, path+"?dns="+base64.RawURLEncoding.EncodeToString(b), nil)
		r.RemoteAddr = "127.0.0.1:34567"
		r.Header.Set("X-Forwarded-For", q.Addr)
		r.Header.Set("Accept", "application/dns-message")
		w := httptest.NewRecorder()
		e.srv.ServeHTTP(w, r)
		if w.Code != http.StatusOK {
			return -1, fmt.Errorf("doh status %d: %s", w.Code, strings.TrimSpace(w.Body.String()))
		}

		resp := &dns.Msg{}
		if err = resp.Unpack(w.Body.Bytes()); err != nil {
			return -1, fmt.Errorf("doh unpack: %w", err)
		}

		return resp.Rcode, nil
	}

	src := &net.UDPAddr{IP: net.ParseIP(q.Addr)}
	conn, err := net.DialUDP("udp", src, e.udpAddr)
	if err != nil {
		return -1, fmt.Errorf("dial from %s: %w", q.Addr, err)
	}
	defer conn.Close()

	b, err := m.Pack()
	if err != nil {
		return -1, err
	}

	buf := make([]byte, 4096)
	for attempt := 0; attempt < 3; attempt++ {
		if _, err = conn.Write(b); err != nil {
			return -1, err
		}

		_ = conn.SetReadDeadline(time.Now().Add(3 * time.Second))
		var n int
		n, err = conn.Read(buf)
		if err != nil {
			continue
		}

		resp := &dns.Msg{}
		if err = resp.Unpack(buf[:n]); err != nil {
			return -1, err
		}

		if attempt > 0 {
			return resp.Rcode, fmt.Errorf("retransmitted %d times", attempt)
		}

		return resp.Rcode, nil
	}

	return -1, fmt.Errorf("no answer: %w", err)
}

// ---------------------------------------------------------------- observers

// zzC08Entry is one observed query-log entry, from the API or from the file.
type zzC08Entry struct {
	Name  string `json:"name"`
	Qtype string `json:"qtype"`
	IP    string `json:"ip"`
	CID   string `json:"cid"`
}

// searchAPI returns all entries GET /control/querylog reports.
func (e *zzC08Env) searchAPI() (ents []zzC08Entry, err error) {
	code, body, err := e.call(http.MethodGet, "/control/querylog", "limit=100000", nil)
	if err != nil || code != http.StatusOK {
		return nil, fmt.Errorf("querylog api: code %d err %v", code, err)
	}

	var resp struct {
		Data []struct {
			Client   string `json:"client"`
			ClientID string `json:"client_id"`
			Question struct {
				Name string `json:"name"`
				Type string `json:"type"`
			} `json:"question"`
		} `json:"data"`
	}
	if err = json.Unmarshal(body, &resp); err != nil {
		return nil, fmt.Errorf("querylog api json: %w", err)
	}

	for _, d := range resp.Data {
		ents = append(ents, zzC08Entry{Name: d.Question.Name, Qtype: d.Question.Type, IP: d.Client, CID: d.ClientID})
	}

	return ents, nil
}

// fileEntries parses querylog.json (and the rotated file, if any).
func (e *zzC08Env) fileEntries() (ents []zzC08Entry, err error) {
	for _, fn := range []string{"querylog.json.1", "querylog.json"} {
		var b []byte
		b, err = os.ReadFile(filepath.Join(e.dir, fn))
		if os.IsNotExist(err) {
			continue
		} else if err != nil {
			return nil, err
		}

		for _, line := range bytes.Split(b, []byte("\n")) {
			if len(bytes.TrimSpace(line)) == 0 {
				continue
			}

			var rec struct {
				IP  string `json:"IP"`
				QH  string `json:"QH"`
				QT  string `json:"QT"`
				CID string `json:"CID"`
			}
			if err = json.Unmarshal(line, &rec); err != nil {
				return nil, fmt.Errorf("%s: %w", fn, err)
			}

			ents = append(ents, zzC08Entry{Name: rec.QH, Qtype: rec.QT, IP: rec.IP, CID: rec.CID})
		}
	}

	return ents, nil
}

// zzC08Stats is what GET /control/stats reports, reduced to the observables.
type zzC08Stats struct {
	Total   uint64            `json:"total"`
	Domains map[string]uint64 `json:"domains"`
	Clients map[string]uint64 `json:"clients"`
}

func zzC08Flatten(ms []map[string]uint64) (m map[string]uint64) {
	m = map[string]uint64{}
	for _, x := range ms {
		for k, v := range x {
			m[k] += v
		}
	}

	return m
}

func (e *zzC08Env) statsAPI() (s *zzC08Stats, err error) {
	code, body, err := e.call(http.MethodGet, "/control/stats", "", nil)
	if err != nil || code != http.StatusOK {
		return nil, fmt.Errorf("stats api: code %d err %v", code, err)
	}

	var resp struct {
		N       uint64              `json:"num_dns_queries"`
		Queried []map[string]uint64 `json:"top_queried_domains"`
		Clients []map[string]uint64 `json:"top_clients"`
	}
	if err = json.Unmarshal(body, &resp); err != nil {
		return nil, err
	}

	return &zzC08Stats{Total: resp.N, Domains: zzC08Flatten(resp.Queried), Clients: zzC08Flatten(resp.Clients)}, nil
}

// statsDB reads the units stored in stats.db.  Call after stop.
func (e *zzC08Env) statsDB() (s *zzC08Stats, err error) {
	db, err := bbolt.Open(filepath.Join(e.dir, "stats.db"), 0o644, &bbolt.Options{Timeout: time.Second, ReadOnly: true})
	if err != nil {
		return nil, err
	}
	defer db.Close()

	type pair struct {
		Name  string
		Count uint64
	}

	// Field names as in stats.unitDB; gob matches by name.
	type unitDB struct {
		NResult        []uint64
		Domains        []pair
		BlockedDomains []pair
		Clients        []pair
		NTotal         uint64
	}

	s = &zzC08Stats{Domains: map[string]uint64{}, Clients: map[string]uint64{}}
	err = db.View(func(tx *bbolt.Tx) (verr error) {
		return tx.ForEach(func(_ []byte, b *bbolt.Bucket) (ferr error) {
			v := b.Get([]byte{0})
			if v == nil {
				return nil
			}

			u := &unitDB{}
			if ferr = gob.NewDecoder(bytes.NewReader(v)).Decode(u); ferr != nil {
				return ferr
			}

			s.Total += u.NTotal
			for _, p := range u.Domains {
				s.Domains[p.Name] += p.Count
			}

			for _, p := range u.BlockedDomains {
				s.Domains[p.Name] += p.Count
			}

			for _, p := range u.Clients {
				s.Clients[p.Name] += p.Count
			}

			return nil
		})
	})

	return s, err
}


// updateClient sets the two ignore flags of the persistent client through the
// POST /control/clients/update handler.
func (e *zzC08Env) updateClient(ids []string, flagQ, flagS bool) (err error) {
	return e.clientCall("upd", zzC08ClientName, ids, flagQ, flagS)
}

// clientCall makes one call of the persistent-client registry API: op is
// "add" (POST /control/clients/add), "del" (.../delete) or "upd" (.../update,
// re-submitting the client's data).
func (e *zzC08Env) clientCall(op, name string, ids []string, flagQ, flagS bool) (err error) {
	data := map[string]any{
		"name":                        name,
		"ids":                         ids,
		"use_global_settings":         true,
		"use_global_blocked_services": true,
		"ignore_querylog":             flagQ,
		"ignore_statistics":           flagS,
	}

	var body []byte
	var h http.HandlerFunc
	switch op {
	case "add":
		body, err = json.Marshal(data)
		h = e.clients.handleAddClient
	case "del":
		body, err = json.Marshal(map[string]any{"name": name})
		h = e.clients.handleDelClient
	case "upd":
		body, err = json.Marshal(map[string]any{"name": name, "data": data})
		h = e.clients.handleUpdateClient
	default:
		return fmt.Errorf("bad client op %q", op)
	}

	if err != nil {
		return err
	}

	r := httptest.NewRequest(http.MethodPost, "/control/clients/"+op, bytes.NewReader(body))
	r.Header.Set("Content-Type", "application/json")
	w := httptest.NewRecorder()
	h(w, r)
	if w.Code != http.StatusOK {
		return fmt.Errorf("clients %s %s: %d %s", op, name, w.Code, strings.TrimSpace(w.Body.String()))
	}

	return nil
}

// setQlogConf sets the query log's ignore list and switches through
// PUT /control/querylog/config/update.
func (e *zzC08Env) setQlogConf(ign []string, anon, enabled bool) (err error) {
	if ign == nil {
		ign = []string{}
	}

	code, body, err := e.call(http.MethodPut, "/control/querylog/config/update", "", map[string]any{
		"enabled": enabled, "anonymize_client_ip": anon, "interval": 86400000, "ignored": ign,
	})
	if err != nil || code != http.StatusOK {
		return fmt.Errorf("querylog/config/update: %d %s %v", code, strings.TrimSpace(string(body)), err)
	}

	return nil
}

// setQlogLegacy sends a partial update (only the given switches) to the
// legacy POST /control/querylog_config.
func (e *zzC08Env) setQlogLegacy(fields map[string]any) (err error) {
	code, body, err := e.call(http.MethodPost, "/control/querylog_config", "", fields)
	if err != nil || code != http.StatusOK {
		return fmt.Errorf("querylog_config: %d %s %v", code, strings.TrimSpace(string(body)), err)
	}

	return nil
}

// setStatsConf sets the statistics' ignore list and switch through
// PUT /control/stats/config/update.
func (e *zzC08Env) setStatsConf(ign []string, enabled bool) (err error) {
	if ign == nil {
		ign = []string{}
	}

	code, body, err := e.call(http.MethodPut, "/control/stats/config/update", "", map[string]any{
		"enabled": enabled, "interval": 86400000, "ignored": ign,
	})
	if err != nil || code != http.StatusOK {
		return fmt.Errorf("stats/config/update: %d %s %v", code, strings.TrimSpace(string(body)), err)
	}

	return nil
}

// ------------------------------------------------- abstract vocabulary (spec)

type zzC08Addr struct {
	Fam  string `json:"fam"`
	Bits []int  `json:"bits"`
}

type zzC08Pat struct {
	K string   `json:"k"`
	N []string `json:"n"`
}

type zzC08Client struct {
	Kind string     `json:"kind"`
	Addr *zzC08Addr `json:"addr,omitempty"`
	Fam  string     `json:"fam,omitempty"`
	Bits []int      `json:"bits,omitempty"`
	CID  string     `json:"cid,omitempty"`
}

type zzC08Cfg struct {
	IgnQ      []zzC08Pat  `json:"ignQ"`
	IgnS      []zzC08Pat  `json:"ignS"`
	Client    zzC08Client `json:"client"`
	FlagQ     bool        `json:"flagQ"`
	FlagS     bool        `json:"flagS"`
	Anon      bool        `json:"anon"`
	QlogOn    bool        `json:"qlogOn"`
	StatsOn   bool        `json:"statsOn"`
	RefuseAny bool        `json:"refuseAny"`
	// Extra are further persistent clients with flags of their own.
	Extra []zzC08Extra `json:"extra"`
}

// zzC08Extra is an extra persistent client.
type zzC08Extra struct {
	ID    zzC08Client `json:"id"`
	FlagQ bool        `json:"flagQ"`
	FlagS bool        `json:"flagS"`
}

// zzC08RegOp is one call of the client registry API made before the queries.
type zzC08RegOp struct {
	Op  string     `json:"op"`
	Who string     `json:"who"`
	C   zzC08Extra `json:"c"`
}

// zzC08Layout says how an abstract bit vector is embedded into real
// addresses: the low Low bits of the vector are the top bits of the real low
// 16 (IPv4) / 80 (IPv6) bits, the rest of the vector sits right above that
// boundary.  The remaining real low bits are a seeded filler that is zero
// exactly when the abstract low bits are.
type zzC08Layout struct {
	Width, Low int
	seed       int64
}

func zzC08BitsVal(bits []int) (v uint64) {
	for _, b := range bits {
		v = v<<1 | uint64(b&1)
	}

	return v
}

func (l zzC08Layout) filler(fam string, bits []int, lo uint64) (f uint64) {
	if lo == 0 {
		return 0
	}

	if fam == "m4" {
		// The mapped form of a v4 host is that very host.
		fam = "v4"
	}

	h := uint64(l.seed)*0x9E3779B97F4A7C15 + 0x1234567
	for _, c := range []byte(fam) {
		h = (h ^ uint64(c)) * 0x100000001B3
	}

	for _, b := range bits {
		h = (h ^ uint64(b+7)) * 0x100000001B3
	}

	f = (h >> 17) % (uint64(1)<<uint(16-l.Low) - 1)

	return f + 1
}

// addr concretises an abstract address.
func (l zzC08Layout) addr(a zzC08Addr) (ip netip.Addr) {
	full := make([]int, l.Width)
	copy(full, a.Bits)
	hi := zzC08BitsVal(full[:l.Width-l.Low])
	lo := zzC08BitsVal(full[l.Width-l.Low:])
	fill := uint64(0)
	if len(a.Bits) == l.Width {
		fill = l.filler(a.Fam, a.Bits, lo)
	}

	switch a.Fam {
	case "v4", "m4":
		v := uint32(127)<<24 | uint32(hi)<<16 | uint32(lo)<<uint(16-l.Low) | uint32(fill)
		b4 := [4]byte{byte(v >> 24), byte(v >> 16), byte(v >> 8), byte(v)}
		ip = netip.AddrFrom4(b4)
		if a.Fam == "m4" {
			ip = netip.AddrFrom16(ip.As16())
		}
	default:
		var b [16]byte
		b[0] = 0xfd
		if a.Fam == "z6" {
			// Link-local, with a zone (see below).
			b[0], b[1] = 0xfe, 0x80
		}
		// hi sits in bytes 4..5 (bits 80..95 from the right).
		b[4] = byte(hi >> 8)
		b[5] = byte(hi)
		// lo: the top bits of byte 6..7.
		lv := uint16(lo) << uint(16-l.Low)
		b[6] = byte(lv >> 8)
		b[7] = byte(lv)
		// filler: spread over the interface identifier.
		b[9] = byte(fill >> 8)
		b[15] = byte(fill)
		if fill != 0 && b[15] == 0 {
			b[15] = 1
		}

		ip = netip.AddrFrom16(b)
		if a.Fam == "z6" {
			ip = ip.WithZone(zzC08Zone)
		}
	}

	return ip
}

// prefix concretises an abstract prefix (the first len(bits) bits of the
// vector).
func (l zzC08Layout) prefix(fam string, bits []int) (p netip.Prefix) {
	base := l.addr(zzC08Addr{Fam: fam, Bits: bits})
	n := len(bits)
	if fam == "v4" {
		return netip.PrefixFrom(base, 16-(l.Width-l.Low)+n).Masked()
	}

	return netip.PrefixFrom(base, 48-(l.Width-l.Low)+n).Masked()
}

// zzC08IsAnon reports whether a concrete address has its low 16 / 80 bits
// zeroed.  ok is false if s is not an address.
func zzC08IsAnon(s string) (anon, ok bool) {
	ip, err := netip.ParseAddr(s)
	if err != nil {
		return false, false
	}

	ip = ip.Unmap()
	if ip.Is4() {
		b := ip.As4()

		return b[2] == 0 && b[3] == 0, true
	}

	b := ip.As16()
	for _, x := range b[6:] {
		if x != 0 {
			return false, true
		}
	}

	return true, true
}

// abs abstracts a concrete address: the embedded vector plus whether the
// filler bits are zero.
func (l zzC08Layout) abs(s string) (a map[string]any, ok bool) {
	ip, err := netip.ParseAddr(s)
	if err != nil {
		return nil, false
	}

	fam := "v6"
	if ip.Is4In6() {
		fam = "m4"
	} else if ip.Is4() {
		fam = "v4"
	}

	ip = ip.Unmap()
	var hi, lo, rest uint64
	if ip.Is4() {
		b := ip.As4()
		if b[0] != 127 {
			return nil, false
		}

		hi = uint64(b[1])
		low16 := uint64(b[2])<<8 | uint64(b[3])
		lo = low16 >> uint(16-l.Low)
		rest = low16 & (uint64(1)<<uint(16-l.Low) - 1)
	} else {
		b := ip.As16()
		if b[0] != 0xfd {
			return nil, false
		}

		hi = uint64(b[4])<<8 | uint64(b[5])
		low16 := uint64(b[6])<<8 | uint64(b[7])
		lo = low16 >> uint(16-l.Low)
		rest = low16 & (uint64(1)<<uint(16-l.Low) - 1)
		for _, x := range b[8:] {
			rest |= uint64(x)
		}
	}

	if hi >= uint64(1)<<uint(l.Width-l.Low) {
		return nil, false
	}

	bits := make([]int, l.Width)
	v := hi<<uint(l.Low) | lo
	for i := 0; i < l.Width; i++ {
		bits[i] = int(v>>uint(l.Width-1-i)) & 1
	}

	r := 0
	if rest != 0 {
		r = 1
	}

	return map[string]any{"fam": fam, "bits": bits, "rest": r}, true
}

// zzC08Rule renders an ignore pattern as rule text.
func zzC08Rule(p zzC08Pat) (s string) {
	n := strings.Join(p.N, ".")
	switch p.K {
	case "plain":
		return n
	case "domain":
		return "||" + n + "^"
	case "wild":
		return "*." + n
	case "root":
		return "|.^"
	default:
		panic("bad pattern kind " + p.K)
	}
}

func zzC08Rules(ps []zzC08Pat) (rules []string) {
	rules = []string{}
	for _, p := range ps {
		rules = append(rules, zzC08Rule(p))
	}

	sort.Strings(rules)

	return rules
}

// zzC08Zone is the zone of the link-local ("z6") addresses.
const zzC08Zone = "eth0"

const zzC08MAC = "02:c0:8c:08:c0:08"

// clientIDs renders the identifiers (and leases) of the persistent client.
func (l zzC08Layout) clientIDs(c zzC08Client) (ids []string, leases map[string]string) {
	switch c.Kind {
	case "ip":
		return []string{l.addr(*c.Addr).String()}, nil
	case "cidr":
		return []string{l.prefix(c.Fam, c.Bits).String()}, nil
	case "mac":
		return []string{zzC08MAC}, map[string]string{l.addr(*c.Addr).String(): zzC08MAC}
	case "cid":
		return []string{c.CID}, nil
	default:
		return nil, nil
	}
}

func (l zzC08Layout) conf(c *zzC08Cfg) (conf *zzC08Conf) {
	ids, leases := l.clientIDs(c.Client)

	return &zzC08Conf{
		IgnQ: zzC08Rules(c.IgnQ), IgnS: zzC08Rules(c.IgnS), Anon: c.Anon, RefuseAny: c.RefuseAny,
		ClientIDs: ids, FlagQ: c.FlagQ, FlagS: c.FlagS, Leases: leases,
		QlogOff: !c.QlogOn, StatsOff: !c.StatsOn,
	}
}

// zzC08Case renders s (lower case) in one of several seeded letter-case
// patterns: per-letter, so that every single position and the boundary letters
// of the alphabet are hit, not only "mostly mixed" spellings.
func zzC08Case(rng *rand.Rand, s string) (out string) {
	b := []byte(s)
	var letters []int
	for i, c := range b {
		if c >= 'a' && c <= 'z' {
			letters = append(letters, i)
		}
	}

	if len(letters) == 0 {
		return s
	}

	up := func(i int) { b[i] = b[i] - 'a' + 'A' }
	switch rng.Intn(8) {
	case 0:
		// All lower case.
	case 1:
		for _, i := range letters {
			up(i)
		}
	case 2:
		// Exactly one position.
		up(letters[rng.Intn(len(letters))])
	case 3:
		// All but one position.
		skip := letters[rng.Intn(len(letters))]
		for _, i := range letters {
			if i != skip {
				up(i)
			}
		}
	case 4:
		// All occurrences of one letter of the name, first and last letters
		// of the alphabet preferred.
		pick := b[letters[rng.Intn(len(letters))]]
		for _, c := range []byte{'z', 'a'} {
			if strings.IndexByte(s, c) >= 0 && rng.Intn(3) != 0 {
				pick = c

				break
			}
		}

		for _, i := range letters {
			if b[i] == pick {
				up(i)
			}
		}
	case 5:
		// Exactly the boundary letters.
		for _, i := range letters {
			if b[i] == 'a' || b[i] == 'z' {
				up(i)
			}
		}
	default:
		for _, i := range letters {
			if rng.Intn(2) == 0 {
				up(i)
			}
		}
	}

	return string(b)
}

// zzC08WireName renders a name with seeded letter case.  A DNS message
// always carries absolute names, so "with or without trailing dot" does not
// exist on this entry point.
func zzC08WireName(rng *rand.Rand, labels []string) (s string) {
	if len(labels) == 0 {
		return "."
	}

	return zzC08Case(rng, strings.Join(labels, ".")) + "."
}

func zzC08NameKey(labels []string) (s string) {
	if len(labels) == 0 {
		return "."
	}

	return strings.Join(labels, ".")
}

var zzC08Types = func() (m map[string]uint16) {
	m = map[string]uint16{}
	for t, s := range dns.TypeToString {
		m[s] = t
	}

	return m
}()

// zzC08ClientKey is the canonical form of a statistics client key.
func zzC08ClientKey(s string) (k string) {
	ip, err := netip.ParseAddr(s)
	if err != nil {
		return s
	}

	return ip.Unmap().String()
}

// ------------------------------------------------------------ direction A

type zzC08Sender struct {
	Cl   string    `json:"cl"`
	Addr zzC08Addr `json:"addr"`
	CID  string    `json:"cid"`
	Qt   []string  `json:"qt"`
}

type zzC08Univ struct {
	Kind    string        `json:"kind"`
	Names   [][]string    `json:"names"`
	Senders []zzC08Sender `json:"senders"`
	LowBits int           `json:"lowbits"`
	Width   int           `json:"width"`
}

type zzC08TV struct {
	Q [3]int `json:"q"`
	V string `json:"v"`
}

type zzC08Script struct {
	Kind string `json:"kind"`
	ID   int    `json:"id"`
	Par  struct {
		Ep string `json:"ep"`
	} `json:"par"`
	// Hist is the history of registry calls.
	Hist []zzC08RegOp `json:"hist"`
	// K are the four configurations K0..K3.
	K   [4]zzC08Cfg `json:"k"`
	Log []zzC08TV   `json:"log"`
	Cnt []zzC08TV   `json:"cnt"`
	// API are the log-API tables under K1, K2, K3.
	API [3][]zzC08TV `json:"api"`
	// AnonRep[k] lists the rounds whose entries must be reported anonymised
	// under K[k].
	AnonRep [4][]int `json:"anonrep"`
}

// zzC08Q is one query of a script.
type zzC08Q struct {
	id    [3]int
	name  []string
	snd   *zzC08Sender
	qt    string
	conc  zzC08Query
	stKey string // canonical statistics key when stored under c.anon
}

// zzC08Bad is one disagreement.
type zzC08Bad struct {
	Obs     string `json:"obs"`
	Kind    string `json:"kind"`
	Store   string `json:"store,omitempty"`
	Q       []int  `json:"q,omitempty"`
	V       string `json:"v,omitempty"`
	Group   string `json:"group,omitempty"`
	Seen    uint64 `json:"seen,omitempty"`
	Max     uint64 `json:"max,omitempty"`
	NA      uint64 `json:"nA,omitempty"`
	// NC is the number of queries in the counter's group that must not be
	// counted for no other reason than their client being marked.
	NC uint64 `json:"nC,omitempty"`
	// ClientFam is the address family the primary client is identified by
	// ("" unless it is identified by an address).
	ClientFam string `json:"clientFam,omitempty"`
	Detail  string `json:"detail,omitempty"`
	Client  string `json:"client,omitempty"`
	Anon    bool   `json:"anon"`
	Concret string `json:"concrete,omitempty"`
}

func (b *zzC08Bad) sig() (s string) {
	return fmt.Sprintf("%s|%s|%s|%v|%s|%s", b.Obs, b.Kind, b.Store, b.Q, b.V, b.Group)
}

type zzC08Result struct {
	bad      []zzC08Bad
	lost     []string
	unknown  int
	checked  int // (observation, query) pairs compared
	absentOK int // of which: required absent and absent
	present  int // of which: expected present and present
	retrans  int
	sendErrs []string
	err      error
}

func zzC08Table(tvs []zzC08TV) (m map[[3]int]string) {
	m = map[[3]int]string{}
	for _, tv := range tvs {
		m[tv.Q] = tv.V
	}

	return m
}

func zzC08IsNo(v string) (no bool) { return strings.HasPrefix(v, "no:") }

// zzC08AOnly reports whether the only reason is the client identity that
// anonymisation removes.
func zzC08AOnly(v string) (a bool) { return v == "no:R:A" }

// zzC08KOfRound says which configuration a round is recorded under (round 4
// is the ANY probe, sent with round 1).
func zzC08KOfRound(r int) (k int) {
	if r == 4 {
		return 0
	}

	return r - 1
}

// zzC08RunScript runs one script against a fresh server.
func zzC08RunScript(u *zzC08Univ, sc *zzC08Script, seed int64, work string) (res *zzC08Result) {
	res = &zzC08Result{}
	lay := zzC08Layout{Width: u.Width, Low: u.LowBits, seed: seed}
	rng := rand.New(rand.NewSource(seed*1000003 + int64(sc.ID)))

	dir, err := os.MkdirTemp(work, fmt.Sprintf("s%05d-", sc.ID))
	if err != nil {
		res.err = err

		return res
	}
	defer os.RemoveAll(dir)

	// The queries.
	mk := func(ni, si, r int) (q *zzC08Q) {
		snd := &u.Senders[si-1]
		q = &zzC08Q{id: [3]int{ni, si, r}, name: u.Names[ni-1], snd: snd}
		if r == 4 {
			q.qt = "ANY"
		} else {
			q.qt = snd.Qt[r-1]
		}

		ip := lay.addr(snd.Addr)
		q.conc = zzC08Query{
			Name: zzC08WireName(rng, q.name), Qtype: zzC08Types[q.qt], Addr: ip.String(),
			DoH: snd.Addr.Fam != "v4" || snd.CID != "", CID: zzC08Case(rng, snd.CID),
		}

		// The statistics key: the ClientID, or the address as it is stored
		// under the configuration the round is recorded under.
		switch {
		case snd.CID != "":
			q.stKey = snd.CID
		case sc.K[zzC08KOfRound(r)].Anon:
			b := make([]int, len(snd.Addr.Bits))
			copy(b, snd.Addr.Bits[:u.Width-u.LowBits])
			q.stKey = lay.addr(zzC08Addr{Fam: snd.Addr.Fam, Bits: b}).Unmap().WithZone("").String()
		default:
			// Neither the log nor the statistics get the zone of an address.
			q.stKey = ip.Unmap().WithZone("").String()
		}

		return q
	}

	var batches [3][]*zzC08Q
	byTag := map[string]*zzC08Q{}
	for ni := range u.Names {
		for si := range u.Senders {
			for r := 1; r <= 3; r++ {
				batches[r-1] = append(batches[r-1], mk(ni+1, si+1, r))
			}
		}

		batches[0] = append(batches[0], mk(ni+1, 1, 4))
	}

	var all []*zzC08Q
	for i := range batches {
		b := batches[i]
		rng.Shuffle(len(b), func(x, y int) { b[x], b[y] = b[y], b[x] })
		all = append(all, b...)
	}

	for _, q := range all {
		tag := zzC08NameKey(q.name) + "|" + q.qt
		if byTag[tag] != nil {
			res.err = fmt.Errorf("ambiguous tag %s", tag)

			return res
		}

		if _, ok := zzC08Types[q.qt]; !ok {
			res.err = fmt.Errorf("unknown qtype %s", q.qt)

			return res
		}

		byTag[tag] = q
	}

	tLog, tCnt := zzC08Table(sc.Log), zzC08Table(sc.Cnt)
	tAPI := [3]map[[3]int]string{zzC08Table(sc.API[0]), zzC08Table(sc.API[1]), zzC08Table(sc.API[2])}
	verdict := func(t map[[3]int]string, q *zzC08Q) (v string) {
		if v = t[q.id]; v == "" {
			return "yes"
		}

		return v
	}

	var e *zzC08Env
	for try := 0; try < 5; try++ {
		// Another process may grab the probed port; start again then.
		e, err = zzC08Start(dir, lay.conf(&sc.K[0]))
		if err == nil || !strings.Contains(err.Error(), "address already in use") {
			break
		}

		_ = os.Remove(filepath.Join(dir, "stats.db"))
	}

	if err != nil {
		res.err = fmt.Errorf("start: %w", err)

		return res
	}
	defer e.stop()

	ckind, cfam := sc.K[0].Client.Kind, ""
	if sc.K[0].Client.Addr != nil {
		cfam = sc.K[0].Client.Addr.Fam
	}

	addBad := func(b zzC08Bad, anon bool) {
		b.Anon, b.Client, b.ClientFam = anon, ckind, cfam
		res.bad = append(res.bad, b)
	}

	sendAll := func(qs []*zzC08Q) {
		for _, q := range qs {
			_, serr := e.send(&q.conc)
			if serr != nil {
				if strings.Contains(serr.Error(), "retransmitted") {
					res.retrans++
				} else {
					res.sendErrs = append(res.sendErrs, fmt.Sprintf("%v: %v", q.id, serr))
				}
			}
		}
	}

	// checkLog compares a set of observed query-log entries with a table.
	// memRounds says which rounds' entries live in the memory buffer at this
	// observation point; mustAnon which rounds' addresses must be anonymised.
	checkLog := func(obs string, ents []zzC08Entry, t map[[3]int]string, scope []*zzC08Q, memRounds, mustAnon map[int]bool, src string) {
		seen := map[[3]int]bool{}
		for _, en := range ents {
			q := byTag[strings.ToLower(en.Name)+"|"+en.Qtype]
			if q == nil {
				res.unknown++

				continue
			}

			seen[q.id] = true
			store := "file"
			if memRounds[q.id[2]] && src != "file" {
				store = "mem"
			}

			recAnon := sc.K[zzC08KOfRound(q.id[2])].Anon
			if v := verdict(t, q); zzC08IsNo(v) {
				addBad(zzC08Bad{
					Obs: obs, Kind: "ignored-present", Store: store, Q: q.id[:], V: v,
					Concret: fmt.Sprintf("%s %s from %s cid=%q -> %s entry name=%q ip=%s cid=%q", q.conc.Name, q.qt, q.conc.Addr, q.conc.CID, src, en.Name, en.IP, en.CID),
				}, recAnon)
			}

			if mustAnon[q.id[2]] {
				if isAnon, ok := zzC08IsAnon(en.IP); !ok || !isAnon {
					addBad(zzC08Bad{
						Obs: obs, Kind: "not-anonymised", Store: store, Q: q.id[:],
						Concret: fmt.Sprintf("%s %s from %s -> %s entry ip=%q", q.conc.Name, q.qt, q.conc.Addr, src, en.IP),
					}, recAnon)
				}
			}
		}

		for _, q := range scope {
			v := verdict(t, q)
			res.checked++
			switch {
			case zzC08IsNo(v) && !seen[q.id]:
				res.absentOK++
			case v == "yes" && seen[q.id]:
				res.present++
			case v == "yes":
				res.lost = append(res.lost, fmt.Sprintf("%s %v", obs, q.id))
			}
		}
	}

	// checkStats compares counters with the count table: nothing may exceed
	// what the non-ignored queries account for, and every client key must be
	// the key some countable query is filed under (which is the anonymised
	// address for queries recorded while anonymisation is on).
	checkStats := func(obs string, st *zzC08Stats, scope []*zzC08Q, mins bool, ips []netip.Addr) {
		type rng struct{ min, max, nA, nC uint64 }
		names, keys, tot := map[string]*rng{}, map[string]*rng{}, &rng{}
		get := func(m map[string]*rng, k string) (r *rng) {
			if r = m[k]; r == nil {
				r = &rng{}
				m[k] = r
			}

			return r
		}

		anyAnon := false
		for _, q := range scope {
			anyAnon = anyAnon || sc.K[zzC08KOfRound(q.id[2])].Anon
			v := verdict(tCnt, q)
			for _, r := range []*rng{get(names, zzC08NameKey(q.name)), get(keys, q.stKey), tot} {
				switch {
				case v == "yes":
					r.min++
					r.max++
				case v == "any":
					r.max++
				case zzC08AOnly(v):
					r.nA++
					r.nC++
				case v == "no:R:C":
					r.nC++
				}
			}
		}

		cmp := func(group string, seen uint64, r *rng) {
			res.checked++
			if r == nil {
				r = &rng{}
			}

			switch {
			case seen > r.max:
				addBad(zzC08Bad{Obs: obs, Kind: "count-exceeded", Group: group, Seen: seen, Max: r.max, NA: r.nA, NC: r.nC}, anyAnon)
			case mins && seen < r.min:
				res.lost = append(res.lost, fmt.Sprintf("%s %s %d<%d", obs, group, seen, r.min))
			case r.max == 0:
				res.absentOK++
			default:
				res.present++
			}
		}

		// An un-anonymised address is in order only as the key of a query
		// recorded while anonymisation was off.
		checkKeyAnon := func(store, k string) {
			isAnon, ok := zzC08IsAnon(k)
			if !ok || isAnon {
				return
			}

			if r := keys[zzC08ClientKey(k)]; r == nil || r.max == 0 {
				if anyAnon {
					addBad(zzC08Bad{Obs: obs, Kind: "not-anonymised", Store: store, Group: "key:" + k}, true)
				}
			}
		}

		if st != nil {
			cmp("total", st.Total, tot)
			for n, r := range names {
				cmp("name:"+n, st.Domains[n], r)
			}

			for n, c := range st.Domains {
				if names[n] == nil {
					cmp("name:"+n, c, nil)
				}
			}

			canon := map[string]uint64{}
			for k, c := range st.Clients {
				canon[zzC08ClientKey(k)] += c
				checkKeyAnon("unit", k)
			}

			for k, r := range keys {
				cmp("key:"+k, canon[k], r)
			}

			for k, c := range canon {
				if keys[k] == nil {
					cmp("key:"+k, c, nil)
				}
			}
		}

		for _, ip := range ips {
			k := ip.Unmap().String()
			res.checked++
			checkKeyAnon("topips", k)
			if r := keys[k]; r == nil || r.max == 0 {
				nA, nC := uint64(0), uint64(0)
				if r != nil {
					nA, nC = r.nA, r.nC
				}

				addBad(zzC08Bad{Obs: obs, Kind: "count-exceeded", Store: "topips", Group: "key:" + k, Seen: 1, Max: 0, NA: nA, NC: nC}, anyAnon)
			}
		}
	}

	fail := func(what string, ferr error) *zzC08Result {
		res.err = fmt.Errorf("%s: %w", what, ferr)

		return res
	}

	rounds := func(rs ...int) (m map[int]bool) {
		m = map[int]bool{}
		for _, r := range rs {
			m[r] = true
		}

		return m
	}

	// Addresses that must be reported anonymised under K[k] / stored
	// anonymised in the file.
	repAnon := func(k int) (m map[int]bool) { return rounds(sc.AnonRep[k]...) }
	fileAnon := map[int]bool{}
	for r := 1; r <= 4; r++ {
		fileAnon[r] = sc.K[zzC08KOfRound(r)].Anon
	}

	// reconf moves the server from K[k-1] to K[k] through the admin API.
	ids, _ := lay.clientIDs(sc.K[0].Client)
	reconf := func(k int) (rerr error) {
		prev, c := &sc.K[k-1], &sc.K[k]
		if sc.Par.Ep == "legacy" && k < 3 {
			// The legacy endpoint takes partial updates: only what changes.
			fields := map[string]any{}
			if c.QlogOn != prev.QlogOn {
				fields["enabled"] = c.QlogOn
			}

			if c.Anon != prev.Anon {
				fields["anonymize_client_ip"] = c.Anon
			}

			if len(fields) > 0 {
				rerr = e.setQlogLegacy(fields)
			}
		} else {
			rerr = e.setQlogConf(zzC08Rules(c.IgnQ), c.Anon, c.QlogOn)
		}

		if rerr != nil {
			return rerr
		}

		if rerr = e.setStatsConf(zzC08Rules(c.IgnS), c.StatsOn); rerr != nil {
			return rerr
		}

		if c.Client.Kind != "none" {
			rerr = e.updateClient(ids, c.FlagQ, c.FlagS)
		}

		return rerr
	}

	api := func(obs string, t map[[3]int]string, scope []*zzC08Q, mem map[int]bool, k int) (aerr error) {
		ents, aerr := e.searchAPI()
		if aerr != nil {
			return aerr
		}

		checkLog(obs, ents, t, scope, mem, repAnon(k), "api")

		return nil
	}

	file := func(obs string, scope []*zzC08Q) (ferr error) {
		ents, ferr := e.fileEntries()
		if ferr != nil {
			return ferr
		}

		checkLog(obs, ents, tLog, scope, nil, fileAnon, "file")

		return nil
	}

	b1, b12 := batches[0], append(append([]*zzC08Q{}, batches[0]...), batches[1]...)

	// The history of the client registry.
	for i, op := range sc.Hist {
		xids, _ := lay.clientIDs(op.C.ID)
		if err = e.clientCall(op.Op, "zzc08-extra-"+op.Who, xids, op.C.FlagQ, op.C.FlagS); err != nil {
			return fail(fmt.Sprintf("registry call %d", i), err)
		}
	}

	// Round 1 (+ ANY probes) under K0.
	sendAll(batches[0])
	if err = api("api0", tLog, b1, rounds(1, 4), 0); err != nil {
		return fail("api0", err)
	}

	st, err := e.statsAPI()
	if err != nil {
		return fail("stats0", err)
	}
	checkStats("stats0", st, b1, true, e.stats.TopClientsIP(1000))

	// Flush the memory buffer to querylog.json.
	if err = e.flush(); err != nil {
		return fail("flush1", err)
	}

	if err = file("file0", b1); err != nil {
		return fail("file0", err)
	}

	if err = api("api0f", tLog, b1, nil, 0); err != nil {
		return fail("api0f", err)
	}

	// K1.
	if err = reconf(1); err != nil {
		return fail("reconf1", err)
	}

	if err = api("api1", tAPI[0], b1, nil, 1); err != nil {
		return fail("api1", err)
	}

	sendAll(batches[1])
	if err = api("api1b", tAPI[0], b12, rounds(2), 1); err != nil {
		return fail("api1b", err)
	}

	if err = e.flush(); err != nil {
		return fail("flush2", err)
	}

	// K2.
	if err = reconf(2); err != nil {
		return fail("reconf2", err)
	}

	if err = api("api2", tAPI[1], b12, nil, 2); err != nil {
		return fail("api2", err)
	}

	sendAll(batches[2])
	if err = api("api2b", tAPI[1], all, rounds(3), 2); err != nil {
		return fail("api2b", err)
	}

	// K3: only looked at.
	if err = reconf(3); err != nil {
		return fail("reconf3", err)
	}

	if err = api("api3", tAPI[2], all, rounds(3), 3); err != nil {
		return fail("api3", err)
	}

	if st, err = e.statsAPI(); err != nil {
		return fail("stats3", err)
	}
	checkStats("stats3", st, all, false, e.stats.TopClientsIP(1000))

	// Stop: the rest of the buffer is flushed, the unit is written.
	e.stop()
	if err = file("file3", all); err != nil {
		return fail("file3", err)
	}

	if st, err = e.statsDB(); err != nil {
		return fail("db", err)
	}
	checkStats("db", st, all, true, nil)

	return res
}

// TestZZVerifC08Replay is direction A: every script TLC emitted from
// IgnoreAnon.tla is run against a fresh server.
func TestZZVerifC08Replay(t *testing.T) {
	w := zzNewWriter(t, "VERIF_OUT")
	defer w.close()

	work := zzGetenv("VERIF_WORKDIR")
	if work == "" {
		work = t.TempDir()
	}

	var u *zzC08Univ
	var scripts []*zzC08Script
	zzReadNDJSON(t, "VERIF_IN", func(line []byte) {
		var k struct {
			Kind string `json:"kind"`
		}
		if err := json.Unmarshal(line, &k); err != nil {
			t.Fatalf("bad vector: %v", err)
		}

		switch k.Kind {
		case "universe":
			u = &zzC08Univ{}
			if err := json.Unmarshal(line, u); err != nil {
				t.Fatalf("bad universe: %v", err)
			}
		case "script":
			sc := &zzC08Script{}
			if err := json.Unmarshal(line, sc); err != nil {
				t.Fatalf("bad script: %v", err)
			}

			scripts = append(scripts, sc)
		}
	})
	if u == nil {
		t.Fatal("no universe vector")
	}

	seed := zzSeed()
	workers := 4
	jobs := make(chan *zzC08Script)
	var mu sync.Mutex
	var wg sync.WaitGroup
	tot := map[string]int{}
	for i := 0; i < workers; i++ {
		wg.Add(1)
		go func() {
			defer wg.Done()
			for sc := range jobs {
				res := zzC08RunScript(u, sc, seed, work)
				// A script with transport trouble is run again from scratch.
				for try := 0; try < 2 && res.err == nil && (res.retrans > 0 || len(res.sendErrs) > 0); try++ {
					res = zzC08RunScript(u, sc, seed, work)
				}

				out := map[string]any{"kind": "script", "id": sc.ID, "checked": res.checked,
					"absent_ok": res.absentOK, "present": res.present, "unknown": res.unknown,
					"lost": len(res.lost), "retrans": res.retrans, "send_errs": len(res.sendErrs)}
				if len(res.lost) > 0 {
					out["lost_samples"] = res.lost[:min(len(res.lost), 5)]
				}

				if len(res.sendErrs) > 0 {
					out["send_err_samples"] = res.sendErrs[:min(len(res.sendErrs), 3)]
				}

				var bads []zzC08Bad
				flaky := 0
				switch {
				case res.err != nil:
					out["error"] = res.err.Error()
				case len(res.bad) > 0:
					// Reproduce: a second, fresh run of the same script.
					res2 := zzC08RunScript(u, sc, seed, work)
					again := map[string]bool{}
					for i := range res2.bad {
						again[res2.bad[i].sig()] = true
					}

					for i := range res.bad {
						if res2.err == nil && again[res.bad[i].sig()] {
							bads = append(bads, res.bad[i])
						} else {
							flaky++
						}
					}
				}

				out["flaky"] = flaky
				out["bad"] = len(bads)
				mu.Lock()
				w.put(out)
				for i := range bads {
					w.put(map[string]any{"kind": "bad", "id": sc.ID, "bad": bads[i]})
				}

				tot["scripts"]++
				tot["checked"] += res.checked
				tot["bad"] += len(bads)
				mu.Unlock()
			}
		}()
	}

	for _, sc := range scripts {
		jobs <- sc
	}

	close(jobs)
	wg.Wait()
	w.put(map[string]any{"kind": "summary", "n": tot["scripts"], "checked": tot["checked"], "bad": tot["bad"]})
}

// ------------------------------------------------------------ direction B

var (
	zzC08Labels = []string{"a", "z", "b", "xa", "az", "zaz", "mail", "www", "quiz", "x1", "a-z"}
	// Labels with the underscore (between 'Z' and 'a' in ASCII; accepted in
	// names, not in hosts-style rules): used in query names only.
	zzC08QueryOnlyLabels = []string{"z_a", "_a", "a_"}
	zzC08TLDs   = []string{"com", "org", "net", "io"}
	// Question types that the pipeline treats alike, plus A / AAAA.
	zzC08QTypes = []string{
		"A", "AAAA", "TXT", "MX", "SRV", "CAA", "NAPTR", "LOC", "HINFO", "RP", "AFSDB", "SSHFP",
		"TLSA", "URI", "CERT", "SPF", "KX", "DNAME", "NS", "SOA",
	}
)

// zzC08AbsQ is a query in the spec's vocabulary.
type zzC08AbsQ struct {
	Name []string  `json:"name"`
	Addr zzC08Addr `json:"addr"`
	CID  string    `json:"cid"`
	Qt   string    `json:"qt"`
}

func zzC08RandBits(rng *rand.Rand, n int) (b []int) {
	b = make([]int, n)
	for i := range b {
		b[i] = rng.Intn(2)
	}

	return b
}

// zzC08TraceInstance runs one random server life and returns its trace lines.
func zzC08TraceInstance(idx int, seed int64, work string) (lines []map[string]any, err error) {
	rng := rand.New(rand.NewSource(seed*7919 + int64(idx)*104729 + 17))
	lay := zzC08Layout{Width: 8, Low: 4, seed: seed + int64(idx)}

	// Base domains of this instance.
	var bases [][]string
	for i := 0; i < 3; i++ {
		b := []string{}
		for j := rng.Intn(2) + 1; j > 0; j-- {
			b = append(b, zzC08Labels[rng.Intn(len(zzC08Labels))])
		}

		bases = append(bases, append(b, zzC08TLDs[rng.Intn(len(zzC08TLDs))]))
	}

	randName := func(forQuery bool) (n []string) {
		defer func() {
			if forQuery && len(n) > 1 && rng.Intn(8) == 0 {
				n = append([]string{zzC08QueryOnlyLabels[rng.Intn(len(zzC08QueryOnlyLabels))]}, n...)
			}
		}()

		switch r := rng.Intn(100); {
		case r < 5:
			return []string{}
		case r < 10:
			return []string{zzC08TLDs[rng.Intn(len(zzC08TLDs))]}
		case r < 80:
			b := bases[rng.Intn(len(bases))]
			for j := rng.Intn(3); j > 0; j-- {
				n = append(n, zzC08Labels[rng.Intn(len(zzC08Labels))])
			}

			return append(n, b...)
		default:
			for j := rng.Intn(4) + 1; j > 0; j-- {
				n = append(n, zzC08Labels[rng.Intn(len(zzC08Labels))])
			}

			return append(n, zzC08TLDs[rng.Intn(len(zzC08TLDs))])
		}
	}

	randList := func() (ps []zzC08Pat) {
		ps = []zzC08Pat{}
		for j := rng.Intn(4); j > 0; j-- {
			n := randName(false)
			if rng.Intn(2) == 0 {
				// A suffix of a base domain, so that subdomain matching is
				// exercised.
				b := bases[rng.Intn(len(bases))]
				n = b[rng.Intn(len(b)):]
			}

			switch k := rng.Intn(10); {
			case k == 0 || len(n) == 0:
				ps = append(ps, zzC08Pat{K: "root", N: []string{}})
			case k < 4 && len(n) >= 2:
				// A single label is no valid hosts-style rule; not generated.
				ps = append(ps, zzC08Pat{K: "plain", N: n})
			case k < 7:
				ps = append(ps, zzC08Pat{K: "domain", N: n})
			default:
				ps = append(ps, zzC08Pat{K: "wild", N: n})
			}
		}

		return ps
	}

	// Address pool: a target, its anonymised form, siblings, strangers.
	fams := []string{"v4", "v4", "v6"}
	tfam := fams[rng.Intn(len(fams))]
	target := zzC08Addr{Fam: tfam, Bits: zzC08RandBits(rng, 8)}
	if zzC08BitsVal(target.Bits[4:]) == 0 {
		target.Bits[7] = 1
	}

	pool := []zzC08Addr{target}
	az := zzC08Addr{Fam: tfam, Bits: append(append([]int{}, target.Bits[:4]...), 0, 0, 0, 0)}
	pool = append(pool, az)
	for i := 0; i < 2; i++ {
		sib := zzC08Addr{Fam: tfam, Bits: append(append([]int{}, target.Bits[:4]...), zzC08RandBits(rng, 4)...)}
		pool = append(pool, sib)
	}

	if tfam == "v4" {
		pool = append(pool, zzC08Addr{Fam: "m4", Bits: append([]int{}, target.Bits...)})
	}

	for i := 0; i < 4; i++ {
		pool = append(pool, zzC08Addr{Fam: fams[rng.Intn(len(fams))], Bits: zzC08RandBits(rng, 8)})
	}

	cids := []string{"", "", "", "cli1", "phone-7", "tv"}

	cfg := zzC08Cfg{
		IgnQ: randList(), IgnS: randList(), Anon: rng.Intn(2) == 0, RefuseAny: rng.Intn(2) == 0,
		QlogOn: true, StatsOn: true, Extra: []zzC08Extra{},
	}
	switch rng.Intn(6) {
	case 0:
		cfg.Client = zzC08Client{Kind: "none"}
	case 1, 2:
		a := pool[rng.Intn(2)]
		cfg.Client = zzC08Client{Kind: "ip", Addr: &a}
	case 3:
		cfg.Client = zzC08Client{Kind: "cidr", Fam: tfam, Bits: append([]int{}, target.Bits[:rng.Intn(8)+1]...)}
	case 4:
		if tfam == "v4" {
			a := target
			cfg.Client = zzC08Client{Kind: "mac", Addr: &a}
		} else {
			cfg.Client = zzC08Client{Kind: "cid", CID: "tv"}
		}
	default:
		cfg.Client = zzC08Client{Kind: "cid", CID: cids[3+rng.Intn(3)]}
	}

	if cfg.Client.Kind != "none" {
		cfg.FlagQ, cfg.FlagS = rng.Intn(3) > 0, rng.Intn(3) > 0
	}

	// The configuration the log API is finally looked at under.
	cur := cfg
	cur.IgnQ = randList()
	if cfg.Client.Kind != "none" && rng.Intn(2) == 0 {
		cur.FlagQ = !cfg.FlagQ
	}

	dir, err := os.MkdirTemp(work, fmt.Sprintf("t%04d-", idx))
	if err != nil {
		return nil, err
	}
	defer os.RemoveAll(dir)

	var e *zzC08Env
	for try := 0; try < 5; try++ {
		e, err = zzC08Start(dir, lay.conf(&cfg))
		if err == nil || !strings.Contains(err.Error(), "address already in use") {
			break
		}

		_ = os.Remove(filepath.Join(dir, "stats.db"))
	}

	if err != nil {
		return nil, fmt.Errorf("start: %w", err)
	}
	defer e.stop()

	type tq struct {
		abs  zzC08AbsQ
		conc zzC08Query
		line map[string]any
	}

	byTag := map[string]*tq{}
	var qs []*tq
	nq := 30 + rng.Intn(40)
	for len(qs) < nq {
		a := pool[rng.Intn(len(pool))]
		cid := cids[rng.Intn(len(cids))]
		qt := zzC08QTypes[rng.Intn(len(zzC08QTypes))]
		if rng.Intn(20) == 0 {
			qt = "ANY"
		}

		n := randName(true)
		tag := zzC08NameKey(n) + "|" + qt
		if byTag[tag] != nil {
			continue
		}

		ip := lay.addr(a)
		q := &tq{
			abs: zzC08AbsQ{Name: n, Addr: a, CID: cid, Qt: qt},
			conc: zzC08Query{
				Name: zzC08WireName(rng, n), Qtype: zzC08Types[qt], Addr: ip.String(),
				DoH: a.Fam != "v4" || cid != "" || rng.Intn(4) == 0, CID: zzC08Case(rng, cid),
			},
		}
		byTag[tag] = q
		qs = append(qs, q)
	}

	none := map[string]any{"fam": "none", "bits": []int{}, "rest": 0}
	for _, q := range qs {
		q.line = map[string]any{
			"t": "q", "inst": idx, "rec": cfg, "cur": cur, "q": q.abs, "concrete": fmt.Sprintf("%+v", q.conc),
			"api0": false, "api0addr": none, "file": false, "fileaddr": none,
			"api1": false, "api1addr": none, "store": "file",
		}
	}

	retrans := 0
	send := func(batch []*tq) {
		for _, q := range batch {
			if _, serr := e.send(&q.conc); serr != nil {
				retrans++
			}
		}
	}

	mark := func(ents []zzC08Entry, field string) (unknown int) {
		for _, en := range ents {
			q := byTag[strings.ToLower(en.Name)+"|"+en.Qtype]
			if q == nil {
				unknown++

				continue
			}

			q.line[field] = true
			if a, ok := lay.abs(en.IP); ok {
				q.line[field+"addr"] = a
			} else {
				q.line[field+"addr"] = map[string]any{"fam": "odd", "bits": []int{}, "rest": 1}
			}
		}

		return unknown
	}

	// Batch A ends up in the file, batch B stays in memory.
	half := len(qs) / 2
	send(qs[:half])
	ents, err := e.searchAPI()
	if err != nil {
		return nil, err
	}
	unknown := mark(ents, "api0")

	if err = e.qlog.Shutdown(context.Background()); err != nil {
		return nil, err
	}

	send(qs[half:])
	for _, q := range qs[half:] {
		q.line["store"] = "mem"
	}

	if ents, err = e.searchAPI(); err != nil {
		return nil, err
	}
	unknown += mark(ents, "api0")

	// Reconfigure the query log side, look again.
	if err = e.setQlogConf(zzC08Rules(cur.IgnQ), cur.Anon, true); err != nil {
		return nil, err
	}

	if cur.Client.Kind != "none" {
		ids, _ := lay.clientIDs(cur.Client)
		if err = e.updateClient(ids, cur.FlagQ, cur.FlagS); err != nil {
			return nil, err
		}
	}

	if ents, err = e.searchAPI(); err != nil {
		return nil, err
	}
	unknown += mark(ents, "api1")

	top := e.stats.TopClientsIP(1000)
	e.stop()
	if ents, err = e.fileEntries(); err != nil {
		return nil, err
	}
	unknown += mark(ents, "file")

	st, err := e.statsDB()
	if err != nil {
		return nil, err
	}

	if retrans > 0 || unknown > 0 {
		return nil, fmt.Errorf("instance unusable: %d transport problems, %d unattributable entries", retrans, unknown)
	}

	for _, q := range qs {
		lines = append(lines, q.line)
	}

	// One line for the statistics of the instance.
	absqs := []zzC08AbsQ{}
	for _, q := range qs {
		absqs = append(absqs, q.abs)
	}

	names := []map[string]any{}
	for n, c := range st.Domains {
		labels := []string{}
		if n != "." {
			labels = strings.Split(n, ".")
		}

		names = append(names, map[string]any{"name": labels, "count": c})
	}

	keys := []map[string]any{}
	for k, c := range st.Clients {
		if a, ok := lay.abs(k); ok {
			keys = append(keys, map[string]any{"cid": "", "addr": a, "count": c})
		} else if _, perr := netip.ParseAddr(k); perr == nil {
			keys = append(keys, map[string]any{"cid": "", "addr": map[string]any{"fam": "odd", "bits": []int{}, "rest": 1}, "count": c})
		} else {
			keys = append(keys, map[string]any{"cid": k, "addr": none, "count": c})
		}
	}

	tops := []map[string]any{}
	for _, ip := range top {
		if a, ok := lay.abs(ip.String()); ok {
			tops = append(tops, a)
		} else {
			tops = append(tops, map[string]any{"fam": "odd", "bits": []int{}, "rest": 1})
		}
	}

	lines = append(lines, map[string]any{
		"t": "s", "inst": idx, "rec": cfg, "qs": absqs, "total": st.Total, "names": names, "keys": keys, "top": tops,
	})

	return lines, nil
}

// TestZZVerifC08Trace is direction B: random configurations and queries from
// a larger universe (8-bit address vectors, longer names, longer lists),
// recorded in the vocabulary of TraceIgnoreAnon.tla.
func TestZZVerifC08Trace(t *testing.T) {
	w := zzNewWriter(t, "VERIF_OUT_TRACE")
	defer w.close()

	work := zzGetenv("VERIF_WORKDIR")
	if work == "" {
		work = t.TempDir()
	}

	n := 30
	if zzGetenv("VERIF_TIER") == "thorough" {
		n = 150
	}

	only := map[int]bool{}
	for _, s := range strings.Split(zzGetenv("VERIF_C08_INST"), ",") {
		var i int
		if _, err := fmt.Sscanf(strings.TrimSpace(s), "%d", &i); err == nil {
			only[i] = true
		}
	}

	seed := zzSeed()
	skipped := 0
	for idx := 0; idx < n; idx++ {
		if len(only) > 0 && !only[idx] {
			continue
		}

		lines, err := zzC08TraceInstance(idx, seed, work)
		if err != nil {
			// Once more; transport trouble is not the code's fault.
			lines, err = zzC08TraceInstance(idx, seed, work)
		}

		if err != nil {
			skipped++
			t.Logf("instance %d skipped: %v", idx, err)

			continue
		}

		for _, l := range lines {
			w.put(l)
		}
	}

	if skipped > n/5 {
		t.Fatalf("%d of %d instances unusable", skipped, n)
	}
}
