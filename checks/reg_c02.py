PROPERTY = "C02"
ENTRY = {
        "text": "Same module as C01 (DnsPipeline.tla over RuleEngine.tla); the action under test is FilterAfter: the upstream answer is a sequence "
                "of abstract records (CNAME n | A ip | AAAA ip | HTTPS(ipv4hint, ipv6hint) | TXT) chosen in Upstream; TLC checks "
                "BadRecordAnywhereBlocks (quantified over the position of the offending record; an allow rule overrides only that same name/address), "
                "NoMatchDeliveredUnchanged and NotApplicableDeliveredUnchanged (protection off, filtering off globally or for the client, "
                "queried name allow-listed) against a declarative reading of the statement, stepwise and on per-configuration tables; "
                "every configuration (rule sets <= 2 of a 17-rule family over CNAME targets and IPv4/IPv6 literals x places, flags, AAAA-disabled) "
                "is built as a real server whose mock upstream returns each of the 585 answer sections of length <= 3 over an 8-record alphabet; "
                "a seeded driver with longer answers (CNAME chains, several hints) is validated by TraceDnsPipeline.tla.",
        "design_ref": "DESIGN.md section 4 C02",
        "note": "Trusted: TLC; RuleEngine.tla (transcription of urlfilter v0.20.0, validated on the unchanged tree); conc()/abs() of zz_verif_c0102_test.go. "
                "Compared: delivered answer = upstream's (same records, same order) or the blocking-mode response class; reason and presence of the original "
                "answer in the query-log record. Not compared: TTLs, rule texts. $dnstype rules are not generated for C02; with AAAA disabled "
                "IPv6 hints are ignored on both sides.",
        "technique": "TLA+ spec model-checked by TLC; TLC-generated verdict tables replayed into real servers + TLC trace validation",
    }
