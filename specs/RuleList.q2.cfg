SPECIFICATION Spec
CONSTANTS MaxLines = 3
          Shapes <- ShapesCore
          Endings <- EndingsAll
          Policies <- UniformPolicies
INVARIANTS Statement
