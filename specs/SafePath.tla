------------------------------ MODULE SafePath ------------------------------
(***************************************************************************)
(* C17 -- local files are read as filter lists only when they match the    *)
(* configured safe patterns, at every entry point and for every spelling.  *)
(*                                                                         *)
(* State machine over one server configuration:                            *)
(*                                                                         *)
(*   pats    the configured safe patterns (a set of glob numbers)          *)
(*   known   the locations that MAY currently be configured as lists.      *)
(*           The statement does not say which requests are accepted (it is *)
(*           a pure "only if"), so the spec does not decide acceptance:    *)
(*           known over-approximates the real list table, which is sound   *)
(*           because the bound on what a refresh may open is monotone in   *)
(*           it.                                                           *)
(*   opened  the set of clean absolute paths the LAST step was allowed to  *)
(*           open as list sources (an upper bound; opening less is fine)   *)
(*   last    the last step (label and location), so that every entry point *)
(*           with every location is a distinct reachable state / vector    *)
(*                                                                         *)
(* Steps = the ways a location reaches the code that reads lists:          *)
(*   Add(l)     POST /control/filtering/add_url                            *)
(*   SetURL(l)  POST /control/filtering/set_url  (edit an existing list)   *)
(*   Inject(l)  the location is in the configuration file when the server  *)
(*              starts: nothing validated it; starting opens nothing       *)
(*   Refresh    POST /control/filtering/refresh (or the periodic one):     *)
(*              every configured list is read again                        *)
(*   Remove(l)  POST /control/filtering/remove_url                         *)
(*   OwnerMutatesItsCopy   an ENVIRONMENT step: whoever started the server *)
(*              overwrites the elements of the pattern slice it passed to  *)
(*              New, and of the configuration copy it got back from        *)
(*              WriteDiskConfig, with patterns that admit other files.     *)
(*              "Configured" means configured when the server was started: *)
(*              pats does not change (PatternsFixedAtStart), and since     *)
(*              every bound is computed from pats, whatever the owner does *)
(*              to ITS copies (variable owner) changes nothing the server  *)
(*              may open.                                                  *)
(*                                                                         *)
(* Two configurations use this one text.  SafePath.mc.cfg (Mode = "mc")    *)
(* explores ALL histories of these steps over a small set of locations     *)
(* (the state graph is finite and explored completely) and checks the      *)
(* invariants below.  SafePath.gen.cfg (Mode = "gen") takes, for every     *)
(* pattern list and every location of a much larger set, the single step   *)
(* Sweep, which evaluates the very operators the actions use (AddOpens,    *)
(* SetURLOpens, InjectOpens, RefreshOpens) and prints them as one vector   *)
(* for the Go harness to replay through all three entry points.            *)
(* SafePath.walk.cfg (Mode = "walk") is the "mc" machine again, viewed     *)
(* through <<pats, known, owner>> only, printing every edge of that graph  *)
(* (source table, step, bound on what the step may open): the harness      *)
(* covers these edges with walks on ONE live server each, because the      *)
(* invariant is over all states of the machine, not over single calls --   *)
(* what a server accepted earlier must not change what it opens later.     *)
(*                                                                         *)
(* The file tree, the working directory, the globs and the locations are   *)
(* small finite sets chosen to contain every distinction the statement     *)
(* draws (dot-dot, dot, doubled and trailing separators, relative forms,   *)
(* URL-looking strings; exact, *, ?, [..] patterns, * against a deeper     *)
(* path, a pattern that itself contains "..", a relative pattern).         *)
(*                                                                         *)
(* "R" is the root of the test tree.  The harness concretises the name "R" *)
(* as the (several segments long) real directory it created; because no    *)
(* location tail and no glob other than through its leading literal "R"    *)
(* can spell that directory, a cleaned path either keeps the leading "R"   *)
(* or matches no pattern and names no file of the tree -- in the model and *)
(* in reality alike, whatever the real depth of R.                         *)
(***************************************************************************)
EXTENDS Sequences, Naturals, FiniteSets, TLC, Json

CONSTANT Mode    \* "mc": small location set, all histories;  "gen": large
                 \* location set, one entry step each, vectors emitted;
                 \* "walk": the "mc" machine, every edge printed

VARIABLES pats, known, opened, last, owner
vars == <<pats, known, opened, last, owner>>

\* ------------------------------------------------------------- vocabulary
\* Characters of the names in use (every other name is its own characters).
Spell(n) == CASE n = "a.txt"   -> <<"a", ".", "t", "x", "t">>
              [] n = "c.txt"   -> <<"c", ".", "t", "x", "t">>
              [] n = "x.txt"   -> <<"x", ".", "t", "x", "t">>
              [] n = "77.txt"  -> <<"7", "7", ".", "t", "x", "t">>
              [] n = "filters" -> <<"f", "i", "l", "t", "e", "r", "s">>
              [] n = "userfilters" -> <<"u", "s", "e", "r", "f", "i", "l", "t", "e", "r", "s">>
              [] n = "u.txt"   -> <<"u", ".", "t", "x", "t">>
              [] n = "sx"      -> <<"s", "x">>
              [] n = "s.b"     -> <<"s", ".", "b">>
              [] n = "s.d"     -> <<"s", ".", "d">>
              [] n = "s_old"   -> <<"s", "_", "o", "l", "d">>
              [] OTHER         -> <<n>>
MCChars == [n \in {"R", "D", "s", "S", "o", "t", "d", "a.txt", "c.txt", "x.txt", "77.txt", "filters",
                   "userfilters", "u.txt",
                   "sx", "s.b", "s.d", "s_old"} |-> Spell(n)]

INSTANCE SafePathCore WITH Chars <- MCChars

\* The test tree: directories and sentinel files (each with its own rule).
\* Next to the directory "s" that the directory patterns name there are
\* SIBLINGS whose names merely begin like it (one, two and more characters
\* longer), as files and as a directory holding a file: glob semantics decide,
\* and no pattern of this model matches any of them except through "*".
\* "D" is the server's own data directory (the harness concretises it as the
\* DataDir of the very server the request goes to): "D/filters" is where the
\* server keeps the downloaded copies, "77.txt" looks like such a copy.  The
\* data directory is not special: no configured pattern, no read.
Dirs  == {<<"R">>, <<"R", "s">>, <<"R", "s", "d">>, <<"R", "o">>, <<"R", "t">>,
          <<"R", "S">>,           \* differs from "s" in case only: a different directory
          <<"R", "s.d">>,
          <<"D">>, <<"D", "filters">>,
          <<"D", "userfilters">>}  \* where the installation wizard's default pattern points: not special either
Files == {<<"R", "a.txt">>, <<"R", "s", "a.txt">>, <<"R", "s", "c.txt">>,
          <<"R", "s", "d", "a.txt">>, <<"R", "o", "a.txt">>, <<"R", "o", "c.txt">>,
          <<"R", "t", "a.txt">>, <<"R", "S", "a.txt">>,
          <<"R", "sx">>, <<"R", "s.b">>, <<"R", "s_old">>, <<"R", "s.d", "a.txt">>,
          <<"D", "filters", "x.txt">>, <<"D", "filters", "77.txt">>, <<"D", "x.txt">>,
          <<"D", "userfilters", "u.txt">>}
Cwd   == <<"R", "o">>     \* working directory of the server: outside every pattern

LitSeq(cs) == [i \in 1..Len(cs) |-> Lit(cs[i])]
L(name)    == LitSeq(MCChars[name])
A(segs)    == [abs |-> TRUE, segs |-> segs]

Globs == <<
  \* 1  exact path                       /R/s/a.txt
  A(<<L("R"), L("s"), L("a.txt")>>),
  \* 2  the shape of the default config  /R/s/*
  A(<<L("R"), L("s"), <<Star>>>>),
  \* 3  one-character wildcard           /R/s/?.txt
  A(<<L("R"), L("s"), <<Q>> \o LitSeq(<<".", "t", "x", "t">>)>>),
  \* 4  class in a directory segment     /R/[st]/a.txt
  A(<<L("R"), <<Cls({"s", "t"})>>, L("a.txt")>>),
  \* 5  stars only, three levels         /R/*/*/*
  A(<<L("R"), <<Star>>, <<Star>>, <<Star>>>>),
  \* 6  star in the middle, ? later      /R/*/a*.t?t
  A(<<L("R"), <<Star>>, <<Lit("a"), Star, Lit("."), Lit("t"), Q, Lit("t")>>>>),
  \* 7  a pattern containing dot-dot     /R/s/../o/*   (matches no clean path)
  A(<<L("R"), L("s"), LitSeq(<<".", ".">>), L("o"), <<Star>>>>),
  \* 8  a relative pattern               s/*           (matches no absolute path)
  [abs |-> FALSE, segs |-> <<L("s"), <<Star>>>>]
>>

\* Pattern lists: empty, every single glob, every pair of the matching ones.
Configs == {{}} \cup {{i} : i \in 1..8} \cup {{i, j} : i, j \in 1..6}
PatsOf(c) == {Globs[i] : i \in c}

\* Sequences over S of length exactly n / at most n.
RECURSIVE SeqsN(_, _)
SeqsN(S, n) == IF n = 0 THEN {<<>>} ELSE {Append(q, x) : q \in SeqsN(S, n - 1), x \in S}
SeqsUpTo(S, n) == UNION {SeqsN(S, k) : k \in 0..n}

Plain(abs, tail) == [scheme |-> "none", abs |-> abs, segs |-> IF abs THEN <<"R">> \o tail ELSE tail]
URL(sc, abs, tail) == [scheme |-> sc, abs |-> abs, segs |-> <<"R">> \o tail]
At(sc, root, tail)  == [scheme |-> sc, abs |-> TRUE, segs |-> <<root>> \o tail]

GenLocs ==
    \* absolute spellings below R
    {Plain(TRUE, t) : t \in SeqsUpTo({"s", "S", "o", "t", "d", "a.txt", "c.txt", "..", ".", ""}, 3)}
      \cup {Plain(TRUE, t) : t \in SeqsN({"s", "o", "d", "a.txt", "..", ".", ""}, 4)}
      \cup {Plain(TRUE, t) : t \in SeqsN({"s", "..", "a.txt", ""}, 5)}
    \* relative spellings, taken from Cwd = /R/o
    \* (a spelling whose first segment is empty starts with a separator: it
    \* is an absolute spelling, listed above, not a relative one)
      \cup {Plain(FALSE, t) : t \in {q \in SeqsUpTo({"s", "o", "a.txt", "..", ".", ""}, 3) :
                                       q = <<>> \/ q[1] # ""}}
      \cup {Plain(FALSE, t) : t \in SeqsN({"s", "d", "a.txt", ".."}, 4)}
    \* URL-looking strings
      \cup {URL(sc, ab, t) : sc \in Schemes \ {"none"}, ab \in BOOLEAN,
                             t \in SeqsUpTo({"s", "o", "a.txt", "..", ""}, 3)}
    \* siblings of the pattern directory "s"
      \cup UNION {{Plain(TRUE, t) : t \in {<<n>>, <<n, "">>, <<"s", "..", n>>, <<".", n>>, <<n, "a.txt">>,
                                            <<n, "..", n>>, <<"s", "", "..", n, ".">>}}
                    \cup {URL("file", TRUE, <<n>>)} : n \in {"sx", "s.b", "s_old", "s.d"}}
    \* locations inside the server's own data directory
      \cup {At("none", "D", t) : t \in {<<"filters", "x.txt">>, <<"filters", "77.txt">>, <<"x.txt">>, <<"filters">>,
                                        <<"filters", "..", "x.txt">>, <<"filters", "", "77.txt">>,
                                        <<"filters", ".", "x.txt", "">>, <<"filters", "x.txt", "..", "77.txt">>,
                                        <<"filters", "..", "filters", "x.txt">>}}
      \cup {At("file", "D", <<"filters", "x.txt">>), At("file", "D", <<"filters", "77.txt">>)}
    \* the directory a fresh installation configures as its only pattern ("<data dir>/userfilters/*"):
    \* a pattern list that does not name it gives no access to it (seeded change C17-17)
      \cup {At("none", "D", t) : t \in {<<"userfilters", "u.txt">>, <<"filters", "..", "userfilters", "u.txt">>,
                                        <<"userfilters">>}}
      \cup {At("file", "D", <<"userfilters", "u.txt">>)}

MCLocs ==
    {Plain(TRUE, t) : t \in {<<"s", "a.txt">>, <<"s", "c.txt">>, <<"o", "a.txt">>, <<"t", "a.txt">>,
                             <<"s", "d", "a.txt">>, <<"s", "..", "o", "a.txt">>,
                             <<"o", "..", "s", "", "a.txt", "">>, <<"s", "d", "..", ".", "c.txt">>,
                             <<"..", "..", "s", "a.txt">>, <<"s", "d">>, <<>>}}
      \cup {Plain(TRUE, <<"S", "a.txt">>), Plain(TRUE, <<"s_old">>), At("none", "D", <<"filters", "x.txt">>),
            At("none", "D", <<"userfilters", "u.txt">>)}
      \cup {Plain(FALSE, t) : t \in {<<"a.txt">>, <<"..", "s", "a.txt">>, <<"s", "a.txt">>}}
      \cup {URL(sc, TRUE, <<"s", "a.txt">>) : sc \in {"file", "ftp", "http"}}
      \cup {URL("file", FALSE, <<"s", "a.txt">>), URL("file", TRUE, <<"s", "..", "o", "a.txt">>)}

Locs     == IF Mode = "gen" THEN GenLocs ELSE MCLocs
MaxKnown == 2      \* bound on the list table in "mc" mode

NoLoc == [scheme |-> "none", abs |-> FALSE, segs |-> <<"-">>]

\* ------------------------------------------------------------ memoisation
\* May() is evaluated for every (configuration, location) pair; its two
\* expensive parts depend on the location alone (Denoted) and on one glob and
\* one path (MatchPath).  TLC evaluates constant definitions once, so they
\* are tabulated here; MemoOK below checks the tables against the operators.
DenTab   == [l \in Locs |-> Denoted(l, Cwd)]
AllDen   == UNION {DenTab[l] : l \in Locs}
MatchTab == [i \in 1..Len(Globs) |-> {p \in AllDen : MatchPath(Globs[i], p)}]

\* --------------------------------------------------------------- behaviour
\* What each kind of step may open (upper bounds; opening less is allowed).
MayL(l)         == {p \in DenTab[l] : \E i \in pats : p \in MatchTab[i]}
AddOpens(l)     == MayL(l)       \* the statement: "enforced when a list is added,
SetURLOpens(l)  == MayL(l)       \*   when its URL is edited
RefreshOpens(K) == UNION {MayL(l) : l \in K}    \* and again at every refresh"
InjectOpens(l)  == {}            \* loading the configuration opens no list source

Room(l) == l \in known \/ Cardinality(known) < MaxKnown

\* "walk" mode: the edge just taken, for the harness's edge-covering walks.
Edge(act, l, bound) ==
    Mode = "walk" =>
      PrintT(<<"@@V", ToJson([t |-> "e", cfg |-> pats, src |-> known, own |-> owner, act |-> act, loc |-> l,
                              may |-> bound])>>)

Add(l) == /\ Room(l)
          /\ known'  = known \cup {l}
          /\ opened' = AddOpens(l)
          /\ last'   = [act |-> "add", loc |-> l]
          /\ UNCHANGED <<pats, owner>>
          /\ Edge("add", l, opened')

\* Editing needs a list to edit.
SetURL(l) == /\ Room(l)
             /\ known # {}
             /\ known'  = known \cup {l}
             /\ opened' = SetURLOpens(l)
             /\ last'   = [act |-> "seturl", loc |-> l]
             /\ UNCHANGED <<pats, owner>>
             /\ Edge("seturl", l, opened')

Inject(l) == /\ Room(l)
             /\ known'  = known \cup {l}
             /\ opened' = InjectOpens(l)
             /\ last'   = [act |-> "inject", loc |-> l]
             /\ UNCHANGED <<pats, owner>>
             /\ Edge("inject", l, opened')

Refresh == /\ opened' = RefreshOpens(known)
           /\ last'   = [act |-> "refresh", loc |-> NoLoc]
           /\ UNCHANGED <<pats, known, owner>>
           /\ Edge("refresh", NoLoc, opened')

Remove(l) == /\ l \in known
             /\ known'  = known \ {l}
             /\ opened' = {}
             /\ last'   = [act |-> "remove", loc |-> l]
             /\ UNCHANGED <<pats, owner>>
             /\ Edge("remove", l, opened')

\* The owner's copies after it has scribbled over them: element i of its
\* slices becomes ScribbleGlobs[i] (cyclically) -- patterns that match files
\* no configuration of this model admits together.  The harness does exactly
\* this to the slice it passed to New and to WriteDiskConfig's copy.
ScribbleGlobs == <<A(<<L("R"), <<Star>>, <<Star>>>>), A(<<L("R"), <<Star>>>>)>>

OwnerMutatesItsCopy ==
    /\ owner = "configured"
    /\ owner'  = "scribbled"
    /\ opened' = {}
    /\ last'   = [act |-> "scribble", loc |-> NoLoc]
    /\ UNCHANGED <<pats, known>>
    /\ Edge("scribble", NoLoc, opened')

\* "gen" mode: one step per (configuration, location) that evaluates the
\* bounds of all entry points with the operators the actions above use and
\* prints them as one vector: what add_url / set_url with this location may
\* open, what loading it from the configuration file may open (nothing), and
\* what a refresh may open once the location is, or may be, configured
\* (in the harness the only other list is a base list with an http URL,
\* which names no local file).
Sweep(l) == /\ known'  = {l}
            /\ opened' = RefreshOpens({l})
            /\ last'   = [act |-> "sweep", loc |-> l]
            /\ UNCHANGED <<pats, owner>>
            /\ PrintT(<<"@@V", ToJson([t |-> "v", cfg |-> pats, loc |-> l,
                                      add |-> AddOpens(l), seturl |-> SetURLOpens(l),
                                      inject |-> InjectOpens(l),
                                      refresh |-> opened'])>>)

\* The tables the harness needs to build the world the vectors talk about:
\* the tree, the working directory, the globs by number, and for every
\* configuration the nodes of the tree that match it (the statement's own
\* bound on what may ever be opened under that configuration).
EmitTables ==
    Mode = "gen" =>
      PrintT(<<"@@V", ToJson([t |-> "tables", dirs |-> Dirs, files |-> Files, cwd |-> Cwd,
                              globs |-> Globs, scribble |-> ScribbleGlobs,
                              matching |-> {[cfg |-> c,
                                             nodes |-> {f \in Files \cup Dirs : MatchesAny(PatsOf(c), f)}] :
                                            c \in Configs}])>>)

Init == /\ pats \in Configs
        /\ known = {}
        /\ opened = {}
        /\ last = [act |-> "init", loc |-> NoLoc]
        /\ owner = "configured"
        /\ (pats = {} => EmitTables)

AddStep    == Mode # "gen" /\ \E l \in Locs : Add(l)
SetURLStep == Mode # "gen" /\ \E l \in Locs : SetURL(l)
InjectStep == Mode # "gen" /\ \E l \in Locs : Inject(l)
RefreshStep == Mode # "gen" /\ Refresh
RemoveStep == Mode # "gen" /\ \E l \in known : Remove(l)
OwnerStep  == Mode # "gen" /\ OwnerMutatesItsCopy
SweepStep  == Mode = "gen" /\ last.act = "init" /\ \E l \in Locs : Sweep(l)

Next == AddStep \/ SetURLStep \/ InjectStep \/ RefreshStep \/ RemoveStep \/ OwnerStep \/ SweepStep

Spec == Init /\ [][Next]_vars

\* What the real server's behaviour may depend on, as far as the spec goes.
WalkView == <<pats, known, owner>>

\* --------------------------------------------- properties of the statement
\* Whatever the history, a step may open only clean absolute paths matching
\* a configured pattern, and nothing at all without patterns.
SafeInv == Safe(PatsOf(pats), opened)

\* The patterns in force are the ones the server was started with: no step,
\* and in particular nothing the owner does to its own copies afterwards,
\* changes them.
PatternsFixedAtStart == [][pats' = pats]_vars

\* What an entry step may open is the one file the location names -- never
\* something else that happens to match.
OnlyTheNamedFile ==
    last.act \in {"add", "seturl"} => opened \subseteq Denoted(last.loc, Cwd)

\* URL-looking strings other than file:///... never name a local file.
NoForeignScheme ==
    /\ last.act \in {"add", "seturl"}
    /\ last.loc.scheme \in {"http", "https", "ftp"} \/ (last.loc.scheme = "file" /\ ~last.loc.abs)
    => opened = {}

\* Spelling does not matter: two locations naming the same file get the same
\* verdict; the cleaned form is a fixed point of Clean.
SpellingIrrelevant ==
    last.act \in {"add", "seturl"} =>
      /\ \A p \in Denoted(last.loc, Cwd) : IsCleanAbs(p) /\ Clean(TRUE, p) = p
      /\ \A p \in Denoted(last.loc, Cwd) :
           (opened = {p}) = MatchesAny(PatsOf(pats), p)

\* The tables agree with the operators they tabulate.
MemoOK ==
    last.loc # NoLoc =>
      MayL(last.loc) = May(PatsOf(pats), last.loc, Cwd)

\* Unit facts about the operators (hygiene of the spec itself).
ASSUME Clean(TRUE, <<"R", "s", "..", "o", "", "a.txt", "">>) = <<"R", "o", "a.txt">>
ASSUME Clean(TRUE, <<"..", "..", "R", ".", "s">>) = <<"R", "s">>
ASSUME Clean(FALSE, <<"..", "s", "..", "..", "a.txt">>) = <<"..", "..", "a.txt">>
ASSUME AbsClean(FALSE, <<"..", "s", "a.txt">>, Cwd) = <<"R", "s", "a.txt">>
ASSUME MatchPath(Globs[2], <<"R", "s", "a.txt">>) /\ ~MatchPath(Globs[2], <<"R", "s", "d", "a.txt">>)
ASSUME MatchPath(Globs[2], <<"R", "s", "d">>) /\ ~MatchPath(Globs[2], <<"R", "o", "a.txt">>)
ASSUME MatchPath(Globs[3], <<"R", "s", "c.txt">>) /\ ~MatchPath(Globs[3], <<"R", "s", "d">>)
ASSUME MatchPath(Globs[4], <<"R", "t", "a.txt">>) /\ ~MatchPath(Globs[4], <<"R", "o", "a.txt">>)
ASSUME MatchPath(Globs[5], <<"R", "s", "d", "a.txt">>) /\ ~MatchPath(Globs[5], <<"R", "s", "a.txt">>)
ASSUME MatchPath(Globs[6], <<"R", "o", "a.txt">>) /\ ~MatchPath(Globs[6], <<"R", "o", "c.txt">>)
ASSUME \A f \in Files \cup Dirs : ~MatchPath(Globs[7], f) /\ ~MatchPath(Globs[8], f)
ASSUME ~MatchPath(Globs[2], <<"R", "S", "a.txt">>) /\ ~MatchPath(Globs[4], <<"R", "S", "a.txt">>)
ASSUME \A f \in Files \cup Dirs : IsCleanAbs(f)
\* Beginning like the pattern directory is not being in it; the data directory
\* is matched by nothing.
ASSUME \A i \in 1..Len(Globs) : \A n \in {"sx", "s.b", "s_old", "s.d"} : ~MatchPath(Globs[i], <<"R", n>>)
ASSUME \A i \in 1..Len(Globs) : \A f \in Files \cup Dirs : f[1] = "D" => ~MatchPath(Globs[i], f)
\* Scribbling matters: the owner's new patterns match files that, e.g., the
\* exact-path configuration {1} forbids.
ASSUME MatchPath(ScribbleGlobs[1], <<"R", "o", "a.txt">>) /\ MatchPath(ScribbleGlobs[2], <<"R", "a.txt">>)
=============================================================================
