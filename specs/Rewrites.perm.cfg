\* Order-independence of the specification on three-entry tables: one shard
\* (first pattern; the orchestrator substitutes it from the seed) with all six
\* orderings of every table.  Nothing is emitted (Mode "live" without queries
\* would also evaluate the step machine; "perm" just builds tables).
CONSTANTS U = "small" MaxLen = 3 EmitFrom = 99 Shard = 1 Perms = TRUE Families = 0 Mode = "gen"
INIT Init
NEXT Next
INVARIANTS PermutationInvariant
