PROPERTY = "C03"
ENTRY = {
        "text": "Access.tla (decision written from the statement: allow-list mode iff the allowed list is non-empty, admitted iff address or ClientID allowed, "
                "else excluded iff address or ClientID disallowed; blocked names by exact / ||name^ / *.name / ||*^, optionally restricted to one query type ($dnstype); ClientID entries match up to letter case and IPv4-mapped entries denote the IPv4 address/prefix (how an entry is written is irrelevant); three /regexp/ rules; exception rules (@@) except a name from the list; an entry written with the final dot is the same entry; an invalid ClientID label admits SERVFAIL or the denial; SetLists (API) and LoadConfig (server created/reconfigured from a configuration; empty blocked hosts = documented defaults) alternate in histories and only the lists given last, as GET /control/access/list reports them, decide; denial = no reply on UDP and DNSCrypt, REFUSED elsewhere; "
                "upstream, filter, query log and statistics move only for served requests) is model-checked by TLC over every history of <= 2 reconfigurations and "
                "<= 2 requests of a small universe and enumerated over every disjoint pair of lists of size <= 2 out of 14 entries (IPs, CIDRs incl. /0 and full length, "
                "both families, ClientIDs; 8.6e3 configurations x 32 addresses x 3 ClientIDs) and every blocked-hosts list of size <= 2 out of 24 patterns x 20 names x 5 query types. "
                "Every configuration is installed as the last step of a seeded history of posts (respelled lists, allow list emptied/filled) on a live server through POST /control/access/set and its verdict table replayed through IsBlockedClient and "
                "HandleBefore (address forms plain / 4-in-6 / zoned, ClientID and name spellings, query types, six transports); a seeded sample goes through real UDP, TCP, "
                "DoT, DoQ and DNSCrypt sockets and the DoH handler with recording upstream / filter / query log / statistics. Random list sets over 8-bit universes are "
                "recorded and validated step by step by TraceAccess.tla.",
        "design_ref": "DESIGN.md section 4 C03",
        "note": "Trusted: TLC, conc()/abs() of zz_verif_c03_test.go, the recording doubles. IPv6, zoned and IPv4-mapped client addresses are exercised at HandleBefore / DoH-handler "
                "level (plus one end-to-end UDP probe over a link-local address when the host has one); DNSCrypt over TCP is not exercised. UDP/DNSCrypt silence is measured "
                "against a control query answered afterwards. The rule engine's substring reading of *.name is left open (spec admits both answers). "
                "Two findings (zoned addresses vs exact-IP entries, IPv4-mapped addresses vs IPv4 entries) were found and are fixed in /repo; three more (capital ClientID entries, IPv4-mapped entries, lower-cased regexp rules) are fixed as well; a further one (exception rules acting as blocking rules) is fixed; one is open with a proposed fix (blocked_hosts entries written with the final dot are inverted).",
        "technique": "TLA+ spec model-checked and enumerated by TLC; exhaustive verdict-table replay into a real server + real-transport sample + TLC trace validation",
    }
