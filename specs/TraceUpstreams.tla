--------------------------- MODULE TraceUpstreams ---------------------------
(***************************************************************************)
(* Direction B for G11: validates histories recorded from a real           *)
(* dnsforward.Server (harness TestZZVerifG11Trace) against                 *)
(* UpstreamsCore.tla -- the operators Upstreams.tla is built from.         *)
(*                                                                         *)
(* The trace file is the concatenation of histories.  Lines:               *)
(*   reset  a new server in the initial configuration; sys = the OS's      *)
(*          resolvers without AdGuard Home itself                          *)
(*   set    POST /control/dns_config: the request (abstract lists as the   *)
(*          driver generated them), the status code, and `info`: the       *)
(*          abstraction of GET /control/dns_info right after the call      *)
(*   down   an upstream stops / resumes responding                         *)
(*   ask    one question: locality, question, and the observation (which   *)
(*          upstreams received it, response class, who answered)           *)
(*                                                                         *)
(* A set line is accepted iff one of the specification's admissible        *)
(* results has its status code and its configuration is the reported one;  *)
(* an ask line iff the observation conforms to an admissible outcome.  A   *)
(* rejected set line ends its history (the rest is skipped); a rejected    *)
(* ask line does not.  The validator is deterministic (-workers 1); the    *)
(* verdict is printed when the last line has been consumed.                *)
(***************************************************************************)
EXTENDS UpstreamsCore, TLC, Json

Trace == ndJsonDeserialize("trace.ndjson")

VARIABLES l, cfg, sys, down, bad, skipping
tvars == <<l, cfg, sys, down, bad, skipping>>

SetOf(s) == {s[i] : i \in DOMAIN s}

\* ------------------------------------------ JSON -> vocabulary of the core
SecOf(s) == [p |-> [d |-> s.p.d, w |-> s.p.w], v |-> SetOf(s.v)]
ListOf(x) == [gen |-> SetOf(x.gen), secs |-> {SecOf(x.secs[i]) : i \in DOMAIN x.secs}, self |-> x.self, bad |-> x.bad]
ReqOf(r) == [has |-> SetOf(r.has), up |-> ListOf(r.up), fb |-> ListOf(r.fb), boot |-> r.boot, ptr |-> ListOf(r.ptr), use |-> r.use]
CfgOf(c) == [up |-> ListOf(c.up), fb |-> ListOf(c.fb), boot |-> c.boot, ptr |-> ListOf(c.ptr), use |-> c.use]
ObsOf(o) == [rcv |-> SetOf(o.rcv), cls |-> o.cls, by |-> o.by]

Cfg0 == [up |-> List({"u1"}, {}), fb |-> NoList, boot |-> "b1", ptr |-> NoList, use |-> FALSE]

Init ==
    /\ l = 1
    /\ cfg = Cfg0
    /\ sys = {}
    /\ down = {}
    /\ bad = <<>>
    /\ skipping = FALSE

\* The reported configuration is the configuration in effect; the default
\* private reverse servers reported are the OS's without AdGuard Home.
InfoOK(c, ln) == ln.infobad = "" /\ CfgOf(ln.info) = c /\ SetOf(ln.def) = sys

Reject(ln, detail) == PrintT(<<"@@V", ToJson([k |-> "bad", line |-> l, h |-> ln.h, detail |-> detail])>>)

Step ==
    /\ l <= Len(Trace)
    /\ l' = l + 1
    /\ \E ln \in {Trace[l]} :
        IF ln.k = "reset" THEN
            /\ cfg' = Cfg0
            /\ sys' = SetOf(ln.sys)
            /\ down' = {}
            /\ skipping' = FALSE
            /\ UNCHANGED bad
        ELSE IF skipping THEN UNCHANGED <<cfg, sys, down, bad, skipping>>
        ELSE IF ln.k = "down" THEN
            /\ down' = (IF ln.on THEN down \cup {ln.u} ELSE down \ {ln.u})
            /\ UNCHANGED <<cfg, sys, bad, skipping>>
        ELSE IF ln.k = "set" THEN
            \E R \in {Results(cfg, sys, ReqOf(ln.req))} :
                \E ok \in {{res \in R : res.code = ln.code /\ InfoOK(res.cfg, ln)}} :
                    IF ok # {} THEN
                        /\ cfg' = (CHOOSE res \in ok : TRUE).cfg
                        /\ UNCHANGED <<sys, down, bad, skipping>>
                    ELSE
                        /\ Reject(ln, [codes |-> {res.code : res \in R}, pre |-> [cfg |-> cfg, sys |-> sys],
                                       cfgs |-> {res.cfg : res \in {x \in R : x.code = ln.code}}])
                        /\ bad' = Append(bad, l)
                        /\ skipping' = TRUE
                        /\ UNCHANGED <<cfg, sys, down>>
        ELSE IF ln.k = "ask" THEN
            \E O \in {Out(cfg, sys, down, ln.loc, ln.q)} :
                IF \E a \in O : Conforms(ObsOf(ln.obs), a) THEN UNCHANGED <<cfg, sys, down, bad, skipping>>
                ELSE
                    /\ Reject(ln, [alts |-> O, pre |-> [cfg |-> cfg, sys |-> sys], down |-> down])
                    /\ bad' = Append(bad, l)
                    /\ UNCHANGED <<cfg, sys, down, skipping>>
        ELSE
            /\ Assert(FALSE, <<"unknown line kind", ln>>)
            /\ UNCHANGED <<cfg, sys, down, bad, skipping>>

Done ==
    /\ l = Len(Trace) + 1
    /\ l' = l + 1
    /\ PrintT(<<"@@V", ToJson([k |-> "verdict", n |-> l - 1, bad |-> bad])>>)
    /\ UNCHANGED <<cfg, sys, down, bad, skipping>>

Next == Step \/ Done
Spec == Init /\ [][Next]_tvars
=============================================================================
