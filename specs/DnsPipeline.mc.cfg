SPECIFICATION SpecMC
CONSTANT AllModes = FALSE
INVARIANTS MC_C01 MC_C02 NeverForwardedWhileBlocked
PROPERTY UpstreamOnlyWithoutResponse
