// Command lockgraph extracts the lock-order graph of the AdGuard Home module
// from its source: for every function, which sync.Mutex / sync.RWMutex fields
// are held (and in which mode) when another one is acquired, directly or
// through any chain of calls (static calls, interface calls resolved by
// class-hierarchy analysis, and calls of func-typed fields / variables
// resolved by a flow-insensitive value-flow analysis of func values).
//
// It is stdlib-only and is run with `go run` from inside the module under
// analysis, so that it is built with that module's toolchain:
//
//	cd /repo && go run /verif/tools/lockgraph/main.go -out graph.json
//
// Output: JSON {locks: [...], edges: [{held, hmode, acq, amode, fn, via, pos}], ...}.
package main

import (
	"bytes"
	"encoding/json"
	"flag"
	"fmt"
	"go/ast"
	"go/importer"
	"go/parser"
	"go/token"
	"go/types"
	"io"
	"os"
	"os/exec"
	"path/filepath"
	"sort"
	"strings"
)

type listPkg struct {
	ImportPath string
	Dir        string
	Export     string
	GoFiles    []string
	Standard   bool
	Module     *struct{ Path string }
	Imports    []string
	ImportMap  map[string]string
}

type lockRef struct {
	ID   string
	Mode string // "r" or "w"
}

// event is one thing a function body does, in source order.
type event struct {
	kind    string // "acq", "rel", "call"
	lock    lockRef
	callees []string
	held    []lockRef
	pos     string
	isGo    bool
}

type funcInfo struct {
	name   string
	events []*event
}

type analyzer struct {
	fset  *token.FileSet
	pkgs  map[string]*types.Package
	infos map[string]*types.Info
	files map[string][]*ast.File
	order []string
	mod   string

	funcs map[string]*funcInfo
	// flow: node (object key) -> set of sources (either "F:<func name>" or "N:<node key>").
	flow map[string]map[string]bool
	// named types of the module, for CHA.
	named []*types.Named
	// function objects by name, to find params.
	litCount int
}

func main() {
	out := flag.String("out", "", "output file (default stdout)")
	flag.Parse()

	a := &analyzer{
		fset:  token.NewFileSet(),
		pkgs:  map[string]*types.Package{},
		infos: map[string]*types.Info{},
		files: map[string][]*ast.File{},
		funcs: map[string]*funcInfo{},
		flow:  map[string]map[string]bool{},
	}

	if err := a.load(); err != nil {
		fmt.Fprintln(os.Stderr, "lockgraph:", err)
		os.Exit(2)
	}

	a.collectNamed()
	a.collectFlows()
	a.analyzeFuncs()
	res := a.edges()

	var w io.Writer = os.Stdout
	if *out != "" {
		f, err := os.Create(*out)
		if err != nil {
			fmt.Fprintln(os.Stderr, err)
			os.Exit(2)
		}
		defer f.Close()
		w = f
	}

	enc := json.NewEncoder(w)
	enc.SetIndent("", " ")
	_ = enc.Encode(res)
}

func (a *analyzer) load() (err error) {
	cmd := exec.Command("go", "list", "-export", "-deps", "-json=ImportPath,Dir,Export,GoFiles,Standard,Module,Imports,ImportMap", "./...")
	cmd.Stderr = os.Stderr
	b, err := cmd.Output()
	if err != nil {
		return fmt.Errorf("go list: %w", err)
	}

	dec := json.NewDecoder(bytes.NewReader(b))
	var all []*listPkg
	exports := map[string]string{}
	for dec.More() {
		p := &listPkg{}
		if err = dec.Decode(p); err != nil {
			return err
		}

		all = append(all, p)
		if p.Export != "" {
			exports[p.ImportPath] = p.Export
		}
	}

	// The module under analysis is the one of the last package (the cwd's).
	for _, p := range all {
		if p.Module != nil && strings.HasSuffix(p.Module.Path, "AdGuardHome") {
			a.mod = p.Module.Path
		}
	}
	if a.mod == "" {
		return fmt.Errorf("module not found")
	}

	gc := importer.ForCompiler(a.fset, "gc", func(path string) (io.ReadCloser, error) {
		f, ok := exports[path]
		if !ok {
			return nil, fmt.Errorf("no export data for %q", path)
		}

		return os.Open(f)
	})

	for _, p := range all {
		if p.Module == nil || p.Module.Path != a.mod {
			continue
		}

		var files []*ast.File
		for _, gf := range p.GoFiles {
			var f *ast.File
			f, err = parser.ParseFile(a.fset, filepath.Join(p.Dir, gf), nil, parser.SkipObjectResolution)
			if err != nil {
				return err
			}

			files = append(files, f)
		}

		info := &types.Info{
			Types:      map[ast.Expr]types.TypeAndValue{},
			Defs:       map[*ast.Ident]types.Object{},
			Uses:       map[*ast.Ident]types.Object{},
			Selections: map[*ast.SelectorExpr]*types.Selection{},
		}
		importMap := p.ImportMap
		conf := types.Config{
			Importer: importerFunc(func(path string) (*types.Package, error) {
				if m, ok := importMap[path]; ok {
					path = m
				}

				if tp, ok := a.pkgs[path]; ok {
					return tp, nil
				}

				return gc.Import(path)
			}),
			Error: func(err error) {},
		}

		tp, _ := conf.Check(p.ImportPath, a.fset, files, info)
		a.pkgs[p.ImportPath] = tp
		a.infos[p.ImportPath] = info
		a.files[p.ImportPath] = files
		a.order = append(a.order, p.ImportPath)
	}

	return nil
}

type importerFunc func(path string) (*types.Package, error)

func (f importerFunc) Import(path string) (*types.Package, error) { return f(path) }

func (a *analyzer) collectNamed() {
	for _, path := range a.order {
		scope := a.pkgs[path].Scope()
		for _, n := range scope.Names() {
			if tn, ok := scope.Lookup(n).(*types.TypeName); ok {
				if nt, ok2 := tn.Type().(*types.Named); ok2 {
					a.named = append(a.named, nt)
				}
			}
		}
	}
}

func (a *analyzer) short(s string) string {
	return strings.ReplaceAll(s, a.mod+"/internal/", "")
}

func objKey(o types.Object) string {
	if o == nil {
		return ""
	}

	if v, ok := o.(*types.Var); ok && v.IsField() {
		return "field:" + fieldOwner(v) + "." + v.Name()
	}

	pkg := ""
	if o.Pkg() != nil {
		pkg = o.Pkg().Path()
	}

	return fmt.Sprintf("var:%s.%s@%d", pkg, o.Name(), o.Pos())
}

// fieldOwners is filled lazily: field var -> owning named type.
var fieldOwners = map[*types.Var]string{}

func fieldOwner(v *types.Var) string {
	if s, ok := fieldOwners[v]; ok {
		return s
	}

	pkg := ""
	if v.Pkg() != nil {
		pkg = v.Pkg().Path()
	}

	return pkg + ".?"
}

func (a *analyzer) indexFieldOwners() {
	for _, nt := range a.named {
		st, ok := nt.Underlying().(*types.Struct)
		if !ok {
			continue
		}

		name := nt.Obj().Pkg().Path() + "." + nt.Obj().Name()
		for i := 0; i < st.NumFields(); i++ {
			fieldOwners[st.Field(i)] = name
		}
	}
}

func funcName(f *types.Func) string {
	return f.FullName()
}

func (a *analyzer) addFlow(dst string, src string) {
	if dst == "" || src == "" {
		return
	}

	m := a.flow[dst]
	if m == nil {
		m = map[string]bool{}
		a.flow[dst] = m
	}

	m[src] = true
}

// valueSource describes what func value an expression may denote: "F:name" for
// a known function, "N:key" for a flow node, "" if unknown.
func (a *analyzer) valueSources(info *types.Info, e ast.Expr, lits map[*ast.FuncLit]string) (srcs []string) {
	e = ast.Unparen(e)
	switch x := e.(type) {
	case *ast.FuncLit:
		if n, ok := lits[x]; ok {
			return []string{"F:" + n}
		}
	case *ast.Ident:
		switch o := info.Uses[x].(type) {
		case *types.Func:
			return []string{"F:" + funcName(o)}
		case *types.Var:
			return []string{"N:" + objKey(o)}
		}
	case *ast.SelectorExpr:
		if sel, ok := info.Selections[x]; ok {
			switch o := sel.Obj().(type) {
			case *types.Func:
				// Method value.  For interface receivers: all implementations.
				if types.IsInterface(sel.Recv()) {
					for _, n := range a.implementations(sel.Recv(), o.Name()) {
						srcs = append(srcs, "F:"+n)
					}

					return srcs
				}

				return []string{"F:" + funcName(o)}
			case *types.Var:
				return []string{"N:" + objKey(o)}
			}
		} else if o, ok2 := info.Uses[x.Sel]; ok2 {
			switch o := o.(type) {
			case *types.Func:
				return []string{"F:" + funcName(o)}
			case *types.Var:
				return []string{"N:" + objKey(o)}
			}
		}
	case *ast.CallExpr:
		// Conversion like http.HandlerFunc(f).
		if len(x.Args) == 1 {
			if tv, ok := info.Types[x.Fun]; ok && tv.IsType() {
				return a.valueSources(info, x.Args[0], lits)
			}
		}
	}

	return nil
}

func isFuncType(t types.Type) bool {
	if t == nil {
		return false
	}

	_, ok := t.Underlying().(*types.Signature)

	return ok
}

func (a *analyzer) implementations(recv types.Type, method string) (names []string) {
	iface, ok := recv.Underlying().(*types.Interface)
	if !ok {
		return nil
	}

	for _, nt := range a.named {
		if types.IsInterface(nt) {
			continue
		}

		for _, t := range []types.Type{nt, types.NewPointer(nt)} {
			if !types.Implements(t, iface) {
				continue
			}

			obj, _, _ := types.LookupFieldOrMethod(t, true, nt.Obj().Pkg(), method)
			if f, ok2 := obj.(*types.Func); ok2 {
				names = append(names, funcName(f))
			}

			break
		}
	}

	return names
}

// litNames assigns names to function literals: enclosing function + index.
func (a *analyzer) litNames(path string) (lits map[*ast.FuncLit]string, encl map[*ast.FuncLit]string) {
	lits = map[*ast.FuncLit]string{}
	encl = map[*ast.FuncLit]string{}
	info := a.infos[path]
	for _, f := range a.files[path] {
		for _, d := range f.Decls {
			fd, ok := d.(*ast.FuncDecl)
			if !ok || fd.Body == nil {
				continue
			}

			fo, _ := info.Defs[fd.Name].(*types.Func)
			if fo == nil {
				continue
			}

			base := funcName(fo)
			i := 0
			ast.Inspect(fd.Body, func(n ast.Node) bool {
				if fl, ok2 := n.(*ast.FuncLit); ok2 {
					i++
					lits[fl] = fmt.Sprintf("%s$%d", base, i)
					encl[fl] = base
				}

				return true
			})
		}

		// Package-level var initialisers with literals.
		for _, d := range f.Decls {
			gd, ok := d.(*ast.GenDecl)
			if !ok {
				continue
			}

			i := 0
			ast.Inspect(gd, func(n ast.Node) bool {
				if fl, ok2 := n.(*ast.FuncLit); ok2 {
					i++
					lits[fl] = fmt.Sprintf("%s.init$%d@%d", path, i, fl.Pos())
				}

				return true
			})
		}
	}

	return lits, encl
}

var allLits = map[string]map[*ast.FuncLit]string{}

func (a *analyzer) collectFlows() {
	a.indexFieldOwners()
	for _, path := range a.order {
		lits, _ := a.litNames(path)
		allLits[path] = lits
	}

	for _, path := range a.order {
		info := a.infos[path]
		lits := allLits[path]
		for _, f := range a.files[path] {
			ast.Inspect(f, func(n ast.Node) bool {
				switch x := n.(type) {
				case *ast.AssignStmt:
					if len(x.Lhs) == len(x.Rhs) {
						for i := range x.Lhs {
							a.flowAssign(info, x.Lhs[i], x.Rhs[i], lits)
						}
					}
				case *ast.ValueSpec:
					if len(x.Names) == len(x.Values) {
						for i := range x.Names {
							a.flowAssign(info, x.Names[i], x.Values[i], lits)
						}
					}
				case *ast.CompositeLit:
					tv, ok := info.Types[x]
					if !ok {
						return true
					}

					st, ok := deref(tv.Type).Underlying().(*types.Struct)
					if !ok {
						return true
					}

					for i, el := range x.Elts {
						var fld *types.Var
						var val ast.Expr
						if kv, ok2 := el.(*ast.KeyValueExpr); ok2 {
							if id, ok3 := kv.Key.(*ast.Ident); ok3 {
								for j := 0; j < st.NumFields(); j++ {
									if st.Field(j).Name() == id.Name {
										fld = st.Field(j)
									}
								}
							}

							val = kv.Value
						} else if i < st.NumFields() {
							fld = st.Field(i)
							val = el
						}

						if fld != nil && isFuncType(fld.Type()) {
							for _, s := range a.valueSources(info, val, lits) {
								a.addFlow(objKey(fld), s)
							}
						}
					}
				case *ast.CallExpr:
					// Arguments flow into parameters of statically known callees.
					var sig *types.Signature
					var callee *types.Func
					switch fn := ast.Unparen(x.Fun).(type) {
					case *ast.Ident:
						callee, _ = info.Uses[fn].(*types.Func)
					case *ast.SelectorExpr:
						if sel, ok := info.Selections[fn]; ok {
							callee, _ = sel.Obj().(*types.Func)
						} else {
							callee, _ = info.Uses[fn.Sel].(*types.Func)
						}
					}

					if callee == nil {
						return true
					}

					sig, _ = callee.Type().(*types.Signature)
					if sig == nil {
						return true
					}

					for i, arg := range x.Args {
						if i >= sig.Params().Len() {
							break
						}

						p := sig.Params().At(i)
						if !isFuncType(p.Type()) {
							continue
						}

						for _, s := range a.valueSources(info, arg, lits) {
							a.addFlow(objKey(p), s)
						}
					}
				}

				return true
			})
		}
	}
}

func deref(t types.Type) types.Type {
	if p, ok := t.Underlying().(*types.Pointer); ok {
		return p.Elem()
	}

	return t
}

func (a *analyzer) flowAssign(info *types.Info, lhs, rhs ast.Expr, lits map[*ast.FuncLit]string) {
	var lo types.Object
	switch l := ast.Unparen(lhs).(type) {
	case *ast.Ident:
		lo = info.Defs[l]
		if lo == nil {
			lo = info.Uses[l]
		}
	case *ast.SelectorExpr:
		if sel, ok := info.Selections[l]; ok {
			lo = sel.Obj()
		} else {
			lo = info.Uses[l.Sel]
		}
	}

	if lo == nil || !isFuncType(lo.Type()) {
		return
	}

	for _, s := range a.valueSources(info, rhs, lits) {
		a.addFlow(objKey(lo), s)
	}
}

// resolveNode returns the set of functions a flow node may hold.
func (a *analyzer) resolveNode(key string) (fns []string) {
	seen := map[string]bool{}
	out := map[string]bool{}
	var walk func(k string)
	walk = func(k string) {
		if seen[k] {
			return
		}

		seen[k] = true
		for s := range a.flow[k] {
			if strings.HasPrefix(s, "F:") {
				out[s[2:]] = true
			} else {
				walk(s[2:])
			}
		}
	}
	walk(key)
	for f := range out {
		fns = append(fns, f)
	}

	sort.Strings(fns)

	return fns
}

// lockOf recognises X.Lock() etc. and returns the lock id, the mode and the
// operation ("acq"/"rel").
func (a *analyzer) lockOf(info *types.Info, call *ast.CallExpr) (id string, mode string, op string, ok bool) {
	se, isSel := ast.Unparen(call.Fun).(*ast.SelectorExpr)
	if !isSel {
		return "", "", "", false
	}

	sel, hasSel := info.Selections[se]
	if !hasSel {
		return "", "", "", false
	}

	fn, isFn := sel.Obj().(*types.Func)
	if !isFn || fn.Pkg() == nil || fn.Pkg().Path() != "sync" {
		return "", "", "", false
	}

	recvT := ""
	if sig, _ := fn.Type().(*types.Signature); sig != nil && sig.Recv() != nil {
		recvT = deref(sig.Recv().Type()).String()
	}

	if recvT != "sync.Mutex" && recvT != "sync.RWMutex" {
		return "", "", "", false
	}

	switch fn.Name() {
	case "Lock":
		mode, op = "w", "acq"
	case "RLock":
		mode, op = "r", "acq"
	case "Unlock":
		mode, op = "w", "rel"
	case "RUnlock":
		mode, op = "r", "rel"
	case "TryLock":
		// A failed TryLock never blocks: not an edge source of deadlock.
		return "", "", "", false
	default:
		return "", "", "", false
	}

	// Identify the mutex: the field (or variable) the method is selected on,
	// including an implicit embedded path.
	x := ast.Unparen(se.X)
	base := ""
	if len(sel.Index()) > 1 {
		// Promoted through embedding: X is the struct (pointer); the mutex is
		// an embedded field of it.
		t := deref(info.Types[x].Type)
		if nt, ok2 := t.(*types.Named); ok2 {
			base = nt.Obj().Pkg().Path() + "." + nt.Obj().Name() + ".<embedded " + recvT + ">"
		} else {
			base = t.String() + ".<embedded>"
		}

		return a.short(base), mode, op, true
	}

	switch xx := x.(type) {
	case *ast.SelectorExpr:
		if s2, ok2 := info.Selections[xx]; ok2 {
			if v, ok3 := s2.Obj().(*types.Var); ok3 {
				base = fieldOwner(v) + "." + v.Name()
			}
		} else if o, ok2 := info.Uses[xx.Sel]; ok2 && o.Pkg() != nil {
			base = o.Pkg().Path() + "." + o.Name()
		}
	case *ast.Ident:
		if o := info.Uses[xx]; o != nil {
			if v, ok2 := o.(*types.Var); ok2 && v.IsField() {
				base = fieldOwner(v) + "." + v.Name()
			} else if o.Pkg() != nil && o.Parent() == o.Pkg().Scope() {
				base = o.Pkg().Path() + "." + o.Name()
			} else {
				// Local variable / parameter holding a mutex pointer: name it
				// by its type position to keep instances of one declaration together.
				base = fmt.Sprintf("%s.local:%s", o.Pkg().Path(), o.Name())
			}
		}
	}

	if base == "" {
		base = "unknown:" + a.fset.Position(call.Pos()).String()
	}

	return a.short(base), mode, op, true
}

func (a *analyzer) calleesOf(info *types.Info, call *ast.CallExpr, lits map[*ast.FuncLit]string) (names []string) {
	fun := ast.Unparen(call.Fun)
	switch fn := fun.(type) {
	case *ast.FuncLit:
		if n, ok := lits[fn]; ok {
			return []string{n}
		}
	case *ast.Ident:
		switch o := info.Uses[fn].(type) {
		case *types.Func:
			return []string{funcName(o)}
		case *types.Var:
			if isFuncType(o.Type()) {
				return a.resolveNode(objKey(o))
			}
		}
	case *ast.SelectorExpr:
		if sel, ok := info.Selections[fn]; ok {
			switch o := sel.Obj().(type) {
			case *types.Func:
				if types.IsInterface(sel.Recv()) {
					return a.implementations(sel.Recv(), o.Name())
				}

				return []string{funcName(o)}
			case *types.Var:
				if isFuncType(o.Type()) {
					return a.resolveNode(objKey(o))
				}
			}
		} else {
			switch o := info.Uses[fn.Sel].(type) {
			case *types.Func:
				return []string{funcName(o)}
			case *types.Var:
				if isFuncType(o.Type()) {
					return a.resolveNode(objKey(o))
				}
			}
		}
	}

	return nil
}

func copyHeld(h []lockRef) []lockRef { return append([]lockRef(nil), h...) }

// walkBody produces the event list of one function body.
func (a *analyzer) walkBody(path string, name string, body *ast.BlockStmt) {
	info := a.infos[path]
	lits := allLits[path]
	fi := &funcInfo{name: name}
	a.funcs[name] = fi
	var held []lockRef

	var visit func(n ast.Node, inDefer bool, inGo bool)
	visit = func(n ast.Node, inDefer bool, inGo bool) {
		ast.Inspect(n, func(m ast.Node) bool {
			switch x := m.(type) {
			case *ast.FuncLit:
				// Analysed as its own function; a call of it is an event at the
				// call site.  A literal that is only defined here (passed as a
				// value) does not run here.
				return false
			case *ast.DeferStmt:
				if id, mode, op, ok := a.lockOf(info, x.Call); ok {
					if op == "acq" {
						fi.events = append(fi.events, &event{kind: "acq", lock: lockRef{id, mode}, held: copyHeld(held), pos: a.pos(x.Pos())})
					}
					// Deferred unlock: held until the function returns.
					return false
				}

				cs := a.calleesOf(info, x.Call, lits)
				if len(cs) > 0 {
					// Deferred calls run at return with whatever is still held
					// through deferred unlocks: approximate with the current set.
					fi.events = append(fi.events, &event{kind: "call", callees: cs, held: copyHeld(held), pos: a.pos(x.Pos())})
				}

				for _, arg := range x.Call.Args {
					visit(arg, false, false)
				}

				return false
			case *ast.GoStmt:
				cs := a.calleesOf(info, x.Call, lits)
				if len(cs) > 0 {
					fi.events = append(fi.events, &event{kind: "call", callees: cs, held: nil, pos: a.pos(x.Pos()), isGo: true})
				}

				for _, arg := range x.Call.Args {
					visit(arg, false, false)
				}

				return false
			case *ast.CallExpr:
				// Arguments are evaluated first.
				for _, arg := range x.Args {
					visit(arg, false, false)
				}

				if se, ok := ast.Unparen(x.Fun).(*ast.SelectorExpr); ok {
					visit(se.X, false, false)
				}

				if id, mode, op, ok := a.lockOf(info, x); ok {
					if op == "acq" {
						fi.events = append(fi.events, &event{kind: "acq", lock: lockRef{id, mode}, held: copyHeld(held), pos: a.pos(x.Pos())})
						held = append(held, lockRef{id, mode})
					} else {
						for i := len(held) - 1; i >= 0; i-- {
							if held[i].ID == id {
								held = append(held[:i], held[i+1:]...)

								break
							}
						}
					}

					return false
				}

				cs := a.calleesOf(info, x, lits)
				if fl, ok := ast.Unparen(x.Fun).(*ast.FuncLit); ok {
					_ = fl
				}

				if len(cs) > 0 {
					fi.events = append(fi.events, &event{kind: "call", callees: cs, held: copyHeld(held), pos: a.pos(x.Pos())})
				}

				return false
			}

			return true
		})
	}
	visit(body, false, false)
}

func (a *analyzer) pos(p token.Pos) string {
	ps := a.fset.Position(p)

	return fmt.Sprintf("%s:%d", a.short(strings.TrimPrefix(ps.Filename, "/repo/")), ps.Line)
}

func (a *analyzer) analyzeFuncs() {
	for _, path := range a.order {
		info := a.infos[path]
		for _, f := range a.files[path] {
			for _, d := range f.Decls {
				fd, ok := d.(*ast.FuncDecl)
				if !ok || fd.Body == nil {
					continue
				}

				fo, _ := info.Defs[fd.Name].(*types.Func)
				if fo == nil {
					continue
				}

				a.walkBody(path, funcName(fo), fd.Body)
			}

			ast.Inspect(f, func(n ast.Node) bool {
				if fl, ok := n.(*ast.FuncLit); ok {
					if name, ok2 := allLits[path][fl]; ok2 {
						a.walkBody(path, name, fl.Body)
					}
				}

				return true
			})
		}
	}
}

type edgeOut struct {
	Held  string `json:"held"`
	HMode string `json:"hmode"`
	Acq   string `json:"acq"`
	AMode string `json:"amode"`
	Fn    string `json:"fn"`
	Via   string `json:"via"`
	Pos   string `json:"pos"`
}

type result struct {
	Module    string            `json:"module"`
	Functions int               `json:"functions"`
	Locks     map[string]string `json:"locks"` // id -> "rw" if acquired in both modes, "w", "r"
	Edges     []edgeOut         `json:"edges"`
	FlowNodes int               `json:"flow_nodes"`
}

func (a *analyzer) edges() (res *result) {
	// acq*(f): locks acquired by f or its (non-go) callees, with a witness path.
	type acqInfo struct {
		lock lockRef
		via  string
	}

	acq := map[string]map[lockRef]string{}
	for name, fi := range a.funcs {
		m := map[lockRef]string{}
		for _, e := range fi.events {
			if e.kind == "acq" {
				m[e.lock] = a.short(name)
			}
		}

		acq[name] = m
	}

	for changed := true; changed; {
		changed = false
		for name, fi := range a.funcs {
			m := acq[name]
			for _, e := range fi.events {
				if e.kind != "call" || e.isGo {
					continue
				}

				for _, c := range e.callees {
					for l, via := range acq[c] {
						if _, ok := m[l]; !ok {
							v := a.short(c)
							if via != v {
								v = v + " > " + via
							}

							if len(v) > 400 {
								v = v[:400] + "..."
							}

							m[l] = v
							changed = true
						}
					}
				}
			}
		}
	}

	res = &result{Module: a.mod, Functions: len(a.funcs), Locks: map[string]string{}, FlowNodes: len(a.flow)}
	seen := map[string]bool{}
	add := func(h, l lockRef, fn, via, pos string) {
		k := h.ID + "|" + h.Mode + "|" + l.ID + "|" + l.Mode
		if seen[k] {
			return
		}

		seen[k] = true
		res.Edges = append(res.Edges, edgeOut{Held: h.ID, HMode: h.Mode, Acq: l.ID, AMode: l.Mode, Fn: a.short(fn), Via: via, Pos: pos})
	}

	names := make([]string, 0, len(a.funcs))
	for n := range a.funcs {
		names = append(names, n)
	}

	sort.Strings(names)
	for _, name := range names {
		fi := a.funcs[name]
		for _, e := range fi.events {
			switch e.kind {
			case "acq":
				mode := res.Locks[e.lock.ID]
				if !strings.Contains(mode, e.lock.Mode) {
					res.Locks[e.lock.ID] = mode + e.lock.Mode
				}

				for _, h := range e.held {
					add(h, e.lock, name, "", e.pos)
				}
			case "call":
				if e.isGo || len(e.held) == 0 {
					continue
				}

				for _, c := range e.callees {
					ls := make([]lockRef, 0, len(acq[c]))
					for l := range acq[c] {
						ls = append(ls, l)
					}

					sort.Slice(ls, func(i, j int) bool { return ls[i].ID+ls[i].Mode < ls[j].ID+ls[j].Mode })
					for _, l := range ls {
						for _, h := range e.held {
							add(h, l, name, acq[c][l], e.pos)
						}
					}
				}
			}
		}
	}

	sort.Slice(res.Edges, func(i, j int) bool {
		x, y := res.Edges[i], res.Edges[j]

		return x.Held+x.HMode+x.Acq+x.AMode < y.Held+y.HMode+y.Acq+y.AMode
	})

	return res
}
