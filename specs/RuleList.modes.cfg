SPECIFICATION Spec
CONSTANTS MaxLines = 3
          Shapes <- ShapesCore
          Endings <- EndingsLFCR
          Policies <- ModePolicies
INVARIANTS Statement
