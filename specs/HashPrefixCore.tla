--------------------------- MODULE HashPrefixCore ---------------------------
(***************************************************************************)
(* C19 -- the vocabulary and the decision rules of a hash-prefix lookup    *)
(* (safe browsing / parental control), written from the statement of the   *)
(* property.  Shared by the exhaustive state machine (HashPrefix.tla) and  *)
(* by trace validation (TraceHashPrefix.tla).                              *)
(*                                                                         *)
(* Abstraction.                                                            *)
(*   hash    a record [p, r]: p stands for the first two bytes of a        *)
(*           SHA-256 value, r for the remaining thirty.  Two hashes are    *)
(*           the same value iff both fields agree; different names may     *)
(*           share p (that is the whole point of the cache keyed by p).    *)
(*   name    a record                                                      *)
(*             l    sequence of labels, left to right                      *)
(*             cut  number of trailing labels that form the ICANN public   *)
(*                  suffix when the public-suffix rule that governs the    *)
(*                  name is an ICANN rule (else 0).  These domains must    *)
(*                  not be looked up.                                      *)
(*             opt  number of trailing labels that MAY be left out: the    *)
(*                  ICANN suffix underneath a *private* suffix rule        *)
(*                  (github.io -> "io"), or an unlisted top-level label.   *)
(*                  The statement says "ICANN public suffixes excluded";   *)
(*                  the code (and its own unit test "private_domain_v2")   *)
(*                  deliberately walks "the full private domain space",    *)
(*                  i.e. includes them.  Both readings are admitted.       *)
(*             h    h[k] = hash of the domain made of the last k labels,   *)
(*                  for k in 1..Min(4, Len(l))                             *)
(*   db      what the lookup service knows: a set of hashes                *)
(*   cache   prefix -> [ttl, hs]; ttl = 0 means "nothing usable"; ttl > 0  *)
(*           means the entry may still be used for ttl more ticks; hs =    *)
(*           the full hashes the service returned for that prefix when     *)
(*           the entry was fetched.  This is the MOST an implementation    *)
(*           may rely on ("until the entry expires"); an implementation    *)
(*           that remembers less simply asks more.                         *)
(*   a domain of the name is identified by its number of labels k.         *)
(***************************************************************************)
EXTENDS Sequences, Naturals, FiniteSets

Min(a, b) == IF a < b THEN a ELSE b

\* ------------------------------------------------------------- candidates
\* "the queried name and its parent domains (last four labels at most ..."
Chain(n) == 1 .. Min(4, Len(n.l))
\* "... ICANN public suffixes excluded)": these must be looked at
Core(n)  == {k \in Chain(n) : k > n.cut /\ k > n.opt}
\* and these may or may not (statement vs. documented behaviour of the code)
Opt(n)   == {k \in Chain(n) : k <= n.opt}
\* the admissible sets of domains whose hashes decide the verdict
CandSets(n) == {Core(n), Core(n) \cup Opt(n)}

PrefsOf(n, C) == {n.h[k].p : k \in C}

\* ------------------------------------------------------------ the service
\* Honest but awkward: for a question naming the prefixes Q it returns every
\* full hash it knows under those prefixes -- and, in the same answer,
\* malformed TXT strings (wrong length, not hexadecimal, a hash cut in two
\* strings, two hashes glued together ...).  A malformed string is not "a full
\* hash", so the abstraction of an answer is the set of its well-formed
\* members; the junk is produced by the concretisation (every answer of the
\* mock service carries some) and must be invisible here.
Fresh(db, p)    == {x \in db : x.p = p}
Received(db, Q) == {x \in db : x.p \in Q}

\* ------------------------------------------------------------- the lookup
\* (the cache may be a partial function: no entry = nothing usable)
Valid(cache, p) == p \in DOMAIN cache /\ cache[p].ttl > 0

\* What is known about prefix p to a check that asks the service about Q:
\* the fresh answer when p is asked, otherwise the (unexpired) cache entry.
KnownP(cache, Q, p)    == p \in Q \/ Valid(cache, p)
KnownHs(cache, db, Q, p) == IF p \in Q THEN Fresh(db, p) ELSE cache[p].hs

\* "blocked exactly when the service returns a full hash equal to one of
\* those", where for an unexpired cache entry "returns" means "returned when
\* the entry was fetched" (cache transparency).
Hit(n, C, cache, db, Q) ==
    \E k \in C : /\ KnownP(cache, Q, n.h[k].p)
                 /\ n.h[k] \in KnownHs(cache, db, Q, n.h[k].p)
AllKnown(n, C, cache, Q) == \A k \in C : KnownP(cache, Q, n.h[k].p)

\* A question is admissible when (1) it names nothing but prefixes of the
\* candidates' hashes -- the privacy half of the statement -- and (2)
\* together with the unexpired cache entries it settles the verdict: either a
\* match is already known, or every candidate prefix is known.  Asking again
\* for something cached is wasteful, not wrong; not asking at all is right
\* when the cache already settles it.
Admissible(n, C, cache, db, Q) ==
    /\ Q \subseteq PrefsOf(n, C)
    /\ Hit(n, C, cache, db, Q) \/ AllKnown(n, C, cache, Q)

\* All admissible observable outcomes of one check: the set of prefixes
\* disclosed (q; {} = no question sent) and the verdict (v).
Outcomes(n, cache, db) ==
    {[q |-> Q, v |-> Hit(n, C, cache, db, Q), c |-> C] :
        <<C, Q>> \in {cq \in UNION {{<<C2, Q2>> : Q2 \in SUBSET PrefsOf(n, C2)} : C2 \in CandSets(n)} :
                        Admissible(n, cq[1], cache, db, cq[2])}}

\* A FAILED lookup: the service answers the question with an error (time-out,
\* refusal ...).  A failure can only show when a question is sent, so the
\* admissible outcomes of a check made while the service fails are
\*   - the ordinary outcomes that ask nothing (q = {}: the unexpired cache
\*     settles the verdict; the caller gets no error), and
\*   - an error to the caller after a question q # {} that, as always, names
\*     nothing but prefixes of the candidates' hashes.  No verdict, and the
\*     cache stays exactly as it was: nothing has been learnt, in particular
\*     not that the service lists nothing under the asked prefixes.
FailQuestions(n) ==
    UNION {(SUBSET PrefsOf(n, C)) \ {{}} : C \in CandSets(n)}
QuietOutcomes(n, cache, db) == {o \in Outcomes(n, cache, db) : o.q = {}}

\* An ERROR REPLY: the service (or something on the way to it) answers the
\* question with a well-formed message whose response code reports an error
\* (SERVFAIL, REFUSED, NOTIMP) and that carries no records.  It says nothing
\* about the database.  What the check that received it tells its caller the
\* statement leaves open -- an error, or a verdict from what is known without
\* the asked prefixes (the reply brought no hash, so that is "not blocked"
\* unless an unexpired entry of a prefix NOT asked holds a match) -- both are
\* admitted.  What it must not do is remember the reply as "the service lists
\* nothing under these prefixes": a later answer from the cache would then
\* differ from what a fresh lookup gives although no entry was ever fetched
\* from the database.  So, as for a failed lookup, the cache stays as it was.
ErrReplyVerdicts(n, cache, Q) ==
    {\E k \in C : n.h[k].p \notin Q /\ Valid(cache, n.h[k].p) /\ n.h[k] \in cache[n.h[k].p].hs :
        C \in {C2 \in CandSets(n) : Q \subseteq PrefsOf(n, C2)}}

\* The cache after the answer has been processed.  Written the way the
\* mechanism works -- received hashes are grouped under THEIR OWN prefix
\* (positive entries), prefixes that were asked and brought nothing back get
\* an empty entry (negative) -- so that TLC checks, rather than assumes, that
\* every entry equals what a fresh lookup returned when it was fetched.
\* life = life time of a new entry, in ticks (>= 1).
Store(cache, Q, rcv, life) ==
    [p \in DOMAIN cache \cup Q |->
        IF \E x \in rcv : x.p = p THEN [ttl |-> life, hs |-> {x \in rcv : x.p = p}]
        ELSE IF p \in Q THEN [ttl |-> life, hs |-> {}]
        ELSE cache[p]]

\* One tick of the clock: every entry loses one unit; at 0 it is unusable and
\* its content is forgotten (an implementation may keep the bytes around; it
\* may not use them).
Age(cache, d) ==
    [p \in DOMAIN cache |->
        IF cache[p].ttl > d THEN [ttl |-> cache[p].ttl - d, hs |-> cache[p].hs]
        ELSE [ttl |-> 0, hs |-> {}]]

\* The choice an implementation that remembers everything it may remember
\* would make (a sanity check of the rules above -- it must always be
\* admissible -- and the base of HashPrefix.tla's planning model; never the
\* oracle): whole chain for private suffixes; nothing is asked when an
\* unexpired entry already holds a match, otherwise exactly the prefixes
\* without an unexpired entry.
RefC(n) == Core(n) \cup Opt(n)
RefQ(n, cache) ==
    IF \E k \in RefC(n) : Valid(cache, n.h[k].p) /\ n.h[k] \in cache[n.h[k].p].hs
    THEN {}
    ELSE {n.h[k].p : k \in {j \in RefC(n) : ~Valid(cache, n.h[j].p)}}
=============================================================================
