SPECIFICATION Spec
