SPECIFICATION Spec
CONSTANT W = 8
INVARIANT RegConsistent
