-------------------------- MODULE FilterListsCore --------------------------
(***************************************************************************)
(* G07 -- the life cycle of filter lists through the admin API.            *)
(*                                                                         *)
(* What the administrator sees and what the resolver does, as one abstract *)
(* state and one function per request:                                     *)
(*                                                                         *)
(*   tab    the table of lists, keyed by URL (AGHTechDoc: "For both arrays *)
(*          filters and whitelist_filters there are unique values: id,     *)
(*          url"; the code looks a URL up in both arrays, so a URL is in   *)
(*          the table at most once, on one side).  Per list: side          *)
(*          ("b"lock / "a"llow), name, enabled, the content of its file    *)
(*          (only while enabled: the file of a disabled list is nowhere    *)
(*          said to be anything in particular), id.                        *)
(*   user   the custom rules (POST /control/filtering/set_rules)           *)
(*   fen    the global switch (POST /control/filtering/config, "enabled")  *)
(*   used   the identifiers that were handed out during the life time of   *)
(*          the running process, or belong to a list in the table.  A new  *)
(*          list gets an identifier outside of `used` ("ID for each filter *)
(*          is assigned by Server - it's used for file names"), and never  *)
(*          a reserved one: 0 = custom rules, -1 .. -5 = system hosts,     *)
(*          blocked services, parental, safe browsing, safe search.        *)
(*   blank  the installation's answer to a question no document answers:   *)
(*          is a list body without a single rule a valid list?  (add_url   *)
(*          of the code says no.)  It is measured once on the real code    *)
(*          and then demanded of add_url AND set_url alike.                *)
(*                                                                         *)
(* The rules in force are not a variable: they are, by the statement, a    *)
(* function of the table -- custom rules + rules of the enabled block      *)
(* lists, overridden by the enabled allow lists (Verdict below).  The      *)
(* observation is taken when the asynchronous engine rebuild that a        *)
(* request triggers has finished.                                          *)
(*                                                                         *)
(* Identifiers are abstract here (1, 2, ...): the graph module picks the   *)
(* least free one, the trace module takes the observed one; both demand    *)
(* it to be outside `used`.                                                *)
(***************************************************************************)
EXTENDS Naturals, Integers, FiniteSets, Sequences, TLC

CONSTANTS Urls,    \* the list sources that exist in the universe
          Names    \* the names a list can be given

\* An invalid source: neither an http(s) URL nor an absolute path.
BadUrl == "bad"

\* What a source serves when it is downloaded.  "cA", "cB": rule lists;
\* "blank": 200 OK without a single rule; "fail": anything that is not a
\* rule list (unreachable, 404, an HTML page, binary data).
Contents == {"cA", "cB", "cE"}
Rules(c) == CASE c = "cA" -> {"R1"}
              [] c = "cB" -> {"R1", "R2"}
              [] OTHER    -> {}            \* "cE" (a blank list) and "-"
Probes == {"R1", "R2"}

\* Custom rules: an atom blocks its probe name, "@@"+atom is its exception.
Exc(r) == CASE r = "R1" -> "@@R1" [] r = "R2" -> "@@R2" [] OTHER -> "@@"

CustomId == 0   \* rulelist.URLFilterIDCustom; every id <= 0 is reserved

------------------------------------------------------------------------------
None == [p |-> FALSE, side |-> "-", name |-> "-", en |-> FALSE, cont |-> "-", id |-> 0]
Entry(s, n, e, c, i) == [p |-> TRUE, side |-> s, name |-> n, en |-> e, cont |-> c, id |-> i]

S0(b) == [tab |-> [u \in Urls |-> None], user |-> {}, fen |-> TRUE, used |-> {}, blank |-> b]

Present(S) == {u \in Urls : S.tab[u].p}
IdsOf(S)   == {S.tab[u].id : u \in Present(S)}

\* A request.  One record shape for all of them (unused fields are "-").
Act(a, url, side, name, nurl, en, beh, rules, late) ==
    [a |-> a, url |-> url, side |-> side, name |-> name, nurl |-> nurl, en |-> en,
     beh |-> beh, rules |-> rules, late |-> late]

\* The outcome of downloading a source that behaves as beh.
Fetch(S, beh) ==
    CASE beh \in {"cA", "cB"} -> [ok |-> TRUE, cont |-> beh]
      [] beh = "blank"        -> IF S.blank THEN [ok |-> TRUE, cont |-> "cE"]
                                            ELSE [ok |-> FALSE, cont |-> "-"]
      [] OTHER                -> [ok |-> FALSE, cont |-> "-"]

\* ok: "yes" = the request is answered 2xx, "no" = it is refused (not 2xx),
\* "any" = the documents do not say (remove_url of a list that is not there).
\* dl: the source that is contacted ("-": none) -- a sanity check of the
\* harness, not part of the statement.
Res(st, ok, dl) == [st |-> st, ok |-> ok, dl |-> dl]

------------------------------------------------------------------------------
\* POST /control/filtering/add_url.
\*  - an invalid URL, a URL that is already in the table (on either side), a
\*    source that cannot be downloaded or is not a rule list: refused, and
\*    NOTHING changes (no entry, no file, no rule in force);
\*  - otherwise the list is in the table, enabled, under a fresh id, with the
\*    downloaded rules in force.
Add(S, act, nid) ==
    IF act.url \notin Urls \/ S.tab[act.url].p
    THEN Res(S, "no", "-")
    ELSE LET f == Fetch(S, act.beh) IN
         IF ~f.ok
         THEN Res(S, "no", act.url)
         ELSE Res([S EXCEPT !.tab[act.url] = Entry(act.side, act.name, TRUE, f.cont, nid),
                            !.used = @ \cup {nid}],
                  "yes", act.url)

\* POST /control/filtering/remove_url {url, whitelist}: the list with that URL
\* on that side leaves the table (its rules leave with it, its file
\* <id>.txt is gone: the code renames it to <id>.txt.old, which is not
\* looked at).  Anything else changes nothing.  The id stays in `used`.
Remove(S, act) ==
    IF act.url \in Urls /\ S.tab[act.url].p /\ S.tab[act.url].side = act.side
    THEN Res([S EXCEPT !.tab[act.url] = None], "any", "-")
    ELSE Res(S, "any", "-")

\* POST /control/filtering/set_url {url, whitelist, data: {name, url, enabled}}.
\* The list is found by (url, side); the side cannot be changed.  A new URL
\* must be valid and not in the table.  The source is downloaded when the
\* list is (to be) enabled and its URL changes or it was disabled (the
\* documents only say that a changed URL is re-downloaded; that enabling
\* downloads as well is the code's choice and is followed here).  When the
\* download fails the request is refused and the OLD entry is fully intact:
\* URL, name, enabled, id, rules in force.  Disabling takes the rules out of
\* force and keeps URL, name, side and id.
SetUrl(S, act) ==
    IF ~(act.url \in Urls /\ S.tab[act.url].p /\ S.tab[act.url].side = act.side)
    THEN Res(S, "no", "-")
    ELSE IF act.nurl \notin Urls \/ (act.nurl # act.url /\ S.tab[act.nurl].p)
    THEN Res(S, "no", "-")
    ELSE LET e    == S.tab[act.url]
             need == act.en /\ (act.nurl # act.url \/ ~e.en)
             put(c) == [[S EXCEPT !.tab[act.url] = None]
                           EXCEPT !.tab[act.nurl] = Entry(e.side, act.name, act.en, c, e.id)]
         IN IF ~need
            THEN Res(put(IF act.en THEN e.cont ELSE "-"), "yes", "-")
            ELSE LET f == Fetch(S, act.beh) IN
                 IF ~f.ok THEN Res(S, "no", act.nurl)
                          ELSE Res(put(f.cont), "yes", act.nurl)

\* A restart from the written configuration: everything the administrator
\* set up survives; the process forgets which ids it handed out, but the ids
\* of the lists in the table stay taken.
Restart(S) == Res([S EXCEPT !.used = IdsOf(S)], "any", "-")

Apply(S, act, nid) ==
    CASE act.a = "add"     -> Add(S, act, nid)
      [] act.a = "remove"  -> Remove(S, act)
      [] act.a = "seturl"  -> SetUrl(S, act)
      [] act.a = "rules"   -> Res([S EXCEPT !.user = act.rules], "yes", "-")
      [] act.a = "config"  -> Res([S EXCEPT !.fen = act.en], "yes", "-")
      [] act.a = "restart" -> Restart(S)

------------------------------------------------------------------------------
\* The rules in force, as verdicts for the probe names.
\*   forced = TRUE : GET /control/filtering/check_host (answers as if
\*                   filtering were switched on)
\*   forced = FALSE: what a DNS query gets (nothing from the lists while the
\*                   global switch is off)
\* ids: the lists one of which must be named as the origin of the verdict.
InForce(S, side, r) ==
    {S.tab[u].id : u \in {v \in Present(S) : /\ S.tab[v].side = side
                                             /\ S.tab[v].en
                                             /\ r \in Rules(S.tab[v].cont)}}

Verdict(S, r, forced) ==
    LET al == InForce(S, "a", r)
        bl == InForce(S, "b", r) \cup (IF r \in S.user THEN {CustomId} ELSE {})
    IN IF ~forced /\ ~S.fen  THEN [v |-> "none",  ids |-> {}]
       ELSE IF al # {}        THEN [v |-> "allow", ids |-> al]
       ELSE IF Exc(r) \in S.user THEN [v |-> "allow", ids |-> {CustomId}]
       ELSE IF bl # {}        THEN [v |-> "block", ids |-> bl]
       ELSE                        [v |-> "none",  ids |-> {}]

\* What is observed at rest: GET /control/filtering/status (table, custom
\* rules, switch; rules_count only for enabled lists), the files
\* data/filters/<id>.txt (content only for enabled lists; there must be no
\* file that belongs to no list), and the verdicts.
Obs(S) ==
    [lists |-> [u \in Urls |-> [p |-> S.tab[u].p, side |-> S.tab[u].side, name |-> S.tab[u].name,
                                en |-> S.tab[u].en, id |-> S.tab[u].id,
                                cnt |-> Cardinality(Rules(S.tab[u].cont)),
                                rules |-> Rules(S.tab[u].cont)]],
     user  |-> S.user,
     fen   |-> S.fen,
     check |-> [r \in Probes |-> Verdict(S, r, TRUE)],
     dns   |-> [r \in Probes |-> Verdict(S, r, FALSE)]]

------------------------------------------------------------------------------
\* The statement as predicates on a state / on a step S --act--> T.
UniqueIds(S) ==
    /\ \A u, v \in Present(S) : u # v => S.tab[u].id # S.tab[v].id
    /\ \A u \in Present(S) : S.tab[u].id > CustomId
    /\ IdsOf(S) \subseteq S.used

\* A refused request leaves no trace.
RefusedIsNoOp(S, r) == r.ok = "no" => r.st = S

\* A new list gets an id nobody had in this life time.
FreshId(S, act, T) ==
    \A i \in IdsOf(T) \ IdsOf(S) : i \notin S.used /\ act.a = "add"

\* Only add hands out ids; set_url (rename, new URL, enable, disable) keeps
\* id and side.
KeepsIdentity(S, act, T) ==
    act.a = "seturl" =>
        /\ IdsOf(T) = IdsOf(S)
        /\ \A u \in Present(S), v \in Present(T) :
               S.tab[u].id = T.tab[v].id => S.tab[u].side = T.tab[v].side

\* remove_url of a list that is there takes it out of the table and its
\* rules out of force (unless another list or the custom rules carry them).
RemoveRemoves(S, act, T) ==
    (act.a = "remove" /\ T # S) =>
        /\ ~T.tab[act.url].p
        /\ \A r \in Probes : S.tab[act.url].id \notin Verdict(T, r, TRUE).ids

\* Nothing but the process' memory of ids changes at a restart.
RestartKeeps(S, act, T) == act.a = "restart" => Obs(T) = Obs(S)

\* set_rules and config touch nothing else.
OthersKeepTable(S, act, T) == act.a \in {"rules", "config", "restart"} => T.tab = S.tab
=============================================================================
