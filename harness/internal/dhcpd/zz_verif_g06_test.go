//go:build darwin || freebsd || linux || openbsd

package dhcpd

// G06 (A) conformance harness: the DHCPv6 lease table against specs/Dhcp6.tla.
//
// Direction A: TLC's emission (one line per reachable (table, database) state
// of Dhcp6.tla with the admissible outcomes of every action instance) is
// loaded; the real server (dhcpd.Create with a v4 and a v6 configuration,
// v6Server.packetHandler fed with real DHCPv6 messages through the wire
// format, the static-lease HTTP handlers, the shared leases.json, restart =
// Create on the same directory) is walked through every state it can reach,
// every action instance is tried in every such state, and after every step
// reply + projected table + database content are looked up in the outcome set.
//
// Direction B: long seeded random histories over a larger universe are
// recorded as NDJSON for specs/TraceDhcp6.tla.
//
// Expiry is simulated as in C10: the Expiry field of the lease is set to a past
// instant and the database is stored (the only write to unexported state).

import (
	"bytes"
	"encoding/json"
	"fmt"
	"math/rand"
	"net"
	"net/http"
	"net/http/httptest"
	"net/netip"
	"os"
	"path/filepath"
	"sort"
	"strconv"
	"strings"
	"sync"
	"sync/atomic"
	"testing"
	"time"

	"github.com/AdguardTeam/AdGuardHome/internal/dhcpsvc"
	"github.com/insomniacslk/dhcp/dhcpv6"
	"github.com/insomniacslk/dhcp/iana"
)

// ---------------------------------------------------------------- universe

// zzG06Univ is the finite universe of a run and its concretisation.
type zzG06Univ struct {
	Macs      []string `json:"macs"`
	Pool      []int    `json:"pool"`
	Outs      []int    `json:"outs"`
	StatHosts []string `json:"stathosts"`

	seed    int64
	ipOf    map[int]netip.Addr
	absIP   map[netip.Addr]int
	macOf   map[string]net.HardwareAddr
	absMAC  map[string]string
	hostOf  map[string]string
	absHost map[string]string
	start   netip.Addr
}

var (
	// The v4 side of the shared database: one reservation that no v6 action
	// may disturb.
	zzG06GW4    = netip.MustParseAddr("192.168.66.1")
	zzG06Mask4  = netip.MustParseAddr("255.255.255.0")
	zzG06Start4 = netip.MustParseAddr("192.168.66.100")
	zzG06End4   = netip.MustParseAddr("192.168.66.120")
	zzG06Res4   = netip.MustParseAddr("192.168.66.50")
	zzG06Mac4   = net.HardwareAddr{0x02, 0x44, 0x44, 0x44, 0x44, 0x44}
)

// zzG06Prefix is the /120 of the dynamic range, zzG06Alias another prefix.
var (
	zzG06Prefix = [16]byte{0x20, 0x01, 0x0d, 0xb8, 0, 0x66, 0, 0, 0, 0, 0, 0, 0, 0, 0, 0}
	zzG06Alias  = [16]byte{0x20, 0x01, 0x0d, 0xb8, 0, 0x77, 0, 0, 0, 0, 0, 0, 0, 0, 0, 0}
)

func (u *zzG06Univ) init(seed int64) {
	u.seed = seed
	sort.Ints(u.Pool)
	sort.Ints(u.Outs)
	u.ipOf = map[int]netip.Addr{}
	n := len(u.Pool)
	for i, p := range u.Pool {
		// The range is range_start..::ff: the pool occupies its top.
		b := zzG06Prefix
		b[15] = byte(0x100 - n + i)
		u.ipOf[p] = netip.AddrFrom16(b)
	}
	u.start = u.ipOf[u.Pool[0]]
	for j, o := range u.Outs {
		var b [16]byte
		if j%2 == 0 {
			// Another prefix, same last byte as an address of the range.
			b = zzG06Alias
			b[15] = byte(0x100 - n + (j/2)%n)
		} else {
			// The same /120, below range_start.
			b = zzG06Prefix
			b[15] = byte(0x10 + j)
		}
		u.ipOf[o] = netip.AddrFrom16(b)
	}
	u.absIP = map[netip.Addr]int{}
	for a, ip := range u.ipOf {
		u.absIP[ip] = a
	}
	u.macOf = map[string]net.HardwareAddr{}
	u.absMAC = map[string]string{}
	for i, m := range u.Macs {
		hw := net.HardwareAddr{0x02, byte(seed % 251), 0x5e, 0x60, byte(i / 200), byte(i%200 + 1)}
		u.macOf[m] = hw
		u.absMAC[hw.String()] = m
	}
	u.hostOf = map[string]string{"": ""}
	u.absHost = map[string]string{"": ""}
	for _, h := range u.StatHosts {
		if h == "" {
			continue
		}
		c := fmt.Sprintf("%s-six%d", h, seed%89)
		u.hostOf[h] = c
		u.absHost[c] = h
	}
}

func (u *zzG06Univ) aIP(ip netip.Addr) (a int) {
	if a, ok := u.absIP[ip]; ok {
		return a
	}

	return -1
}

func (u *zzG06Univ) aMAC(hw net.HardwareAddr) (m string) {
	if m, ok := u.absMAC[hw.String()]; ok {
		return m
	}

	return "?" + hw.String()
}

func (u *zzG06Univ) aHost(h string) (a string) {
	if a, ok := u.absHost[h]; ok {
		return a
	}

	return "?" + h
}

// zzG06Act is one action instance of the alphabet.
type zzG06Act struct {
	Name string `json:"act"`
	M    string `json:"m"`
	Kind string `json:"kind"`
	A    int    `json:"a"`
	H    string `json:"h"`
	// V selects among equivalent packet spellings (seeded).
	V int `json:"v"`
}

func (a zzG06Act) key() (k string) {
	return a.Name + "|" + a.M + "|" + a.Kind + "|" + strconv.Itoa(a.A) + "|" + a.H
}

var zzG06Kinds = []string{"request", "renew", "rebind", "confirm"}

func (u *zzG06Univ) alphabet() (acts []zzG06Act) {
	addrs := append(append([]int{}, u.Pool...), u.Outs...)
	for _, m := range u.Macs {
		acts = append(acts, zzG06Act{Name: "Solicit", M: m})
		for _, k := range zzG06Kinds {
			for _, a := range addrs {
				acts = append(acts, zzG06Act{Name: "Request", M: m, Kind: k, A: a})
			}
		}
		for _, a := range addrs {
			acts = append(acts,
				zzG06Act{Name: "Decline", M: m, A: a},
				zzG06Act{Name: "Release", M: m, A: a},
				zzG06Act{Name: "RemoveStatic", M: m, A: a})
			for _, h := range u.StatHosts {
				acts = append(acts,
					zzG06Act{Name: "AddStatic", M: m, A: a, H: h},
					zzG06Act{Name: "UpdateStatic", M: m, A: a, H: h})
			}
		}
	}
	for _, a := range u.Pool {
		acts = append(acts, zzG06Act{Name: "Expire", A: a})
	}
	acts = append(acts, zzG06Act{Name: "Restart"})

	return acts
}

// ------------------------------------------------------------ observations

// zzG06L is an abstract lease: mac, address, -1 for a reservation else 1 =
// acknowledged and unexpired / 0 (Dhcp4's EncL with LeaseT = 1), host.
type zzG06L struct {
	Mac  string
	IP   int
	F    int
	Host string
}

func (l zzG06L) MarshalJSON() (b []byte, err error) {
	return json.Marshal([]any{l.Mac, l.IP, l.F, l.Host})
}

func (l *zzG06L) UnmarshalJSON(b []byte) (err error) {
	var raw []any
	if err = json.Unmarshal(b, &raw); err != nil {
		return err
	}
	if len(raw) != 4 {
		return fmt.Errorf("bad lease %s", b)
	}
	l.Mac, _ = raw[0].(string)
	ip, _ := raw[1].(float64)
	f, _ := raw[2].(float64)
	l.IP, l.F = int(ip), int(f)
	l.Host, _ = raw[3].(string)

	return nil
}

func (l zzG06L) String() (s string) {
	return l.Mac + "/" + strconv.Itoa(l.IP) + "/" + strconv.Itoa(l.F) + "/" + l.Host
}

func zzG06Key(ls []zzG06L) (k string) {
	parts := make([]string, len(ls))
	for i, l := range ls {
		parts[i] = l.String()
	}
	sort.Strings(parts)

	return strings.Join(parts, ",")
}

// zzG06Reply is the abstract reply: offer (ADVERTISE with an address), ack
// (REPLY with an address), nak (a message without address), none, other;
// ok/err for the static-lease API; "-" for Expire and Restart.
type zzG06Reply struct {
	K  string `json:"k"`
	IP int    `json:"ip"`
}

// zzG06Obs is the projection of the real server after a step.
type zzG06Obs struct {
	Ls   []zzG06L `json:"ls"`
	Disk []zzG06L `json:"disk"`
	// Prob lists disagreements between the server's structures and between
	// them and its public answers (empty = all agree).
	Prob []string `json:"prob"`
	key  string
	dkey string
	ord  string
}

func (o *zzG06Obs) full() (k string) { return o.key + "||" + o.dkey }

// ------------------------------------------------------------- real system

type zzG06Conn struct {
	net.PacketConn
	out [][]byte
}

func (c *zzG06Conn) WriteTo(p []byte, _ net.Addr) (n int, err error) {
	c.out = append(c.out, bytes.Clone(p))

	return len(p), nil
}

type zzG06Sys struct {
	u    *zzG06Univ
	base string
	dir  string
	srv  *server
	s6   *v6Server
	sid  dhcpv6.DUID
}

func zzG06NewSys(u *zzG06Univ, base string) (y *zzG06Sys, err error) {
	y = &zzG06Sys{u: u, base: base}
	y.sid = &dhcpv6.DUIDLL{HWType: iana.HWTypeEthernet, LinkLayerAddr: net.HardwareAddr{0x02, 0x66, 0x66, 0x66, 0x66, 0x66}}
	err = y.reset()

	return y, err
}

func (y *zzG06Sys) reset() (err error) {
	y.close()
	y.dir, err = os.MkdirTemp(y.base, "g06-")
	if err != nil {
		return err
	}
	if err = y.start(); err != nil {
		return err
	}
	// The v4 reservation that shares the database.
	body, _ := json.Marshal(map[string]string{"mac": zzG06Mac4.String(), "ip": zzG06Res4.String(), "hostname": "four"})
	w := httptest.NewRecorder()
	y.srv.handleDHCPAddStaticLease(w, httptest.NewRequest(http.MethodPost, "/control/dhcp/add_static_lease", bytes.NewReader(body)))
	if w.Code != http.StatusOK {
		return fmt.Errorf("v4 reservation: %d %s", w.Code, w.Body.String())
	}

	return nil
}

func (y *zzG06Sys) close() {
	if y.dir != "" {
		_ = os.RemoveAll(y.dir)
		y.dir = ""
	}
}

// start creates the server the way home does: Create loads leases.json.
func (y *zzG06Sys) start() (err error) {
	conf := &ServerConfig{
		ConfigModified: func() {},
		Enabled:        true,
		InterfaceName:  "zzverif0",
		WorkDir:        y.dir,
		DataDir:        y.dir,
		Conf4: V4ServerConf{
			GatewayIP: zzG06GW4, SubnetMask: zzG06Mask4, RangeStart: zzG06Start4, RangeEnd: zzG06End4, LeaseDuration: 3600,
		},
		Conf6: V6ServerConf{RangeStart: net.IP(y.u.start.AsSlice()), LeaseDuration: 3600},
	}
	s, err := Create(conf)
	if err != nil {
		return fmt.Errorf("create: %w", err)
	}
	s6, ok := s.srv6.(*v6Server)
	if !ok || !s6.conf.Enabled {
		return fmt.Errorf("no v6 server")
	}
	// Normally set by Start from the interface.
	s6.sid = y.sid
	s6.conf.dnsIPAddrs = []net.IP{net.ParseIP("2001:db8:0:66::1")}
	y.srv, y.s6 = s, s6

	return nil
}

func (y *zzG06Sys) packet(req *dhcpv6.Message) (r zzG06Reply, err error) {
	parsed, err := dhcpv6.FromBytes(req.ToBytes())
	if err != nil {
		return r, fmt.Errorf("request does not parse: %w", err)
	}
	conn := &zzG06Conn{}
	peer := &net.UDPAddr{IP: net.ParseIP("fe80::1"), Port: dhcpv6.DefaultClientPort, Zone: "zzverif0"}
	y.s6.packetHandler(conn, peer, parsed)
	if len(conn.out) == 0 {
		return zzG06Reply{K: "none"}, nil
	} else if len(conn.out) > 1 {
		return r, fmt.Errorf("%d replies", len(conn.out))
	}
	resp, err := dhcpv6.MessageFromBytes(conn.out[0])
	if err != nil {
		return r, fmt.Errorf("reply does not parse: %w", err)
	}
	var addr net.IP
	if oia := resp.Options.OneIANA(); oia != nil {
		if oa := oia.Options.OneAddress(); oa != nil {
			addr = oa.IPv6Addr
		}
	}
	if addr == nil {
		return zzG06Reply{K: "nak"}, nil
	}
	switch resp.Type() {
	case dhcpv6.MessageTypeAdvertise:
		r.K = "offer"
	case dhcpv6.MessageTypeReply:
		r.K = "ack"
	default:
		r.K = "other"
	}
	ip, _ := netip.AddrFromSlice(addr.To16())
	r.IP = y.u.aIP(ip)

	return r, nil
}

func (y *zzG06Sys) static(path string, mac net.HardwareAddr, ip netip.Addr, host string) (r zzG06Reply) {
	body, _ := json.Marshal(map[string]string{"mac": mac.String(), "ip": ip.String(), "hostname": host})
	req := httptest.NewRequest(http.MethodPost, "/control/dhcp/"+path, bytes.NewReader(body))
	w := httptest.NewRecorder()
	switch path {
	case "add_static_lease":
		y.srv.handleDHCPAddStaticLease(w, req)
	case "update_static_lease":
		y.srv.handleDHCPUpdateStaticLease(w, req)
	default:
		y.srv.handleDHCPRemoveStaticLease(w, req)
	}
	if w.Code == http.StatusOK {
		return zzG06Reply{K: "ok"}
	}

	return zzG06Reply{K: "err"}
}

// exec performs one action on the real server.
func (y *zzG06Sys) exec(a zzG06Act) (r zzG06Reply, err error) {
	u := y.u
	mac := u.macOf[a.M]
	ip := u.ipOf[a.A]
	var cid dhcpv6.DUID = &dhcpv6.DUIDLL{HWType: iana.HWTypeEthernet, LinkLayerAddr: mac}
	if a.V&1 == 1 {
		cid = &dhcpv6.DUIDLLT{HWType: iana.HWTypeEthernet, Time: 700000000 + uint32(a.V), LinkLayerAddr: mac}
	}
	var iaid [4]byte
	if len(mac) >= 4 {
		copy(iaid[:], mac[len(mac)-4:])
	}
	if a.V&8 == 8 {
		iaid = [4]byte{0, 0, 0, byte(a.V)}
	}
	withAddr := func(m *dhcpv6.Message) {
		m.AddOption(&dhcpv6.OptIANA{IaId: iaid, Options: dhcpv6.IdentityOptions{Options: []dhcpv6.Option{
			&dhcpv6.OptIAAddress{IPv6Addr: net.IP(ip.AsSlice()), PreferredLifetime: time.Hour, ValidLifetime: 2 * time.Hour},
		}}})
	}
	newMsg := func(t dhcpv6.MessageType, sid bool) (m *dhcpv6.Message, merr error) {
		m, merr = dhcpv6.NewMessage()
		if merr != nil {
			return nil, merr
		}
		m.MessageType = t
		m.AddOption(dhcpv6.OptClientID(cid))
		if sid {
			m.AddOption(dhcpv6.OptServerID(y.sid))
		}
		m.AddOption(dhcpv6.OptElapsedTime(0))
		if a.V&4 == 4 {
			m.AddOption(dhcpv6.OptRequestedOption(dhcpv6.OptionDNSRecursiveNameServer, dhcpv6.OptionDomainSearchList))
		}

		return m, nil
	}
	switch a.Name {
	case "Solicit":
		m, merr := newMsg(dhcpv6.MessageTypeSolicit, false)
		if merr != nil {
			return r, merr
		}
		ia := &dhcpv6.OptIANA{IaId: iaid}
		if a.V&2 == 2 {
			// A hint; the specification leaves the choice to the server.
			hint := u.ipOf[u.Pool[(a.V>>4)%len(u.Pool)]]
			ia.Options = dhcpv6.IdentityOptions{Options: []dhcpv6.Option{&dhcpv6.OptIAAddress{IPv6Addr: net.IP(hint.AsSlice())}}}
		}
		m.AddOption(ia)

		return y.packet(m)
	case "Request":
		var t dhcpv6.MessageType
		sid := false
		switch a.Kind {
		case "request":
			t, sid = dhcpv6.MessageTypeRequest, true
		case "renew":
			t, sid = dhcpv6.MessageTypeRenew, true
		case "rebind":
			t = dhcpv6.MessageTypeRebind
		default:
			t = dhcpv6.MessageTypeConfirm
		}
		m, merr := newMsg(t, sid)
		if merr != nil {
			return r, merr
		}
		withAddr(m)

		return y.packet(m)
	case "Decline", "Release":
		t := dhcpv6.MessageTypeDecline
		if a.Name == "Release" {
			t = dhcpv6.MessageTypeRelease
		}
		m, merr := newMsg(t, true)
		if merr != nil {
			return r, merr
		}
		withAddr(m)

		return y.packet(m)
	case "AddStatic":
		return y.static("add_static_lease", mac, ip, u.hostOf[a.H]), nil
	case "UpdateStatic":
		return y.static("update_static_lease", mac, ip, u.hostOf[a.H]), nil
	case "RemoveStatic":
		// The UI sends the lease as listed, including its host name.
		host := ""
		y.s6.leasesLock.Lock()
		for _, l := range y.s6.leases {
			if l.IP == ip {
				host = l.Hostname

				break
			}
		}
		y.s6.leasesLock.Unlock()

		return y.static("remove_static_lease", mac, ip, host), nil
	case "Expire":
		found := false
		y.s6.leasesLock.Lock()
		for _, l := range y.s6.leases {
			if l.IP == ip && !l.IsStatic && l.Expiry.After(time.Now()) {
				l.Expiry = time.Now().Add(-time.Hour).Truncate(time.Second)
				found = true
			}
		}
		y.s6.leasesLock.Unlock()
		if !found {
			return r, fmt.Errorf("expire: no acknowledged dynamic lease on %d", a.A)
		}
		y.srv.onNotify(LeaseChangedDBStore)

		return zzG06Reply{K: "-"}, nil
	case "Restart":
		return zzG06Reply{K: "-"}, y.start()
	default:
		return r, fmt.Errorf("unknown action %q", a.Name)
	}
}

func (y *zzG06Sys) absLease(l *dhcpsvc.Lease, now time.Time) (a zzG06L) {
	a = zzG06L{Mac: y.u.aMAC(l.HWAddr), IP: y.u.aIP(l.IP), Host: y.u.aHost(l.Hostname)}
	if l.IsStatic {
		a.F = -1
	} else if l.Expiry.After(now) {
		a.F = 1
	}

	return a
}

// abs projects the real server onto the spec's state and checks the mutual
// agreement of its structures and public answers.
func (y *zzG06Sys) abs() (o *zzG06Obs) {
	o = &zzG06Obs{Ls: []zzG06L{}, Disk: []zzG06L{}, Prob: []string{}}
	u, s6 := y.u, y.s6
	now := time.Now()
	prob := map[string]bool{}

	type ent struct {
		l  *dhcpsvc.Lease
		al zzG06L
	}
	var tab []ent
	macs := []string{}
	s6.leasesLock.Lock()
	seen := map[*dhcpsvc.Lease]bool{}
	for _, l := range s6.leases {
		al := y.absLease(l, now)
		c := l.Clone()
		tab = append(tab, ent{l: c, al: al})
		o.Ls = append(o.Ls, al)
		macs = append(macs, al.Mac)
		if seen[l] {
			prob["list:dup"] = true
		}
		seen[l] = true
	}
	// The table of last bytes in use: an address of the range is marked iff
	// some lease is on it.
	for i, p := range u.Pool {
		ip := u.ipOf[p]
		want := false
		for _, e := range tab {
			if e.l.IP == ip {
				want = true
			}
		}
		b := ip.As16()[15]
		if got := s6.ipAddrs[b] != 0; got && !want {
			prob["bitmap:+"+strconv.Itoa(i)] = true
		} else if !got && want {
			prob["bitmap:-"+strconv.Itoa(i)] = true
		}
	}
	s6.leasesLock.Unlock()

	// The public answers.
	tabCount, heldCount := map[string]int{}, map[string]int{}
	for _, e := range tab {
		tabCount[e.al.String()]++
		if e.al.F != 0 {
			heldCount[e.al.String()]++
		}
	}
	got := map[string]int{}
	for _, l := range s6.GetLeases(LeasesAll) {
		got[y.absLease(l, now).String()]++
	}
	for k, n := range got {
		if n > 1 && tabCount[k] <= 1 {
			prob["getleases:dup"] = true
		}
		if n > tabCount[k] {
			prob["getleases:differs"] = true
		}
	}
	for k, n := range heldCount {
		if got[k] < n {
			prob["getleases:differs"] = true
		}
	}
	for a, ip := range u.ipOf {
		_ = a
		var holders []string
		hosts := map[string]bool{}
		any := false
		for _, e := range tab {
			if e.l.IP == ip {
				any = true
				hosts[e.l.Hostname] = true
				if e.al.F != 0 {
					holders = append(holders, e.l.HWAddr.String())
				}
			}
		}
		mac := y.srv.MACByIP(ip)
		switch {
		case len(holders) == 0 && mac != nil:
			prob["macbyip"] = true
		case len(holders) > 0:
			ok := false
			for _, h := range holders {
				ok = ok || (mac != nil && mac.String() == h)
			}
			if !ok {
				prob["macbyip"] = true
			}
		}
		if h := s6.HostByIP(ip); (any && !hosts[h]) || (!any && h != "") {
			prob["hostbyip"] = true
		}
	}
	for _, e := range tab {
		if e.l.Hostname == "" {
			continue
		}
		ip := s6.IPByHost(e.l.Hostname)
		ok := false
		for _, f := range tab {
			ok = ok || (f.l.Hostname == e.l.Hostname && f.l.IP == ip)
		}
		if !ok {
			prob["ipbyhost"] = true
		}
	}

	// The database: the v6 entries are the specification's `disk'; the v4
	// entries must be exactly the v4 server's table.
	data, err := os.ReadFile(filepath.Join(y.dir, dataFilename))
	if err != nil {
		prob["disk:missing"] = true
	} else {
		dl := &dataLeases{}
		if err = json.Unmarshal(data, dl); err != nil {
			prob["disk:corrupt"] = true
		}
		disk := map[string]int{}
		four := map[string]int{}
		for _, d := range dl.Leases {
			l, lerr := d.toLease()
			if lerr != nil {
				prob["disk:corrupt"] = true

				continue
			}
			if l.IP.Is4() {
				four[fmt.Sprintf("%s/%s/%s/%v", l.HWAddr, l.IP, l.Hostname, l.IsStatic)]++

				continue
			}
			al := y.absLease(l, now)
			o.Disk = append(o.Disk, al)
			disk[al.String()]++
			if disk[al.String()] > 1 {
				prob["disk:dup"] = true
			}
		}
		mem4 := map[string]int{}
		for _, l := range y.srv.srv4.getLeasesRef() {
			mem4[fmt.Sprintf("%s/%s/%s/%v", l.HWAddr, l.IP, l.Hostname, l.IsStatic)]++
		}
		if !zzG06SameCount(four, mem4) || len(mem4) != 1 {
			prob["disk:v4"] = true
		}
	}

	for p := range prob {
		o.Prob = append(o.Prob, p)
	}
	sort.Strings(o.Prob)
	o.key = zzG06Key(o.Ls)
	o.dkey = zzG06Key(o.Disk)
	o.ord = strings.Join(macs, ">")

	return o
}

func zzG06SameCount(a, b map[string]int) (ok bool) {
	if len(a) != len(b) {
		return false
	}
	for k, v := range a {
		if b[k] != v {
			return false
		}
	}

	return true
}

// ------------------------------------------------------------- spec graph

type zzG06Out struct {
	Same bool
	Dst  string
	K    string
	IP   int
	// Rule: 0 the database must list the new table, 1 it may also have been
	// left alone, 2 it must have been left alone.
	Rule int
}

type zzG06Node struct {
	noadd bool
	noupd map[string]bool
	edges map[string][]zzG06Out
}

type zzG06Opts struct {
	Order      bool  `json:"order"`
	Workers    int   `json:"workers"`
	MaxSteps   int64 `json:"maxsteps"`
	DeadlineS  int   `json:"deadline_s"`
	ResetEvery int   `json:"resetevery"`
	MaxRepro   int   `json:"maxrepro"`
	TraceSteps int   `json:"tracesteps"`
	TraceRuns  int   `json:"traceruns"`
}

type zzG06Hdr struct {
	Univ *zzG06Univ `json:"univ"`
	Opts zzG06Opts  `json:"opts"`
}

type zzG06Graph struct {
	u       *zzG06Univ
	acts    []zzG06Act
	nodes   map[string]*zzG06Node
	tables  map[string]bool
	changes map[string]int
}

// zzG06Defaults are the outcome sets (replies; the table does not change) that
// the emission of Dhcp6.tla leaves out.
var zzG06Defaults = map[string][]string{
	"Solicit": {"none"}, "Request": {"refuse"}, "Decline": {"any"}, "Release": {"any"},
	"AddStatic": {"err"}, "UpdateStatic": {"err"}, "RemoveStatic": {"err", "ok"},
}

func zzG06ParseLs(raw []any) (ls []zzG06L) {
	ls = []zzG06L{}
	for _, x := range raw {
		e := x.([]any)
		ls = append(ls, zzG06L{Mac: e[0].(string), IP: int(e[1].(float64)), F: int(e[2].(float64)), Host: e[3].(string)})
	}

	return ls
}

func zzG06ParseOuts(raw []any) (outs []zzG06Out) {
	for _, r := range raw {
		t := r.([]any)
		o := zzG06Out{Same: t[0].(bool), K: t[2].(string), IP: int(t[3].(float64)), Rule: int(t[4].(float64))}
		if !o.Same {
			o.Dst = zzG06Key(zzG06ParseLs(t[1].([]any)))
		}
		outs = append(outs, o)
	}

	return outs
}

func zzG06Header(t testing.TB) (hdr *zzG06Hdr) {
	hdr = &zzG06Hdr{}
	if err := json.Unmarshal([]byte(zzGetenv("VERIF_HDR")), hdr); err != nil || hdr.Univ == nil {
		t.Skipf("no usable VERIF_HDR: %v", err)
	}
	hdr.Univ.init(zzSeed())

	return hdr
}

// zzG06LoadGraph reads the state lines of Dhcp6.tla's emission from TLC's own
// output (lines of the form <<"@@V", "<json as a TLA+ string literal>">>).
func zzG06LoadGraph(t testing.TB, hdr *zzG06Hdr) (g *zzG06Graph) {
	g = &zzG06Graph{nodes: map[string]*zzG06Node{}, tables: map[string]bool{}, changes: map[string]int{}}
	const pre, suf = `<<"@@V", `, `>>`
	zzReadNDJSON(t, "VERIF_IN", func(line []byte) {
		if bytes.HasPrefix(line, []byte(pre)) && bytes.HasSuffix(line, []byte(suf)) {
			js, err := strconv.Unquote(string(line[len(pre) : len(line)-len(suf)]))
			if err != nil {
				t.Fatalf("bad emission line: %v", err)
			}
			line = []byte(js)
		} else if len(line) == 0 || line[0] != '{' {
			return
		}
		var rec struct {
			S     []zzG06L `json:"s"`
			D     []zzG06L `json:"d"`
			Noadd bool     `json:"noadd"`
			Noupd []string `json:"noupd"`
			E     [][]any  `json:"e"`
		}
		if err := json.Unmarshal(line, &rec); err != nil {
			t.Fatalf("bad state line: %v", err)
		}
		if rec.E == nil {
			return
		}
		n := &zzG06Node{noadd: rec.Noadd, noupd: map[string]bool{}, edges: map[string][]zzG06Out{}}
		for _, m := range rec.Noupd {
			n.noupd[m] = true
		}
		skey := zzG06Key(rec.S)
		first := !g.tables[skey]
		for _, e := range rec.E {
			a := zzG06Act{Name: e[0].(string), M: e[1].(string), Kind: e[2].(string), A: int(e[3].(float64)), H: e[4].(string)}
			outs := zzG06ParseOuts(e[5].([]any))
			n.edges[a.key()] = outs
			if !first && a.Name != "Restart" {
				continue
			}
			for _, o := range outs {
				if !o.Same {
					g.changes[a.Name]++

					break
				}
			}
		}
		g.tables[skey] = true
		g.nodes[skey+"||"+zzG06Key(rec.D)] = n
	})
	g.u = hdr.Univ
	g.acts = g.u.alphabet()

	return g
}

// enabled tells whether the spec enables a in the state of n, and returns the
// admissible outcomes (nil = the default: refused, nothing changes).
func (n *zzG06Node) enabled(a zzG06Act) (outs []zzG06Out, ok bool) {
	outs, listed := n.edges[a.key()]
	switch a.Name {
	case "Expire":
		return outs, listed && len(outs) > 0
	case "AddStatic":
		if n.noadd {
			return nil, false
		}
	case "UpdateStatic":
		if n.noupd[a.M] {
			return nil, false
		}
	}

	return outs, true
}

// zzG06Admits reports whether the observed step is one of the admissible
// outcomes.  why is empty iff it is.
func zzG06Admits(a zzG06Act, src *zzG06Obs, outs []zzG06Out, r zzG06Reply, post *zzG06Obs) (why string) {
	if outs == nil {
		for _, k := range zzG06Defaults[a.Name] {
			outs = append(outs, zzG06Out{Same: true, K: k, Rule: 1})
		}
	}
	best := 0
	for _, o := range outs {
		dst := o.Dst
		if o.Same {
			dst = src.key
		}
		if dst != post.key {
			continue
		}
		if best < 1 {
			best = 1
		}
		if !zzG06ReplyOK(a, o, r, post) {
			continue
		}
		if best < 2 {
			best = 2
		}
		stored, left := post.dkey == post.key, post.dkey == src.dkey
		if (o.Rule == 0 && stored) || (o.Rule == 1 && (stored || left)) || (o.Rule == 2 && left) {
			return ""
		}
	}

	return []string{"state", "reply", "disk"}[best]
}

func zzG06ReplyOK(a zzG06Act, o zzG06Out, r zzG06Reply, post *zzG06Obs) (ok bool) {
	switch o.K {
	case "offer", "ack":
		return r.K == o.K && r.IP == o.IP
	case "refuse":
		return r.K == "none" || r.K == "nak"
	case "any":
		// No reply is defined; an address in it must be the client's lease.
		if r.IP == 0 {
			return true
		}
		for _, l := range post.Ls {
			if l.Mac == a.M && l.IP == r.IP {
				return true
			}
		}

		return false
	case "ok", "err":
		return r.K == o.K
	default:
		return r.K == "-"
	}
}

// ------------------------------------------------------------------ walker

type zzG06WNode struct {
	id     int
	key    string
	state  string
	remain []int
	succ   []int32
	nbrs   [][2]int32
}

type zzG06Bad struct {
	Kind       string     `json:"kind"`
	Act        zzG06Act   `json:"act"`
	Src        []zzG06L   `json:"src"`
	SrcDisk    []zzG06L   `json:"srcdisk"`
	SrcProb    []string   `json:"srcprob"`
	Want       []zzG06Out `json:"want"`
	Why        string     `json:"why"`
	Reply      zzG06Reply `json:"reply"`
	Post       *zzG06Obs  `json:"post"`
	History    []zzG06Act `json:"history"`
	Reproduced bool       `json:"reproduced"`
	Minimal    bool       `json:"minimal"`
	Sig        string     `json:"sig"`
	Univ       *zzG06Univ `json:"univ"`
}

type zzG06Walk struct {
	g    *zzG06Graph
	opts zzG06Opts
	base string
	w    *zzWriter

	mu        sync.Mutex
	nodes     []*zzG06WNode
	index     map[string]int
	stamp     []int32
	epoch     int32
	looseLeft int
	sigs      map[string]int
	steps     atomic.Int64
	stop      atomic.Bool
	idle      int
	bad       int
	flaky     int
	truncated int
	resets    int
	nontriv   map[string]bool
	samples   []any
	deadline  time.Time
}

func (wk *zzG06Walk) nodeKey(o *zzG06Obs) (k string) {
	if wk.opts.Order {
		return o.full() + "#" + o.ord
	}

	return o.full()
}

func (wk *zzG06Walk) node(o *zzG06Obs, rng *rand.Rand) (n *zzG06WNode) {
	k := wk.nodeKey(o)
	if id, ok := wk.index[k]; ok {
		return wk.nodes[id]
	}
	n = &zzG06WNode{id: len(wk.nodes), key: k, state: o.full(), succ: make([]int32, len(wk.g.acts))}
	for i := range n.succ {
		n.succ[i] = -1
	}
	wk.nodes = append(wk.nodes, n)
	wk.stamp = append(wk.stamp, 0)
	wk.index[k] = n.id
	if sn := wk.g.nodes[o.full()]; sn != nil {
		for i, a := range wk.g.acts {
			if _, ok := sn.enabled(a); ok {
				n.remain = append(n.remain, i)
			}
		}
		rng.Shuffle(len(n.remain), func(i, j int) { n.remain[i], n.remain[j] = n.remain[j], n.remain[i] })
	}

	return n
}

func (wk *zzG06Walk) link(n *zzG06WNode, ai int, d *zzG06WNode) {
	if n.succ[ai] == int32(d.id) {
		return
	}
	n.succ[ai] = int32(d.id)
	n.nbrs = append(n.nbrs, [2]int32{int32(ai), int32(d.id)})
}

type zzG06Hop struct {
	act int
	dst int
}

// search is a breadth-first search over the observed successors; mu held.
func (wk *zzG06Walk) search(from int, loose bool, goal func(n *zzG06WNode) bool) (path []zzG06Hop, ok bool) {
	type item struct {
		n    int32
		prev int32
		act  int32
	}
	wk.epoch++
	q := []item{{n: int32(from), prev: -1}}
	wk.stamp[from] = wk.epoch
	for i := 0; i < len(q); i++ {
		cur := wk.nodes[q[i].n]
		if goal(cur) {
			for j := int32(i); q[j].prev >= 0; j = q[j].prev {
				path = append(path, zzG06Hop{act: int(q[j].act), dst: int(q[j].n)})
			}
			for l, r := 0, len(path)-1; l < r; l, r = l+1, r-1 {
				path[l], path[r] = path[r], path[l]
			}

			return path, true
		}
		for _, e := range cur.nbrs {
			if (!loose && cur.succ[e[0]] != e[1]) || wk.stamp[e[1]] == wk.epoch {
				continue
			}
			wk.stamp[e[1]] = wk.epoch
			q = append(q, item{n: e[1], prev: int32(i), act: e[0]})
		}
	}

	return nil, false
}

func (wk *zzG06Walk) plan(from *zzG06WNode) (path []zzG06Hop) {
	goal := func(n *zzG06WNode) bool { return n.id != from.id && len(n.remain) > 0 }
	path, ok := wk.search(from.id, false, goal)
	if !ok && wk.looseLeft > 0 {
		path, ok = wk.search(from.id, true, goal)
		if ok {
			wk.looseLeft--
		}
	}

	return path
}

func (wk *zzG06Walk) pathFromInit(target string) (acts []int, ok bool) {
	start := "||"
	if wk.opts.Order {
		start = "||#"
	}
	from, ok1 := wk.index[start]
	to, ok2 := wk.index[target]
	if !ok1 || !ok2 {
		return nil, false
	}
	path, ok := wk.search(from, false, func(n *zzG06WNode) bool { return n.id == to })
	for _, h := range path {
		acts = append(acts, h.act)
	}

	return acts, ok
}

// zzG06Soft: disagreements with which the server is still in a state of the
// specification, so that the walk may go on from there.
func zzG06Soft(prob []string) (ok bool) {
	for _, p := range prob {
		if !strings.HasPrefix(p, "bitmap:") {
			return false
		}
	}

	return true
}

func zzG06SameStrs(a, b []string) (ok bool) {
	return strings.Join(a, ";") == strings.Join(b, ";")
}

// zzG06Judge compares one executed step with the spec.
func zzG06Judge(g *zzG06Graph, a zzG06Act, src *zzG06Obs, r zzG06Reply, post *zzG06Obs) (why string, want []zzG06Out) {
	sn := g.nodes[src.full()]
	if sn == nil {
		return "src-unknown", nil
	}
	want, _ = sn.enabled(a)
	why = zzG06Admits(a, src, want, r, post)
	if why == "" && !zzG06SameStrs(post.Prob, src.Prob) {
		have := map[string]bool{}
		for _, p := range src.Prob {
			have[p] = true
		}
		for _, p := range post.Prob {
			if !have[p] {
				why = "structures"
			}
		}
	}

	return why, want
}

func zzG06RunHistory(u *zzG06Univ, base string, acts []zzG06Act) (src *zzG06Obs, r zzG06Reply, post *zzG06Obs, err error) {
	y, err := zzG06NewSys(u, base)
	if err != nil {
		return nil, r, nil, err
	}
	defer y.close()
	for i, a := range acts {
		if i == len(acts)-1 {
			src = y.abs()
		}
		r, err = y.exec(a)
		if err != nil {
			return nil, r, nil, fmt.Errorf("step %d %v: %w", i, a, err)
		}
	}

	return src, r, y.abs(), nil
}

func (wk *zzG06Walk) report(a zzG06Act, srcNode string, src *zzG06Obs, want []zzG06Out, why string, r zzG06Reply, post *zzG06Obs, hist []zzG06Act) {
	sig := a.Name + "|" + why + "|" + r.K + "|" + strings.Join(src.Prob, ";") + "|" + strings.Join(post.Prob, ";")
	wk.mu.Lock()
	wk.bad++
	wk.sigs[sig]++
	cnt := wk.sigs[sig]
	var short []zzG06Act
	if p, ok := wk.pathFromInit(srcNode); ok {
		for _, i := range p {
			short = append(short, wk.g.acts[i])
		}
		short = append(short, a)
	}
	wk.mu.Unlock()
	rec := &zzG06Bad{Kind: "bad", Act: a, Src: src.Ls, SrcDisk: src.Disk, SrcProb: src.Prob, Want: want, Why: why, Reply: r, Post: post, Sig: sig, Univ: wk.g.u}
	if cnt > wk.opts.MaxRepro {
		rec.Kind = "bad-more"
		rec.Post = nil
		rec.Want = nil
		wk.mu.Lock()
		wk.w.put(rec)
		wk.mu.Unlock()

		return
	}
	same := func(s2 *zzG06Obs, r2 zzG06Reply, p2 *zzG06Obs, err error) bool {
		return err == nil && s2 != nil && s2.full() == src.full() && zzG06SameStrs(s2.Prob, src.Prob) &&
			p2.full() == post.full() && zzG06SameStrs(p2.Prob, post.Prob) && r2 == r
	}
	if short != nil && len(short) <= len(hist) {
		ok := true
		for i := 0; i < 2 && ok; i++ {
			ok = same(zzG06RunHistory(wk.g.u, wk.base, short))
		}
		if ok {
			rec.History, rec.Reproduced, rec.Minimal = short, true, true
		}
	}
	if !rec.Reproduced {
		ok := true
		for i := 0; i < 2 && ok; i++ {
			ok = same(zzG06RunHistory(wk.g.u, wk.base, hist))
		}
		rec.History, rec.Reproduced = hist, ok
	}
	wk.mu.Lock()
	if !rec.Reproduced {
		rec.Kind = "flaky"
		wk.flaky++
	}
	wk.w.put(rec)
	wk.mu.Unlock()
}

func (wk *zzG06Walk) worker(t testing.TB, id int) {
	rng := rand.New(rand.NewSource(zzSeed()*1000 + int64(id)))
	y, err := zzG06NewSys(wk.g.u, wk.base)
	if err != nil {
		t.Errorf("worker %d: %v", id, err)
		wk.stop.Store(true)

		return
	}
	defer y.close()
	cur := y.abs()
	hist := []zzG06Act{}
	isIdle := false
	var path []zzG06Hop
	reset := func() {
		path = nil
		if err = y.reset(); err != nil {
			t.Errorf("worker %d: reset: %v", id, err)
			wk.stop.Store(true)
		}
		cur = y.abs()
		hist = hist[:0]
		wk.mu.Lock()
		wk.resets++
		wk.mu.Unlock()
	}
	for !wk.stop.Load() {
		if wk.opts.MaxSteps > 0 && wk.steps.Load() >= wk.opts.MaxSteps || time.Now().After(wk.deadline) {
			wk.stop.Store(true)

			break
		}
		if len(hist) >= wk.opts.ResetEvery {
			reset()
		}
		wk.mu.Lock()
		n := wk.node(cur, rng)
		ai := -1
		if len(n.remain) > 0 {
			ai = n.remain[len(n.remain)-1]
			n.remain = n.remain[:len(n.remain)-1]
			path = nil
		} else {
			if len(path) == 0 {
				path = wk.plan(n)
			}
			if len(path) > 0 {
				ai = path[0].act
			}
		}
		if ai < 0 {
			atInit := len(cur.Ls) == 0 && len(hist) == 0
			if atInit {
				if !isIdle {
					isIdle = true
					wk.idle++
				}
				done := wk.idle >= wk.opts.Workers
				wk.mu.Unlock()
				if done {
					return
				}
				time.Sleep(2 * time.Millisecond)

				continue
			}
			wk.mu.Unlock()
			reset()

			continue
		}
		if isIdle {
			isIdle = false
			wk.idle--
		}
		wk.mu.Unlock()

		a := wk.g.acts[ai]
		a.V = rng.Intn(256)
		src := cur
		r, xerr := y.exec(a)
		if xerr != nil {
			t.Errorf("worker %d: exec %v: %v", id, a, xerr)
			wk.stop.Store(true)

			return
		}
		post := y.abs()
		hist = append(hist, a)
		wk.steps.Add(1)
		why, want := zzG06Judge(wk.g, a, src, r, post)

		wk.mu.Lock()
		srcKey := wk.nodeKey(src)
		goOn := why == "" || (wk.g.nodes[post.full()] != nil && zzG06Soft(post.Prob))
		if goOn {
			d := wk.node(post, rng)
			wk.link(n, ai, d)
			if len(path) > 0 {
				if path[0].act == ai && path[0].dst == d.id {
					path = path[1:]
				} else {
					path = nil
				}
			}
		} else {
			n.succ[ai] = -1
			path = nil
		}
		if post.key != src.key {
			wk.nontriv[src.key+"|"+a.key()] = true
		}
		if len(wk.samples) < 4 && post.key != src.key && rng.Intn(50) == 0 {
			wk.samples = append(wk.samples, map[string]any{"src": src.Ls, "act": a, "reply": r, "dst": post.Ls, "disk": post.Disk})
		}
		wk.mu.Unlock()

		cur = post
		if why == "" {
			continue
		}
		wk.report(a, srcKey, src, want, why, r, post, append([]zzG06Act{}, hist...))
		if !goOn {
			wk.mu.Lock()
			wk.truncated++
			wk.mu.Unlock()
			reset()
		}
	}
}

func zzG06Base(t testing.TB) (base string) {
	base = zzGetenv("VERIF_TMP")
	if base == "" {
		base = t.TempDir()
	}

	return base
}

// TestZZVerifG06Walk is direction A.
func TestZZVerifG06Walk(t *testing.T) {
	hdr := zzG06Header(t)
	g := zzG06LoadGraph(t, hdr)
	w := zzNewWriter(t, "VERIF_OUT")
	defer w.close()
	opts := hdr.Opts
	if opts.Workers <= 0 {
		opts.Workers = 1
	}
	if opts.ResetEvery <= 0 {
		opts.ResetEvery = 400
	}
	if opts.MaxRepro <= 0 {
		opts.MaxRepro = 3
	}
	if opts.DeadlineS <= 0 {
		opts.DeadlineS = 600
	}
	wk := &zzG06Walk{g: g, opts: opts, base: zzG06Base(t), w: w, index: map[string]int{},
		looseLeft: 20000, sigs: map[string]int{}, nontriv: map[string]bool{}, deadline: time.Now().Add(time.Duration(opts.DeadlineS) * time.Second)}
	var wg sync.WaitGroup
	for i := 0; i < opts.Workers; i++ {
		wg.Add(1)
		go func(id int) {
			defer wg.Done()
			wk.worker(t, id)
		}(i)
	}
	wg.Wait()
	remaining, walkable := 0, 0
	states, tables := map[string]bool{}, map[string]bool{}
	for _, n := range wk.nodes {
		remaining += len(n.remain)
		states[n.state] = true
		tables[strings.SplitN(n.state, "||", 2)[0]] = true
		if g.nodes[n.state] != nil {
			walkable++
		}
	}
	w.put(map[string]any{
		"kind": "summary", "steps": wk.steps.Load(), "nodes": len(wk.nodes), "walkable_nodes": walkable,
		"abstract_states": len(states), "abstract_tables": len(tables), "spec_states": len(g.nodes), "spec_tables": len(g.tables),
		"alphabet": len(g.acts), "remaining": remaining, "closed": remaining == 0 && !t.Failed(),
		"bad": wk.bad, "flaky": wk.flaky, "truncated": wk.truncated, "resets": wk.resets,
		"spec_changing": g.changes, "nontrivial": len(wk.nontriv), "samples": wk.samples, "order": opts.Order, "workers": opts.Workers,
	})
}

// TestZZVerifG06Replay re-runs stored histories ({"univ":…, "history":[…]} per
// line of VERIF_IN) and writes what the last step did.
func TestZZVerifG06Replay(t *testing.T) {
	w := zzNewWriter(t, "VERIF_OUT")
	defer w.close()
	base := zzG06Base(t)
	zzReadNDJSON(t, "VERIF_IN", func(line []byte) {
		var rec struct {
			Univ    *zzG06Univ `json:"univ"`
			History []zzG06Act `json:"history"`
			Seed    int64      `json:"seed"`
		}
		if err := json.Unmarshal(line, &rec); err != nil || rec.Univ == nil || len(rec.History) == 0 {
			t.Fatalf("bad replay record: %v", err)
		}
		if rec.Seed == 0 {
			rec.Seed = zzSeed()
		}
		rec.Univ.init(rec.Seed)
		src, r, post, err := zzG06RunHistory(rec.Univ, base, rec.History)
		if err != nil {
			w.put(map[string]any{"kind": "error", "error": err.Error()})

			return
		}
		w.put(map[string]any{"kind": "replayed", "src": src.Ls, "srcdisk": src.Disk, "srcprob": src.Prob, "reply": r, "post": post,
			"act": rec.History[len(rec.History)-1]})
	})
}

// ---------------------------------------------------------- direction B

type zzG06TraceLine struct {
	Reset   bool       `json:"reset"`
	Act     zzG06Act   `json:"act"`
	Src     []zzG06L   `json:"src"`
	Dst     []zzG06L   `json:"dst"`
	Disk    []zzG06L   `json:"disk"`
	Out     zzG06Reply `json:"out"`
	Prob    []string   `json:"prob"`
	SrcProb []string   `json:"srcprob"`
	SrcDisk []zzG06L   `json:"srcdisk"`
	Run     int        `json:"run"`
	Step    int        `json:"step"`
}

// zzG06Pick draws the next action of a random history, biased towards
// actions that do something in the current table.
func zzG06Pick(u *zzG06Univ, rng *rand.Rand, cur *zzG06Obs) (a zzG06Act) {
	addrs := append(append([]int{}, u.Pool...), u.Outs...)
	pickMac := func() string { return u.Macs[rng.Intn(len(u.Macs))] }
	var mine *zzG06L
	if len(cur.Ls) > 0 && rng.Intn(4) != 0 {
		mine = &cur.Ls[rng.Intn(len(cur.Ls))]
	}
	target := func() {
		if mine != nil && mine.IP >= 0 {
			a.M, a.A = mine.Mac, mine.IP
		} else {
			a.M, a.A = pickMac(), addrs[rng.Intn(len(addrs))]
		}
	}
	a.V = rng.Intn(256)
	switch x := rng.Intn(100); {
	case x < 24:
		a.Name, a.M = "Solicit", pickMac()
	case x < 52:
		a.Name, a.Kind = "Request", zzG06Kinds[rng.Intn(len(zzG06Kinds))]
		target()
	case x < 58:
		a.Name = "Decline"
		target()
	case x < 64:
		a.Name = "Release"
		target()
	case x < 73:
		a.Name = "Expire"
		cands := []int{}
		for _, l := range cur.Ls {
			if l.F == 1 {
				cands = append(cands, l.IP)
			}
		}
		if len(cands) == 0 {
			a.Name, a.M = "Solicit", pickMac()
		} else {
			a.A = cands[rng.Intn(len(cands))]
		}
	case x < 82:
		a.Name, a.M = "AddStatic", pickMac()
		a.A = addrs[rng.Intn(len(addrs))]
		a.H = u.StatHosts[rng.Intn(len(u.StatHosts))]
	case x < 88:
		a.Name, a.M = "UpdateStatic", pickMac()
		if mine != nil && rng.Intn(3) != 0 {
			a.M = mine.Mac
		}
		a.A = addrs[rng.Intn(len(addrs))]
		a.H = u.StatHosts[rng.Intn(len(u.StatHosts))]
	case x < 94:
		a.Name = "RemoveStatic"
		target()
	default:
		a.Name = "Restart"
	}
	if strings.HasPrefix(a.M, "?") {
		a.M = pickMac()
	}

	return a
}

// zzG06WellFormed reports whether ls can be a table of the specification at
// all: one lease per client and per address.
func zzG06WellFormed(ls []zzG06L) (ok bool) {
	seen := map[string]bool{}
	for _, l := range ls {
		for _, k := range []string{"m" + l.Mac, "i" + strconv.Itoa(l.IP)} {
			if seen[k] {
				return false
			}
			seen[k] = true
		}
		if l.IP < 0 || strings.HasPrefix(l.Mac, "?") || strings.HasPrefix(l.Host, "?") {
			return false
		}
	}

	return true
}

// TestZZVerifG06Trace is direction B: random histories, recorded.
func TestZZVerifG06Trace(t *testing.T) {
	hdr := zzG06Header(t)
	w := zzNewWriter(t, "VERIF_OUT")
	defer w.close()
	u := hdr.Univ
	rng := rand.New(rand.NewSource(zzSeed()))
	base := zzG06Base(t)
	for run := 0; run < hdr.Opts.TraceRuns; run++ {
		y, err := zzG06NewSys(u, base)
		if err != nil {
			t.Fatalf("new: %v", err)
		}
		cur := y.abs()
		fresh := true
		for step := 0; step < hdr.Opts.TraceSteps; step++ {
			a := zzG06Pick(u, rng, cur)
			r, xerr := y.exec(a)
			if xerr != nil {
				if a.Name == "Expire" {
					continue
				}
				t.Fatalf("run %d step %d %v: %v", run, step, a, xerr)
			}
			post := y.abs()
			w.put(&zzG06TraceLine{Reset: fresh, Act: a, Src: cur.Ls, Dst: post.Ls, Disk: post.Disk, Out: r,
				Prob: post.Prob, SrcProb: cur.Prob, SrcDisk: cur.Disk, Run: run, Step: step})
			fresh = false
			cur = post
			if !zzG06Soft(post.Prob) || !zzG06WellFormed(post.Ls) || !zzG06WellFormed(post.Disk) {
				// Not a state of the specification any more: start afresh.
				if err = y.reset(); err != nil {
					t.Fatalf("reset: %v", err)
				}
				cur = y.abs()
				fresh = true
			}
		}
		y.close()
	}
}
