--------------------------- MODULE RateLimitProof ---------------------------
(***************************************************************************)
(* G12 -- TLAPS proof that RateLimitInd!IndInv is an inductive invariant   *)
(* of RateLimitInd!Spec for ARBITRARY constants satisfying ConstOK (any    *)
(* set of addresses, infinite included; any limits and block durations     *)
(* >= 1; unbounded clock) and that it implies Safety.                      *)
(* Checked with  tlapm --threads N RateLimitProof.tla.                     *)
(***************************************************************************)
EXTENDS RateLimitInd, TLAPS

ASSUME ConstAssump == ConstOK

LEMMA InitInv == Init => IndInv
  <1> SUFFICES ASSUME Init PROVE IndInv OBVIOUS
  <1>1 n \in Nat /\ n >= 1 /\ b \in Nat /\ b >= 1
    BY ConstAssump DEF Init, ConstOK
  <1> QED
    BY <1>1 DEF Init, IndInv, TypeOKInd, TypeOK, CountBelowStreak, BurstCounted, HitIsBlock,
                NoBlockBeforeLimit, NoRec, NoOut

\* What one attempt does to the record of its address.
LEMMA AttemptCases ==
    ASSUME NEW r, NEW now, NEW nn, NEW bb, NEW ok, NEW o \in AttemptOutcomes(r, now, nn, bb, ok)
    PROVE  \/ /\ Blocked(r, now, nn)
              /\ o = [rec |-> r, res |-> "blocked", eval |-> FALSE, base |-> -1]
           \/ /\ ~Blocked(r, now, nn) /\ ok
              /\ o = [rec |-> NoRec, res |-> "ok", eval |-> TRUE, base |-> -1]
           \/ /\ ~Blocked(r, now, nn) /\ ~ok
              /\ \E base \in Bases(r, now) :
                    o = [rec |-> [cnt   |-> Min(base + 1, nn),
                                  until |-> IF Min(base + 1, nn) >= nn THEN now + bb
                                            ELSE IF base = 0 THEN now + Window ELSE r.until],
                         res |-> "fail", eval |-> TRUE, base |-> base]
  BY DEF AttemptOutcomes

LEMMA NextInv == IndInv /\ [Next]_vars => IndInv'
  <1> SUFFICES ASSUME IndInv, [Next]_vars PROVE IndInv' OBVIOUS
  <1>c n \in Nat /\ n >= 1 /\ b \in Nat /\ b >= 1 /\ Window \in Nat /\ clock \in Nat
    BY ConstAssump DEF IndInv, TypeOKInd, ConstOK
  <1>1 ASSUME NEW a \in Addrs, NEW claim \in Claims, NEW ok \in BOOLEAN, Attempt(a, claim, ok)
       PROVE  IndInv'
    <2> DEFINE r == rec[a]
    <2>1 PICK o \in AttemptOutcomes(r, clock, n, b, ok) :
            /\ rec' = [rec EXCEPT ![a] = o.rec]
            /\ evals' = IF o.eval THEN evals + 1 ELSE evals
            /\ hit' = [hit EXCEPT ![a] = IF o.res = "ok" THEN -1
                                          ELSE IF o.res = "fail" /\ o.rec.cnt >= n THEN clock
                                          ELSE @]
            /\ streak' = [streak EXCEPT ![a] = IF o.res = "ok" THEN 0
                                                ELSE IF o.res = "fail" THEN Min(@ + 1, n) ELSE @]
            /\ burst' = [burst EXCEPT ![a] = IF o.res = "ok" THEN 0
                                              ELSE IF o.res = "fail" THEN (IF o.base = 0 THEN 1 ELSE @ + 1)
                                              ELSE @]
            /\ out' = [act |-> "attempt", a |-> a, ok |-> ok, res |-> o.res]
            /\ UNCHANGED <<n, b, clock>>
      <3>1 PICK oo \in TableOutcomes(rec, a, claim, ok, clock, n, b) :
              /\ rec' = oo.tbl
              /\ evals' = IF oo.eval THEN evals + 1 ELSE evals
              /\ hit' = [hit EXCEPT ![a] = IF oo.res = "ok" THEN -1
                                            ELSE IF oo.res = "fail" /\ oo.tbl[a].cnt >= n THEN clock
                                            ELSE @]
              /\ streak' = [streak EXCEPT ![a] = IF oo.res = "ok" THEN 0
                                                  ELSE IF oo.res = "fail" THEN Min(@ + 1, n) ELSE @]
              /\ burst' = [burst EXCEPT ![a] = IF oo.res = "ok" THEN 0
                                                ELSE IF oo.res = "fail" THEN (IF oo.base = 0 THEN 1 ELSE @ + 1)
                                                ELSE @]
              /\ out' = [act |-> "attempt", a |-> a, ok |-> ok, res |-> oo.res]
              /\ UNCHANGED <<n, b, clock>>
        BY <1>1 DEF Attempt
      <3>2 PICK o \in AttemptOutcomes(r, clock, n, b, ok) :
              oo = [tbl |-> [rec EXCEPT ![a] = o.rec], res |-> o.res, eval |-> o.eval, base |-> o.base]
        BY DEF TableOutcomes
      <3>3 a \in DOMAIN rec BY DEF IndInv, TypeOKInd
      <3>4 oo.tbl[a] = o.rec BY <3>2, <3>3
      <3> QED BY <3>1, <3>2, <3>4
    <2>2 /\ DOMAIN rec = Addrs /\ DOMAIN hit = Addrs /\ DOMAIN streak = Addrs /\ DOMAIN burst = Addrs
         /\ r.cnt \in 0..n /\ r.until \in Nat /\ (r.cnt = 0 => r = NoRec) /\ (r.cnt > 0 => clock <= r.until)
         /\ hit[a] \in Int /\ hit[a] >= -1 /\ hit[a] <= clock /\ streak[a] \in 0..n /\ burst[a] \in Nat
         /\ r.cnt <= streak[a]
         /\ burst[a] <= r.cnt /\ (r.cnt >= n /\ burst[a] > 0 => clock < r.until)
         /\ (r.cnt >= n => hit[a] >= 0 /\ r.until = hit[a] + b)
         /\ (hit[a] >= 0 /\ clock < hit[a] + b => r.cnt >= n)
         /\ evals \in Nat
      BY DEF IndInv, TypeOKInd, TypeOK, CountBelowStreak, BurstCounted, HitIsBlock
    \* the new values at address a, case by case
    <2>3 /\ rec'[a] = o.rec /\ hit'[a] \in Int /\ streak'[a] \in Int /\ burst'[a] \in Int
         /\ o.res \in {"blocked", "ok", "fail"}
         /\ o.rec.cnt \in 0..n /\ o.rec.until \in Nat
         /\ (o.rec.cnt = 0 => o.rec = NoRec) /\ (o.rec.cnt > 0 => clock <= o.rec.until)
         /\ hit'[a] >= -1 /\ hit'[a] <= clock /\ streak'[a] \in 0..n /\ burst'[a] \in Nat
         /\ o.rec.cnt <= streak'[a]
         /\ burst'[a] <= o.rec.cnt /\ (o.rec.cnt >= n /\ burst'[a] > 0 => clock < o.rec.until)
         /\ (o.rec.cnt >= n => hit'[a] >= 0 /\ o.rec.until = hit'[a] + b)
         /\ (hit'[a] >= 0 /\ clock < hit'[a] + b => o.rec.cnt >= n)
         /\ (o.res = "blocked" => streak'[a] >= n)
         /\ evals' \in Nat
      <3>0 rec'[a] = o.rec
           /\ hit'[a] = (IF o.res = "ok" THEN -1 ELSE IF o.res = "fail" /\ o.rec.cnt >= n THEN clock ELSE hit[a])
           /\ streak'[a] = (IF o.res = "ok" THEN 0 ELSE IF o.res = "fail" THEN Min(streak[a] + 1, n) ELSE streak[a])
           /\ burst'[a] = (IF o.res = "ok" THEN 0 ELSE IF o.res = "fail" THEN (IF o.base = 0 THEN 1 ELSE burst[a] + 1) ELSE burst[a])
        BY <2>1, <2>2
      <3>1 CASE /\ Blocked(r, clock, n)
                /\ o = [rec |-> r, res |-> "blocked", eval |-> FALSE, base |-> -1]
        BY <3>0, <3>1, <2>1, <2>2, <1>c DEF Blocked
      <3>2 CASE /\ ~Blocked(r, clock, n) /\ ok
                /\ o = [rec |-> NoRec, res |-> "ok", eval |-> TRUE, base |-> -1]
        BY <3>0, <3>2, <2>1, <2>2, <1>c DEF NoRec
      <3>3 CASE /\ ~Blocked(r, clock, n) /\ ~ok
                /\ \E base \in Bases(r, clock) :
                      o = [rec |-> [cnt   |-> Min(base + 1, n),
                                    until |-> IF Min(base + 1, n) >= n THEN clock + b
                                              ELSE IF base = 0 THEN clock + Window ELSE r.until],
                           res |-> "fail", eval |-> TRUE, base |-> base]
        <4>1 PICK base \in Bases(r, clock) :
                      o = [rec |-> [cnt   |-> Min(base + 1, n),
                                    until |-> IF Min(base + 1, n) >= n THEN clock + b
                                              ELSE IF base = 0 THEN clock + Window ELSE r.until],
                           res |-> "fail", eval |-> TRUE, base |-> base]
          BY <3>3
        <4>2 \/ base = 0
             \/ base = r.cnt /\ r.cnt > 0 /\ clock <= r.until
          BY <2>2 DEF Bases
        <4>3 base \in 0..n BY <4>2, <2>2, <1>c
        <4>4 ~(r.cnt >= n /\ clock < r.until) BY <3>3 DEF Blocked
        <4>5 /\ o.res = "fail" /\ o.base = base /\ o.eval = TRUE
             /\ o.rec.cnt = Min(base + 1, n)
             /\ o.rec.until = (IF Min(base + 1, n) >= n THEN clock + b
                               ELSE IF base = 0 THEN clock + Window ELSE r.until)
          BY <4>1
        <4>6 Min(base + 1, n) = (IF base + 1 < n THEN base + 1 ELSE n) /\ Min(streak[a] + 1, n) = (IF streak[a] + 1 < n THEN streak[a] + 1 ELSE n)
          BY DEF Min
        <4>7 o.rec # NoRec \/ o.rec.cnt # 0 BY <4>5, <4>6, <4>3, <1>c
        <4> HIDE DEF r
        <4> QED BY <3>0, <4>2, <4>3, <4>4, <4>5, <4>6, <2>1, <2>2, <1>c DEF NoRec
      <3> QED BY <3>1, <3>2, <3>3, AttemptCases
    \* the other addresses keep everything
    <2>4 \A x \in Addrs \ {a} : rec'[x] = rec[x] /\ hit'[x] = hit[x] /\ streak'[x] = streak[x] /\ burst'[x] = burst[x]
      BY <2>1, <2>2
    <2>5 DOMAIN rec' = Addrs /\ DOMAIN hit' = Addrs /\ DOMAIN streak' = Addrs /\ DOMAIN burst' = Addrs
      BY <2>1, <2>2
    <2>6 n' = n /\ b' = b /\ clock' = clock BY <2>1
    <2> HIDE DEF r
    <2>7 TypeOKInd'
      <3>1 \A x \in Addrs : rec'[x].cnt \in 0..n /\ (rec'[x].cnt = 0 => rec'[x] = NoRec)
                           /\ (rec'[x].cnt > 0 => clock <= rec'[x].until)
                           /\ rec'[x].until \in Nat /\ hit'[x] \in Int /\ hit'[x] >= -1 /\ hit'[x] <= clock
                           /\ streak'[x] \in 0..n /\ burst'[x] \in Nat
        BY <2>3, <2>4 DEF IndInv, TypeOKInd, TypeOK
      <3>2 out'.res \in {"none", "ok", "fail", "blocked"} /\ out'.act = "attempt" /\ out'.a = a
        BY <2>1, <2>3
      <3> QED BY <3>1, <3>2, <2>3, <2>5, <2>6 DEF IndInv, TypeOKInd, TypeOK
    <2>8 CountBelowStreak' /\ BurstCounted' /\ HitIsBlock'
      BY <2>3, <2>4, <2>6 DEF IndInv, CountBelowStreak, BurstCounted, HitIsBlock
    <2>9 NoBlockBeforeLimit'
      BY <2>1, <2>3, <2>6 DEF NoBlockBeforeLimit
    <2> QED BY <2>7, <2>8, <2>9 DEF IndInv
  <1>2 ASSUME NEW d \in 1..MaxTick, Tick(d)
       PROVE  IndInv'
    <2>0 d \in Nat /\ d >= 1 /\ clock' = clock + d /\ clock' \in Nat /\ clock' > clock
      BY <1>2, <1>c, ConstAssump DEF Tick, ConstOK
    <2>1 /\ rec' = [x \in Addrs |-> Normalise(rec[x], clock')]
         /\ burst' = [x \in Addrs |-> 0]
         /\ out' = [act |-> "tick", a |-> "", ok |-> FALSE, res |-> "none"]
         /\ UNCHANGED <<n, b, evals, hit, streak>>
      BY <1>2 DEF Tick, TableAfterTick, IndInv, TypeOKInd
    <2>2 \A x \in Addrs : rec'[x] = (IF rec[x].cnt > 0 /\ clock' <= rec[x].until THEN rec[x] ELSE NoRec) /\ burst'[x] = 0
      BY <2>1 DEF Normalise
    <2>3 TypeOKInd'
      <3>1 \A x \in Addrs : /\ rec'[x].cnt \in 0..n /\ (rec'[x].cnt = 0 => rec'[x] = NoRec)
                            /\ (rec'[x].cnt > 0 => clock' <= rec'[x].until)
                            /\ rec'[x].until \in Nat /\ hit'[x] \in Int /\ hit'[x] >= -1 /\ hit'[x] <= clock'
                            /\ streak'[x] \in 0..n /\ burst'[x] \in Nat
        BY <2>0, <2>1, <2>2, <1>c DEF IndInv, TypeOKInd, TypeOK, NoRec
      <3>2 DOMAIN rec' = Addrs /\ DOMAIN burst' = Addrs BY <2>1
      <3> QED BY <3>1, <3>2, <2>0, <2>1 DEF IndInv, TypeOKInd, TypeOK
    <2>4 CountBelowStreak'
      BY <2>1, <2>2, <1>c DEF IndInv, CountBelowStreak, TypeOKInd, NoRec
    <2>5 BurstCounted'
      BY <2>1, <2>2, <1>c DEF IndInv, BurstCounted, TypeOKInd, TypeOK, NoRec
    <2>6 HitIsBlock'
      <3> SUFFICES ASSUME NEW x \in Addrs
                   PROVE  /\ (rec'[x].cnt >= n' => hit'[x] >= 0 /\ rec'[x].until = hit'[x] + b')
                          /\ (hit'[x] >= 0 /\ clock' < hit'[x] + b' => rec'[x].cnt >= n')
        BY DEF HitIsBlock
      <3>1 /\ (rec[x].cnt >= n => hit[x] >= 0 /\ rec[x].until = hit[x] + b)
           /\ (hit[x] >= 0 /\ clock < hit[x] + b => rec[x].cnt >= n)
           /\ rec[x].cnt \in 0..n /\ rec[x].until \in Nat /\ hit[x] \in Int
        BY DEF IndInv, HitIsBlock, TypeOKInd, TypeOK
      <3> QED BY <3>1, <2>0, <2>1, <2>2, <1>c DEF NoRec
    <2>7 NoBlockBeforeLimit'
      BY <2>1 DEF NoBlockBeforeLimit
    <2> QED BY <2>3, <2>4, <2>5, <2>6, <2>7 DEF IndInv
  <1>3 CASE UNCHANGED vars
    BY <1>3 DEF vars, IndInv, TypeOKInd, TypeOK, CountBelowStreak, BurstCounted, HitIsBlock, NoBlockBeforeLimit
  <1> QED BY <1>1, <1>2, <1>3 DEF Next

THEOREM Invariance == Spec => []IndInv
  BY InitInv, NextInv, PTL DEF Spec

THEOREM IndInvSafe == IndInv => Safety
  <1> SUFFICES ASSUME IndInv PROVE Safety OBVIOUS
  <1>1 n \in Nat BY ConstAssump DEF IndInv, TypeOKInd, ConstOK
  <1>2 \A a \in Addrs : burst[a] <= n
    <2> TAKE a \in Addrs
    <2>1 burst[a] \in Nat /\ rec[a].cnt \in 0..n /\ burst[a] <= rec[a].cnt
      BY DEF IndInv, TypeOKInd, TypeOK, BurstCounted
    <2> QED BY <2>1, <1>1
  <1> QED BY <1>2 DEF IndInv, Safety, TypeOKInd, LimitIsSharp
=============================================================================
