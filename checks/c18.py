"""C18 -- the blocked-services pause schedule follows local wall-clock time.

Loop (see notes/C18.md):
  1. Schedule.tla / Schedule.mc.cfg: exhaustive model over abstract zone and day
     classes (tick = 1 min, every instant of a +-36 h window), the statement's
     properties as invariants, and the serialisation vectors.
  2. Go scan of the host tz database -> integer offset tables -> a seeded
     (quick) or complete (thorough) selection of (zone, day) cases ->
     ScheduleHost.tla computes the verdict tables in real units.
  3. Direction A: every table row is replayed into the real Weekly.Contains
     (package schedule) and a sample through DNSFilter.ApplyAdditionalFiltering
     at the virtual time of the instant (package filtering, synctest); the
     serialisation vectors go through Unmarshal/Marshal JSON/YAML.
  4. Direction B: random triples and serialised schedules recorded from the real
     code, judged by TraceSchedule.tla.
"""
import json
import os
import random
import vlib

PKG = "internal/schedule"
FILES = ["zz_verif_common_test.go", "zz_verif_c18_test.go"]
FPKG = "internal/filtering"
FFILES = FILES + ["zz_verif_c18_holder_test.go"]

KEY = "contains-elapsed-since-midnight-on-transition-day"
WHAT = ("Weekly.Contains measures time elapsed since local midnight instead of the wall-clock time of day: "
        "on a day with a UTC-offset (DST) transition the verdict is the one of the wall clock shifted by the step")

KEY2 = "config-without-schedule-panics-dns-path"
HPKG = "internal/home"

DAY = 86400
ANCHORS = [("Europe/Berlin", 1711846800), ("Europe/Berlin", 1729990800)]
ZCLASSES = ["utc", "hour", "half", "quarter", "dst-north", "dst-south"]
DCLASSES = ["ordinary", "forward", "back", "midnight"]
SHAPES = ["full", "empty", "fullD", "fullOthers", "span", "after", "before", "late", "odd", "rnd"]


# ------------------------------------------------------------ case selection
def zone_class(z):
    offs = [z["base"]] + [o for _, o in z["trans"]]
    if any(o % 3600 in (900, 2700) for o in offs):
        return "quarter"
    if any(o % 3600 == 1800 for o in offs):
        return "half"
    if len(z["trans"]) >= 8:
        prev, south, north = z["base"], 0, 0
        for at, o in z["trans"]:
            if o > prev:
                # month of the spring-forward transition, from the unix time
                import time as _t
                mon = _t.gmtime(at).tm_mon
                if mon >= 8 or mon == 1:
                    south += 1
                else:
                    north += 1
            prev = o
        return "dst-south" if south > north else "dst-north"
    if not z["trans"] and z["base"] == 0:
        return "utc"
    return "hour"


def transitions(z):
    """[(at, before, after, dcls)] for every transition of the scanned table."""
    out, prev = [], z["base"]
    for at, o in z["trans"]:
        mid = (at + prev) % DAY == 0 or (at + o) % DAY == 0
        out.append((at, prev, o, "midnight" if mid else ("forward" if o > prev else "back")))
        prev = o
    return out


WIN_LO, WIN_HI = 946857600 + 3 * DAY, 2144966400 - 3 * DAY   # 2000-01-06 .. 2037-12-17


def ordinary_focus(z, rng):
    for _ in range(200):
        f = rng.randrange(WIN_LO, WIN_HI)
        if all(abs(at - f) > 3 * DAY for at, _ in z["trans"]):
            return f
    return None


def rnd_week(rng):
    wk = []
    for _ in range(7):
        k = rng.randrange(10)
        if k < 3:
            wk.append({"s": 0, "e": 0})
        elif k == 3:
            wk.append({"s": 0, "e": DAY})
        else:
            a, b = sorted(rng.sample(range(0, 1441), 2))
            wk.append({"s": a * 60, "e": b * 60})
    return wk


def mk_case(z, focus, dcls, rng):
    lo, hi = focus - 36 * 3600, focus + 36 * 3600
    base, tr = z["base"], []
    for at, o in z["trans"]:
        if at < lo - DAY:
            base = o
        elif at <= hi + DAY:
            tr.append({"at": at, "off": o})
    return {
        "id": "%s@%d" % (z["name"], focus), "zone": z["name"], "zcls": z["zcls"], "dcls": dcls,
        "z": {"base": base, "trans": tr}, "lo": lo, "hi": hi, "focus": focus,
        "g0": focus + rng.randrange(-899, 900), "gn": rng.randrange(0, 10 ** 9), "dlen": -1,
        "rnd": [rnd_week(rng), rnd_week(rng)],
    }


def select_cases(ctx, zones):
    rng = random.Random(ctx.seed * 7919 + 18)
    for z in zones:
        z["zcls"] = zone_class(z)
        z["tr"] = [t for t in transitions(z) if WIN_LO <= t[0] <= WIN_HI]
    byname = {z["name"]: z for z in zones}
    cases = {}

    def add(z, focus, dcls):
        if focus is None:
            return
        c = mk_case(z, focus, dcls, rng)
        cases.setdefault(c["id"], c)

    # Fixed anchors (the design-time probe), when the host has them.
    for name, at in ANCHORS:
        z = byname.get(name)
        if z:
            for t in z["tr"]:
                if t[0] == at:
                    add(z, at, t[3])
    if ctx.quick:
        per = 2
        for zc in ZCLASSES:
            zs = [z for z in zones if z["zcls"] == zc]
            if not zs:
                continue
            for dc in DCLASSES:
                if dc == "ordinary":
                    for z in rng.sample(zs, min(per + 1, len(zs))):
                        add(z, ordinary_focus(z, rng), dc)
                    continue
                cand = [z for z in zs if any(t[3] == dc for t in z["tr"])]
                for z in rng.sample(cand, min(per, len(cand))):
                    t = rng.choice([t for t in z["tr"] if t[3] == dc])
                    add(z, t[0], dc)
    else:
        for z in zones:
            add(z, ordinary_focus(z, rng), "ordinary")
            for dc in DCLASSES[1:]:
                ts = [t for t in z["tr"] if t[3] == dc]
                if ts:
                    add(z, rng.choice(ts)[0], dc)
            # Offset changes other than one hour (half-hour DST, base-offset
            # changes, date-line jumps) are rare: take every such zone's.
            odd = [t for t in z["tr"] if abs(t[2] - t[1]) != 3600]
            for t in odd[:2]:
                add(z, t[0], t[3])
    return list(cases.values())


# ----------------------------------------------------------------- classifier
def classify(rec, cases):
    """Narrow key of the one known defect: the instant's local day has an offset
    transition, and the observed verdict is exactly what `elapsed since the local
    midnight instant` predicts with one of the zone's other offsets."""
    if rec.get("what") not in ("contains", "apply-global", "apply-client") or "pt" not in rec:
        return None
    if rec.get("hist"):
        return None      # that defect needs no earlier calls on the object
    c = cases.get(rec.get("c"))
    if not c:
        return None
    s, n, off, wd, tod, exp = rec["pt"][:6]
    rs, re_ = rec["range"]
    got = bool(rec["got"])
    if got == bool(exp):
        return None
    day = (s + off) // DAY
    prev, on_day = c["z"]["base"], False
    for t in c["z"]["trans"]:
        at, o = t["at"], t["off"]
        if day in ((at - 1 + prev) // DAY, (at + prev) // DAY, (at + o) // DAY):
            on_day = True
        prev = o
    if not on_day:
        return None
    offs = {c["z"]["base"]} | {t["off"] for t in c["z"]["trans"]}
    for o in offs - {off}:
        el = tod - (off - o)
        if (rs <= el < re_) == got:
            return KEY
    return None


# ----------------------------------------------------------------- Go drivers
def go_replay(ctx, vectors, tag="a"):
    vin, vout = ctx.path("c18_in_%s.ndjson" % tag), ctx.path("c18_out_%s.ndjson" % tag)
    vlib.write_ndjson(vin, vectors)
    rc, out = ctx.go_test(PKG, FILES, "^TestZZVerifC18Replay$", env={"VERIF_IN": vin, "VERIF_OUT": vout})
    rows = vlib.read_ndjson(vout)
    summ = [r for r in rows if r.get("kind") == "summary"]
    if rc != 0 or not summ:
        raise vlib.Inconclusive("C18 replay harness did not complete:\n" + out[-3000:])
    return rows, summ[0], vin


def go_apply(ctx, vin, tag="a", every=None):
    vout = ctx.path("c18_apply_%s.ndjson" % tag)
    env = {"VERIF_IN": vin, "VERIF_OUT": vout}
    if every is not None:
        env["VERIF_C18_EVERY"] = str(every)
    rc, out = ctx.go_test(FPKG, FFILES, "^TestZZVerifC18Apply$", env=env, synctest=True)
    rows = vlib.read_ndjson(vout)
    summ = [r for r in rows if r.get("kind") == "summary"]
    if rc != 0 or not summ:
        raise vlib.Inconclusive("C18 filtering harness did not complete:\n" + out[-3000:])
    return rows, summ[0]


# ------------------------------------------------ the schedules in effect
BOOT = {"tz": "Local", "w": [[0, 0, 0, 0]] * 7}
BOOT2 = {"g": BOOT, "c": BOOT}


def dkey(d):
    return json.dumps(d, sort_keys=True)


def holder_walk(ctx, edges, eff):
    """One walk from the boot state that takes every edge TLC enumerated (each
    (state of both holders, holder, request) once): stay in a state until its
    rejected requests (self loops) and its accepted ones are used up, then move
    to the nearest state that still has untaken edges; a `reset` (two new
    servers) leads back to the boot state."""
    rng = random.Random(ctx.seed * 104729 + 18)
    adj = {}
    for e in edges:
        adj.setdefault(dkey(e["src"]), []).append(e)
    for k in adj:
        rng.shuffle(adj[k])
        adj[k].sort(key=lambda e: e["out"] == "ok")      # rejected ones first
    pos = {k: 0 for k in adj}
    boot = dkey(BOOT2)
    cur, steps, left, n = boot, [], len(edges), 0
    if cur not in adj:
        raise vlib.Inconclusive("holder spec has no edge from the boot state")

    def step(e):
        nonlocal n
        n += 1
        return {"i": n, "h": e["h"], "act": e["act"], "form": e.get("form", ""), "doc": e["doc"], "out": e["out"],
                "src": e["src"],
                "dst": e["dst"], "eff": {h: eff[dkey(e["dst"][h])] for h in ("g", "c")}}

    while left:
        if pos[cur] < len(adj[cur]):
            e = adj[cur][pos[cur]]
            pos[cur] += 1
            left -= 1
            steps.append(step(e))
            cur = dkey(e["dst"])
            continue
        # breadth-first search over accepted requests (and reset) for a state with untaken edges
        prev, queue, goal = {cur: None}, [cur], None
        while queue and goal is None:
            u = queue.pop(0)
            nxt = [(dkey(x["dst"]), x) for x in adj.get(u, []) if x["out"] == "ok"] + [(boot, None)]
            for v, x in nxt:
                if v in prev:
                    continue
                prev[v] = (u, x)
                if pos.get(v, 0) < len(adj.get(v, [])):
                    goal = v
                    break
                queue.append(v)
        if goal is None:
            raise vlib.Inconclusive("holder walk is stuck with %d edges left" % left)
        path = []
        while prev[goal] is not None:
            u, x = prev[goal]
            path.append(x)
            goal = u
        for x in reversed(path):
            steps.append({"reset": True} if x is None else step(x))
            cur = boot if x is None else dkey(x["dst"])
    return steps


def go_holder(ctx, steps, tag="a"):
    vin, vout = ctx.path("c18_walk_%s.ndjson" % tag), ctx.path("c18_walk_out_%s.ndjson" % tag)
    vlib.write_ndjson(vin, steps)
    rc, out = ctx.go_test(FPKG, FFILES, "^TestZZVerifC18Holder$", env={"VERIF_IN": vin, "VERIF_OUT": vout}, synctest=True)
    rows = vlib.read_ndjson(vout)
    summ = [r for r in rows if r.get("kind") == "summary"]
    if rc != 0 or not summ:
        raise vlib.Inconclusive("C18 holder harness did not complete:\n" + out[-3000:])
    return rows, summ[0]


def holder_describe(r):
    return "%s: holders %s; %s to holder %s with %s answered %s (spec: %s); in effect afterwards %s, spec %s; %s%s" % (
        r.get("what"), dkey(r.get("src")), r.get("act"), r.get("h"), dkey(r.get("doc")),
        "ok" if r.get("got_ok") else "error", r.get("want_out"), dkey(r.get("got_dst")), dkey(r.get("want_dst")),
        "; ".join(r.get("eff") or [])[:200],
        (" [after %d earlier requests in the same process]" % len(r["hist"])) if r.get("hist") else "")


def holder_confirm(ctx, walk, bads):
    """Confirm reproduced disagreements of the walk in NEW PROCESSES and find how
    much of the walk before the step is needed (hidden state may be shared
    between holders and servers): the source state installed through the API
    only; the 25 requests before it; everything since the start."""
    plain = [x for x in walk]
    index = {x["i"]: k for k, x in enumerate(plain) if not x.get("reset")}
    out, runs = [], 0
    for r in bads:
        k = index.get(r["step"])
        if k is None:
            continue
        st = plain[k]
        confirmed = None
        for nh in (0, 25, k):
            hist = plain[max(0, k - nh):k]
            w = [{"reset": True}]
            if nh == 0:
                for h in ("g", "c"):
                    if st["src"][h]["tz"] != "Local" or any(x != [0, 0, 0, 0] for x in st["src"][h]["w"]):
                        w.append({"i": -1, "h": h, "act": "put", "doc": st["src"][h], "out": ""})
            else:
                w += [dict(x, out="", dst=None) if not x.get("reset") else x for x in hist]
            w.append(dict(st, i=10 ** 9))
            rows, _ = go_holder(ctx, w, tag="c%d" % runs)
            runs += 1
            if any(x.get("kind") == "bad" for x in rows):
                confirmed = [x for x in w[1:-1]]
                b = next(x for x in rows if x.get("kind") == "bad")
                r = dict(r, what=b["what"], got_ok=b["got_ok"], got_dst=b["got_dst"], eff=b["eff"], reply=b.get("reply"))
                break
            if nh >= k:
                break
        if confirmed is None:
            ctx.notes.append("holder step %s not reproduced in a new process" % r["step"])
            continue
        r["hist"] = confirmed
        out.append(r)
    return out


C18 = "C18"


def open_keys():
    return {k for k, v in vlib.known_findings().items() if v.get("status") == "open"}


def holder_key(r):
    """Narrow key of the nil-schedule defect: a configuration document WITHOUT a
    schedule was loaded without error, both holders read back as the spec says,
    and the only disagreement is that nothing that consults the schedule answers
    (nil pointer panic in Contains / on the DNS path)."""
    if r.get("act") != "yamlnone" or not r.get("got_ok"):
        return None
    if r.get("what") == "holder-no-schedule-panics":
        effs = r.get("eff") or []
        if effs and all("panics" in x and "nil pointer" in x for x in effs):
            return KEY2
    if r.get("what") == "holder-trace" and r.get("panics", 0) > 0 and r.get("reads_back_as_spec"):
        return KEY2
    return None


def go_client(ctx, forms):
    vout = ctx.path("c18_client.ndjson")
    rc, out = ctx.go_test(HPKG, FILES, "^TestZZVerifC18ClientNoSchedule$",
                          env={"VERIF_OUT": vout, "VERIF_C18_FORMS": ",".join(forms)})
    rows = vlib.read_ndjson(vout)
    summ = [r for r in rows if r.get("kind") == "summary"]
    if rc != 0 or not summ or summ[0]["n"] != len(forms):
        raise vlib.Inconclusive("C18 client harness did not complete:\n" + out[-3000:])
    return rows


def holder_trace(ctx):
    """Direction B for the holders: random histories judged by TraceScheduleHolder."""
    tout = ctx.path("c18_htrace.ndjson")
    rc, out = ctx.go_test(FPKG, FFILES, "^TestZZVerifC18HolderTrace$", env={"VERIF_OUT": tout}, synctest=True)
    rows = vlib.read_ndjson(tout)
    if rc != 0 or len(rows) < 100:
        raise vlib.Inconclusive("C18 holder trace driver did not complete:\n" + out[-3000:])
    r = ctx.tlc("TraceScheduleHolder", "TraceScheduleHolder.cfg", workers=1, timeout=900,
                extra_files=[(tout, "trace.ndjson")])
    if not r["vectors"] or r["vectors"][-1]["n"] != len(rows):
        raise vlib.Inconclusive("holder trace spec did not consume the trace")
    bad = sorted(r["vectors"][-1]["bad"])
    # corrupted lines: an accepted update whose read-back differs, and a change of the other holder
    head = [json.loads(json.dumps(x)) for x in rows[:140]]
    j = next((i for i, x in enumerate(head) if x["k"] == "op" and x["ok"] == 1 and x["act"] != "null"
              and (i + 1) not in bad and any(a != [0, 0] for a in x[x["h"]]["w"])), None)
    if j is None:
        raise vlib.Inconclusive("no accepted update among the first 140 holder trace lines")
    head[j][head[j]["h"]]["w"] = [[0, 0]] * 7
    k = next((i for i, x in enumerate(head) if i > j + 1 and x["k"] == "op" and (i + 1) not in bad), None)
    if k is None:
        raise vlib.Inconclusive("no second accepted line among the first 140 holder trace lines")
    oth = "c" if head[k]["h"] == "g" else "g"
    head[k][oth]["w"] = [[60000, 120000]] + head[k][oth]["w"][1:]
    cpath = ctx.path("c18_htrace_corrupt.ndjson")
    vlib.write_ndjson(cpath, head)
    rc_ = ctx.tlc("TraceScheduleHolder", "TraceScheduleHolder.cfg", workers=1, timeout=300,
                  extra_files=[(cpath, "trace.ndjson")])
    cb = rc_["vectors"][-1]["bad"] if rc_["vectors"] else []
    if (j + 1) not in cb or (k + 1) not in cb:
        raise vlib.Inconclusive("TraceScheduleHolder accepted a corrupted line (%d, %d): %s" % (j + 1, k + 1, cb[:10]))
    ctx.cov["binding_demo_holder_trace"] = {"corrupted_lines": [j + 1, k + 1],
                                            "fields": ["read-back of the updated holder", "read-back of the other holder"],
                                            "rejected": True}
    return rows, bad


def doc_of(o):
    return {"tz": o["tz"], "w": [[a[0], a[1], b[0], b[1]] for a, b in zip(o["w"], o["wn"])]}


def holder_trace_repro(ctx, rows, bad):
    """Re-run rejected steps in a new process: everything since the last reset
    (hidden state may be shared), the same request; reproduced = the same
    observation again.  Lines that look like the known nil-schedule defect and
    other lines have separate budgets, so that the former cannot hide the latter."""
    cand = [i for i in bad if rows[i - 1].get("act") == "yamlnone" and rows[i - 1].get("panics", 0) > 0]
    rest = [i for i in bad if i not in set(cand)]
    out = []
    for n, i in enumerate(cand[:1] + rest[:8]):
        row = rows[i - 1]
        k = i - 1
        while k > 0 and rows[k - 1].get("k") != "reset":
            k -= 1
        walk = [{"reset": True}]
        for m in range(k, i):
            x = rows[m]
            st = {"i": m + 1, "h": x["h"], "act": x["act"], "form": x.get("form", ""), "doc": doc_of(x), "out": ""}
            if m == i - 1:
                # (an unanswered probe, 2, is asked again against the spec's answer for the empty schedule)
                st["eff"] = {h: [[p[0], 0 if p[2] == 2 else p[2]] for p in x[h]["probes"]] for h in ("g", "c")}
            walk.append(st)
        obs, _ = go_holder(ctx, walk, tag="t%d" % n)
        o = next((x for x in obs if x.get("kind") == "obs" and x.get("i") == i), None)
        got = {h: doc_of(row[h]) for h in ("g", "c")}
        npan = len([x for x in (o or {}).get("eff") or [] if "panics" in x])
        same = (o is not None and o["ok"] == row["ok"] and o["get"] == got
                and (npan > 0) == (row.get("panics", 0) > 0)
                and not [x for x in o.get("eff") or [] if "panics" not in x])
        prev = rows[i - 2] if i >= 2 and rows[i - 2].get("k") == "op" else None
        src = {h: doc_of(prev[h]) for h in ("g", "c")} if prev else BOOT2
        oth = "c" if row["h"] == "g" else "g"
        rec = {"what": "holder-trace", "trace_line": i, "h": row["h"], "act": row["act"], "form": row.get("form", ""),
               "src": src, "doc": doc_of(row), "got_ok": bool(row["ok"]), "got_dst": got,
               "probes": {h: row[h]["probes"] for h in ("g", "c")}, "panics": row.get("panics", 0),
               "reads_back_as_spec": got[row["h"]] == BOOT and got[oth] == src[oth],
               "want_out": "see TraceScheduleHolder", "want_dst": None, "hist": walk[1:-1]}
        out.append((rec, same))
    return out


def scan_zones(ctx):
    p = ctx.path("c18_scan.ndjson")
    rc, out = ctx.go_test(PKG, FILES, "^TestZZVerifC18Scan$", env={"VERIF_OUT": p})
    zones = vlib.read_ndjson(p)
    if rc != 0 or not zones:
        raise vlib.Inconclusive("C18 tz scan did not complete:\n" + out[-3000:])
    return zones


def action_counts(out):
    import re
    return {m.group(1): int(m.group(2)) for m in
            re.finditer(r"^<(\w+) line \d+, col \d+ to line \d+, col \d+ of module \w+>: (\d+):\d+", out, re.M)}


def trace_validate(ctx):
    tout = ctx.path("c18_trace.ndjson")
    rc, out = ctx.go_test(PKG, FILES, "^TestZZVerifC18Trace$", env={"VERIF_OUT": tout})
    rows = vlib.read_ndjson(tout)
    if rc != 0 or len(rows) < 100:
        raise vlib.Inconclusive("C18 trace driver did not complete:\n" + out[-3000:])
    r = ctx.tlc("TraceSchedule", "TraceSchedule.cfg", workers=1, timeout=900,
                extra_files=[(tout, "trace.ndjson")])
    if not r["vectors"]:
        raise vlib.Inconclusive("trace spec produced no verdict")
    v = r["vectors"][-1]
    if v["n"] != len(rows):
        raise vlib.Inconclusive("trace spec consumed %s of %d lines" % (v["n"], len(rows)))
    bad = sorted(v["bad"])
    # Binding demonstration of direction B: one corrupted line must be rejected.
    head = [dict(x) for x in rows[:200]]
    j = next((i for i, x in enumerate(head) if x["k"] == "eval" and (i + 1) not in bad), None)
    if j is None:
        raise vlib.Inconclusive("no accepted eval line among the first 200 trace lines")
    head[j]["got"] = 1 - head[j]["got"]
    cpath = ctx.path("c18_trace_corrupt.ndjson")
    vlib.write_ndjson(cpath, head)
    rc_ = ctx.tlc("TraceSchedule", "TraceSchedule.cfg", workers=1, timeout=300, extra_files=[(cpath, "trace.ndjson")])
    cv = rc_["vectors"][-1] if rc_["vectors"] else {"bad": []}
    if (j + 1) not in cv["bad"]:
        raise vlib.Inconclusive("TraceSchedule accepted a corrupted line (%d)" % (j + 1))
    ctx.cov["binding_demo_trace"] = {"corrupted_line": j + 1, "field": "got", "rejected": True}
    return rows, bad, sorted(v["mism"])


def trace_case(row):
    """A zone table for a trace line, so that classify() can treat it like a
    vector: the driver logs in `offs` the other offsets of transitions that
    touch the instant's local day (empty on ordinary days)."""
    offs = [o for o in (row.get("offs") or []) if o != row["off"]]
    if not offs:
        return {"z": {"base": row["off"], "trans": []}}
    tr = [{"at": row["s"] - len(offs) + i, "off": o} for i, o in enumerate(offs[1:])]
    tr.append({"at": row["s"] - 1, "off": row["off"]})
    return {"z": {"base": offs[0], "trans": tr}}


def report(ctx, key, rec, desc):
    """ctx.disagreement with a cap per kind of disagreement, so that the replay
    files that vlib keeps (the first 200) show every kind; all are counted."""
    kind = str(rec.get("what"))
    n = ctx.cov.setdefault("disagreements_by_kind", {})
    n[kind] = n.get(kind, 0) + 1
    if n[kind] <= 30:
        ctx.disagreement(key, rec, desc)


# ------------------------------------------------------------------------ run
def run(ctx):
    # ---- 1. the specification itself
    mc = ctx.tlc("Schedule", "Schedule.mc.cfg", workers=6, timeout=600, coverage=True)
    acts = action_counts(mc["out"])
    for a in ("PickCase", "Eval", "PickSer"):
        if acts.get(a, 0) == 0:
            raise vlib.Inconclusive("vacuous: action %s never taken in Schedule.mc (%s)" % (a, acts))
    counts = [v for v in mc["vectors"] if v.get("k") == "count"]
    sers = [v for v in mc["vectors"] if v.get("k") == "ser"]
    mc_evals = sum(v["rows"] for v in counts)
    seen_shapes = {v["shape"] for v in counts}
    if seen_shapes != set(SHAPES):
        raise vlib.Inconclusive("vacuous: shapes evaluated in the model: %s" % sorted(seen_shapes))
    # 23- and 25-hour days must really occur in the model (fullD row counts).
    fulld = sorted({v["true"] for v in counts if v["shape"] == "fullD"})
    if not (any(x < 2 * 288 for x in fulld) and any(x > 2 * 288 for x in fulld)):
        raise vlib.Inconclusive("vacuous: no short/long local day in the model: %s" % fulld)
    vs = {tuple(sorted(v["verdicts"])) for v in sers}
    if vs != {("accept",), ("reject",), ("accept", "reject")} or len(sers) < 1000:
        raise vlib.Inconclusive("vacuous: serialisation verdict classes %s" % sorted(vs))
    n_frac = sum(1 for v in sers if v["sn"] or v["en"])
    if n_frac < 1000 or any(v["verdicts"] != ["reject"] for v in sers if v["sn"] or v["en"]):
        raise vlib.Inconclusive("vacuous/unsound: %d serialisation vectors with a sub-millisecond part" % n_frac)

    # ---- 2. host zones -> cases -> TLC
    zones = scan_zones(ctx)
    cases = select_cases(ctx, zones)
    if not cases:
        raise vlib.Inconclusive("no cases selected from %d zones" % len(zones))
    cpath = ctx.path("cases.ndjson")
    vlib.write_ndjson(cpath, cases)
    cmap = {c["id"]: c for c in cases}
    gen = ctx.tlc("ScheduleHost", "ScheduleHost.gen.cfg", workers=6, timeout=1200,
                  extra_files=[(cpath, "cases.ndjson")])
    evecs = [v for v in gen["vectors"] if v.get("k") == "eval"]
    if len(evecs) < 5 * len(cases):
        raise vlib.Inconclusive("too few verdict tables: %d for %d cases" % (len(evecs), len(cases)))
    zc = {}
    for c in cases:
        zc[(c["zcls"], c["dcls"])] = zc.get((c["zcls"], c["dcls"]), 0) + 1
    missing_z = [z for z in ZCLASSES if not any(k[0] == z for k in zc)]
    missing_d = [d for d in DCLASSES if not any(k[1] == d for k in zc)]
    if missing_z or missing_d:
        raise vlib.Inconclusive("vacuous: host tz database has no zone/day of class %s %s" % (missing_z, missing_d))

    # ---- 3. direction A
    rows, summ, vin = go_replay(ctx, evecs + sers)
    n_rows = sum(len(v["pts"]) for v in evecs)
    if summ["evals"] + summ["conc"] + summ["unbuilt_rows"] != n_rows or summ["sers"] != len(sers):
        raise vlib.Inconclusive("replay consumed %s+%s+%s of %d rows, %s of %d serialisation vectors" % (
            summ["evals"], summ["conc"], summ["unbuilt_rows"], n_rows, summ["sers"], len(sers)))
    if summ["conc"] > 0:
        ex = [r for r in rows if r.get("kind") == "conc"][:3]
        raise vlib.Inconclusive("zone tables and tz database disagree on %d instants, e.g. %s" % (summ["conc"], ex))
    if any(r.get("kind") == "skip" for r in rows):
        raise vlib.Inconclusive("replay skipped tables: %s" % [r for r in rows if r.get("kind") == "skip"][:3])
    known_rows = 0
    for r in rows:
        if r.get("kind") != "bad":
            continue
        k = classify(r, cmap)
        if k:
            known_rows += 1
        report(ctx, k, r, describe(r))
    arows, asumm = go_apply(ctx, vin, every=max(1, n_rows // (4000 if ctx.quick else 40000)))
    if asumm["evals"] < 200 or asumm["skipped"] > asumm["evals"] // 20:
        raise vlib.Inconclusive("filtering path evaluated only %d instants (%d skipped)" % (asumm["evals"], asumm["skipped"]))
    if not 0 < asumm["blocked"] < asumm["evals"]:
        raise vlib.Inconclusive("vacuous: filtering path saw %d blocked of %d" % (asumm["blocked"], asumm["evals"]))
    known_apply = 0
    for r in arows:
        if r.get("kind") != "bad":
            continue
        k = classify(r, cmap)
        if k:
            known_apply += 1
        report(ctx, k, r, describe(r))

    # ---- 3b. the schedules in effect under a history of requests (ScheduleHolder.tla)
    hgen = ctx.tlc("ScheduleHolder", "ScheduleHolder.gen.cfg", workers=4, timeout=600)
    eff = {dkey(v["doc"]): v["eff"] for v in hgen["vectors"] if v.get("k") == "state"}
    edges, seen = [], set()
    for v in hgen["vectors"]:
        if v.get("k") != "edge":
            continue
        key = (dkey(v["src"]), v["h"], v["act"], v.get("form", ""), dkey(v["doc"]))
        if key not in seen:          # TLC emits an edge once per value of the history variables
            seen.add(key)
            edges.append(v)
    n_rej = sum(1 for e in edges if e["out"] == "rejected")
    acts = {(e["h"], e["act"]) for e in edges}
    srcs = {dkey(e["src"]) for e in edges}
    dsts = {dkey(e["dst"]) for e in edges}
    per_src = {}
    for e in edges:
        per_src[dkey(e["src"])] = per_src.get(dkey(e["src"]), 0) + 1
    if not dsts <= srcs or min(per_src.values()) < 60:
        raise vlib.Inconclusive("holder spec: a reachable state has no (or too few) outgoing edges printed")
    if len(edges) < 5000 or n_rej < 3000 or len(acts) != 10 or len(eff) < 11:
        raise vlib.Inconclusive("vacuous: holder spec emitted %d edges, %d rejected, requests %s, %d states" % (
            len(edges), n_rej, sorted(acts), len(eff)))
    walk = holder_walk(ctx, edges, eff)
    hrows, hsumm = go_holder(ctx, walk)
    if hsumm["steps"] + hsumm["truncated"] != len([x for x in walk if not x.get("reset")]):
        raise vlib.Inconclusive("holder walk: %s+%s of %d steps" % (hsumm["steps"], hsumm["truncated"], len(walk)))
    hbad = [r for r in hrows if r.get("kind") == "bad"]
    kinds = {}
    for r in hbad:
        kinds.setdefault(r["what"], []).append(r)
    confirmed = 0
    for what, rs in sorted(kinds.items()):
        ctx.cov.setdefault("disagreements_by_kind", {})[what] = len(rs)
        for r in holder_confirm(ctx, walk, rs[:1] if what == "holder-no-schedule-panics" else rs[:4]):
            confirmed += 1
            ctx.disagreement(holder_key(r), r, holder_describe(r))
    known_holder = len(kinds.get("holder-no-schedule-panics", [])) if (C18, KEY2) in open_keys() else 0
    # the same requests to a persistent client of the configuration file (package home)
    forms = sorted({e["form"] for e in edges if e["act"] == "yamlnone"})
    crows = go_client(ctx, forms)
    for r in crows:
        if r.get("kind") != "client":
            continue
        want = [] if r["form"] == "section-blank" else ["youtube"]
        if r.get("err") or not r["loaded"] or r["panicked"] or r["names"] != want:
            if not (r["again_panicked"] == r["panicked"] and r["again_names"] == r["names"]):
                ctx.notes.append("client form %s not reproduced" % r["form"])
                continue
            rec = dict(r, what="client-no-schedule", want_names=want)
            known_holder += 1 if r["panicked"] and r["loaded"] else 0
            report(ctx, KEY2 if (r["loaded"] and r["panicked"] and "nil pointer" in r["panicked"]) else None, rec,
                   "persistent client with blocked_services spelled %r: loaded=%s, DNS path %s, services %s (spec: the "
                   "empty schedule, services %s blocked at every instant)" % (
                       r["form"], r["loaded"], ("panics: " + r["panicked"]) if r["panicked"] else "answers",
                       r["names"], want))
    htrows, htbad = holder_trace(ctx)
    hunrepro = 0
    for rec, same in holder_trace_repro(ctx, htrows, htbad):
        if not same:
            hunrepro += 1
            ctx.notes.append("holder trace line %d not reproduced in a new process" % rec["trace_line"])
            continue
        report(ctx, holder_key(rec), rec, holder_describe(rec))
    if hunrepro > 2 or (hbad and not confirmed):
        raise vlib.Inconclusive("holder disagreements did not reproduce in a new process (%d walk steps, %d trace lines)" % (
            len(hbad), hunrepro))

    # ---- 4. direction B
    trows, tbad, tmism = trace_validate(ctx)
    if len(tmism) > 0:
        raise vlib.Inconclusive("trace abstraction mismatch on %d lines, e.g. %s" % (len(tmism), trows[tmism[0] - 1]))
    # Every rejected line is re-executed in isolation (one batch through the
    # replay entry point) before it counts.
    tknown, tunrepro = 0, 0
    recs, vecs = {}, []
    for i in tbad[:5000]:
        row, hist, j = trows[i - 1], [], i - 2
        while row["k"] == "eval" and j >= 0 and trows[j]["k"] == "eval" and trows[j]["obj"] == row["obj"]:
            hist.insert(0, [trows[j]["s"], trows[j]["n"], trows[j]["pres"]])
            j -= 1
        rec, vec = trace_record(row, i, hist)
        recs[rec["c"]] = (rec, trows[i - 1])
        vecs.append(vec)
    if vecs:
        rr, _, _ = go_replay(ctx, vecs, tag="t")
        again = {}
        for x in rr:
            if x.get("kind") in ("bad", "week"):
                again[x.get("c")] = x
        for cid, (rec, row) in sorted(recs.items()):
            x = again.get(cid)
            if row["k"] == "ser":
                ok = x is not None and x.get("kind") == "week" and x["ser"] == row["ser"]
            else:
                ok = x is not None and x.get("kind") == "bad"
            if not ok:
                tunrepro += 1
                ctx.notes.append("trace line %s not reproduced in isolation" % cid)
                continue
            k = classify(rec, {rec["c"]: trace_case(row)}) if row["k"] == "eval" else None
            if k:
                tknown += 1
            report(ctx, k, rec, describe(rec))
    if tunrepro > 5:
        raise vlib.Inconclusive("%d rejected trace lines did not reproduce" % tunrepro)

    nontriv = sum(1 for v in evecs for p in v["pts"] if 0 < p[4] and v["w"][p[3]] != [0, 0] and v["w"][p[3]] != [0, DAY])
    samples = [
        {"table": {k: evecs[0][k] for k in ("c", "zone", "shape", "w")}, "rows": evecs[0]["pts"][:3]},
        {"table": {k: evecs[-1][k] for k in ("c", "zone", "shape", "w")}, "rows": evecs[-1]["pts"][:3]},
        sers[0], sers[len(sers) // 2],
        {"trace_line": trows[0]},
    ]
    cov = {
        "traces_validated_against_impl": summ["lines"] + summ["sers"] + asumm["evals"] + len(trows) + 1 + len(htrows),
        "evaluations": summ["evals"] + summ["sers"] + asumm["evals"] + len(trows) + hsumm["steps"] + len(htrows),
        "holder_edges": len(edges), "holder_edges_rejected": n_rej, "holder_walk_steps": hsumm["steps"],
        "holder_walk_resyncs": hsumm["resyncs"], "truncated_by_disagreements": hsumm["truncated"],
        "disagreements_by_kind": ctx.cov.get("disagreements_by_kind", {}), "holder_trace_lines": len(htrows),
        "holder_trace_lines_rejected": len(htbad),
        "distinct_nontrivial": nontriv,
        "rule": "one evaluation = one (zone, schedule, instant) row of a TLC verdict table replayed into the real "
                "Weekly.Contains (or through DNSFilter.ApplyAdditionalFiltering at that virtual time), one "
                "serialisation vector, or one trace line judged by TraceSchedule.tla; non-trivial = the instant's "
                "weekday has a proper sub-day range (neither empty nor full) and the instant is not at 00:00:00",
        "spec_evaluations_exhaustive_model": mc_evals,
        "model_fullD_row_counts": fulld,
        "host_zones": len(zones), "cases": len(cases),
        "cases_by_class": {"%s/%s" % k: n for k, n in sorted(zc.items())},
        "tables": len(evecs), "table_rows": n_rows, "rows_expected_true": summ["true"],
        "rows_of_tables_refused_by_decoders": summ["unbuilt_rows"],
        "serialisation_vectors": len(sers), "serialisation_vectors_sub_ms": n_frac,
        "representations_per_row": 5, "long_lived_objects_per_table": 2, "contains_calls": 10 * summ["evals"],
        "trace_ser_lines_with_sub_ms": sum(1 for r in trows if r["k"] == "ser" and any(x[0] or x[1] for x in r["wn"])),
        "filtering_path_evaluations": asumm["evals"], "filtering_path_blocked": asumm["blocked"],
        "trace_lines": len(trows), "trace_lines_rejected": len(tbad),
        "rows_matching_known_finding": known_rows + known_apply + tknown + known_holder,
        "holder_steps_without_schedule": hsumm.get("bad_no_schedule", 0),
        "truncated_by_known_finding": 0,
        "flaky": sum(1 for r in rows + arows if r.get("kind") == "flaky"),
        "exhaustive": not ctx.quick,
        "binding_demo": {"trace": ctx.cov.get("binding_demo_trace"),
                         "holder_trace": ctx.cov.get("binding_demo_holder_trace"),
                         "mutations": "see notes/C18.md (10 code mutations, all caught)"},
        "samples": samples, "notes": ctx.notes,
    }
    return ctx.finish("model_checking", cov, assumptions=[
        "JSON durations are binary floats of milliseconds: fractions that are not multiples of 1/64 ms are exercised "
        "through the YAML form only",
        "TLC; the host tz database as read by Go's time package (offset tables extracted with Time.ZoneBounds and "
        "cross-checked per instant against Time.In(loc).Zone/Clock/Weekday)",
        "instants between 2000-01-05 and 2037-12-20 (synctest's clock starts in 2000, TLC integers end in 2038)",
        "exhaustive = every zone name present on the host with one seeded day per day class; the instants of a "
        "case are classes (half-hour grid, +-1 ns around every wall-clock range edge, local midnight and "
        "transition), not every nanosecond",
    ])


def describe(r):
    if r.get("what", "").startswith("ser:") or r.get("what") == "build":
        return "%s: %s" % (r.get("what"), str(r.get("detail") or r.get("err"))[:200])
    return "%s %s local %s (instant given as %s%s) range %s: spec %s, code %s" % (
        r.get("what"), r.get("zone"), r.get("local"), r.get("given_as") or r.get("pres"),
        (", after %d earlier call(s) on the same Weekly" % len(r["hist"])) if r.get("hist") else "",
        r.get("range"), r.get("want"), r.get("got"))


def trace_record(row, i, hist=None):
    """Replay record + isolated-re-run vector for a trace line TLC rejected."""
    cid = "trace:%d" % i
    if row["k"] == "eval":
        want = 0 if row["got"] == 1 else 1
        pt = [row["s"], row["n"], row["off"], row["wd"], row["tod"], want, (row["s"] + row["off"]) // DAY]
        rec = {"what": "contains", "c": cid, "zone": row["zone"], "shape": "trace", "w": row["w"],
               "pt": pt, "range": row["w"][row["wd"]], "want": bool(want), "got": bool(row["got"]),
               "local": "wd %d tod %d off %d" % (row["wd"], row["tod"], row["off"]), "trace_line": i}
        rec["pres"] = row["pres"]
        rec["hist"] = hist or []      # earlier calls on the same Weekly object: [s, n, pres]
        vec = {"k": "eval", "c": cid, "zone": row["zone"], "shape": "trace", "w": row["w"], "pts": [pt],
               "pres": row["pres"], "hist": rec["hist"]}
        return rec, vec
    if row["k"] == "build":
        rec = {"what": "build", "c": cid, "zone": row["zone"], "shape": "trace", "w": row["w"],
               "detail": "%s %s" % (row.get("via"), row.get("detail")), "trace_line": i}
        rec["mode"] = row["mode"]      # decoder and receiver (fresh / populated) that were used
        vec = {"k": "eval", "c": cid, "zone": row["zone"], "shape": "trace", "w": row["w"], "pts": [],
               "mode": row["mode"]}
        return rec, vec
    rec = {"what": "ser:trace", "c": cid, "zone": row["zone"], "wms": row["w"], "wns": row["wn"], "ser": row["ser"],
           "detail": "json accepted=%s yaml accepted=%s round trips ok=%s %s %s (ranges in ns: %s)" % (
               row["ser"][0], row["ser"][1], row["ser"][2], row.get("via"), row.get("detail"),
               [[a[0] * 10 ** 6 + b[0], a[1] * 10 ** 6 + b[1]] for a, b in zip(row["w"], row["wn"])]),
           "trace_line": i}
    vec = {"k": "week", "c": cid, "zone": row["zone"], "wms": row["w"], "wns": row["wn"]}
    return rec, vec


def replay(ctx, path):
    rec = json.load(open(path))["record"]
    if rec.get("what") == "client-no-schedule":
        rows = go_client(ctx, [rec["form"]])
        r = next(x for x in rows if x.get("kind") == "client")
        print(json.dumps({"client_blocked_services_spelling": rec["form"], "expected": {"services_blocked": rec["want_names"]},
                          "observed": {"loaded": r["loaded"], "panic": r["panicked"], "services_blocked": r["names"]}}, indent=1))
        return 1 if (r["panicked"] or r["names"] != rec["want_names"] or not r["loaded"]) else 0
    if str(rec.get("what", "")).startswith("holder"):
        walk = [{"reset": True}] + list(rec.get("hist") or [])
        last = {"i": 10 ** 9, "h": rec["h"], "act": rec["act"], "form": rec.get("form", ""), "doc": rec["doc"]}
        if rec.get("want_dst") is not None:
            last.update({"out": rec["want_out"], "src": rec["src"], "dst": rec["want_dst"], "eff": rec.get("probes") or {}})
        else:
            last.update({"out": "", "eff": {h: [[p[0], 0 if p[2] == 2 else p[2]] for p in rec["probes"][h]] for h in ("g", "c")}})
        walk.append(last)
        rows, _ = go_holder(ctx, walk, tag="r")
        bad = [r for r in rows if r.get("kind") == "bad"]
        obs = next((r for r in rows if r.get("kind") == "obs" and r.get("i") == 10 ** 9), {})
        head = {"earlier_requests_in_the_same_process": len(rec.get("hist") or []), "holders_before": rec["src"],
                "request": {"holder": rec["h"], "act": rec["act"], "doc": rec["doc"]}}
        if rec.get("want_dst") is None:
            pan = [x for x in obs.get("eff") or [] if "panics" in x]
            same = (obs.get("ok") == int(rec["got_ok"]) and obs.get("get") == rec["got_dst"]
                    and bool(pan) == (rec.get("panics", 0) > 0) and len(pan) == len(obs.get("eff") or []))
            print(json.dumps(dict(head, recorded={"ok": rec["got_ok"], "holders_after": rec["got_dst"]},
                                  observed={"ok": bool(obs.get("ok")), "holders_after": obs.get("get"),
                                            "probes_not_answered": obs.get("eff")},
                                  same_as_recorded=same), indent=1))
            return 1 if same else 0
        print(json.dumps(dict(head, expected={"reply": rec["want_out"], "holders_after": rec["want_dst"]},
                              observed={"ok": bool(obs.get("ok")), "holders_after": obs.get("get"),
                                        "probe_disagreements": [b.get("eff") for b in bad]}), indent=1))
        return 1 if bad else 0
    if "pt" in rec:
        vec = {"k": "eval", "c": rec.get("c", "replay"), "zone": rec["zone"], "shape": rec.get("shape", "replay"),
               "w": rec["w"], "pts": [rec["pt"]]}
        if rec.get("pres") is not None and not rec.get("what", "").startswith("apply"):
            vec["pres"] = rec["pres"]      # the representation of the instant that was recorded
            vec["hist"] = rec.get("hist") or []   # and what the same Weekly object was asked before
        rows, summ, vin = go_replay(ctx, [vec], tag="r")
        bad = [r for r in rows if r.get("kind") == "bad"]
        obs = [b.get("got") for b in bad] or "as expected"
        if rec.get("what", "").startswith("apply"):
            arows, _ = go_apply(ctx, vin, tag="r", every=1)
            abad = [r for r in arows if r.get("kind") == "bad"]
            bad += abad
            obs = {"contains": obs, "filtering": [b.get("got") for b in abad] or "as expected"}
        print(json.dumps({"input": {"zone": rec["zone"], "range": rec.get("range"), "instant": rec.get("utc"),
                                    "local": rec.get("local"), "given_as": rec.get("given_as"),
                                    "earlier_calls_on_same_object": rec.get("hist")},
                          "expected_contains": bool(rec["pt"][5]), "observed": obs}, indent=1))
        return 1 if bad else 0
    if "verdicts" in rec:
        vec = {"k": "ser", "d": rec["d"], "s": rec["s"], "sn": rec.get("sn", 0), "e": rec["e"], "en": rec.get("en", 0),
               "fill": rec["fill"], "verdicts": rec["verdicts"]}
        rows, summ, _ = go_replay(ctx, [vec], tag="r")
        bad = [r for r in rows if r.get("kind") == "bad"]
        print(json.dumps({"expected": rec["verdicts"], "observed": [b.get("what") for b in bad] or "admissible"}, indent=1))
        return 1 if bad else 0
    if "wms" in rec:
        rows, _, _ = go_replay(ctx, [{"k": "week", "c": "replay", "zone": rec["zone"], "wms": rec["wms"],
                                      "wns": rec.get("wns") or [[0, 0]] * 7}], tag="r")
        obs = [r["ser"] for r in rows if r.get("kind") == "week"]
        print(json.dumps({"ranges_ms": rec["wms"], "ranges_sub_ms_ns": rec.get("wns"), "recorded [json accepted, yaml accepted, round trips ok]": rec["ser"],
                          "observed": obs}, indent=1))
        return 1 if obs and obs[0] == rec["ser"] else 0
    if rec.get("what") == "build":
        vec = {"k": "eval", "c": "replay", "zone": rec["zone"], "shape": "replay", "w": rec["w"], "pts": []}
        if rec.get("mode") is not None:
            vec["mode"] = rec["mode"]
        rows, _, _ = go_replay(ctx, [vec], tag="r")
        bad = [r for r in rows if r.get("kind") == "bad"]
        print(json.dumps({"schedule_seconds": rec["w"], "expected": "accepted unchanged",
                          "observed": [b.get("err") for b in bad] or "accepted unchanged"}, indent=1))
        return 1 if bad else 0
    print(json.dumps({"record": rec, "note": "unknown record shape"}, indent=1))
    return 2
