--------------------------- MODULE TraceDnsFront ---------------------------
(***************************************************************************)
(* Direction B for G01: each line of the trace is one request answered by  *)
(* a real, live-reconfigured server under a seeded random configuration    *)
(* from a larger universe than the exhaustive one (other local domains,    *)
(* lease tables, ports, private-network sets, IPv6 clients and reverse     *)
(* names).  The harness logs the configuration and the request in the      *)
(* vocabulary of DnsFrontCore (its own classifiers decide "the client is   *)
(* inside the private networks" and "this is the reverse name of address   *)
(* a"); the verdict is DnsFrontCore's own text.                            *)
(***************************************************************************)
EXTENDS Sequences, Naturals, FiniteSets, TLC, Json, DnsFrontCore

Trace == ndJsonDeserialize("trace.ndjson")

SeqToSet(s) == {s[i] : i \in DOMAIN s}

CfgOf(t) == [aaaaOff |-> t.cfg.aaaaOff, refuseAny |-> t.cfg.refuseAny, ddr |-> t.cfg.ddr, tls |-> t.cfg.tls,
             dhcp |-> t.cfg.dhcp, leases |-> SeqToSet(t.cfg.leases), suffix |-> t.cfg.suffix,
             privPTR |-> t.cfg.privPTR, blocked |-> SeqToSet(t.cfg.blocked), dns64 |-> (t.cfg.dns64 # "off")]
ReqOf(t) == [name |-> t.req.name, canon |-> t.req.canon, qt |-> t.req.qt, cpriv |-> t.req.cpriv, rev |-> t.req.rev,
             up |-> [nx |-> t.req.up.nx, a6 |-> SeqToSet(t.req.up.a6), a4 |-> SeqToSet(t.req.up.a4)]]
ObsOf(t) == [c |-> t.out.c, fwd |-> t.out.fwd, v |-> SeqToSet(t.out.v), log |-> t.out.log]

\* The clauses of the verdict that admit the observed outcome of line i.
Matches(i) == {o.why : o \in {x \in Verdict(CfgOf(Trace[i]), ReqOf(Trace[i])) : Obs(x) = ObsOf(Trace[i])}}

VARIABLES l, bad, whys

Init == l = 1 /\ bad = {} /\ whys = {}
Next == /\ l <= Len(Trace)
        /\ LET m == Matches(l)
           IN /\ bad' = IF m # {} THEN bad ELSE bad \cup {l}
              /\ whys' = whys \cup m
        /\ l' = l + 1
        /\ (l' = Len(Trace) + 1 => PrintT(<<"@@V", ToJson([n |-> Len(Trace), bad |-> bad', whys |-> whys'])>>))
Spec == Init /\ [][Next]_<<l, bad, whys>>
=============================================================================
