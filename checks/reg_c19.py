PROPERTY = "C19"
ENTRY = {
    "text": "HashPrefix.tla is the state machine of one hash-prefix checker (service database, prefix cache with relative entry ages, "
            "Check / LookupFails / ErrorReply / Tick / DbChange) written from the statement: Check is nondeterministic over every observable outcome the statement "
            "admits (set of 2-byte prefixes disclosed, verdict), with the candidates = name and parents within the last four labels cut at "
            "the ICANN public suffix (the ICANN part underneath a private suffix may or may not be included). TLC explores the complete "
            "graph over <<db, cache>> (9 names of 1..8 labels over 3 colliding prefixes, up to 6 listable hashes incl. the hash of a public "
            "suffix and a foreign hash; 48 512 states / 2.1 M transitions) and checks cache transparency against a ghost history, "
            "the verdict and privacy step properties, with coverage. Direction A: TLC prints the graph's edges; walks covering every "
            "(state, action) pair are performed on the real hashprefix.Checker (recording mock lookup service that also serves malformed TXT "
            "strings, synctest clock, real names found by seeded SHA-256 search so that the two-byte prefixes collide as in the spec); "
            "TraceHashPrefix.tla judges every observed (question, verdict) against all admissible outcomes. Direction B: random histories "
            "over a large universe of real names (ICANN suffixes of 1..4 labels, private and unlisted suffixes, forced prefix collisions, "
            "cache sizes down to a few bytes) at package level and through DNSFilter.CheckHost (mixed case), validated by the same trace spec.",
    "design_ref": "DESIGN.md section 4 C19",
    "note": "Trusted: TLC; conc()/abs() of the two zz_verif_c19_test.go files (own SHA-256, question parser, label search); "
            "golang.org/x/net/publicsuffix as the instrument for what an ICANN/private suffix is; the mock service is honest by construction. "
            "Package-level names are given in the callers' normal form (lower case, no trailing dot); mixed case goes through CheckHost; "
            "the trailing dot is trimmed in dnsforward and is not exercised here. Question type/class are not compared; a failing lookup service is a fault action of the spec (LookupFails: error to the caller, cache unchanged) driven by a seeded schedule of the mock. "
            "Open finding (fix proposed): a SERVFAIL/REFUSED/NOTIMP reply is cached as 'no hashes under the asked prefixes'. Finding (fixed in /repo 41c2562): with a CacheSize smaller than one answer's entries a positive result was cached as negative.",
    "technique": "TLA+ state machine checked exhaustively by TLC; edge-covering walks replayed into the real code and judged by TLC trace validation; "
                 "random real-code traces validated by TLC",
}
