"""G08 -- two admin state machines of package home: the first-run INSTALL wizard and the TLS settings.

Pipeline (notes/G08.md):

 1. TLC checks Install.tla and TLSSettings.tla (all histories over the small request
    universes; the requirement is a list of invariants that quantify over the outgoing
    transitions of every reachable state).
 2. TLC emits, for every reachable state and every label, the set of admissible outcomes
    (status code, reply verdicts / status fields, destination state).
 3. Direction A: the Go harness boots package home's globals the way run() does (arena I:
    a first run; arena T: a configured installation) and walks label-covering tours on
    the real handlers, comparing the projection of the real state and the reply with the
    emitted outcomes after every step.  A disagreement ends the behaviour (new
    deployment) and is run again in isolation before it counts.
 4. Direction B: seeded random longer histories over a larger universe are recorded from
    the real handlers and validated by TraceInstall.tla / TraceTLSSettings.tla.
"""
import concurrent.futures
import hashlib
import json
import os

import vlib

PKG = "internal/home"
FILES = ["zz_verif_common_test.go", "zz_verif_g08_test.go"]
ARENAS = {
    "install": {"module": "Install", "trace": "TraceInstall", "test": "TestZZVerifG08Install"},
    "tls": {"module": "TLSSettings", "trace": "TraceTLSSettings", "test": "TestZZVerifG08TLS"},
}


# --------------------------------------------------------------------- canonical forms
def norm(x):
    """TLC prints sets as arrays in its own order: sort every array of scalars."""
    if isinstance(x, dict):
        return {k: norm(v) for k, v in x.items()}
    if isinstance(x, list):
        l = [norm(v) for v in x]
        if all(not isinstance(v, (dict, list)) for v in l):
            l = sorted(l, key=lambda v: json.dumps(v))
        return l
    return x


def canon(x):
    return json.dumps(norm(x), sort_keys=True, separators=(",", ":"))


def state_key(arena, obs, fault=False):
    k = canon(obs)
    if arena == "install":
        k += "|" + ("true" if fault else "false")
    return k


def prepare(arena, raw):
    """TLC vectors -> walker vectors with state ids."""
    ids = {}

    def sid(key):
        if key not in ids:
            ids[key] = len(ids)
        return ids[key]

    init = [v for v in raw if v["m"] == "init"]
    if len(init) < 1:
        raise vlib.Inconclusive("%s: TLC emitted no initial state" % arena)
    initkey = state_key(arena, init[0]["src"], False)
    sid(initkey)
    seen = set()
    vecs = []
    for v in raw:
        if v["m"] == "init":
            continue
        skey = state_key(arena, v["src"], v.get("fault", False))
        args = v["args"] if "none" not in v["args"] else {}
        lab = (skey, v["act"], v.get("shape", ""), canon(args))
        if lab in seen:
            continue
        seen.add(lab)
        outs = []
        for o in norm(v["outs"]):
            dkey = state_key(arena, o["dst"], o.get("dfault", False))
            out = {"code": o["code"], "dkey": dkey, "did": sid(dkey)}
            if v["act"] == "check_config":
                out["web"], out["dns"] = o["web"], o["dns"]
            outs.append(out)
        outs.sort(key=lambda o: (o["code"], o["dkey"], o.get("web", ""), o.get("dns", "")))
        w = {"id": len(vecs), "sid": sid(skey), "skey": skey, "act": v["act"], "shape": v.get("shape", ""),
             "args": args, "outs": outs, "want": True, "src": norm(v["src"])}
        f = v.get("fields")
        if f and "none" not in f:
            w["fields"] = norm(f)
            w["saved"] = bool(v.get("saved"))
        vecs.append(w)
    vecs.sort(key=lambda w: (w["sid"], w["act"], w["shape"], canon(w["args"])))
    for i, w in enumerate(vecs):
        w["id"] = i
    return vecs, ids[initkey], initkey, len(ids)


def go_vec(w):
    return {k: w[k] for k in ("id", "sid", "skey", "act", "shape", "args", "outs", "want", "fields", "saved") if k in w}


def nontrivial(w):
    """A vector is non-trivial when the label is not simply refused because the wizard is closed
    (403) and either some admissible outcome changes the state or the reply carries verdicts."""
    codes = {o["code"] for o in w["outs"]}
    if codes == {403}:
        return False
    return any(o["did"] != w["sid"] for o in w["outs"]) or "fields" in w or w["act"] in ("check_config", "configure", "validate")


def select(ctx, arena, vecs):
    """Thorough: every vector.  Quick: every vector of arena I; of arena T every read-only label and
    every configure that is refused outright, and a seeded 20 % of the configures that may put
    settings in force (each costs the real DNS server's 100 ms reconfiguration pause) and of
    the labels of the states in which plain DNS is off."""
    if not ctx.quick or arena != "tls":
        return
    for w in vecs:
        costly = (w["act"] == "configure" and (any(o["did"] != w["sid"] for o in w["outs"]) or len(w["outs"]) > 1)) \
            or (w["act"] in ("configure", "validate") and not w["src"]["cur"]["plain"])
        if costly:
            h = int(hashlib.sha1(("%d|%s|%s|%s" % (ctx.seed, w["skey"], w["act"], w["shape"])).encode()).hexdigest()[:8], 16) / float(1 << 32)
            w["want"] = h < 0.20


# --------------------------------------------------------------------------- vacuity
def guards(arena, vecs):
    g = {}
    if arena == "install":
        cfg = [w for w in vecs if w["act"] == "configure"]
        g["configure installs"] = sum(1 for w in cfg if any(o["code"] == 200 and o["did"] != w["sid"] for o in w["outs"]))
        g["configure refused 400"] = sum(1 for w in cfg if {o["code"] for o in w["outs"]} == {400})
        g["configure refused 422"] = sum(1 for w in cfg if {o["code"] for o in w["outs"]} == {422})
        g["configure fails 500 under the disk fault"] = sum(1 for w in cfg if {o["code"] for o in w["outs"]} == {500})
        g["configure closed 403"] = sum(1 for w in cfg if {o["code"] for o in w["outs"]} == {403})
        g["empty user name: refused or taken"] = sum(1 for w in cfg if len({o["did"] for o in w["outs"]}) > 1)
        g["check_config reports a conflict"] = sum(1 for w in vecs if w["act"] == "check_config" and any(o.get("dns") == "err" for o in w["outs"]))
        g["restart of an installed system"] = sum(1 for w in vecs if w["act"] == "restart" and not w["src"]["firstRun"])
        g["restart of a first run"] = sum(1 for w in vecs if w["act"] == "restart" and w["src"]["firstRun"])
    else:
        cfg = [w for w in vecs if w["act"] == "configure"]
        g["configure must apply"] = sum(1 for w in cfg if len(w["outs"]) == 1 and w["outs"][0]["code"] == 200 and w["outs"][0]["did"] != w["sid"])
        g["configure may apply or refuse"] = sum(1 for w in cfg if len({o["did"] for o in w["outs"]}) > 1)
        g["configure refused 400"] = sum(1 for w in cfg if {o["code"] for o in w["outs"]} == {400})
        g["configure evaluated, not applied"] = sum(1 for w in cfg if len(w["outs"]) == 1 and w["outs"][0]["code"] == 200 and w["outs"][0]["did"] == w["sid"])
        g["enabling without a pair"] = sum(1 for w in cfg if {o["code"] for o in w["outs"]} == {200, 400, 422, 500})
        g["validate with status fields"] = sum(1 for w in vecs if w["act"] == "validate" and "fields" in w)
        g["status of enabled settings"] = sum(1 for w in vecs if w["act"] == "status" and w["src"]["cur"]["enabled"])
        g["restart while serving HTTPS"] = sum(1 for w in vecs if w["act"] == "restart" and w["src"]["serving"]["on"])
        g["disable keeps stored material"] = sum(1 for w in cfg if not w["args"].get("enabled", True) and any(
            o["did"] != w["sid"] and '"cert":"A"' in o["dkey"] and '"on":false' in o["dkey"] for o in w["outs"]))
    empty = [k for k, n in g.items() if n == 0]
    if empty:
        raise vlib.Inconclusive("vacuity (%s): no vector of kind %s" % (arena, empty))
    return g


# ------------------------------------------------------------------------ classification
def _resolved_key(args, cur):
    k = args.get("ksrc")
    if k == "saved":
        return cur.get("key", "none") if cur.get("ksrc") == "inline" else "none"
    if k == "none":
        return "none"
    return args.get("key", "none")


def classify(arena, act, args, src, code, obs, bad_fields=None):
    """Narrow keys of the known findings.  src / obs are projections (dicts)."""
    args = args or {}
    obs = obs or {}
    if arena == "install":
        if act != "configure" or not args.get("json"):
            return None
        if (code == 200 and args.get("web") == args.get("dns") and args.get("web") != "zero" and args.get("pw") == "good"
                and obs.get("firstRun") is False):
            return "install-configure-accepts-one-port-for-web-and-dns"
        if code == 500 and obs.get("firstRun") is True and (obs.get("accounts") or obs.get("dnsUp")):
            return "install-failed-configure-not-rolled-back"
        return None
    cur = (src or {}).get("cur") or {}
    if act not in ("validate", "configure") or not args.get("json"):
        return None
    if bad_fields is not None:
        if sorted(bad_fields) == ["valid_key"] and args.get("ksrc") == "path" and args.get("key") == "G":
            return "tls-valid-key-reported-for-unparsable-key-file"
        return None
    ocur, odisk = obs.get("cur") or {}, obs.get("disk") or {}
    if (act == "configure" and code == 200 and "plain" in ocur and "plain" in odisk and ocur["plain"] != odisk["plain"]
            and {k: v for k, v in ocur.items() if k != "plain"} == {k: v for k, v in odisk.items() if k != "plain"}
            and args.get("plain") in ("true", "false")):
        return "tls-serve-plain-dns-change-not-written"
    enabled = bool(args.get("enabled"))
    plain = cur.get("plain", True) if args.get("plain") == "null" else args.get("plain") == "true"
    serves = plain or (enabled and (args.get("dot") != "zero" or args.get("doq") != "zero"))
    if not serves and args.get("csrc") not in ("both", "badb64") and args.get("ksrc") not in ("both", "badb64"):
        # the specification refuses these with 400 before anything else is looked at
        if (act == "configure" and code in (200, 500)) or (act == "validate" and code == 200 and not enabled):
            return "tls-plain-dns-off-without-encrypted-dns-accepted"
    disk = (src or {}).get("disk") or {}
    if act in ("configure", "validate") and enabled and code in (200, 500) and any(
            args.get(k) == "pb" and disk.get(k) == "pb" for k in ("https", "dot", "doq")):
        return "tls-unavailable-port-stored-while-disabled-is-not-checked-when-enabled"
    if act == "configure" and enabled and code == 500:
        cert = "none" if args.get("csrc") == "none" else args.get("cert")
        key = _resolved_key(args, cur)
        ocur = obs.get("cur") or {}
        if (cert == "none" or key == "none") and ocur.get("enabled") is True:
            return "tls-enabled-without-key-pair-stored"
    return None


# ------------------------------------------------------------------------------- arenas
def run_arena(ctx, arena, tag, vin=None, trace=None, trace_n=0, scripts=None, wait_ms=400):
    a = ARENAS[arena]
    vout = ctx.path("g08_out_%s_%s.ndjson" % (arena, tag))
    env = {"VERIF_OUT": vout, "VERIF_G08_WAIT_MS": str(wait_ms), "VERIF_G08_BUDGET_S": "150" if ctx.quick else "900",
           "VERIF_G08_HANG_S": "20"}
    if vin:
        env["VERIF_IN"] = vin
    if trace:
        env["VERIF_G08_TRACE"] = trace
        env["VERIF_G08_TRACE_N"] = str(trace_n)
    if scripts is not None:
        sp = ctx.path("g08_scripts_%s_%s.json" % (arena, tag))
        json.dump(scripts, open(sp, "w"))
        env["VERIF_G08_SCRIPTS"] = sp
    for attempt in (1, 2):
        rc, out = ctx.go_test(PKG, FILES, "^%s$" % a["test"], env=env, timeout=1500, go_timeout="20m")
        rows = vlib.read_ndjson(vout)
        if rc == 0 or any(r.get("kind") == "fatal" for r in rows):
            return rows
        if any(r.get("kind") == "summary" and r["stats"].get("hung") for r in rows) or (
                scripts is not None and any(r.get("kind") == "script" and r.get("code") == -5 for r in rows)):
            # a request that was never answered: the harness reported it and stopped; what
            # the abandoned goroutine does to the process afterwards does not matter
            return rows
        # the arenas pick loopback ports: another process may take one first
        if attempt == 1 and ("address already in use" in out or "occupying" in out):
            ctx.log("arena %s failed to boot (port taken); retrying once" % arena)
            continue
        raise vlib.Inconclusive("G08 harness %s did not complete (rc=%s):\n%s" % (a["test"], rc, out[-3000:]))


def match(w, row):
    """Python twin of the walker's matching, for steps run again as scripts."""
    st = row["step"]
    for o in w["outs"]:
        if o["code"] != st.get("code") or o["dkey"] != row["key"]:
            continue
        if w["act"] == "check_config" and (o.get("web") != st.get("web") or o.get("dns") != st.get("dns")):
            continue
        return o
    return None


def fields_bad(w, row):
    st = row["step"]
    if st.get("code") != 200 or "fields" not in w or not st.get("fields"):
        return []
    bad = []
    for name, adm in w["fields"].items():
        if name not in st["fields"]:
            bad.append(name + " (absent)")
        elif st["fields"][name] not in adm:
            bad.append(name)
    if w["act"] == "status" and bool(st["fields"].get("saved")) != bool(w.get("saved")):
        bad.append("private_key_saved")
    return sorted(bad)


def script_of(vecs, path):
    return [{"act": vecs[i]["act"], "args": vecs[i]["args"], "want": sorted({o["dkey"] for o in vecs[i]["outs"]})} for i in path]


def validate_trace(ctx, arena, path):
    r = ctx.tlc(ARENAS[arena]["trace"], ARENAS[arena]["trace"] + ".cfg", workers=1, timeout=900,
                extra_files=[(path, "trace.ndjson")])
    if not r["vectors"]:
        raise vlib.Inconclusive("trace specification %s produced no verdict" % ARENAS[arena]["trace"])
    return r["vectors"][-1]


def behaviour_of(lines, i):
    """The steps of the behaviour that ends at 1-based line i (since the last reset)."""
    j = i - 1
    while j >= 0 and lines[j]["ev"] != "reset":
        j -= 1
    beh = lines[j + 1:i]
    # a factory reset inside the behaviour starts a new deployment as well
    for k in range(len(beh) - 2, -1, -1):
        if beh[k].get("act") == "wipe":
            return beh[k + 1:]
    return beh


# ------------------------------------------------------------------------ post-processing
def post(ctx, arena, prepared, rows, trace, trace_n, guard):
    """Judge what one arena produced.  Returns (coverage, [(key, record, what, n_same)])."""
    vecs, init_id, init_key, nstates = prepared
    reports = []
    summ = [r for r in rows if r.get("kind") == "summary"]
    if not summ:
        raise vlib.Inconclusive("arena %s wrote no summary" % arena)
    summ = summ[0]
    stats = summ["stats"]
    hung = bool(stats.get("hung"))
    if stats.get("steps", 0) == 0 and not hung:
        raise vlib.Inconclusive("arena %s executed no step" % arena)
    missed = summ.get("missed") or []
    if summ.get("vectors") == 0:
        missed = [w["id"] for w in vecs if w["want"]]      # the recording already ended the process
    bads = [r for r in rows if r.get("kind") in ("bad", "badfields")]

    # ---- direction A: group the disagreeing steps
    groups = {}
    for r in bads:
        v = r["vec"]
        w = vecs[v["id"]]
        fb = r.get("fields") if r["kind"] == "badfields" else None
        key = classify(arena, v["act"], v.get("args"), w["src"], r["step"].get("code"), r.get("obs"), fb)
        sig = key or "%s|%s|%s|%s|%s" % (r["kind"], v["act"], v.get("shape") or canon(v.get("args")), r["step"].get("code"), fb)
        groups.setdefault((key, sig), []).append(r)
    reps = []
    n_unc = 0
    for (key, sig), rs in sorted(groups.items(), key=lambda kv: (kv[0][0] is None, kv[0][1])):
        rs.sort(key=lambda r: len(r["path"]))
        if key is None:
            n_unc += 1
            if n_unc > 12:
                continue
        for r in rs[:2 if key else 1]:
            reps.append((key, sig, r))

    # ---- direction B: validate the recorded history, group the rejected lines
    lines = vlib.read_ndjson(trace)
    if len(lines) < trace_n // 2 and not hung:
        raise vlib.Inconclusive("arena %s: the trace driver produced %d lines" % (arena, len(lines)))
    verdict = validate_trace(ctx, arena, trace)
    if verdict["n"] != len(lines):
        raise vlib.Inconclusive("%s consumed %s of %d lines" % (ARENAS[arena]["trace"], verdict["n"], len(lines)))
    tbad = sorted(verdict["bad"], key=lambda b: b["i"])
    tgroups = {}
    for b in tbad:
        beh = behaviour_of(lines, b["i"])
        ln = beh[-1]
        src = beh[-2]["obs"] if len(beh) > 1 else lines[b["i"] - len(beh) - 1].get("obs")
        fb = b.get("fields") if b.get("kind") == "fields" else None
        key = classify(arena, ln["act"], ln.get("req"), src, ln.get("code"), ln.get("obs"), fb)
        sig = key or "trace|%s|%s|%s|%s" % (ln["act"], canon(ln.get("req")), ln.get("code"), fb)
        tgroups.setdefault((key, sig), []).append((b, beh))
    treps = []
    n_unc = 0
    for (key, sig), bs in sorted(tgroups.items(), key=lambda kv: (kv[0][0] is None, kv[0][1])):
        bs.sort(key=lambda x: len(x[1]))
        if key is None:
            n_unc += 1
            if n_unc > 8:
                continue
        treps.append((key, sig, bs[0]))

    # ---- every representative is run again in isolation (one process for both directions)
    reproduced, trace_reproduced, flaky = {}, 0, 0
    if reps or treps:
        ctx.log("arena %s: %d disagreeing steps in %d groups, %d rejected trace lines in %d groups; running %d + %d representatives again in isolation" % (
            arena, len(bads), len(groups), len(tbad), len(tgroups), len(reps), len(treps)))
        scripts = [script_of(vecs, r["path"]) for _, _, r in reps]
        scripts += [[{"act": ln["act"], "args": ln.get("req") or {}} for ln in beh] for _, _, (b, beh) in treps]
        again = run_arena(ctx, arena, "again", scripts=scripts, wait_ms=1500)
        by_script = {}
        for row in again:
            if row.get("kind") == "script":
                by_script.setdefault(row["script"], []).append(row)
        for si, (key, sig, r) in enumerate(reps):
            steps = [x for x in by_script.get(si, []) if x.get("ev") == "step"]
            path = r["path"]
            ok = len(steps) == len(path)
            if ok:
                for row, vid in zip(steps[:-1], path[:-1]):
                    if match(vecs[vid], row) is None:
                        ok = False       # the way there went differently this time
            if not ok:
                continue
            last, w = steps[-1], vecs[path[-1]]
            if r["kind"] == "bad":
                again_bad = match(w, last) is None
            else:
                again_bad = match(w, last) is not None and fields_bad(w, last) == sorted(r.get("fields") or [])
            if again_bad:
                reproduced.setdefault((key, sig), (r, last))
        for (key, sig), rs in groups.items():
            if (key, sig) not in reproduced:
                if any(k == key and sg == sig for k, sg, _ in reps):
                    flaky += len(rs)
                continue
            r, last = reproduced[(key, sig)]
            v = r["vec"]
            rec = {"arena": arena, "direction": "A", "kind": r["kind"], "act": v["act"], "shape": v.get("shape"), "args": v.get("args"),
                   "src": vecs[v["id"]]["src"], "admissible": v["outs"], "admissible_fields": v.get("fields"),
                   "observed": {"code": last["step"].get("code"), "body": last["step"].get("body"), "fields": last["step"].get("fields"),
                                "obs": last.get("obs")},
                   "bad_fields": r.get("fields"), "script": script_of(vecs, r["path"]), "same_kind": len(rs)}
            what = "%s %s %s: answered %s%s, state %s; the specification admits %s" % (
                arena, v["act"], v.get("shape") or canon(v.get("args")), last["step"].get("code"),
                (" with fields " + str(r.get("fields"))) if r["kind"] == "badfields" else "",
                canon(last.get("obs"))[:400], sorted({o["code"] for o in v["outs"]}))
            reports.append((key, rec, what, len(rs) if r["kind"] == "bad" else 0))
        if treps:
            t2 = ctx.path("g08_trace2_%s.ndjson" % arena)
            t2rows = []
            span = {}
            for k in range(len(treps)):
                srows = by_script.get(len(reps) + k, [])
                span[k] = (len(t2rows), len(srows))
                t2rows += srows
            vlib.write_ndjson(t2, t2rows)
            verdict2 = validate_trace(ctx, arena, t2)
            bad2 = {b["i"] for b in verdict2["bad"]}
            for k, (key, sig, (b, beh)) in enumerate(treps):
                start, n = span[k]
                if n != len(beh) + 1 or (start + n) not in bad2:
                    continue
                if t2rows[start + n - 1].get("code") != beh[-1].get("code"):
                    continue
                trace_reproduced += 1
                ln = beh[-1]
                rec = {"arena": arena, "direction": "B", "act": ln["act"], "args": ln.get("req"),
                       "observed": {"code": ln.get("code"), "fields": ln.get("fields"), "obs": ln.get("obs"), "body": ln.get("body")},
                       "admissible_codes": b.get("codes"), "bad_fields": b.get("fields"),
                       "script": [{"act": x["act"], "args": x.get("req") or {}} for x in beh], "seed": ctx.seed,
                       "same_kind": len(tgroups[(key, sig)])}
                what = "%s trace: %s %s answered %s, state %s; rejected by %s (admissible codes %s%s)" % (
                    arena, ln["act"], canon(ln.get("req")), ln.get("code"), canon(ln.get("obs"))[:300], ARENAS[arena]["trace"],
                    b.get("codes"), (", fields " + str(b.get("fields"))) if b.get("fields") else "")
                reports.append((key, rec, what, 0))

    tb = sum(1 for ln in lines if ln["ev"] == "reset")
    steps = [ln for ln in lines if ln["ev"] == "step"]
    samples = [{k: r[k] for k in ("arena", "act", "shape", "args", "code", "dst")} for r in rows if r.get("kind") == "sample"][:3]
    if steps:
        samples.append({"trace_line": {k: steps[len(steps) // 2].get(k) for k in ("act", "req", "code", "obs")}})
    cov = {
        "states": nstates, "vectors": len(vecs), "vectors_selected": sum(1 for w in vecs if w["want"]), "vectors_missed": len(missed),
        "walk": stats, "behaviours": stats.get("resets", 0), "steps": stats.get("steps", 0),
        "disagreeing_steps": len(bads), "disagreement_groups": len(groups), "reproduced_groups": len(reproduced), "flaky_steps": flaky,
        "trace_lines": len(lines), "trace_behaviours": tb, "trace_lines_rejected": len(tbad),
        "trace_lines_skipped_after_rejection": verdict.get("skipped", 0), "trace_groups": len(tgroups),
        "trace_groups_reproduced": trace_reproduced, "vacuity_guards": guard, "samples": samples,
        "replayed": [w for w in vecs if w["want"] and w["id"] not in set(missed)],
    }
    if len(missed) > len(vecs) // 3:
        cov["inconclusive"] = "arena %s could not execute %d of %d vectors%s" % (
            arena, len(missed), len(vecs), " (a request was never answered)" if stats.get("hung") else
            " (out of time)" if stats.get("out_of_time") else "")
    return cov, reports


# ---------------------------------------------------------------------------------- run
def run(ctx):
    quick = ctx.quick
    trace_n = {"install": 400 if quick else 6000, "tls": 200 if quick else 4000}

    # Half 1 (the invariants) and vector generation, one TLC run per module.
    prepared = {}
    guard = {}

    def tlc_job(arena):
        a = ARENAS[arena]
        return ctx.tlc(a["module"], a["module"] + ".gen.cfg", workers=3, timeout=600, coverage=True)

    with concurrent.futures.ThreadPoolExecutor(2) as ex:
        gens = dict(zip(ARENAS, ex.map(tlc_job, ARENAS)))
    for arena, a in ARENAS.items():
        gen = gens[arena]
        if gen["distinct"] < 10:
            raise vlib.Inconclusive("%s: implausibly few states (%d)" % (a["module"], gen["distinct"]))
        if not gen["vectors"]:
            raise vlib.Inconclusive("zero vectors from %s" % a["module"])
        vecs, init_id, init_key, nstates = prepare(arena, gen["vectors"])
        if nstates != gen["distinct"]:
            raise vlib.Inconclusive("%s: %d states in the vectors, %d found by TLC" % (a["module"], nstates, gen["distinct"]))
        guard[arena] = guards(arena, vecs)
        select(ctx, arena, vecs)
        prepared[arena] = (vecs, init_id, init_key, nstates)
        ctx.log("%s: %d states, %d (state, label) vectors, %d selected" % (a["module"], nstates, len(vecs), sum(1 for w in vecs if w["want"])))

    # Directions A and B on the real handlers and their judgement, both arenas at once.
    def arena_job(arena):
        vecs, init_id, init_key, _ = prepared[arena]
        vin = ctx.path("g08_in_%s.ndjson" % arena)
        vlib.write_ndjson(vin, [{"init": init_id, "initkey": init_key}] + [go_vec(w) for w in vecs])
        trace = ctx.path("g08_trace_%s.ndjson" % arena)
        rows = run_arena(ctx, arena, "main", vin=vin, trace=trace, trace_n=trace_n[arena])
        fatal = [r for r in rows if r.get("kind") == "fatal"]
        if fatal:
            # The freshly booted system does not project to the initial state of the
            # specification: booted once more, alone, before it counts.
            rows2 = run_arena(ctx, arena, "init2", vin=vin)
            fatal2 = [r for r in rows2 if r.get("kind") == "fatal"]
            if not fatal2 or canon(fatal2[0].get("obs")) != canon(fatal[0].get("obs")):
                raise vlib.Inconclusive("arena %s: the initial projection differed from the specification's initial state once, not twice" % arena)
            rec = {"arena": arena, "direction": "A", "kind": "init", "observed": {"obs": fatal[0].get("obs")}, "want": fatal[0].get("want"),
                   "script": [], "admissible": [{"code": 0, "dkey": fatal[0].get("want")}]}
            what = "%s: a freshly booted system projects to %s; the specification's initial state is %s" % (
                arena, canon(fatal[0].get("obs"))[:400], str(fatal[0].get("want"))[:400])
            empty = {"states": prepared[arena][3], "vectors": len(vecs), "vectors_selected": sum(1 for w in vecs if w["want"]), "vectors_missed": len(vecs),
                     "walk": {}, "behaviours": 1, "steps": 0, "trace_lines": 0, "trace_behaviours": 0, "replayed": [], "samples": []}
            return empty, [(None, rec, what, 0)]
        return post(ctx, arena, prepared[arena], rows, trace, trace_n[arena], guard[arena])

    with concurrent.futures.ThreadPoolExecutor(2) as ex:
        futs = {arena: ex.submit(arena_job, arena) for arena in ARENAS}
        results = {arena: f.result() for arena, f in futs.items()}

    truncated = 0
    replayed = []
    samples = []
    for arena in ARENAS:
        cov_a, reports = results[arena]
        for key, rec, what, n_same in reports:
            if ctx.disagreement(key, rec, what) == "known":
                truncated += n_same
        replayed += cov_a.pop("replayed")
        samples += cov_a.pop("samples")
    per = {arena: results[arena][0] for arena in ARENAS}
    for c in per.values():
        if c.get("inconclusive"):
            # reproduced violations, if any, are reported first by vlib
            raise vlib.Inconclusive(c["inconclusive"])
    exhaustive = all(c["vectors_missed"] == 0 and c["vectors_selected"] == c["vectors"] for c in per.values())
    cov = {
        "traces_validated_against_impl": sum(c["behaviours"] + c["trace_behaviours"] for c in per.values()),
        "evaluations": sum(c["steps"] + c["trace_lines"] for c in per.values()),
        "distinct_nontrivial": sum(1 for w in replayed if nontrivial(w)),
        "rule": "one vector per (reachable state, label) of Install.tla / TLSSettings.tla with the set of admissible outcomes, every selected one "
                "executed on the real handlers at least once from the real system's own current state; non-trivial = the label is "
                "not simply answered 403 because the wizard is closed, and it may change the state or its reply carries verdicts "
                "(check_config statuses, validation status fields); behaviours = tours between two fresh deployments; trace lines "
                "are seeded random calls over a larger universe validated by TraceInstall.tla / TraceTLSSettings.tla",
        "per_arena": per,
        # TLC's counters of the two exhaustive runs (the trace validations are not state spaces)
        "states": sum(g["distinct"] for g in gens.values()),
        "transitions": sum(g["generated"] for g in gens.values()),
        "truncated_by_known_finding": truncated,
        "exhaustive": exhaustive,
        "samples": samples[:10],
    }
    return ctx.finish("model_checking", cov, assumptions=[
        "TLC; the projection / concretisation functions of zz_verif_g08_test.go (ports, accounts, certificate ids by subject CN, key ids by content)",
        "package home's globals are booted by a transcription of run() (boot() of the harness: same calls in the same order, errors returned "
        "instead of log.Fatal); a restart is cleanup()'s teardown followed by the boot sequence over the same directory, in one process",
        "no web listener is started (web.start is not called): what HTTPS would serve is read from web.httpsServer as home's own tests do; "
        "the plain DNS server is really started on a picked loopback port; requests go through withMiddlewares(mux, limitRequestBody) with httptest",
        "the test PKI (ECDSA P-256) is trusted through SSL_CERT_FILE; set_static_ip and autofix are never requested (they change the host)",
        "the disk fault is produced by replacing the directory of the configuration file with a regular file",
    ])


def replay(ctx, path):
    rec = json.load(open(path))["record"]
    arena = rec["arena"]
    rows = run_arena(ctx, arena, "replay", scripts=[rec["script"]], wait_ms=3000)
    steps = [r for r in rows if r.get("kind") == "script" and r.get("ev") == "step"]
    last = steps[-1] if steps else {}
    obs = {"code": last.get("code"), "fields": last.get("fields"), "obs": last.get("obs"), "body": last.get("body")}
    print(json.dumps({"script": rec["script"], "expected_codes": sorted({o["code"] for o in rec.get("admissible", [])}) or rec.get("admissible_codes"),
                      "admissible_fields": rec.get("admissible_fields"), "observed_then": rec["observed"], "observed_now": obs}, indent=1))
    if len(steps) != len(rec["script"]):
        return 1
    if rec.get("direction") == "B":
        t2 = ctx.path("g08_trace_replay.ndjson")
        vlib.write_ndjson(t2, [r for r in rows if r.get("kind") == "script"])
        verdict = validate_trace(ctx, arena, t2)
        return 1 if any(b["i"] == len(steps) + 1 for b in verdict["bad"]) else 0
    if rec.get("kind") == "badfields":
        f = (last.get("fields") or {})
        adm = rec.get("admissible_fields") or {}
        return 1 if any(n in f and f[n] not in adm.get(n, [f[n]]) for n in rec.get("bad_fields") or []) else 0
    for o in rec.get("admissible", []):
        if o["code"] == last.get("code") and o["dkey"] == last.get("key"):
            return 0
    return 1
