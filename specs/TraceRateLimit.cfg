SPECIFICATION Spec
