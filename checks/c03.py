"""C03 -- access lists: disallowed clients and blocked names are never served.

Half 1: specs/Access.tla is model-checked over the "mc" universe (every history
of <= 2 reconfigurations and <= 2 requests; invariants and action properties of
the statement; -coverage for the vacuity guard) and enumerated over the
"clients" and "hosts" universes, one vector per access configuration carrying
the spec's verdict for every (address, ClientID) and every name.

Direction A: every vector is replayed against a real, started server
(TestZZVerifC03Replay): lists installed through POST /control/access/set,
client decision through IsBlockedClient + HandleBefore for every address form,
ClientID spelling and transport, name decision for every name x query type x
spelling, and a seeded sample of configurations through real transports with
recording upstream / filter / query log / statistics.

Direction B: random list sets over 8-bit universes (TestZZVerifC03Trace),
validated line by line by specs/TraceAccess.tla; rejected lines are re-executed
alone (TestZZVerifC03One) before they count.
"""
import ipaddress
import itertools
import json
import random
import threading

import vlib

PKG = "internal/dnsforward"
FILES = ["zz_verif_common_test.go", "zz_verif_c03_test.go"]

KEY_IDCASE = "clientid-entry-case-sensitive"
KEY_MENTRY = "mapped-entry-never-matches"
KEY_REGEXP = "regexp-rule-lowercased"
KEY_EXCEPT = "exception-rule-blocks"
KEY_FQDN = "fqdn-entry-inverted"
SILENT = ("udp", "dnscrypt")


def denial(proto):
    return "drop" if proto in SILENT else "refused"


# ------------------------------------------------------------ classification
# A reproduced disagreement is attributed to an open finding only if a model of
# the code's present behaviour predicts the observed outcome AND repairing
# exactly that one defect in the model makes the prediction exclude it.  The
# model works on the concrete lists (Python ipaddress) and on the abstract
# patterns of the record; it is used for nothing but this attribution.
def _client_blocked(conc, addr, cid, fix_case=False, fix_mapped=False):
    a = ipaddress.ip_address(addr.split("%")[0])
    if a.version == 6 and a.ipv4_mapped is not None:
        a = a.ipv4_mapped
    cid = (cid or "").lower()
    if "_" in cid:
        cid = ""        # an invalid label is no ClientID

    def parse(strs):
        out = []
        for e in strs or []:
            try:
                x = ipaddress.ip_address(e)
                if fix_mapped and x.version == 6 and x.ipv4_mapped is not None:
                    x = x.ipv4_mapped
                out.append(("ip", x))
                continue
            except ValueError:
                pass
            try:
                n = ipaddress.ip_network(e, strict=False)
                m = n.network_address.ipv4_mapped if n.version == 6 else None
                if fix_mapped and m is not None and n.prefixlen >= 96:
                    n = ipaddress.ip_network((m, n.prefixlen - 96), strict=False)
                out.append(("net", n))
                continue
            except ValueError:
                out.append(("id", e.lower() if fix_case else e))
        return out

    allowed, disallowed = parse(conc.get("allowed")), parse(conc.get("disallowed"))
    lst = allowed if allowed else disallowed
    hit = any((k == "ip" and e == a) or (k == "net" and e.version == a.version and a in e) or
              (k == "id" and cid != "" and e == cid) for k, e in lst)
    return (not hit) if allowed else hit


ADS, BETA = {"a", "ads"}, {"b", "beta"}
ADS_NONDIGITS, ADS_DIGITS = {"ar", "adsrv"}, {"a1", "ads1"}


def _re_matches(shape, n, lowered):
    """AccessCore's ReMatches; with lowered set, what the rule means after its
    text went through strings.ToLower (\\D -> \\d, (?P< -> invalid, dropped)."""
    if shape == "nondigit":
        if lowered:
            return len(n) == 2 and n[1] == "com" and n[0] in ADS_DIGITS
        return (len(n) >= 2 and n[-1] == "com" and n[0] in ADS | ADS_NONDIGITS and
                (len(n) > 2 or n[0] in ADS_NONDIGITS) and not any(x in ADS_DIGITS for x in n[:-1]))
    if shape == "capital":
        return len(n) == 2 and n[1] == "com" and n[0] in BETA
    if shape == "named":
        return (not lowered) and len(n) == 2 and n[1] == "org" and n[0] in ADS | BETA
    return False


LABELS = {"a": "ads", "b": "beta", "xa": "xads", "ar": "adsrv", "a1": "ads1"}


def _text(n):
    return ".".join(LABELS.get(x, x) for x in n)


def _host_code(hosts, n, q, lowered=False, exc_blocks=False, fq_literal=False):
    def suffix(s, n):
        return len(s) <= len(n) and n[len(n) - len(s):] == s

    def inside(s, n):
        return any(n[off:off + len(s)] == s for off in range(1, len(n) - len(s)))

    must = may = excepted = False
    for p in hosts or []:
        if p.get("qt") and p["qt"] != q:
            continue
        if p.get("wl") and not exc_blocks:
            # AccessCore: an exception that matches wins.
            if p["k"] == "domain" and suffix(p["n"], n):
                excepted = True
            continue
        k, pn = p["k"], p["n"]
        if fq_literal and p.get("fq") and k in ("exact", "wild"):
            # The entry keeps its final dot and is compiled as a substring
            # pattern over the text of the name (which has no final dot).
            pat = ("." if k == "wild" else "") + _text(pn) + "."
            must = must or pat in _text(n)
            continue
        if k == "exact":
            hit = n == pn
        elif k == "domain":
            hit = suffix(pn, n)
        elif k == "wild":
            hit = suffix(pn, n) and len(n) > len(pn)
            may = may or (not hit and inside(pn, n))
        elif k == "all":
            hit = True
        elif k == "re":
            hit = _re_matches(pn[0], n, lowered)
        else:
            hit = False
        must = must or hit
    if excepted:
        return 0
    return 1 if must else 2 if may else 0


def _predict(level, proto, bad_id, ex, hv):
    if level == "decision":
        return {str(ex).lower()}
    den = denial(proto)
    if bad_id:
        return {"servfail"} | ({den} if ex or hv else set())
    if ex or hv == 1:
        return {den}
    return {den, "served"} if hv == 2 else {"served"}


def classify(rec):
    """rec: level, proto, conc (concrete lists), hosts (abstract, effective),
    addr, id (concrete), name (labels), qtype, got."""
    if rec.get("level") not in ("decision", "handler") or not rec.get("addr"):
        return None
    try:
        bad_id = "_" in (rec.get("id") or "")

        def pred(present):
            ex = _client_blocked(rec["conc"], rec["addr"], rec.get("id"),
                                 fix_case=KEY_IDCASE not in present, fix_mapped=KEY_MENTRY not in present)
            hv = _host_code(rec.get("hosts"), rec.get("name") or [], rec.get("qtype"), lowered=KEY_REGEXP in present,
                            exc_blocks=KEY_EXCEPT in present, fq_literal=KEY_FQDN in present)
            return _predict(rec["level"], rec["proto"], bad_id, ex, hv)

        # Which of the three defects are still present in the tree under test is
        # not known (fixes land one by one): take the largest set of present
        # defects whose model predicts the observed outcome, and attribute the
        # disagreement to a defect of that set whose repair alone excludes it.
        got = rec["got"]
        # Only defects listed as open can be present: a finding marked fixed is
        # repaired in /repo and must not be used to explain anything.
        kf = vlib.known_findings()
        allk = tuple(k for k in (KEY_IDCASE, KEY_MENTRY, KEY_REGEXP, KEY_EXCEPT, KEY_FQDN)
                     if kf.get(("C03", k), {}).get("status") == "open")
        for size in range(len(allk), 0, -1):
            for base in itertools.combinations(allk, size):
                if got not in pred(set(base)):
                    continue
                for key in base:
                    if got not in pred(set(base) - {key}):
                        return key
    except (ValueError, KeyError, IndexError, TypeError):
        return None
    return None


def rec_of_bad_row(r):
    """Classification record of a direction-A row."""
    req = r["req"]
    level = r["level"]
    if level in ("transport",):
        level = "handler"
    return {"level": level, "proto": req.get("proto"), "conc": r["conc"], "hosts": r["cfg"]["hosts"],
            "addr": req.get("addr", ""), "id": req.get("id"), "name": r["areq"].get("name"), "qtype": r["areq"].get("qtype"),
            "got": str(r["got"]).lower()}


WHAT = {
    KEY_IDCASE: "a ClientID entry of the allowed/disallowed list written with a capital letter never matches (entries are stored "
                "verbatim, the ClientID of a request is always lower-cased): the disallowed client is served, the allowed one refused",
    KEY_MENTRY: "an entry written in IPv4-mapped IPv6 form (::ffff:a.b.c.d, ::ffff:a.b.c.0/120) matches no client, neither the "
                "mapped nor the plain form of its address (clients are unmapped, entries are not)",
    KEY_FQDN: "a blocked_hosts entry written with the final dot (\"ads.com.\", \"*.ads.com.\") keeps the dot and is compiled as a "
              "substring pattern: the name itself and its subdomains are served, longer names that merely contain it are refused",
    KEY_EXCEPT: "an exception rule (@@||name^) of blocked_hosts acts as a blocking rule: isBlockedHost uses only the boolean of "
                "MatchRequest, which is also true when the winning rule is an exception",
    KEY_REGEXP: "a /regexp/ rule of blocked_hosts is lower-cased as text: \\D, \\S, \\W change meaning, (?P<name>..) becomes "
                "invalid and the rule is dropped silently",
}


# ---------------------------------------------------------------- the stages
def tlc_stage(ctx):
    res, errs = {}, []

    def job(name, cfg, **kw):
        try:
            res[name] = ctx.tlc("Access", cfg, **kw)
        except Exception as e:  # noqa: BLE001 - re-raised in the main thread
            errs.append(e)

    t_mc = threading.Thread(target=job, args=("mc", "Access.mc.cfg"), kwargs=dict(workers=4, coverage=True, timeout=900, heap="3g"))
    t_mc.start()
    t_h = threading.Thread(target=job, args=("hosts", "Access.hosts.cfg"), kwargs=dict(workers=2, timeout=300, heap="2g"))
    t_h.start()
    job("clients", "Access.clients.cfg", workers=4, timeout=600, heap="3g")
    t_h.join()
    return res, errs, t_mc


def vacuity(mc):
    import re
    out = mc["out"]
    acts = dict()
    for m in re.finditer(r"^<(\w+) line \d+, col \d+ to line \d+, col \d+ of module Access(?: \([^)]*\))?>: (\d+):(\d+)$", out, re.M):
        acts.setdefault(m.group(1), 0)
        acts[m.group(1)] += int(m.group(3))
    if acts.get("SetLists", 0) == 0 or acts.get("Next", 0) == 0:
        return "an action of Access.tla was never taken in the mc universe: %s" % acts
    if mc.get("zero_cov"):
        return "expressions never evaluated in the mc universe: %s" % mc["zero_cov"][:5]
    return None


def build_input(ctx, res):
    rng = random.Random(ctx.seed)
    universe, cfgs = None, []
    for name in ("clients", "hosts"):
        for v in res[name]["vectors"]:
            if v["kind"] == "universe":
                universe = universe or v
            else:
                v["universe"] = name
                v["sock"] = 0
                cfgs.append(v)
    if universe is None:
        raise vlib.Inconclusive("TLC printed no universe vector")
    n_cli, n_host = (36, 12) if ctx.quick else (320, 100)
    cli = [c for c in cfgs if c["universe"] == "clients"]
    hst = [c for c in cfgs if c["universe"] == "hosts"]
    for c in rng.sample(cli, min(n_cli, len(cli))) + rng.sample(hst, min(n_host, len(hst))):
        c["sock"] = 1
    return universe, cfgs


def run_replay(ctx, universe, cfgs):
    vin, vout = ctx.path("c03_in.ndjson"), ctx.path("c03_out.ndjson")
    vlib.write_ndjson(vin, [universe] + cfgs)
    rc, out = ctx.go_test(PKG, FILES, "^TestZZVerifC03Replay$", env={"VERIF_IN": vin, "VERIF_OUT": vout},
                          timeout=1500, go_timeout="24m")
    rows = vlib.read_ndjson(vout)
    summ = [r for r in rows if r.get("kind") == "summary"]
    if rc != 0 or not summ:
        raise vlib.Inconclusive("C03 replay harness did not complete:\n" + out[-3000:])
    return rows, summ[0]


def run_one(ctx, steps, tag):
    vin, vout = ctx.path("c03_one_%s_in.ndjson" % tag), ctx.path("c03_one_%s_out.ndjson" % tag)
    vlib.write_ndjson(vin, steps)
    rc, out = ctx.go_test(PKG, FILES, "^TestZZVerifC03One$", env={"VERIF_IN": vin, "VERIF_OUT": vout}, timeout=900)
    rows = vlib.read_ndjson(vout)
    if rc != 0 or len(rows) != len(steps):
        raise vlib.Inconclusive("C03 single-step harness did not complete:\n" + out[-3000:])
    return rows


def run_trace(ctx, box):
    try:
        tout = ctx.path("c03_trace.ndjson")
        rc, out = ctx.go_test(PKG, FILES, "^TestZZVerifC03Trace$", env={"VERIF_OUT": tout}, timeout=1200)
        rows = vlib.read_ndjson(tout)
        if rc != 0 or not rows:
            raise vlib.Inconclusive("C03 trace driver did not complete:\n" + out[-3000:])
        # Canary (binding demonstration, every run): a copy of a recorded UDP
        # request with the outcome forged to "refused" -- never admissible over
        # UDP -- is appended; TraceAccess.tla must reject exactly that line too.
        udp = [r for r in rows if r["k"] == "req" and r["areq"]["proto"] == "udp" and r["lvl"] == "handler"]
        if not udp:
            raise vlib.Inconclusive("vacuous: the trace has no UDP request")
        canary = dict(udp[-1], out="refused", canary=True)
        tcan = ctx.path("c03_trace_canary.ndjson")
        with open(tout) as fh, open(tcan, "w") as out_fh:
            out_fh.write(fh.read())
            out_fh.write(json.dumps(canary, sort_keys=True) + "\n")
        r = ctx.tlc("TraceAccess", "TraceAccess.cfg", workers=1, extra_files=[(tcan, "trace.ndjson")], timeout=1200, heap="4g")
        if not r["vectors"]:
            raise vlib.Inconclusive("trace spec produced no verdict")
        verdict = r["vectors"][-1]
        if verdict["n"] != len(rows) + 1:
            raise vlib.Inconclusive("trace spec consumed %s of %d lines" % (verdict["n"], len(rows) + 1))
        if (len(rows) + 1) not in verdict["bad"]:
            raise vlib.Inconclusive("vacuous: TraceAccess.tla accepted the forged canary line")
        verdict["bad"] = [i for i in verdict["bad"] if i != len(rows) + 1]
        box["rows"], box["verdict"], box["canary"] = rows, verdict, canary
    except Exception as e:  # noqa: BLE001 - re-raised in the main thread
        box["err"] = e


def trace_disagreements(ctx, rows, verdict):
    """Re-execute rejected trace lines alone; only lines that show the same
    outcome again count.  At most 3 lines per signature are re-executed, the
    rest is attributed to the signature."""
    bad = sorted(verdict["bad"])
    cur, by_sig = None, {}
    setline, history, before = {}, {}, {}
    # The trace is a history of installations on two live servers (handler
    # level and transport level): a rejected line is re-executed after the
    # posts that preceded its configuration on that server and after the
    # earlier requests for the same name under that configuration.
    posts, since = {"handler": [], "transport": []}, []
    for i, r in enumerate(rows, 1):
        if r["k"] in ("set", "load"):
            if cur is not None:
                posts[cur["lvl"]].append(cur["conc"])
            cur, since = r, []
        else:
            setline[i] = cur
            history[i] = posts[cur["lvl"]][-3:]
            nm = r["req"]["name"].lower().rstrip(".")
            before[i] = [q for q in since if q["name"].lower().rstrip(".") == nm][-6:]
            since.append(r["req"])
    for i in bad:
        r = rows[i - 1]
        if r["k"] in ("set", "load"):
            by_sig.setdefault(("set",), []).append(i)
            continue
        st = setline[i]
        trig = "".join(sorted({"I" for e in st["allowed"] + st["disallowed"] if e["k"] == "id" and e["sp"] == "mixed"} |
                              {"M" for e in st["allowed"] + st["disallowed"] if e["k"] != "id" and e["sp"] == "mapped"} |
                              {"R" for p in st["reported"]["hosts"] if p["k"] == "re"} |
                              {"X" for p in st["reported"]["hosts"] if p.get("wl")} |
                              {"F" for p in st["reported"]["hosts"] if p.get("fq")} |
                              ({"B"} if r["areq"]["id"] == "~bad" else set())))
        sig = (r["lvl"], r["areq"]["form"], r["areq"]["proto"] in SILENT, r["out"], r.get("plain_out"),
               json.dumps(r.get("d"), sort_keys=True), trig)
        by_sig.setdefault(sig, []).append(i)
    steps, owner = [], []
    for sig, idx in by_sig.items():
        if sig == ("set",):
            continue
        for i in idx[:3]:
            steps.append({"conc": setline[i]["conc"], "req": rows[i - 1]["req"],
                          "history": history[i], "before": before[i]})
            owner.append((sig, i))
    res = {"rejected": len(bad), "reproduced": 0, "flaky": 0, "known": 0}
    if ("set",) in by_sig:
        i = by_sig[("set",)][0]
        ln = rows[i - 1]
        ctx.disagreement(None, ln, "trace line %d (%s): GET /control/access/list does not report the configuration in force "
                         "(given %s, reported %s), or the API accepted lists that share an item" % (
                             i, ln["k"], json.dumps(ln["conc"]), json.dumps(ln["reported"])))
    if not steps:
        return res
    ones = run_one(ctx, steps, "trace")
    confirmed = {}
    for (sig, i), one in zip(owner, ones):
        line = rows[i - 1]
        same = one.get("out") == line["out"] and (line["lvl"] != "transport" or one.get("d") == line.get("d"))
        confirmed.setdefault(sig, []).append((i, same))
    for sig, lst in confirmed.items():
        if not any(same for _, same in lst):
            res["flaky"] += len(by_sig[sig])
            continue
        i = [j for j, same in lst if same][0]
        line, st = rows[i - 1], setline[i]
        req = line["req"]
        addr = req["addr"]
        rec = {"level": "handler", "proto": req["proto"], "conc": st["conc"], "hosts": st["reported"]["hosts"],
               "addr": addr, "id": req.get("id"), "name": line["areq"]["name"], "qtype": line["areq"]["qtype"],
               "got": line["out"]}
        key = classify(rec)
        record = {"trace_line": i, "line": line, "set": st, "classification": rec,
                  "history": history[i], "before": before[i]}
        verdict_ = ctx.disagreement(key, record, "trace line %d rejected by TraceAccess.tla: %s over %s from %s (id %r) for %s under allowed=%s disallowed=%s hosts=%s" % (
            i, line["out"], req["proto"], addr, req.get("id"), req["name"], st["conc"]["allowed"], st["conc"]["disallowed"], st["conc"]["hosts"]))
        res["reproduced"] += len(by_sig[sig])
        if verdict_ == "known":
            res["known"] += len(by_sig[sig])
    return res


def run(ctx):
    # Direction B needs no vectors: it runs beside the TLC stage and direction A.
    box = {}
    t_tr = threading.Thread(target=run_trace, args=(ctx, box))
    t_tr.start()
    res, errs, t_mc = tlc_stage(ctx)
    if errs:
        t_mc.join()
        t_tr.join()
        raise errs[0]
    universe, cfgs = build_input(ctx, res)
    if len(cfgs) < 5000:
        t_mc.join()
        t_tr.join()
        raise vlib.Inconclusive("too few configurations: %d" % len(cfgs))
    try:
        rows, summ = run_replay(ctx, universe, cfgs)
    finally:
        t_tr.join()
        t_mc.join()
    if errs:
        raise errs[0]
    if "err" in box:
        raise box["err"]
    ctx.tlc_states = sum(r["generated"] for r in ctx.tlc_runs)
    ctx.tlc_distinct = sum(r["distinct"] for r in ctx.tlc_runs)
    vac = vacuity(res["mc"])
    if vac:
        raise vlib.Inconclusive("vacuous: " + vac)

    # Direction A disagreements (each already run a second time, alone, by the
    # harness).
    counts, by_sig = summ["counts"], summ["bad_by_sig"]
    known_n, sig_key = 0, {}
    for r in rows:
        if r.get("kind") != "bad":
            continue
        rec = rec_of_bad_row(r)
        key = classify(rec)
        sig_key.setdefault(r["sig"], set()).add(key)
        what = "%s: %s instead of %s for %s under allowed=%s disallowed=%s hosts=%s" % (
            r["level"], r["got"], "/".join(map(str, r["want"])), json.dumps(r["req"], sort_keys=True),
            r["conc"]["allowed"], r["conc"]["disallowed"], r["conc"]["hosts"])
        ctx.disagreement(key, {"row": r, "classification": rec}, what)
    for sig, n in by_sig.items():
        if sig_key.get(sig) and None not in sig_key[sig]:
            known_n += n
    tr = trace_disagreements(ctx, box["rows"], box["verdict"])

    transport = sum(n for k, n in counts.items() if k.startswith("t:"))
    by_proto = {}
    for k, n in counts.items():
        if k.startswith("t:"):
            _, p, o = k.split(":", 2)
            by_proto.setdefault(p, {})[o] = n
    if transport == 0 or counts.get("decision", 0) == 0 or counts.get("handler", 0) == 0:
        raise vlib.Inconclusive("vacuous: the replay harness skipped a stage: %s" % counts)
    for p in ("udp", "tcp", "tls", "https", "quic", "dnscrypt"):
        if sum(by_proto.get(p, {}).values()) == 0:
            raise vlib.Inconclusive("vacuous: no transport probe over %s" % p)
    trows = box["rows"]
    nontrivial = sum(len(c["ex"]) for c in cfgs if c["allowed"] or c["disallowed"]) + \
        sum(len(c["hv"]) for c in cfgs if c["hosts"])
    samples = [
        {k: cfgs[0][k] for k in ("allowed", "disallowed", "hosts", "ex", "hv")},
        {k: cfgs[len(cfgs) // 2][k] for k in ("allowed", "disallowed", "hosts", "ex", "hv")},
    ] + [r for r in rows if r.get("kind") == "sample"][:3] + [{"trace_line": trows[0]}, {"trace_line": trows[1]}]
    cov = {
        "traces_validated_against_impl": len(cfgs) + len(trows),
        "configurations_replayed": len(cfgs), "configurations_through_transports": summ["cfgs_transport"],
        "evaluations": counts.get("decision", 0) + counts.get("handler", 0) + transport + len(trows),
        "decisions_IsBlockedClient": counts.get("decision", 0), "decisions_HandleBefore": counts.get("handler", 0),
        "transport_probes": transport, "transport_by_proto": by_proto, "linklocal_probes": counts.get("linklocal", 0),
        "distinct_nontrivial": nontrivial,
        "rule": "one vector per reachable configuration of Access.tla (clients: every disjoint pair of lists of size <= 2 "
                "out of 14 entries; hosts: every host list of size <= 2 out of 11 patterns x 4 client lists); each carries the "
                "verdict table of every (address, ClientID) / name; non-trivial = table entries of configurations whose "
                "lists are non-empty; on the Go side every table entry is expanded over address forms, spellings, query "
                "types and transports (all six per entry in the thorough tier, one seeded per entry in the quick tier)",
        "trace_lines": len(trows), "trace_lines_rejected": tr["rejected"], "trace_rejections_reproduced": tr["reproduced"],
        "trace_rejections_flaky": tr["flaky"],
        "disagreements_by_signature": by_sig, "truncated_by_known_finding": known_n + tr["known"],
        "flaky": counts.get("flaky", 0),
        "binding_demo": {"corrupted_trace_line_rejected": {"forged": "out=refused over udp", "line": box["canary"]["req"]},
                         "mutations": "see notes/C03.md (11 code mutations, all caught)"},
        "transport_level": "UDP, TCP, DoT, DoQ, DNSCrypt/UDP: real sockets of a started server, client source addresses under "
                           "127.0.7.0/24 (plain) and through the dual-stack listener (IPv4-mapped peer); DoH: the DoH HTTP handler "
                           "(handleDoH -> proxy.ServeHTTP) with a fabricated TLS connection state; IPv6 / zoned / mapped client "
                           "addresses: HandleBefore and the DoH handler only",
        "exhaustive": bool(summ.get("full")), "samples": samples,
    }
    return ctx.finish("model_checking", cov, assumptions=[
        "TLC; conc()/abs() of zz_verif_c03_test.go (address placement, spellings); recording upstream/filter/querylog/stats doubles",
        "blocked-host patterns limited to the three shapes exact / ||name^ / *.name with names of >= 2 labels; the rule "
        "engine's substring reading of *.name for names that merely contain the pattern is left open by the spec",
        "UDP/DNSCrypt silence = no datagram until a control query sent afterwards from another client was answered, plus 40 ms; "
        "a disagreement is re-measured alone with a 3 s bound before it counts",
        "list entries are written in lower case (ClientIDs) and without zones / mapped forms; request side varied",
    ])


def replay(ctx, path):
    stored = json.load(open(path))["record"]
    if "row" in stored:
        r = stored["row"]
        step = {"conc": dict(r["conc"]), "req": r["req"], "history": r.get("history") or [], "before": r.get("before") or []}
        want = [str(w) for w in r["want"]]
    else:
        step = {"conc": dict(stored["set"]["conc"]), "req": stored["line"]["req"],
                "history": stored.get("history") or [], "before": stored.get("before") or []}
        want = None
    for k in ("allowed", "disallowed", "hosts"):
        step["conc"][k] = step["conc"].get(k) or []
    one = run_one(ctx, [step], "replay")[0]
    out, d = str(one.get("out")), one.get("d")
    eff = 1 if out == "served" and step["req"].get("level") == "transport" else 0
    obs_ok = d is None or all(v == eff for v in d.values())
    if want is not None:
        expected = {"outcome": want, "observers_moved_by": "1 each iff served through a transport, else 0"}
        bad = out not in want or not obs_ok
    else:
        # A stored trace line: the verdict on the outcome is TraceAccess.tla's;
        # the replay shows whether the rejected outcome repeats.
        expected = {"outcome": "anything but the rejected %r (see the stored line and set)" % stored["line"]["out"]}
        bad = out == stored["line"]["out"]
    print(json.dumps({"posted_before": step["history"], "lists_posted_last": step["conc"], "asked_before": step["before"],
                      "request": step["req"], "expected": expected, "observed": out,
                      "observers_moved": d, "reproduced": bad}, indent=1))
    return 1 if bad else 0
