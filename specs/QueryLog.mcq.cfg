SPECIFICATION Spec
VIEW View
CONSTANTS
  MaxRec = 4
  MemSizes = {0, 1, 2, 3}
  FileModes = {TRUE, FALSE}
  Palettes = {}
  Kinds = {1, 2}
  RestartResizes = TRUE
  IgnoreModes = {FALSE}
  AnonModes = {FALSE}
  MaxFlight = 0
  Faults = TRUE
  AllowWindow = TRUE
  EmitEdges = FALSE
INVARIANTS TypeOK Ordered NothingLost PayloadPreserved SearchAll PagingPartitions WindowPaging NoParameterCrashes LastReplyOK
