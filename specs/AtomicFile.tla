----------------------------- MODULE AtomicFile -----------------------------
(***************************************************************************)
(* C14, exhaustive part.  A writer process saves MaxSaves successive        *)
(* versions (each of 0..MaxChunks chunks) of the document at Dst by        *)
(* following a PROTOCOL -- a fixed sequence of file-system steps -- while  *)
(*   * power may fail before/after every single step (Crash, at most       *)
(*     MaxCrashes times per behaviour; the machine then restarts with what *)
(*     the disk held, the writer starts its next save), and                *)
(*   * a concurrent reader opens and reads the path at arbitrary instants. *)
(* TLC explores every interleaving and every crash outcome.                *)
(*                                                                         *)
(* The protocol the three AdGuard Home writers are supposed to follow      *)
(* (renameio: maybe.WriteFile, PendingFile.CloseAtomicallyReplace) is      *)
(*     ProtoAtomic == create temp (same file system) -> write all ->       *)
(*                    fsync -> close -> rename over Dst                    *)
(* and TLC proves DstOldOrNew, CrashSafe, CrashStrict, ReaderOK for it.    *)
(* The other protocols are the realistic ways of getting it wrong; each    *)
(* is a negative configuration that MUST violate the property (they are    *)
(* the regression test of this specification, run by checks/c14.py with    *)
(* expect_violation):                                                      *)
(*     ProtoNoFsync      the fsync is dropped                              *)
(*     ProtoRenameFirst  rename before fsync                               *)
(*     ProtoInPlace      os.WriteFile: open Dst with O_TRUNC and write     *)
(*     ProtoUnlinkFirst  remove Dst, then rename                           *)
(*     ProtoCopyBack     temp on another file system; rename fails with    *)
(*                       EXDEV and the writer falls back to copying        *)
(*     ProtoLateWrite    one more chunk written after the fsync            *)
(***************************************************************************)
EXTENDS AtomicFileCore

CONSTANTS
  Protocol,     \* a sequence of step names, see Step below
  MaxSaves,     \* successive saves per behaviour
  MaxChunks,    \* a version has 0..MaxChunks chunks
  MaxCrashes,   \* power failures per behaviour
  InitPresent,  \* BOOLEAN: does Dst exist (as version 1) initially?
  WithReader    \* BOOLEAN: run the concurrent reader

VARIABLES
  pc,       \* index of the next protocol step; 0 = between saves
  wfd,      \* the writer's open descriptor (0 = none)
  tmp,      \* path of the writer's temporary file ("" = none)
  left,     \* chunks of the new version still to be written
  crashes,  \* power failures so far
  rfd,      \* the reader's descriptor; 0 = not reading, -1 = ENOENT
  rbad      \* TRUE once the reader has read something inadmissible

mcVars == <<pc, wfd, tmp, left, crashes, rfd, rbad>>
vars   == <<dir, ino, fds, ddst, armed, phase, k, vers, prev, good, reads,
            pc, wfd, tmp, left, crashes, rfd, rbad>>

ChunkBytes == 3   \* any positive number; sizes are counted in bytes

ProtoAtomic      == <<"create", "write", "fsync", "close", "rename">>
ProtoNoFsync     == <<"create", "write", "close", "rename">>
ProtoRenameFirst == <<"create", "write", "rename", "fsync", "close">>
ProtoInPlace     == <<"opentrunc", "write", "fsync", "close">>
ProtoUnlinkFirst == <<"create", "write", "fsync", "close", "unlink", "rename">>
ProtoCopyBack    == <<"createother", "write", "fsync", "close", "rename",
                      "opentrunc", "rewind", "write", "fsync", "close">>
ProtoLateWrite   == <<"create", "writebutone", "fsync", "write", "close", "rename">>
\* Harmless variations that must also be accepted (not more than the
\* statement asks): a directory fsync at the end, fsync after close via a
\* second descriptor is not modelled.
ProtoAtomicDirSync == <<"create", "write", "fsync", "close", "rename", "syncdir">>

\* Temporary names are fresh (renameio draws random suffixes; O_EXCL).
TmpSame  == "d/tmp"      \* in Dst's file system
TmpOther == "x/tmp"      \* in another file system (D3: rename fails)
SameFs(p) == p # TmpOther

NoFlags == [creat |-> FALSE, excl |-> FALSE, trunc |-> FALSE, app |-> FALSE, sync |-> FALSE]

Init ==
  /\ fds = <<>> /\ reads = <<>>
  /\ armed = TRUE /\ phase = "idle"
  /\ IF InitPresent
       THEN LET c == [v |-> 1, n |-> ChunkBytes] IN
            /\ dir = (Dst :> 1) /\ ino = (1 :> [cur |-> c, poss |-> {c}])
            /\ ddst = {1} /\ k = 1 /\ vers = <<ChunkBytes>> /\ prev = c /\ good = {c}
       ELSE /\ dir = <<>> /\ ino = <<>> /\ ddst = {0}
            /\ k = 0 /\ vers = <<>> /\ prev = NoFile /\ good = {NoFile}
  /\ pc = 0 /\ wfd = 0 /\ tmp = "" /\ left = 0 /\ crashes = 0 /\ rfd = 0 /\ rbad = FALSE

SavesDone == k - (IF InitPresent THEN 1 ELSE 0)

\* ---- the writer --------------------------------------------------------
Begin ==
  /\ pc = 0 /\ phase = "idle" /\ SavesDone < MaxSaves
  /\ \E s \in 0..MaxChunks :
       /\ BeginSave(s * ChunkBytes)
       /\ left' = s
  /\ pc' = 1
  /\ UNCHANGED <<dir, ino, fds, ddst, wfd, tmp, crashes, rfd, rbad>>

Advance == pc' = pc + 1

\* One protocol step.  A step whose system call would fail (EXDEV, ENOENT)
\* is skipped, which is what "the call returned an error and the code went
\* on" looks like; ProtoCopyBack relies on it.
Step ==
  /\ pc >= 1 /\ pc <= Len(Protocol) /\ phase = "saving"
  /\ LET s == Protocol[pc] IN
     CASE s = "create" ->
            /\ TmpSame \notin DOMAIN dir
            /\ LET fd == FreshFd IN
               /\ FsOpen(fd, TmpSame, [NoFlags EXCEPT !.creat = TRUE, !.excl = TRUE])
               /\ wfd' = fd
            /\ tmp' = TmpSame /\ Advance /\ UNCHANGED left
       [] s = "createother" ->
            /\ LET fd == FreshFd IN
               /\ FsOpen(fd, TmpOther, [NoFlags EXCEPT !.creat = TRUE])
               /\ wfd' = fd
            /\ tmp' = TmpOther /\ Advance /\ UNCHANGED left
       [] s = "opentrunc" ->
            /\ LET fd == FreshFd IN
               /\ FsOpen(fd, Dst, [NoFlags EXCEPT !.creat = TRUE, !.trunc = TRUE])
               /\ wfd' = fd
            /\ Advance /\ UNCHANGED <<tmp, left>>
       [] s = "rewind" ->   \* the copy starts again from the first chunk
            /\ left' = vers[k] \div ChunkBytes
            /\ Advance /\ UNCHANGED <<dir, ino, fds, ddst, wfd, tmp>>
       [] s \in {"write", "writebutone"} ->
            LET stop == IF s = "writebutone" /\ vers[k] > 0 THEN 1 ELSE 0 IN
            IF left > stop
              THEN /\ FsWrite(wfd, ChunkBytes, -1)
                   /\ left' = left - 1
                   /\ UNCHANGED <<pc, wfd, tmp>>
              ELSE /\ Advance /\ UNCHANGED <<dir, ino, fds, ddst, wfd, tmp, left>>
       [] s = "fsync" ->
            /\ FsFsync(wfd)
            /\ Advance /\ UNCHANGED <<wfd, tmp, left>>
       [] s = "close" ->
            /\ FsClose(wfd)
            /\ wfd' = 0 /\ Advance /\ UNCHANGED <<tmp, left>>
       [] s = "rename" ->
            /\ IF tmp \in DOMAIN dir /\ SameFs(tmp)
                 THEN FsRename(tmp, Dst)
                 ELSE UNCHANGED <<dir, ino, fds, ddst>>      \* EXDEV
            /\ Advance /\ UNCHANGED <<wfd, tmp, left>>
       [] s = "unlink" ->
            /\ IF Dst \in DOMAIN dir
                 THEN FsUnlink(Dst)
                 ELSE UNCHANGED <<dir, ino, fds, ddst>>      \* ENOENT
            /\ Advance /\ UNCHANGED <<wfd, tmp, left>>
       [] s = "syncdir" ->
            /\ FsSyncDir
            /\ Advance /\ UNCHANGED <<dir, fds, wfd, tmp, left>>
  /\ UNCHANGED <<armed, phase, k, vers, prev, good, reads, crashes, rfd, rbad>>

\* The save call returns; a left-over temporary file is removed (Cleanup).
Finish ==
  /\ pc = Len(Protocol) + 1 /\ phase = "saving"
  /\ EndSave
  /\ IF tmp # "" /\ tmp \in DOMAIN dir
       THEN FsUnlink(tmp)
       ELSE UNCHANGED <<dir, ino, fds, ddst>>
  /\ pc' = 0 /\ tmp' = "" /\ UNCHANGED <<wfd, left, crashes, rfd, rbad>>

\* ---- the concurrent reader ---------------------------------------------
ROpen ==
  /\ WithReader /\ rfd = 0 /\ phase # "crashed"
  /\ ReadBegin(1)
  /\ IF Dst \in DOMAIN dir
       THEN LET fd == FreshFd IN FsOpen(fd, Dst, NoFlags) /\ rfd' = fd
       ELSE rfd' = -1 /\ UNCHANGED <<dir, ino, fds, ddst>>
  /\ UNCHANGED <<armed, phase, k, vers, prev, good, pc, wfd, tmp, left, crashes, rbad>>

\* The whole file is read in one step (a real reader needs several read
\* calls; one snapshot is already enough to see a truncated file).
RRead ==
  /\ rfd # 0
  /\ LET c == IF rfd = -1 THEN NoFile ELSE ino[fds[rfd].ino].cur IN
     rbad' = (rbad \/ ~ReadOK(1, c))
  /\ ReadEnd(1)
  /\ IF rfd > 0 THEN FsClose(rfd) ELSE UNCHANGED <<dir, ino, fds, ddst>>
  /\ rfd' = 0
  /\ UNCHANGED <<armed, phase, k, vers, prev, good, pc, wfd, tmp, left, crashes>>

\* ---- power failure -----------------------------------------------------
\* Every descriptor is gone; the path is bound to one of the inodes it may
\* durably be bound to (D2) and that inode holds one of the contents the
\* disk may hold for it (D1).  Other files (left-over temporaries) are
\* forgotten: their names are fresh, nothing depends on them.
Crash ==
  /\ crashes < MaxCrashes /\ phase # "crashed"
  /\ \E i \in ddst : \E c \in PossOf(i) :
       /\ dir'  = IF i = 0 THEN <<>> ELSE (Dst :> 1)
       /\ ino'  = IF i = 0 THEN <<>> ELSE (1 :> [cur |-> c, poss |-> {c}])
       /\ ddst' = IF i = 0 THEN {0} ELSE {1}
  /\ fds' = <<>> /\ reads' = <<>>
  /\ phase' = "crashed"
  /\ crashes' = crashes + 1
  /\ pc' = 0 /\ wfd' = 0 /\ tmp' = "" /\ left' = 0 /\ rfd' = 0
  /\ UNCHANGED <<armed, k, vers, prev, good, rbad>>

\* The machine is up again: what it found is the previous version of the
\* next save.
Recover ==
  /\ phase = "crashed"
  /\ phase' = "idle"
  /\ prev' = ContentAt(Dst)
  /\ UNCHANGED <<dir, ino, fds, ddst, armed, k, vers, good, reads, pc, wfd, tmp, left, crashes, rfd, rbad>>

Next == Begin \/ Step \/ Finish \/ ROpen \/ RRead \/ Crash \/ Recover
Spec == Init /\ [][Next]_vars

(***************************************************************************)
(* Properties.                                                             *)
(***************************************************************************)
\* DESIGN's DstOldOrNew: at every state -- including the one right after a
\* power failure -- the path holds a complete admissible version.
DstOldOrNew ==
  /\ InstantOK
  /\ phase = "crashed" => ContentAt(Dst) \in good

ReaderOK == ~rbad

\* A save that ran to completion has installed the new version (otherwise
\* a writer that never replaces anything would satisfy everything above).
Effective == [][Finish => ContentAt(Dst)' = Complete(k)]_vars

\* CrashSafe (a predicate over the pre-crash state) and the explicit Crash
\* action say the same thing.
CrashAgree == [][Crash /\ CrashSafe => (ContentAt(Dst) \in good)']_vars
=============================================================================
