SPECIFICATION Spec
CONSTANTS
    Deep = FALSE
    Bug = "noreport"
    DoEmit = FALSE
INVARIANTS WriteThrough ReportsRunning TypeOK
PROPERTIES RefusedChangesNothing RestartRestores CrashAtomic AcceptedEverywhere
VIEW View
