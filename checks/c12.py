"""C12 -- login throttling stops guessing; sessions valid only until expiry or logout.

Half 1: TLC explores specs/RateLimit.tla and specs/Auth.tla exhaustively
(modulo time translation) and checks the statement's properties on them.
Direction A: the same TLC runs emit every labelled edge of the two state
graphs; the Go harness walks them against the real handlers under a virtual
clock and compares reply + projected state after every step.
Direction B: seeded random timed histories with production parameters are
recorded from the real code and validated line by line by TraceRateLimit.tla /
TraceAuth.tla (which reuse the modules' transition operators).
"""
import json
import os
import re
import vlib

PKG = "internal/home"
FILES = ["zz_verif_common_test.go", "zz_verif_c12_test.go"]

RL_ACTIONS = {"Attempt", "Tick"}
AU_ACTIONS = {"Login", "Use", "LogoutCall", "LogoutDo", "LogoutRet", "Tick", "Restart"}


# Configured block durations (block_auth_min, minutes) of the "config" leg: the
# default-sized control, the largest value whose conversion to nanoseconds still
# fits int64, the first one that does not, values that wrap to a negative and to
# a small positive duration, 2^32-1 and 2^64-1.
CONFIG_BLOCK_MIN = [100000, 153722867, 153722868, 200000000, 307445735, 4294967295, 18446744073709551615]
MAX_DURATION_NS = (1 << 63) - 1


def classify(rec):
    """Narrow classification of a reproduced disagreement.

    block-duration-overflow: the auth module was built by initUsers from a
    block_auth_min whose conversion to nanoseconds does not fit int64, and the
    symptom is exactly "the block is not in force": the spec expects the
    limit-reached record / a 'blocked' reply and the code shows no such record,
    or one that is not a long block, or evaluates the attempt.
    """
    if rec.get("leg") == "config" and rec.get("module") == "RL" and rec.get("act", "").startswith("attempt") \
            and int(rec.get("block_min", 0)) * 60 * 10 ** 9 > MAX_DURATION_NS:
        n, b = rec["n"], rec["b"]
        got_out, got_state = rec["got"]
        nm = rec["names"][0]
        # What the code shows for the client if it reached the limit with a
        # wrapped duration: no live record (block already over) or a
        # limit-reached record that is not a long block (short block).
        wrapped = got_state == "%s=0,0" % nm or \
            (got_state.startswith("%s=%d," % (nm, n)) and not got_state.endswith(",long"))
        want_blocked_reply = all(a[0] == "blocked" for a in rec["admissible"])
        may_reach_limit = any(a[0] == "fail" and a[1] == "%s=%d,%d" % (nm, n, b) for a in rec["admissible"])
        if (want_blocked_reply and got_out in ("fail", "ok")) or (may_reach_limit and got_out == "fail" and wrapped):
            return "block-duration-overflow"
    return None


# --------------------------------------------------------------- spec -> graph
def act_str(a):
    k = a["k"]
    if k == "attempt":
        return "attempt %s %s %s" % (a["a"], a["c"], "ok" if a["ok"] else "bad")
    if k == "tick":
        return "tick %d" % a["d"]
    if k == "restart":
        return "restart"
    return "%s %s" % (k, a["t"])


def rl_state(s):
    return ";".join("%s=%d,%d" % (a, s[a][0], s[a][1]) for a in sorted(s))


def au_state(s):
    st = ";".join("%s=%d,%d" % (t, s["mem"][t], s["db"][t]) for t in sorted(s["mem"]))
    busy = ["%s:%s" % (t, s["lo"][t]) for t in sorted(s["lo"]) if s["lo"][t] != "idle"]
    return st + ("|" + ",".join(busy) if busy else "")


def compose_au(edges, names):
    """Turn the fine-grained edges of Auth.tla (logout = call / do / ret with
    other steps in between) into what the harness can execute from a quiescent
    state: the sequential actions, 'logout t' = call;do;ret, and
    'race t u' = a logout of t concurrent with one request carrying u, whose
    admissible outcomes are those of every interleaving TLC found
    (call; use; do; ret and call; do; use; ret)."""
    fine = {}
    for (src, act, dst, out) in edges:
        fine.setdefault(src, {}).setdefault(act, set()).add((dst, out))

    def one(src, act):
        r = fine.get(src, {}).get(act, set())
        if len(r) != 1:
            raise vlib.Inconclusive("Auth graph: %d successors of %s by %s" % (len(r), src, act))
        return next(iter(r))[0]

    res = set()
    for src in fine:
        if "|" in src:
            continue
        for act, outs in fine[src].items():
            if act.split()[0] in ("login", "use", "tick", "restart"):
                res |= {(src, act, d, o) for (d, o) in outs}
        for t in names:
            s1 = one(src, "lcall " + t)
            s2 = one(s1, "ldo " + t)
            res.add((src, "logout " + t, one(s2, "lret " + t), "ok"))
            for u in names:
                for (x, o) in fine[s1]["use " + u]:            # the request comes first
                    res.add((src, "race %s %s" % (t, u), one(one(x, "ldo " + t), "lret " + t), o))
                for (x, o) in fine[s2]["use " + u]:            # the logout comes first
                    res.add((src, "race %s %s" % (t, u), one(x, "lret " + t), o))
    if any("|" in e[2] for e in res):
        raise vlib.Inconclusive("Auth graph: composed edge ends in a non-quiescent state")
    return res


def build_graphs(vectors):
    graphs = {}
    for v in vectors:
        if v["m"] == "RL":
            key = ("RL", v["n"], v["b"], 0)
            st = rl_state
            names = sorted(v["src"])
        else:
            key = ("AU", 0, 0, v["ttl"])
            st = au_state
            names = sorted(v["src"]["mem"])
        g = graphs.setdefault(key, {"module": key[0], "n": key[1], "b": key[2], "ttl": key[3],
                                    "names": names, "edges": set()})
        g["edges"].add((st(v["src"]), act_str(v["act"]), st(v["dst"]), v["out"]))
    out = []
    for key in sorted(graphs):
        g = graphs[key]
        if key[0] == "AU":
            g["fine_edges"] = len(g["edges"])
            g["edges"] = compose_au(g["edges"], g["names"])
        g["init"] = ";".join("%s=0,0" % nm for nm in g["names"])
        g["edges"] = sorted(g["edges"])
        if not any(e[0] == g["init"] for e in g["edges"]):
            raise vlib.Inconclusive("graph %s has no edge from the initial state" % (key,))
        out.append(g)
    return out


def action_counts(out):
    """Per-action (distinct, generated) counters of TLC's -coverage output."""
    res = {}
    for m in re.finditer(r"^<(\w+) line \d+, col \d+ to line \d+, col \d+ of module \w+>: (\d+):(\d+)$", out, re.M):
        res[m.group(1)] = (int(m.group(2)), int(m.group(3)))
    return res


def model_check(ctx, module, cfg, actions):
    r = ctx.tlc(module, cfg, workers=4, timeout=600, coverage=True, heap="3g")
    cnt = action_counts(r["out"])
    for a in actions:
        if cnt.get(a, (0, 0))[1] == 0:
            raise vlib.Inconclusive("vacuous: action %s of %s never taken (%s)" % (a, module, cnt))
    if not r["vectors"]:
        raise vlib.Inconclusive("no edges emitted by %s" % module)
    return r


# ------------------------------------------------------------------ Go side
def go_run(ctx, run, env, timeout):
    rc, out = ctx.go_test(PKG, FILES, run, env=env, synctest=True, timeout=timeout, go_timeout="%ds" % timeout)
    return rc, out


def walk_and_trace(ctx, graphs):
    """One go test invocation (one link of the package's test binary) runs the
    direction-A walk and records the direction-B traces."""
    gin, gout = ctx.path("c12_graphs.ndjson"), ctx.path("c12_walk.ndjson")
    trl, tau = ctx.path("c12_trace_rl.ndjson"), ctx.path("c12_trace_au.ndjson")
    vlib.write_ndjson(gin, graphs)
    env = {"VERIF_IN": gin, "VERIF_OUT": gout, "VERIF_OUT_RL": trl, "VERIF_OUT_AU": tau}
    rc, out = go_run(ctx, "^TestZZVerifC12(Walk|Trace)$", env, 900 if ctx.quick else 1800)
    rows = vlib.read_ndjson(gout)
    if rc != 0 or not any(r.get("kind") == "done" for r in rows):
        raise vlib.Inconclusive("C12 walk harness did not complete:\n" + out[-3000:])
    rl, au = vlib.read_ndjson(trl), vlib.read_ndjson(tau)
    if not rl or not au:
        raise vlib.Inconclusive("C12 trace driver did not complete:\n" + out[-3000:])
    return rows, (trl, rl), (tau, au)


def traces(ctx, only=None, tag=""):
    trl, tau = ctx.path("c12_trace_rl%s.ndjson" % tag), ctx.path("c12_trace_au%s.ndjson" % tag)
    env = {"VERIF_OUT_RL": trl, "VERIF_OUT_AU": tau}
    if only is not None:
        env["VERIF_C12_ONLY"] = ",".join(str(k) for k in only)
    rc, out = go_run(ctx, "^TestZZVerifC12Trace$", env, 900)
    rl, au = vlib.read_ndjson(trl), vlib.read_ndjson(tau)
    if rc != 0 or not rl or not au:
        raise vlib.Inconclusive("C12 trace driver did not complete:\n" + out[-3000:])
    return (trl, rl), (tau, au)


def validate(ctx, module, path, rows):
    r = ctx.tlc(module, module + ".cfg", workers=1, extra_files=[(path, "trace.ndjson")], timeout=900, heap="3g")
    if not r["vectors"]:
        raise vlib.Inconclusive("%s produced no verdict" % module)
    verdict = r["vectors"][-1]
    if verdict["n"] != len(rows):
        raise vlib.Inconclusive("%s consumed %s of %d lines" % (module, verdict["n"], len(rows)))
    return sorted(verdict["bad"])


def trace_half(ctx, module, path, rows, which):
    """Validate one trace file; rejected lines are reproduced by regenerating
    only their traces (same seed) and validating again."""
    bad = validate(ctx, module, path, rows)
    confirmed = []
    if bad:
        trs = sorted({rows[i - 1]["tr"] for i in bad})[:20]
        (p_rl, r_rl), (p_au, r_au) = traces(ctx, only=trs, tag="_again")
        p2, rows2 = (p_rl, r_rl) if which == "rl" else (p_au, r_au)
        bad2 = validate(ctx, module, p2, rows2)
        for i in bad2:
            rec = dict(rows2[i - 1])
            rec.update({"seed": ctx.seed, "tier": ctx.tier, "half": which,
                        "line_in_trace": sum(1 for r in rows2[:i] if r["tr"] == rec["tr"])})
            confirmed.append(rec)
        ctx.log("%s: %d lines rejected, %d confirmed on regeneration" % (module, len(bad), len(bad2)))
    return bad, confirmed


def run(ctx):
    # ---- half 1 + edge generation
    rl = model_check(ctx, "RateLimit", "RateLimit.mc.cfg", RL_ACTIONS)
    au = model_check(ctx, "Auth", "Auth.mc.cfg", AU_ACTIONS)
    graphs = build_graphs(rl["vectors"] + au["vectors"])
    # The "config" leg: the same module with a block longer than any history,
    # concretised by huge block_auth_min values fed through initUsers.
    rll = model_check(ctx, "RateLimit", "RateLimit.long.cfg", RL_ACTIONS)
    cfg_graphs = []
    for g in build_graphs(rll["vectors"]):
        for bm in CONFIG_BLOCK_MIN:
            cfg_graphs.append(dict(g, leg="config", block_min=bm))
    nedges = sum(len(g["edges"]) for g in graphs)
    ctx.log("graphs: %d configurations, %d distinct edges" % (len(graphs), nedges))
    if len(graphs) < 12 or nedges < 3000 or not any(e[1].startswith("race") for g in graphs for e in g["edges"]):
        raise vlib.Inconclusive("too few configurations/edges: %d/%d" % (len(graphs), nedges))

    # ---- direction A
    rows, (p_rl, t_rl), (p_au, t_au) = walk_and_trace(ctx, graphs + cfg_graphs)
    cfg_summaries = [r for r in rows if r.get("kind") == "summary" and r.get("leg") == "config"]
    summaries = [r for r in rows if r.get("kind") == "summary" and r.get("leg") != "config"]
    flaky = [r for r in rows if r.get("kind") == "flaky"]
    truncated = 0
    for r in rows:
        if r.get("kind") == "bad":
            via = " (initUsers, block_auth_min=%s)" % r["block_min"] if r.get("leg") == "config" else ""
            verdict = ctx.disagreement(classify(r), r, "%s n=%s b=%s ttl=%s %s%s: after %s, action '%s' gave %s; spec admits %s" % (
                r["module"], r["n"], r["b"], r["ttl"], r["variant"], via, [h["act"] for h in r["history"]],
                r["act"], r["got"], r["admissible"]))
            truncated += verdict == "known"
    # Config leg: every configuration value must have been walked, and the
    # values that fit must have shown blocks in force (no vacuous pass).
    if len(cfg_summaries) != len(cfg_graphs):
        raise vlib.Inconclusive("config leg: %d of %d walks" % (len(cfg_summaries), len(cfg_graphs)))
    for r in cfg_summaries:
        if not r["bad"] and (r["steps"] < 50 or r["blocked"] < 5):
            raise vlib.Inconclusive("config leg: vacuous walk %s" % {k: r[k] for k in ("n", "block_min", "steps", "blocked")})
    # Edge coverage: an edge counts as covered when any tour/variant of its
    # configuration took it.  The only edges the code may leave aside are the
    # alternatives of the spec's nondeterministic points.
    per_cfg = {}
    for s in summaries:
        key = (s["module"], s["n"], s["b"], s["ttl"])
        d = per_cfg.setdefault(key, {"edges": s["edges"], "never": None, "steps": 0})
        d["steps"] += s["steps"]
        unc = set(s["uncovered_idx"])
        d["never"] = unc if d["never"] is None else (d["never"] & unc)
    if len(per_cfg) != len(graphs):
        raise vlib.Inconclusive("walk summaries for %d of %d configurations" % (len(per_cfg), len(graphs)))
    steps = sum(d["steps"] for d in per_cfg.values())
    never, holes = 0, []
    nobad = not any(r.get("kind") == "bad" and r.get("leg") != "config" for r in rows)
    for g in graphs:
        d = per_cfg[(g["module"], g["n"], g["b"], g["ttl"])]
        if d["edges"] != len(g["edges"]):
            raise vlib.Inconclusive("harness read %d of %d edges" % (d["edges"], len(g["edges"])))
        never += len(d["never"])
        taken = {(e[0], e[1]) for i, e in enumerate(g["edges"]) if i not in d["never"]}
        holes += [g["edges"][i] for i in sorted(d["never"]) if (g["edges"][i][0], g["edges"][i][1]) not in taken]
    covered = nedges - never
    ctx.log("walk: %d steps, %d/%d edges covered, %d alternatives never taken by the code, %d flaky" % (
        steps, covered, nedges, never, len(flaky)))
    done = next(r for r in rows if r.get("kind") == "done")
    if nobad and min(done["restarts_last_later"], done["restarts_last_earlier"]) < 20:
        raise vlib.Inconclusive("too few restarts with two live sessions of different expiries in both token orders: %s" % done)
    forms = done.get("blocked_by_form") or {}
    if nobad and any(forms.get(f, 0) < 50 for f in ("v4", "v6", "v6zone", "v4mapped")):
        raise vlib.Inconclusive("too few rejected attempts for some textual form of the remote address: %s" % forms)
    if holes and nobad:
        raise vlib.Inconclusive("walk left %d (state, action) pairs unexplored, e.g. %s" % (len(holes), holes[:3]))
    if len(flaky) > 5:
        raise vlib.Inconclusive("%d non-reproducible disagreements" % len(flaky))

    # ---- direction B
    bad_rl, conf_rl = trace_half(ctx, "TraceRateLimit", p_rl, t_rl, "rl")
    bad_au, conf_au = trace_half(ctx, "TraceAuth", p_au, t_au, "au")
    for rec in conf_rl:
        ctx.disagreement(classify(rec), rec, "trace %s: %s %s ok=%s at %sms answered %s, table %s -> %s (n=%s, block=%sms, minute=%sms) rejected by TraceRateLimit" % (
            rec["tr"], rec["k"], "%s (claiming %s)" % (rec["a"], rec["c"]), rec["ok"], rec["now"], rec["res"], rec["pre"], rec["post"], rec["n"], rec["b"], rec["w"]))
    for rec in conf_au:
        ctx.disagreement(classify(rec), rec, "trace %s: %s %s at %ss answered %s, sessions %s -> %s (ttl=%ss) rejected by TraceAuth" % (
            rec["tr"], rec["k"], rec["t"], rec["now"], rec["res"], rec["pre"], rec["post"], rec["ttl"]))
    ntr = len({r["tr"] for r in t_rl}) + len({r["tr"] for r in t_au})
    blocked_lines = sum(1 for r in t_rl if r["res"] == "blocked")
    if blocked_lines < 20 or not any(r["res"] == "denied" for r in t_au) or not any(r["k"] == "restart" for r in t_au):
        raise vlib.Inconclusive("vacuous traces: %d blocked replies" % blocked_lines)

    nontrivial = sum(1 for g in graphs for e in g["edges"] if e[3] in ("blocked", "denied") or e[1] == "restart"
                     or (e[1].endswith(" ok") and e[3] == "ok" and e[0] != e[2]))
    samples = [r for r in rows if r.get("kind") == "sample"][:2]
    for s in samples:
        s["history"] = s["history"][:8]
    samples += [t_rl[1], next(r for r in t_rl if r["res"] == "blocked"), next(r for r in t_au if r["k"] == "use")]
    for s in samples:
        s.pop("concrete", None)
    cov = {
        "traces_validated_against_impl": len(summaries) + ntr,
        "evaluations": steps + len(t_rl) + len(t_au),
        "walk_steps": steps, "edges": nedges, "edges_covered": covered,
        "edges_not_taken_by_code": nedges - covered,
        "configurations": len(graphs), "walks": len(summaries),
        "distinct_nontrivial": nontrivial,
        "rule": "an evaluation is one executed step (HTTP request, clock advance or restart) whose reply and projected "
                "state were compared with the spec; non-trivial = distinct spec edges whose reply is 'blocked'/'denied', "
                "restarts, and successful logins that change the table; edges_not_taken_by_code are the alternatives of the "
                "spec's nondeterministic points (count kept/forgotten at the end instant; expiry prolonged or not)",
        "trace_lines": len(t_rl) + len(t_au), "trace_lines_rejected": len(bad_rl) + len(bad_au),
        "trace_blocked_replies": blocked_lines, "flaky": len(flaky),
        "config_leg_walks": len(cfg_summaries), "config_leg_steps": sum(r["steps"] for r in cfg_summaries),
        "config_leg_block_auth_min": CONFIG_BLOCK_MIN,
        "truncated_by_known_finding": truncated,
        "blocked_replies_by_remote_address_form": forms,
        "restarts_2live_diff_expiry_last_token_expires_later": done["restarts_last_later"],
        "restarts_2live_diff_expiry_last_token_expires_earlier": done["restarts_last_earlier"],
        "exhaustive": True, "samples": samples,
        # TLC's own counters of the two exhaustive runs only (the trace
        # validation runs are linear and not counted here).
        "states": rl["distinct"] + au["distinct"] + rll["distinct"],
        "transitions": rl["generated"] + au["generated"] + rll["generated"],
    }
    return ctx.finish("model_checking", cov, assumptions=[
        "TLC; the abstraction functions of zz_verif_c12_test.go (live records only, counts capped at the limit, times relative to the virtual clock)",
        "testing/synctest virtual clock; handler level (httptest requests through the real mux, wrappers and handlers), no sockets",
        "'within a minute' read as the minute opened by the first counted failure; behaviour of the block across a process restart is not modelled",
        "'password not evaluated' observed as: a blocked attempt with the correct password is answered 429 and the table is unchanged"])


def replay(ctx, path):
    rec = json.load(open(path))["record"]
    if "history" not in rec:
        # A rejected trace line: regenerate that trace (same seed and tier) and
        # validate it again.
        ctx.seed, ctx.tier = rec["seed"], rec.get("tier", "quick")
        (p_rl, r_rl), (p_au, r_au) = traces(ctx, only=[rec["tr"]], tag="_replay")
        module, p, rows = ("TraceRateLimit", p_rl, r_rl) if rec["half"] == "rl" else ("TraceAuth", p_au, r_au)
        bad = validate(ctx, module, p, rows)
        print(json.dumps({"trace": rec["tr"], "stored_line": rec["line_in_trace"], "rejected_lines": bad,
                          "lines": [{k: rows[i - 1][k] for k in rows[i - 1] if k != "concrete"} for i in bad[:3]],
                          "verdict": "DISAGREEMENT" if bad else "accepted"}, indent=1))
        return 1 if bad else 0
    rin, rout = ctx.path("c12_replay_in.ndjson"), ctx.path("c12_replay_out.ndjson")
    vlib.write_ndjson(rin, [rec])
    rc, out = go_run(ctx, "^TestZZVerifC12Replay$", {"VERIF_IN": rin, "VERIF_OUT": rout}, 600)
    rows = [r for r in vlib.read_ndjson(rout) if r.get("kind") == "replay"]
    if rc != 0 or not rows:
        raise vlib.Inconclusive("C12 replay did not complete:\n" + out[-3000:])
    r = rows[0]
    print(json.dumps({"history": [h["act"] for h in r["history"]], "act": r["act"],
                      "expected": r["admissible"], "observed": r["got"], "detail": r["detail"],
                      "verdict": "admissible" if r["ok"] else "DISAGREEMENT"}, indent=1))
    return 0 if r["ok"] else 1
