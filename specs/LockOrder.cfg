SPECIFICATION Spec
INVARIANT NoDeadlock
