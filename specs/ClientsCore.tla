---------------------------- MODULE ClientsCore ----------------------------
(***************************************************************************)
(* C04 -- the persistent-client registry and the attribution of requests,  *)
(* written from the STATEMENT of the property, on the abstract registry.   *)
(*                                                                         *)
(* This module has no variables: it is the constant-level vocabulary that  *)
(* Clients.tla (the state machine checked exhaustively by TLC and          *)
(* replayed into the real client.Storage) and TraceClients.tla (validation *)
(* of traces recorded from the real code) share, so that both directions   *)
(* bind the code to one text.                                              *)
(*                                                                         *)
(* Nothing here knows about index maps.  The registry is a SET of client   *)
(* records; "who owns identifier id" is computed from that set each time   *)
(* it is asked, so a stale index entry cannot be expressed.  The code's    *)
(* five maps + sorted CIDR map are compared with these answers through the *)
(* Go harness's abstraction function (everything observable through        *)
(* Find / FindByName / RangeByName / ApplyClientFiltering).                *)
(*                                                                         *)
(* Identifiers are uniform 3-tuples (so that TLC can compare any two):     *)
(*     <<"cid", n, 0>>     a ClientID (up to letter case: the code folds   *)
(*                         ClientIDs to lower case when it stores them and *)
(*                         when it takes them from a request; the harness  *)
(*                         varies the case of the stored spelling)         *)
(*     <<"ip",  n, 0>>     the single address n (zone and W bits, below)   *)
(*     <<"net", b, l>>     the prefix of length l whose first address is b *)
(*                         (b has its low W-l bits clear: canonical form)  *)
(*     <<"mac", n, 0>>     a hardware address                              *)
(*     <<"none",0, 0>>     "no ClientID in the request" / "no lease"       *)
(* A request may also PRESENT as its ClientID a string that merely looks   *)
(* like an identifier of another kind: <<"cidmac", n, 0>> is the ClientID  *)
(* spelled like mac n with dashes (aa-bb-cc-dd-ee-ff is a legal host-name  *)
(* label, hence a legal ClientID; "cidmacu" the same in upper case),       *)
(* <<"cidip", n, 0>> the one spelled like address n with dashes            *)
(* (192-168-7-80).  Nobody can own these as such; a ClientID string        *)
(* matches ClientID identifiers only, so for Resolve they are ClientIDs    *)
(* that nobody owns, whoever owns the mac / address they resemble.         *)
(***************************************************************************)
EXTENDS Naturals, FiniteSets, Sequences

CONSTANT W      \* width of the abstract address space in bits

NoId == <<"none", 0, 0>>

Kind(id) == id[1]

Pow2(n) == 2 ^ n

(***************************************************************************)
(* Addresses and zones.  A source address (and an "ip" identifier) is the  *)
(* number  n = zone * 2^W + bits :  bits is the W-bit address proper, zone *)
(* is 0 for "no zone" or the number of an IPv6 zone (fe80::1%eth0).        *)
(* Identifiers in different zones are different identifiers ("multiple     *)
(* clients can have the same IP address with different zones").  The       *)
(* exact-IP rule for a request from n: an identifier with exactly the      *)
(* request's zone first, then the same address written WITHOUT a zone      *)
(* (identifiers are copied from the query log, which never shows a zone;   *)
(* the access lists and $client rules ignore the zone as well) -- see      *)
(* ExactOwner.  Until the third audit this module read a zone-less         *)
(* identifier as matching zone-less requests only (ByAddrZoneStrict, kept  *)
(* to recognise the listed finding); that reading made the filtering and   *)
(* the query log attribute one request to two clients.  Prefixes have no   *)
(* zone and containment looks at the bits only (index.findByIP: "Remove    *)
(* zone before checking because prefixes strip zones").                    *)
(***************************************************************************)
Bits(n) == n % Pow2(W)
Zone(n) == n \div Pow2(W)

\* Address n lies in prefix p.
Contains(p, n) == (Bits(n) \div Pow2(W - p[3])) = (p[2] \div Pow2(W - p[3]))

(***************************************************************************)
(* A client record.  own / bs are the two opt-out switches of the          *)
(* statement ("its own ... settings are applied exactly when it opts out   *)
(* of the global ones"): own covers filtering, safe browsing, parental and *)
(* safe search; bs covers blocked services.  vals / svcs are the client's  *)
(* own values; the spec never looks inside them (in the exhaustive model   *)
(* they are the tokens "own"; in trace validation they are the real        *)
(* boolean tuple and service list).  pause says that the request arrives   *)
(* inside the pause window of the client's own blocked-services schedule   *)
(* (a blocked-services list, the global one too, is a list plus a weekly   *)
(* schedule during which the list is NOT applied).                         *)
(***************************************************************************)
NoClient == [name |-> "", ids |-> {}, own |-> FALSE, bs |-> FALSE, vals |-> "", svcs |-> "",
             pause |-> FALSE]

NamesOf(R) == {c.name : c \in R}
IdsOf(R)   == UNION {c.ids : c \in R}

Owners(R, id) == {c \in R : id \in c.ids}
\* The client owning id, or NoClient.  (UniqueOwner makes the CHOOSE unique.)
Owner(R, id)  == IF Owners(R, id) = {} THEN NoClient ELSE CHOOSE c \in Owners(R, id) : TRUE
ByName(R, n)  == IF n \in NamesOf(R) THEN CHOOSE c \in R : c.name = n ELSE NoClient

\* The registry is consistent: no two clients share a name or an identifier.
Consistent(R) ==
    /\ \A c, d \in R : c # d => c.name # d.name /\ c.ids \cap d.ids = {}
    /\ \A c \in R : c.ids # {} /\ c.name # ""

(***************************************************************************)
(* Operations.  Each yields the reply class and the next registry.  The    *)
(* statement: "An operation that would make two clients share a name or an *)
(* identifier is rejected and leaves the registry unchanged."  Only        *)
(* accepted / refused is compared with the code (never error wording).     *)
(***************************************************************************)
Clashes(R, c) == c.name \in NamesOf(R) \/ c.ids \cap IdsOf(R) # {}

AddRes(R, c) ==
    IF Clashes(R, c) THEN [out |-> "err", reg |-> R]
                     ELSE [out |-> "ok",  reg |-> R \cup {c}]

\* Update replaces the client currently called n by c (rename and/or new
\* identifiers and/or new switches), atomically; c may keep what the old
\* record had, so the clash test is against the OTHER clients only.
UpdateRes(R, n, c) ==
    IF n \notin NamesOf(R) THEN [out |-> "err", reg |-> R]
    ELSE LET rest == R \ {ByName(R, n)} IN
         IF Clashes(rest, c) THEN [out |-> "err", reg |-> R]
                             ELSE [out |-> "ok",  reg |-> rest \cup {c}]

\* Start-up with a configuration file: the clients of the file are added in
\* order to an empty registry; one clash and the whole configuration is
\* refused (client.NewStorage fails, AdGuard Home does not start): nothing is
\* registered.  cs is a sequence of client records.
RECURSIVE LoadFrom(_, _, _)
LoadFrom(R, cs, i) ==
    IF i > Len(cs) THEN [out |-> "ok", reg |-> R]
    ELSE LET r == AddRes(R, cs[i]) IN
         IF r.out = "err" THEN [out |-> "err", reg |-> {}] ELSE LoadFrom(r.reg, cs, i + 1)
LoadRes(cs) == LoadFrom({}, cs, 1)

RemoveRes(R, n) ==
    IF n \in NamesOf(R) THEN [out |-> "ok",  reg |-> R \ {ByName(R, n)}]
                        ELSE [out |-> "err", reg |-> R]

(***************************************************************************)
(* Attribution.  L is the DHCP lease table: a function from some addresses *)
(* to mac identifiers (NoId or absence = no lease).                        *)
(*                                                                         *)
(* "... chosen by precedence ClientID, then exact IP, then the most        *)
(* specific containing CIDR, then the MAC of the DHCP lease for the source *)
(* address."                                                               *)
(***************************************************************************)
LeaseOf(L, a) == IF a \in DOMAIN L THEN L[a] ELSE NoId

Covering(R, a) == {p \in IdsOf(R) : Kind(p) = "net" /\ Contains(p, a)}
\* Two different canonical prefixes that contain the same address differ in
\* length, so the longest one is unique.
MostSpecific(R, a) == CHOOSE p \in Covering(R, a) : \A q \in Covering(R, a) : q[3] <= p[3]

\* The owner of the exact address of a request from a: the identifier in
\* exactly the request's zone, else the same address written without a zone.
ExactOwner(R, a) ==
    IF Owners(R, <<"ip", a, 0>>) # {} THEN Owner(R, <<"ip", a, 0>>)
    ELSE IF Zone(a) # 0 THEN Owner(R, <<"ip", Bits(a), 0>>)
    ELSE NoClient

\* The zone-less identifier decides (no identifier in the request's own zone).
ZoneFallback(R, a) ==
    Zone(a) # 0 /\ Owners(R, <<"ip", a, 0>>) = {} /\ Owners(R, <<"ip", Bits(a), 0>>) # {}

BelowExact(R, L, a) ==
    IF Covering(R, a) # {} THEN Owner(R, MostSpecific(R, a))
    ELSE IF LeaseOf(L, a) # NoId THEN Owner(R, LeaseOf(L, a))
    ELSE NoClient

ByAddr(R, L, a) ==
    IF ExactOwner(R, a) # NoClient THEN ExactOwner(R, a) ELSE BelowExact(R, L, a)

\* The reading without the zone-less fallback (what index.findByIP did).
ByAddrZoneStrict(R, L, a) ==
    IF Owners(R, <<"ip", a, 0>>) # {} THEN Owner(R, <<"ip", a, 0>>) ELSE BelowExact(R, L, a)

\* The client a request (ClientID cid or NoId, source address a) belongs to.
Resolve(R, L, cid, a) ==
    IF cid # NoId /\ Owners(R, cid) # {} THEN Owner(R, cid) ELSE ByAddr(R, L, a)

(***************************************************************************)
(* Lookup by identifier (Storage.Find).  "After any sequence of ...        *)
(* operations every identifier resolves to the client that currently owns  *)
(* it, or to none."  An address is looked up the way a request from that   *)
(* address is attributed (Find with an address string is what the          *)
(* statistics / query-log "ignore" switches use), so for "ip" the answer   *)
(* is ByAddr.  A prefix is an identifier like any other ("lookups by every *)
(* identifier kind"; the HTTP API documents search "by their IP addresses, *)
(* CIDRs, MAC addresses, or ClientIDs" and runs on Storage.Find): looked   *)
(* up by its text it resolves to its owner.  (An earlier version admitted  *)
(* "none" here; the audit of the property settled it.)  FindSet stays a    *)
(* SET of admissible answers for uniformity; every set is a singleton now. *)
(*                                                                         *)
(* Spellings are not part of an identifier: the letter case of a ClientID  *)
(* or mac, the host bits of a prefix, the IPv4-mapped IPv6 form            *)
(* ::ffff:a.b.c.d of an IPv4 address or prefix (it denotes the IPv4 host)  *)
(* -- on the stored side AND on the lookup side -- are chosen by the       *)
(* harness; the answers below do not depend on them.                       *)
(*                                                                         *)
(* The mac of a DHCP lease comes from the network, not from the registry:  *)
(* <<"macx", n, 0>> is a link-layer address of a length no client          *)
(* identifier can have (a DHCPv6 DUID may carry 4 bytes, say).  Nobody     *)
(* owns it, so it attributes the request to nobody -- like any other mac   *)
(* that nobody registered.                                                 *)
(***************************************************************************)
FindSet(R, L, id) ==
    CASE Kind(id) = "cid" -> {Owner(R, id)}
      [] Kind(id) = "mac" -> {Owner(R, id)}
      [] Kind(id) = "ip"  -> {ByAddr(R, L, id[2])}
      [] Kind(id) = "net" -> {Owner(R, id)}
      [] OTHER            -> {NoClient}

(***************************************************************************)
(* Ambiguous texts.  An EUI-64 written with colons is also the text of an  *)
(* IPv6 address (and an IPv6 address whose groups all have two digits is   *)
(* also the text of an EUI-64).  A lookup by such a text resolves to the   *)
(* owner under the first reading that HAS an owner: the mac's owner if     *)
(* somebody registered that mac, else whoever the address reading gives.   *)
(* The address an EUI-64 text denotes (2:1:...) lies outside the embedded  *)
(* address space, so among the prefixes of a universe only one of length 0 *)
(* (written ::/0) contains it; it has no exact owner and no lease.  This   *)
(* is the answer when the universe is written in IPv6; written in IPv4     *)
(* (0.0.0.0/0) no prefix contains that address and the mac reading alone   *)
(* decides.                                                                *)
(***************************************************************************)
FindMacTextV6(R, id) ==
    IF Owners(R, id) # {} THEN Owner(R, id)
    ELSE LET wide == {p \in IdsOf(R) : Kind(p) = "net" /\ p[3] = 0} IN
         IF wide = {} THEN NoClient ELSE Owner(R, CHOOSE p \in wide : TRUE)

(***************************************************************************)
(* Attribution for the query log and the statistics (Storage.FindLoose,    *)
(* called by home for the ClientID of the request and then for the text of *)
(* its address).  It is the same request, so the same precedence clause    *)
(* holds (dnsforward/stats.go: "Filters have the same priority") -- with   *)
(* one documented difference: the address arrives WITHOUT its zone (query  *)
(* log entries do not carry one), so after the exact match an "ip"         *)
(* identifier that differs from it only by a zone still counts as the      *)
(* exact address, before any prefix; if clients own it in several zones    *)
(* the doc of FindLoose calls the result indeterminate: a SET.  n has no   *)
(* zone here.  A text that is well-formed under several identifier kinds   *)
(* (a ClientID spelled like a mac, an IPv6 address spelled like an EUI-64) *)
(* is an identifier of the kind the caller means, not of the look-alike    *)
(* kind -- unless a client really owns it under that kind.                 *)
(***************************************************************************)
LooseSet(R, L, cid, n) ==
    IF cid # NoId /\ Owners(R, cid) # {} THEN {Owner(R, cid)}
    ELSE IF Owners(R, <<"ip", n, 0>>) # {} THEN {Owner(R, <<"ip", n, 0>>)}
    ELSE LET twins == {c \in R : \E id \in c.ids : Kind(id) = "ip" /\ Bits(id[2]) = Bits(n)} IN
         IF twins # {} THEN twins ELSE {ByAddr(R, L, n)}

(***************************************************************************)
(* Effective settings of a request.  G = [vals, svcs, pause] are the       *)
(* global ones.  who is the client the request is attributed to ("" =      *)
(* none).  A client that opted out of the global blocked services gets its *)
(* own list -- and while its own pause is in effect it gets NO services    *)
(* blocked: neither its own list nor the global one (it opted out of that).*)
(***************************************************************************)
Applied(b) == IF b.pause THEN {} ELSE b.svcs

EffOf(c, G) ==
    [who  |-> c.name,
     vals |-> IF c.own THEN c.vals ELSE G.vals,
     svcs |-> IF c.bs  THEN Applied(c) ELSE Applied(G)]

Effective(R, L, G, cid, a) == EffOf(Resolve(R, L, cid, a), G)

\* (to recognise the listed finding, see ByAddrZoneStrict)
EffectiveZoneStrict(R, L, G, cid, a) ==
    EffOf(IF cid # NoId /\ Owners(R, cid) # {} THEN Owner(R, cid) ELSE ByAddrZoneStrict(R, L, a), G)
=============================================================================
