SPECIFICATION Spec
