SPECIFICATION Spec
CONSTANTS
  Limits = {2, 3, 4}
  MaxLim = 4
  NCats = 2
  MaxLive = 3
  MaxTick = 5
  DayLen = 2
  DailyAbove = 1
INVARIANTS IndInv Safety OrigInvs
PROPERTIES OrigSpec
