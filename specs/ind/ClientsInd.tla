----------------------------- MODULE ClientsInd -----------------------------
(***************************************************************************)
(* G12 -- the persistent-client registry of Clients.tla / ClientsCore.tla  *)
(* (property C04) re-stated over UNBOUNDED constant sets, with an          *)
(* inductive invariant.                                                    *)
(*                                                                         *)
(* Clients.tla is checked by TLC over universes of 2-3 names and 4-6       *)
(* identifiers chosen by a record U.  Here the same actions are written    *)
(* over arbitrary sets                                                     *)
(*     Names       the names a client may be given          (any strings)  *)
(*     Ident       the identifiers a client may own   (any 3-tuples, see   *)
(*                 ClientsCore: <<kind, x, y>>; the kind is NOT looked at) *)
(*     IdSets      the identifier sets one client may be given (any set    *)
(*                 of non-empty subsets of Ident -- Clients.tla: subsets   *)
(*                 of at most U.maxids elements)                           *)
(*     Flags       name -> admissible <<own, bs>> switch pairs             *)
(*     LeaseAddrs, LeaseMacs   the DHCP environment                        *)
(*     Configs     the configuration files LoadConfig may read: any set    *)
(*                 of SEQUENCES (of any length) of client records          *)
(*                 (Clients.tla: every file of exactly two clients)        *)
(* and IndInv is shown to be inductive, i.e. the safety part of C04 that   *)
(* speaks about the registry alone                                         *)
(*     no two persistent clients share a name or an identifier;            *)
(*     every identifier resolves to the client that owns it, or to none;   *)
(*     a rejected operation leaves the registry unchanged                  *)
(* holds for every universe, not only for the ones TLC enumerates.         *)
(*                                                                         *)
(* NOT restated here: the address arithmetic (exact IP > longest prefix >  *)
(* lease MAC, Contains/MostSpecific over W-bit numbers) and the settings   *)
(* clause.  They are per-request decision procedures over ONE state, not   *)
(* statements about identifier sets growing; TLC + the decision table of   *)
(* ClientSettings.tla stay their checks.                                   *)
(*                                                                         *)
(* State, variables and records are EXACTLY those of Clients.tla (seven    *)
(* fields per client), so that the refinement mapping is the identity:     *)
(* ClientsRefA.tla / ClientsRefB.tla let TLC check                         *)
(*      Clients!Spec => ClientsInd!Spec   and   ClientsInd!Spec =>         *)
(*      Clients!Spec                                                       *)
(* on Clients.tla's own universes.  Action by action:                      *)
(*                                                                         *)
(*   Clients.tla            here           why it is the same relation     *)
(*   ---------------------  -------------  ------------------------------- *)
(*   Add                    Add            same text (AddRes, Mk); the     *)
(*                                         bound sets are the constants    *)
(*                                         instead of fields of U          *)
(*   Update                 Update         same text (UpdateRes)           *)
(*   Remove                 Remove         same text (RemoveRes)           *)
(*   LeaseChange            LeaseChange    same text                       *)
(*   LoadConfig             LoadConfig     ClientsCore!LoadRes is a        *)
(*                                         RECURSIVE fold of AddRes from   *)
(*                                         {} (Apalache has no recursive   *)
(*                                         operators).  Here in closed     *)
(*                                         form: "ok" with the range of    *)
(*                                         the file iff no two entries     *)
(*                                         share a name or an identifier   *)
(*                                         (Clashes of entry j against the *)
(*                                         entries before it = exists i<j  *)
(*                                         sharing a name or identifier),  *)
(*                                         else "err" with {}.             *)
(*   Observe                (none)         Observe is UNCHANGED vars plus  *)
(*                                         printing: a stuttering step,    *)
(*                                         admitted by [][Next]_vars.      *)
(***************************************************************************)
EXTENDS Integers, FiniteSets, Sequences

(*
  @typeAlias: id = <<Str, Int, Int>>;
  @typeAlias: client = {name: Str, ids: Set($id), own: Bool, bs: Bool, vals: Str, svcs: Str, pause: Bool};
  @typeAlias: res = {out: Str, reg: Set($client)};
*)
ClientsInd_aliases == TRUE

CONSTANTS
    \* @type: Set(Str);
    Names,
    \* @type: Set($id);
    Ident,
    \* @type: Set(Set($id));
    IdSets,
    \* @type: Str -> Set(<<Bool, Bool>>);
    Flags,
    \* @type: Set(Int);
    LeaseAddrs,
    \* @type: Set($id);
    LeaseMacs,
    \* @type: Set(Seq($client));
    Configs

VARIABLES
    \* @type: Set($client);
    clients,
    \* @type: Int -> $id;
    leases,
    \* @type: {op: Str, out: Str};
    last

vars == <<clients, leases, last>>

\* @type: $id;
NoId == <<"none", 0, 0>>

\* @type: $client;
NoClient == [name |-> "", ids |-> {}, own |-> FALSE, bs |-> FALSE, vals |-> "", svcs |-> "",
             pause |-> FALSE]

\* @type: (Str, Set($id), <<Bool, Bool>>) => $client;
Mk(n, ids, f) == [name |-> n, ids |-> ids, own |-> f[1], bs |-> f[2], vals |-> "own", svcs |-> "own",
                  pause |-> FALSE]

\* The records an operation may carry (Mk(n, ids, f) for n \in Names,
\* ids \in IdSets, f \in Flags[n]).
\* @type: $client => Bool;
WellFormed(c) == /\ c.name \in Names /\ c.ids \in IdSets /\ <<c.own, c.bs>> \in Flags[c.name]
                 /\ c.vals = "own" /\ c.svcs = "own" /\ c.pause = FALSE

(***************************************************************************)
(* What the universe must satisfy (Clients.tla's universes do: names are   *)
(* "n1".., IdSets are built from non-empty comprehensions over Ident).     *)
(***************************************************************************)
ConstOK ==
    /\ "" \notin Names
    /\ \A s \in IdSets : s # {} /\ s \subseteq Ident
    /\ DOMAIN Flags = Names
    /\ \A n \in Names : Flags[n] \subseteq BOOLEAN \X BOOLEAN
    /\ NoId \notin Ident /\ NoId \notin LeaseMacs
    /\ \A cs \in Configs : \A i \in DOMAIN cs : WellFormed(cs[i])

\* A configuration file is a SEQUENCE of clients.  (Given by the type
\* annotation for Apalache; an explicit hypothesis of the TLAPS proof;
\* checked by TLC as an ASSUME of ClientsRefA/B.)
ConfigsAreSequences == \A cs \in Configs : DOMAIN cs \subseteq Int

\* ----------------------------------------------------------- ClientsCore
\* (same definitions as in ClientsCore.tla, typed)
\* @type: Set($client) => Set(Str);
NamesOf(R) == {c.name : c \in R}
\* @type: Set($client) => Set($id);
IdsOf(R)   == UNION {c.ids : c \in R}

\* @type: (Set($client), $id) => Set($client);
Owners(R, id) == {c \in R : id \in c.ids}
\* @type: (Set($client), $id) => $client;
Owner(R, id)  == IF Owners(R, id) = {} THEN NoClient ELSE CHOOSE c \in Owners(R, id) : TRUE
\* @type: (Set($client), Str) => $client;
ByName(R, n)  == IF n \in NamesOf(R) THEN CHOOSE c \in R : c.name = n ELSE NoClient

\* @type: Set($client) => Bool;
Consistent(R) ==
    /\ \A c, d \in R : c # d => c.name # d.name /\ c.ids \cap d.ids = {}
    /\ \A c \in R : c.ids # {} /\ c.name # ""

\* @type: (Set($client), $client) => Bool;
Clashes(R, c) == c.name \in NamesOf(R) \/ c.ids \cap IdsOf(R) # {}

\* @type: (Set($client), $client) => $res;
AddRes(R, c) ==
    IF Clashes(R, c) THEN [out |-> "err", reg |-> R]
                     ELSE [out |-> "ok",  reg |-> R \cup {c}]

\* @type: (Set($client), Str, $client) => $res;
UpdateRes(R, n, c) ==
    IF n \notin NamesOf(R) THEN [out |-> "err", reg |-> R]
    ELSE LET rest == R \ {ByName(R, n)} IN
         IF Clashes(rest, c) THEN [out |-> "err", reg |-> R]
                             ELSE [out |-> "ok",  reg |-> rest \cup {c}]

\* @type: (Set($client), Str) => $res;
RemoveRes(R, n) ==
    IF n \in NamesOf(R) THEN [out |-> "ok",  reg |-> R \ {ByName(R, n)}]
                        ELSE [out |-> "err", reg |-> R]

\* ClientsCore!LoadRes in closed form (see the table above).
\* @type: Seq($client) => Bool;
LoadOK(cs) == \A i, j \in DOMAIN cs :
                 i < j => cs[i].name # cs[j].name /\ cs[i].ids \cap cs[j].ids = {}
\* @type: Seq($client) => $res;
LoadRes(cs) == IF LoadOK(cs) THEN [out |-> "ok",  reg |-> {cs[i] : i \in DOMAIN cs}]
                             ELSE [out |-> "err", reg |-> {}]

\* --------------------------------------------------------------- behaviour
Init == /\ clients = {}
        /\ leases = [a \in LeaseAddrs |-> NoId]
        /\ last = [op |-> "init", out |-> "ok"]

Add == \E n \in Names, ids \in IdSets : \E f \in Flags[n] :
         LET r == AddRes(clients, Mk(n, ids, f)) IN
         /\ clients' = r.reg
         /\ last' = [op |-> "add", out |-> r.out]
         /\ UNCHANGED leases

Update == \E o \in Names, n \in Names, ids \in IdSets : \E f \in Flags[n] :
            LET r == UpdateRes(clients, o, Mk(n, ids, f)) IN
            /\ clients' = r.reg
            /\ last' = [op |-> "upd", out |-> r.out]
            /\ UNCHANGED leases

LoadConfig == /\ clients = {}
              /\ \E cs \in Configs :
                   LET r == LoadRes(cs) IN
                   /\ clients' = r.reg
                   /\ last' = [op |-> "load", out |-> r.out]
                   /\ UNCHANGED leases

Remove == \E n \in Names :
            LET r == RemoveRes(clients, n) IN
            /\ clients' = r.reg
            /\ last' = [op |-> "rem", out |-> r.out]
            /\ UNCHANGED leases

LeaseChange == \E a \in LeaseAddrs, m \in LeaseMacs \cup {NoId} :
                 /\ m # leases[a]
                 /\ leases' = [leases EXCEPT ![a] = m]
                 /\ last' = [op |-> "lease", out |-> "ok"]
                 /\ UNCHANGED clients

Next == Add \/ Update \/ Remove \/ LeaseChange \/ LoadConfig
Spec == Init /\ [][Next]_vars

\* ------------------------------------------------- the inductive invariant
Ops == {"init", "add", "upd", "load", "rem", "lease"}

TypeOK ==
    /\ \A c \in clients : WellFormed(c)
    /\ leases \in [LeaseAddrs -> LeaseMacs \cup {NoId}]
    /\ last \in [op : Ops, out : {"ok", "err"}]

\* Every variable is constrained; Consistent is the statement's "no two
\* clients share a name or an identifier" (plus: no empty client).
IndInv == TypeOK /\ Consistent(clients)

\* ------------------------------------- what follows from IndInv (safety)
\* Clients!UniqueOwner without Cardinality (ClientsRefA.tla lets TLC check
\* that it agrees with the original on every reachable state).
UniqueOwner ==
    /\ Consistent(clients)
    /\ \A id \in Ident \cup LeaseMacs : \A c, d \in Owners(clients, id) : c = d
    /\ \A n \in Names : \A c, d \in {x \in clients : x.name = n} : c = d

\* "every identifier resolves to the client that currently owns it, or to
\* none" -- for lookups by the identifier itself (ClientsCore!FindSet for the
\* kinds "cid" and "mac", ByName for names, the owner of a leased MAC).
Resolves ==
    /\ \A id \in Ident \cup LeaseMacs :
         LET r == Owner(clients, id) IN
         \/ r = NoClient /\ id \notin IdsOf(clients)
         \/ r \in clients /\ id \in r.ids /\ \A c \in clients : id \in c.ids => c = r
    /\ \A n \in Names :
         LET r == ByName(clients, n) IN
         \/ r = NoClient /\ n \notin NamesOf(clients)
         \/ r \in clients /\ r.name = n /\ \A c \in clients : c.name = n => c = r
    /\ NoClient \notin clients

Safety == UniqueOwner /\ Resolves

\* "An operation that would make two clients share a name or an identifier
\* is rejected and leaves the registry unchanged" (an action invariant:
\* Clients!RejectedLeavesUnchanged without the temporal box).
RejectedLeavesUnchanged == last'.out = "err" => clients' = clients
=============================================================================
