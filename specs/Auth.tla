-------------------------------- MODULE Auth --------------------------------
(***************************************************************************)
(* C12, second half -- web sessions.                                       *)
(*                                                                         *)
(* Statement: "A session token authenticates requests only between its     *)
(* creation and its expiry or logout, and this remains true after a        *)
(* restart."                                                               *)
(*                                                                         *)
(* Design-level model: the process keeps sessions in memory (mem) and      *)
(* mirrors them in a file (db); a restart forgets mem and reloads db.      *)
(* The statement is expressed with ghost variables that ignore the         *)
(* mechanism (issued / loggedOut / expired) and TLC checks that the        *)
(* design satisfies it; the Go harness then binds the real code to the     *)
(* design (reply and live content of mem and db after every step -- the    *)
(* live content of the file is what a restart at that point would see).    *)
(*                                                                         *)
(* Precise: a token is valid at `now` iff it is present with now < exp     *)
(* (at exp it has expired); a logged-out token is absent everywhere.       *)
(* Silent, hence a set of outcomes: an authenticated request may prolong   *)
(* the session to now + TTL (the code does so once a day) or leave the     *)
(* expiry alone.  When expired records are physically deleted is not       *)
(* observable through the statement: both sides only look at live records. *)
(*                                                                         *)
(* Concurrency.  Requests are served concurrently, so a logout is not an  *)
(* instant: it is CALLED, takes effect (LogoutDo -- its linearisation      *)
(* point) and RETURNS, and other requests -- in particular one carrying    *)
(* the very token being logged out -- may be served at any point in        *)
(* between.  Such a request may still be authenticated (it came first) or  *)
(* not, and if it came first it may prolong the session; but once the      *)
(* logout has returned the token is gone from memory AND from the file,    *)
(* whatever ran in between, so no later request and no restart brings it   *)
(* back.  A restart (crash) between call and return loses the logout or    *)
(* finds it done.  TLC explores all these interleavings; checks/c12.py     *)
(* composes the call/do/ret edges into the outcomes admitted for a         *)
(* sequential logout and for a logout racing one request, and the harness  *)
(* forces such races on the real code by making both arrive while a        *)
(* resource they need (the sessions mutex or the database's write          *)
(* transaction) is busy.                                                   *)
(*                                                                         *)
(* Token names are recycled once dead everywhere (the real tokens are      *)
(* fresh random values each time), so histories of any length are covered  *)
(* with a few names.  As in RateLimit.tla the model is explored modulo     *)
(* time translation (View).                                                *)
(***************************************************************************)
EXTENDS Integers, FiniteSets, Sequences, TLC, Json

CONSTANTS
    Tokens,   \* token names (strings)
    TTLSet,   \* session lifetimes to explore
    MaxTick   \* largest single clock advance (> every TTL)

(***************************************************************************)
(* Pure part.  A stored expiry e = 0 means "no record".                    *)
(***************************************************************************)
Valid(e, now) == e > now

Live(e, now) == IF e > now THEN e ELSE 0

\* Admissible results of a request carrying a token whose in-memory expiry is e.
UseOutcomes(e, now, ttl) ==
    IF Valid(e, now)
    THEN {[exp |-> x, res |-> "ok"] : x \in {e, now + ttl}}
    ELSE {[exp |-> 0, res |-> "denied"]}

\* Effects of the five operations on a store s = [mem, db] (both token ->
\* expiry).  TraceAuth.tla evaluates the same operators on recorded states.
LoginEffect(s, t, now, ttl) ==
    [mem |-> [s.mem EXCEPT ![t] = now + ttl], db |-> [s.db EXCEPT ![t] = now + ttl]]

UseEffects(s, t, now, ttl) ==
    {[st  |-> [mem |-> [s.mem EXCEPT ![t] = o.exp],
               db  |-> IF o.res = "ok" THEN [s.db EXCEPT ![t] = o.exp] ELSE s.db],
      res |-> o.res] : o \in UseOutcomes(s.mem[t], now, ttl)}

LogoutEffect(s, t) == [mem |-> [s.mem EXCEPT ![t] = 0], db |-> [s.db EXCEPT ![t] = 0]]

TickEffect(s, now2) ==
    [mem |-> [t \in DOMAIN s.mem |-> Live(s.mem[t], now2)],
     db  |-> [t \in DOMAIN s.db |-> Live(s.db[t], now2)]]

\* Process restart: memory is rebuilt from the file.
RestartEffect(s, now) == [mem |-> [t \in DOMAIN s.db |-> Live(s.db[t], now)], db |-> s.db]

(***************************************************************************)
(* State machine.                                                          *)
(***************************************************************************)
VARIABLES
    ttl,        \* configuration (chosen in Init, then fixed)
    mem, db,    \* token -> expiry (0 = absent); only live records are kept
    clock,
    issued,     \* ghost: tokens handed out by a login (current incarnation of the name)
    loggedOut,  \* ghost: issued tokens that were logged out
    expired,    \* ghost: issued tokens whose expiry has been reached
    lo,         \* token -> progress of a logout request: "idle", "called", "done"
    out         \* last step: [act, t, res]

vars == <<ttl, mem, db, clock, issued, loggedOut, expired, lo, out>>

NoOut == [act |-> "none", t |-> "", res |-> "none"]
Store == [mem |-> mem, db |-> db]

RelE(e) == IF e = 0 THEN 0 ELSE e - clock
Proj == [mem |-> [t \in Tokens |-> RelE(mem[t])], db |-> [t \in Tokens |-> RelE(db[t])], lo |-> lo]
View == <<ttl, Proj, issued, loggedOut, expired, out>>
Idle == \A t \in Tokens : lo[t] = "idle"

Emit(act, dstProj, o) ==
    PrintT(<<"@@V", ToJson([m |-> "AU", ttl |-> ttl, src |-> Proj, act |-> act,
                            dst |-> dstProj, out |-> o])>>)

Init ==
    /\ ttl \in TTLSet
    /\ mem = [t \in Tokens |-> 0]
    /\ db = [t \in Tokens |-> 0]
    /\ clock = 0
    /\ issued = {} /\ loggedOut = {} /\ expired = {}
    /\ lo = [t \in Tokens |-> "idle"]
    /\ out = NoOut

Dead(t) == t \in loggedOut \cup expired

\* A successful login hands out a new token.  The name t is free when it was
\* never used or its previous incarnation is dead and gone.
Login(t) ==
    /\ (t \notin issued \/ Dead(t))
    /\ mem[t] = 0 /\ db[t] = 0 /\ lo[t] = "idle"
    /\ LET s2 == LoginEffect(Store, t, clock, ttl) IN mem' = s2.mem /\ db' = s2.db
    /\ issued' = issued \cup {t}
    /\ loggedOut' = loggedOut \ {t}
    /\ expired' = expired \ {t}
    /\ out' = [act |-> "login", t |-> t, res |-> "ok"]
    /\ UNCHANGED <<ttl, clock, lo>>
    /\ Emit([k |-> "login", t |-> t, d |-> 0], Proj', "ok")

\* A request to a protected route carrying token t (issued or not).
Use(t) ==
    \E o \in UseEffects(Store, t, clock, ttl) :
        /\ mem' = o.st.mem /\ db' = o.st.db
        /\ out' = [act |-> "use", t |-> t, res |-> o.res]
        /\ UNCHANGED <<ttl, clock, issued, loggedOut, expired, lo>>
        /\ Emit([k |-> "use", t |-> t, d |-> 0], Proj', o.res)

\* A logout request (one at a time is enough for the races of interest).
LogoutCall(t) ==
    /\ Idle
    /\ lo' = [lo EXCEPT ![t] = "called"]
    /\ out' = [act |-> "lcall", t |-> t, res |-> "none"]
    /\ UNCHANGED <<ttl, mem, db, clock, issued, loggedOut, expired>>
    /\ Emit([k |-> "lcall", t |-> t, d |-> 0], Proj', "none")

\* Its effect: the token leaves memory and the file in one indivisible step.
LogoutDo(t) ==
    /\ lo[t] = "called"
    /\ LET s2 == LogoutEffect(Store, t) IN mem' = s2.mem /\ db' = s2.db
    /\ loggedOut' = loggedOut \cup ({t} \cap issued)
    /\ lo' = [lo EXCEPT ![t] = "done"]
    /\ out' = [act |-> "ldo", t |-> t, res |-> "none"]
    /\ UNCHANGED <<ttl, clock, issued, expired>>
    /\ Emit([k |-> "ldo", t |-> t, d |-> 0], Proj', "none")

LogoutRet(t) ==
    /\ lo[t] = "done"
    /\ lo' = [lo EXCEPT ![t] = "idle"]
    /\ out' = [act |-> "lret", t |-> t, res |-> "ok"]
    /\ UNCHANGED <<ttl, mem, db, clock, issued, loggedOut, expired>>
    /\ Emit([k |-> "lret", t |-> t, d |-> 0], Proj', "ok")

Tick(d) ==
    /\ clock' = clock + d
    /\ LET s2 == TickEffect(Store, clock') IN mem' = s2.mem /\ db' = s2.db
    /\ expired' = expired \cup {t \in issued : \/ mem[t] # 0 /\ mem[t] <= clock'
                                               \/ db[t] # 0 /\ db[t] <= clock'}
    /\ out' = [act |-> "tick", t |-> "", res |-> "none"]
    /\ UNCHANGED <<ttl, issued, loggedOut, lo>>
    /\ Emit([k |-> "tick", t |-> "", d |-> d], Proj', "none")

Restart ==
    /\ mem' = RestartEffect(Store, clock).mem
    /\ lo' = [t \in Tokens |-> "idle"]       \* requests in progress die with the process
    /\ out' = [act |-> "restart", t |-> "", res |-> "none"]
    /\ UNCHANGED <<ttl, db, clock, issued, loggedOut, expired>>
    /\ Emit([k |-> "restart", t |-> "", d |-> 0], Proj', "none")

Next ==
    \/ \E t \in Tokens : Login(t) \/ Use(t) \/ LogoutCall(t) \/ LogoutDo(t) \/ LogoutRet(t)
    \/ \E d \in 1..MaxTick : Tick(d)
    \/ Restart

Spec == Init /\ [][Next]_vars

(***************************************************************************)
(* The statement, in terms of the ghosts only.                             *)
(***************************************************************************)
ShouldAuthenticate(t) == t \in issued /\ t \notin loggedOut /\ t \notin expired

\* Only between creation and expiry/logout -- and (so that the model is not
\* vacuously safe) always between them.
TokenValidOnlyBetween ==
    out.act = "use" => (out.res = "ok" <=> ShouldAuthenticate(out.t))

\* A logged-out token is gone from memory and from the file: no request --
\* not even one served while the logout was in progress -- and no restart can
\* bring it back.
LogoutIsPersistent == \A t \in loggedOut : mem[t] = 0 /\ db[t] = 0

\* When a logout returns, the token does not authenticate any more.
LogoutReturnsDone == out.act = "lret" => ~ShouldAuthenticate(out.t) /\ mem[out.t] = 0 /\ db[out.t] = 0

\* The same for a token whose expiry was reached.
ExpiryIsPersistent == \A t \in expired : mem[t] = 0 /\ db[t] = 0

\* A restart changes nothing: what the file holds is what memory holds.
RestartChangesNothing == mem = db

\* Live tokens are present (no spurious loss), with a bounded lifetime.
LiveIsPresent ==
    \A t \in Tokens : ShouldAuthenticate(t) <=> (mem[t] > clock)

LifetimeBounded == \A t \in Tokens : mem[t] # 0 => mem[t] <= clock + ttl

RestartIsNoOp == [][out'.act = "restart" => mem' = mem /\ db' = db]_vars
=============================================================================
