------------------------- MODULE RuntimeClientsCore -------------------------
(***************************************************************************)
(* G05 -- runtime ("auto") clients and per-client upstream configurations  *)
(* of internal/client, as constant-level vocabulary.                       *)
(*                                                                         *)
(* No variables here.  RuntimeClients.tla (the state machine TLC explores  *)
(* exhaustively; every labelled edge is replayed into a real               *)
(* client.Storage) and TraceRuntimeClients.tla (validation of histories    *)
(* recorded from the real code) both use exactly these operators, so both  *)
(* binding directions tie the code to one text.  The persistent registry,  *)
(* its clash rules and the attribution precedence                          *)
(*        ClientID > exact IP > most specific CIDR > MAC of the DHCP lease *)
(* are those of C04 (ClientsCore.tla, EXTENDed unchanged).                 *)
(*                                                                         *)
(* PART 1 -- runtime clients.                                              *)
(*                                                                         *)
(* What AdGuard Home knows about an address that is not a configured       *)
(* client comes from five sources.  client.go: "Clients information        *)
(* sources.  The order determines the priority":                           *)
(*          WHOIS < ARP < rDNS < DHCP < hosts file                         *)
(* (CHANGELOG v0.107.7: "Reverse DNS now has a greater priority as the     *)
(* source of runtime clients' information than ARP neighborhood").         *)
(* The runtime view RT is a function  address -> record with one datum per *)
(* source.  A datum is None ("the source knows nothing about the           *)
(* address"), or a host name; the EMPTY name "" means "the source knows    *)
(* the address but has no name for it" (client.go, type Runtime: "nil      *)
(* indicates that there is no information from the source.  Empty non-nil  *)
(* slice indicates that the data from the source is present, but empty").  *)
(* For WHOIS the datum is an opaque info token, never a name.              *)
(*                                                                         *)
(* An address all of whose data are None is NOT a runtime client: it is    *)
(* not listed and a lookup finds nothing.  The abstract RT therefore has   *)
(* no notion of "an entry exists"; a stale empty entry cannot be           *)
(* expressed, and the Go harness's abstraction function rejects one.       *)
(***************************************************************************)
EXTENDS ClientsCore, Sequences

None == "-"

SrcSeq == <<"whois", "arp", "rdns", "dhcp", "hosts">>      \* ascending priority
Srcs   == {SrcSeq[i] : i \in 1..5}
Prio(s) == CHOOSE i \in 1..5 : SrcSeq[i] = s

NoInfo == [whois |-> None, arp |-> None, rdns |-> None, dhcp |-> None, hosts |-> None]

\* The sources that currently know the address.
Known(r) == {s \in Srcs : r[s] # None}

(***************************************************************************)
(* What is reported for an address (GET /control/clients `auto_clients`    *)
(* items {ip, name, source, whois_info}; clients/find and the query log    *)
(* use name and whois_info):  <<source, name, whois>>.  "Info returns a    *)
(* client information from the highest-priority source."  Written as the   *)
(* chain one would compute it with; RuntimeClients!WinnerIsHighest states  *)
(* the same thing declaratively and TLC checks they agree.                 *)
(***************************************************************************)
Winner(r) == IF r.hosts # None THEN "hosts"
             ELSE IF r.dhcp # None THEN "dhcp"
             ELSE IF r.rdns # None THEN "rdns"
             ELSE IF r.arp # None THEN "arp"
             ELSE IF r.whois # None THEN "whois"
             ELSE "none"

View(r) == LET s == Winner(r) IN
           <<s, IF s \in {"none", "whois"} THEN "" ELSE r[s], r.whois>>

NoView == <<"none", "", None>>

(***************************************************************************)
(* The DHCP server's lease table L (environment): address -> [mac, host].  *)
(* host may be "" (a machine that sent no host name).  MacOf(L) is the     *)
(* table ClientsCore's attribution reads (DHCP.MACByIP).                   *)
(***************************************************************************)
NoLease == [mac |-> NoId, host |-> None]
LeaseAt(L, a) == IF a \in DOMAIN L THEN L[a] ELSE NoLease
MacOf(L) == [a \in DOMAIN L |-> L[a].mac]

(***************************************************************************)
(* Source updates.  "UpdateAddress / ReloadARP / hosts-file updates /      *)
(* UpdateDHCP replace only their own source's data": a table update T      *)
(* (address -> datum) REPLACES the whole column of source s and touches no *)
(* other column.  Addresses missing from T lose the datum of s; if that    *)
(* was their last one they stop being runtime clients (storage.go:         *)
(* clearSource, setInfo per item, removeEmpty).                            *)
(***************************************************************************)
SetSource(RT, s, T) == [a \in DOMAIN RT |-> [RT[a] EXCEPT ![s] = T[a]]]

\* Hosts file: the whole file arrives with every change.  "Only the first
\* name of the first record is considered a canonical hostname for the IP
\* address": T[a] is that first name (the trace spec takes Head).
HostsUpdate(RT, T) == SetSource(RT, "hosts", T)

(***************************************************************************)
(* ARP: the neighbour table is re-read (at start, periodically, on SIGHUP).*)
(* A NON-EMPTY table replaces the ARP column.  For an EMPTY table the      *)
(* documentation is silent (the code keeps the old column and logs "the    *)
(* update is empty"; "replace" would clear it): both are admitted.         *)
(***************************************************************************)
ArpRefreshAlts(RT, T) ==
    IF \A a \in DOMAIN T : T[a] = None
    THEN {RT, SetSource(RT, "arp", T)}
    ELSE {SetSource(RT, "arp", T)}

(***************************************************************************)
(* UpdateAddress(ip, host, whois) -- the address processor's report of an  *)
(* rDNS name and/or WHOIS info.  host = "" / whois = None mean "nothing    *)
(* to report" for that half.  rDNS can only be set, never cleared.         *)
(* WHOIS info is NOT recorded for an address that a persistent client owns *)
(* by exact IP or CIDR at that moment ("persistent client is already       *)
(* created, ignore whois info"; storage_test "can't_set_persistent_client")*)
(* Whether ownership through the MAC of a DHCP lease counts is not         *)
(* documented: both outcomes are admitted there.                           *)
(***************************************************************************)
OwnedByAddr(R, a) == Owners(R, <<"ip", a, 0>>) # {} \/ Covering(R, a) # {}
OwnedByLease(R, ML, a) ==
    /\ ~OwnedByAddr(R, a)
    /\ LeaseOf(ML, a) # NoId
    /\ Owners(R, LeaseOf(ML, a)) # {}

UpdAddrAlts(RT, R, ML, a, h, w) ==
    LET r1  == IF h # "" THEN [RT[a] EXCEPT !.rdns = h] ELSE RT[a]
        ign == [RT EXCEPT ![a] = r1]
        set == [RT EXCEPT ![a] = [r1 EXCEPT !.whois = w]]
    IN IF w = None \/ OwnedByAddr(R, a) THEN {ign}
       ELSE IF OwnedByLease(R, ML, a) THEN {ign, set}
       ELSE {set}

(***************************************************************************)
(* DHCP.  With clients.runtime_sources.dhcp on, the DHCP column is a copy  *)
(* of the lease table that is refreshed                                    *)
(*   * completely by UpdateDHCP ("updates SourceDHCP runtime client        *)
(*     information"), which GET /control/clients runs before listing: a    *)
(*     lease that went away takes its runtime client with it;              *)
(*   * for one address by a lookup (ClientRuntime: "check the DHCP server  *)
(*     and add the client information if there is any"), unless the hosts  *)
(*     file already names the address ("SourceHostsFile > SourceDHCP").    *)
(* With the switch off the column stays None.                              *)
(***************************************************************************)
SyncDHCP(RT, L, on) ==
    IF on THEN SetSource(RT, "dhcp", [a \in DOMAIN RT |-> LeaseAt(L, a).host]) ELSE RT

LookupRT(RT, L, on, a) ==
    IF on /\ RT[a].hosts = None /\ LeaseAt(L, a).host \notin {None, ""}
    THEN [RT EXCEPT ![a].dhcp = LeaseAt(L, a).host]
    ELSE RT

\* What a lookup may report.  Between two UpdateDHCP a lease may have ended
\* (or lost its name) while the column still holds the name: the
\* documentation does not say whether the lookup notices.  Both the
\* remembered and the current datum are admitted; nothing else is.
LookupViews(RT, L, on, a) ==
    LET r == LookupRT(RT, L, on, a)[a] IN
    {View(r)} \cup (IF on /\ r.dhcp # None /\ LeaseAt(L, a).host \in {None, ""}
                    THEN {View([r EXCEPT !.dhcp = LeaseAt(L, a).host])} ELSE {})

(***************************************************************************)
(* "A persistent client shadows the runtime one" (AGHTechDoc, clients/find:*)
(* "returns the list of clients (manual and auto-clients) matching the IP  *)
(* list"): the address is first attributed as C04 says (exact IP, CIDR,    *)
(* lease MAC); only if nobody owns it the runtime client is reported.      *)
(* Yields [p, v, rt]: the persistent owner's name or "", the admissible    *)
(* runtime views otherwise, and the next runtime view.                     *)
(***************************************************************************)
WhoRes(RT, R, L, on, a) ==
    LET p == ByAddr(R, MacOf(L), a) IN
    IF p.name # ""
    THEN [p |-> p.name, v |-> {}, rt |-> RT]
    ELSE [p |-> "", v |-> LookupViews(RT, L, on, a), rt |-> LookupRT(RT, L, on, a)]

(***************************************************************************)
(* PART 2 -- per-client upstreams.                                         *)
(*                                                                         *)
(* A client record here is                                                 *)
(*   [name, ids, ups, ce, cfg]                                             *)
(* ups  the client's `upstreams` lines, a sequence of [t, v] with          *)
(*      t = "up" (an upstream v), "comment" or "empty" ("skips empty lines *)
(*      and comments"; CHANGELOG v0.106: "Comment handling in clients'     *)
(*      custom upstreams");                                                *)
(* ce   upstreams_cache_enabled (the size is concretised, not modelled);   *)
(* cfg  whether a configuration BUILT FROM THE CURRENT SETTINGS exists:    *)
(*      "unbuilt"  none: the next lookup must build a new one;             *)
(*      "built"    one exists and nothing changed since: the next lookup   *)
(*                 must hand out that same one -- it carries the client's  *)
(*                 DNS cache ("cache configuration for each client's       *)
(*                 custom upstream configuration"), which is worth nothing *)
(*                 if the configuration is rebuilt between two queries;    *)
(*      "either"   the client was updated with unchanged upstream          *)
(*                 settings: keeping or rebuilding are both fine.          *)
(* ClientsCore's operators only read name and ids.                         *)
(***************************************************************************)
EffUps(u)  == SelectSeq(u, LAMBDA x : x.t = "up")
EffVals(u) == [i \in 1..Len(EffUps(u)) |-> EffUps(u)[i].v]

NilOut == [who |-> "", ups |-> <<>>, ce |-> FALSE, fresh |-> {}]

\* How the request (ClientID cid or NoId, source address a) is attributed.
Via(R, ML, cid, a) ==
    IF cid # NoId /\ Owners(R, cid) # {} THEN "cid"
    ELSE IF Owners(R, <<"ip", a, 0>>) # {} THEN "ip"
    ELSE IF Covering(R, a) # {} THEN "net"
    ELSE IF LeaseOf(ML, a) # NoId /\ Owners(R, LeaseOf(ML, a)) # {} THEN "mac"
    ELSE "none"

(***************************************************************************)
(* CustomUpstreamConfig(cid, a): "returns the custom client upstream       *)
(* configuration, if any".  The request is attributed with the precedence  *)
(* of C04; no owner, or an owner without effective upstream lines -> nil.  *)
(* Otherwise the configuration handed out is described by                  *)
(*   [who, ups, ce, fresh]:  the owner, ITS CURRENT effective upstreams    *)
(* and cache switch, and the admissible identities: "same" = the object    *)
(* handed out by the previous lookup for this client, "new" = an object    *)
(* never handed out before.  A configuration built before the last change  *)
(* of the client's upstream settings or of the common upstream settings    *)
(* is never admissible ("Changes to global upstream DNS settings not       *)
(* applying to custom client upstream configurations" was a bug).          *)
(***************************************************************************)
CustRes(R, ML, cid, a) ==
    LET c == Resolve(R, ML, cid, a) IN
    IF c.name = "" THEN [out |-> NilOut, reg |-> R]
    ELSE IF EffUps(c.ups) = <<>> THEN [out |-> NilOut, reg |-> R]
    ELSE [out |-> [who |-> c.name, ups |-> EffVals(c.ups), ce |-> c.ce,
                   fresh |-> CASE c.cfg = "built"  -> {"same"}
                               [] c.cfg = "either" -> {"same", "new"}
                               [] OTHER            -> {"new"}],
          reg |-> (R \ {c}) \cup {[c EXCEPT !.cfg = "built"]}]

\* Add: the clash rules of C04; nothing is built yet.
AddCRes(R, c) == AddRes(R, [c EXCEPT !.cfg = "unbuilt"])

\* Update: C04's rules; the new settings invalidate what was built, unless
\* the upstream settings are the very same ("either").
UpdCRes(R, n, c) ==
    LET old  == ByName(R, n)
        keep == old.name # "" /\ old.cfg # "unbuilt" /\ old.ups = c.ups /\ old.ce = c.ce
    IN UpdateRes(R, n, [c EXCEPT !.cfg = IF keep THEN "either" ELSE "unbuilt"])

\* UpdateCommonUpstreamConfig: the common settings (bootstrap, timeout, ECS,
\* HTTP/3) are part of every built configuration: all are invalidated.
CommonRes(R) == {[c EXCEPT !.cfg = "unbuilt"] : c \in R}
=============================================================================
