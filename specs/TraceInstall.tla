---------------------------- MODULE TraceInstall ----------------------------
(***************************************************************************)
(* Direction B for G08 (A): histories recorded from the real handlers      *)
(* (arena I of the harness: seeded random calls over a larger universe --  *)
(* a third account, more ports -- with restarts, factory resets and disk   *)
(* faults) are validated against Install.tla.  The trace carries, per      *)
(* step, the abstract request, the status code (and the two verdicts of    *)
(* check_config) and the projection of the real state after the step.  A   *)
(* line is accepted iff Install!Out admits an outcome with that code whose *)
(* destination projects to exactly that observation; the specification     *)
(* state then moves there.  After a rejected line the rest of the          *)
(* behaviour (up to the next "reset" line) is skipped and counted.         *)
(* Everything is Install.tla's own text; only the driving is new.          *)
(***************************************************************************)
EXTENDS Install

Trace == ndJsonDeserialize("trace.ndjson")

VARIABLES l, bad, lost, skipped

tvars == <<st, l, bad, lost, skipped>>

Set(s) == {s[i] : i \in DOMAIN s}

Wellformed(o) == "firstRun" \in DOMAIN o

LineObs(o) ==
    [firstRun |-> o.firstRun, accounts |-> Set(o.accounts),
     file |-> [exists |-> o.file.exists, users |-> Set(o.file.users), web |-> o.file.web, dns |-> o.file.dns],
     web |-> o.web, dns |-> o.dns, dnsUp |-> o.dnsUp,
     probeNone |-> o.probeNone, probeU1 |-> o.probeU1, probeU2 |-> o.probeU2,
     wizard |-> o.wizard, webBindable |-> o.webBindable]

LabOf(ln) == IF ln.act \in {"check_config", "configure"} THEN [act |-> ln.act, req |-> ln.req] ELSE [act |-> ln.act]

\* The probes of the trace ask as u1 and u2 only; u3's installations are seen
\* through the account table and the file.
Matches(ln) ==
    IF ~Wellformed(ln.obs) THEN {}
    ELSE {o \in Out(st, LabOf(ln)) :
            /\ o.code = ln.code
            /\ Obs(o.st) = LineObs(ln.obs)
            /\ o.st.fault = ln.fault
            /\ (ln.act = "check_config" => o.web = ln.web /\ o.dns = ln.dns)}

TInit == /\ st = Init0 /\ l = 1 /\ bad = {} /\ lost = FALSE /\ skipped = 0

TStep ==
    /\ l <= Len(Trace)
    /\ LET ln == Trace[l] IN
       IF ln.ev = "reset"
       THEN /\ st' = Init0 /\ lost' = FALSE /\ UNCHANGED <<bad, skipped>>
       \* a factory reset starts a new deployment whatever went before
       ELSE IF lost /\ ln.act = "wipe" /\ Wellformed(ln.obs) /\ LineObs(ln.obs) = Obs(Init0) /\ ~ln.fault
       THEN /\ st' = Init0 /\ lost' = FALSE /\ UNCHANGED <<bad, skipped>>
       ELSE IF lost
       THEN /\ skipped' = skipped + 1 /\ UNCHANGED <<st, bad, lost>>
       ELSE LET m == Matches(ln) IN
            IF m # {}
            THEN /\ st' = (CHOOSE o \in m : TRUE).st /\ UNCHANGED <<bad, lost, skipped>>
            ELSE /\ bad' = bad \cup {[i |-> l, act |-> ln.act,
                                      codes |-> {o.code : o \in Out(st, LabOf(ln))},
                                      state_matches |-> Wellformed(ln.obs) /\ \E o \in Out(st, LabOf(ln)) :
                                                            Obs(o.st) = LineObs(ln.obs) /\ o.st.fault = ln.fault]}
                 /\ lost' = TRUE /\ UNCHANGED <<st, skipped>>
    /\ l' = l + 1
    /\ (l' = Len(Trace) + 1 => PrintT(<<"@@V", ToJson([n |-> Len(Trace), bad |-> bad', skipped |-> skipped'])>>))

TSpec == TInit /\ [][TStep]_tvars
=============================================================================
