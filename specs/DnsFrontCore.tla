---------------------------- MODULE DnsFrontCore ----------------------------
(***************************************************************************)
(* G01 -- the FRONT STAGES of the DNS request pipeline: what a request     *)
(* meets before the blocklists and the upstreams are consulted.  Pure      *)
(* operators over a configuration record and a request record, shared by   *)
(* the exhaustive model (DnsFront.tla) and by trace validation             *)
(* (TraceDnsFront.tla).                                                    *)
(*                                                                         *)
(* Written from the documentation (field comments of dnsforward/config.go  *)
(* and home/config.go, CHANGELOG entries #2704 #2889 #3028 #3142 #3184     *)
(* #4463 #4699 #4865 #4927, the comments on the constants and stage        *)
(* functions in dnsforward/process.go and dnsproxy's Config.RefuseAny):    *)
(*                                                                         *)
(*  S1 refuse_any      a question of type ANY is refused (NOTIMP) whatever *)
(*                     the name; it is neither forwarded nor logged.       *)
(*  S2 private zones   PTR/SOA/NS questions for a reverse name inside the  *)
(*                     private networks are refused to clients from        *)
(*                     outside the private networks ("access to the        *)
(*                     private hosts is forbidden for users from external  *)
(*                     networks"): NXDOMAIN or REFUSED, never forwarded.   *)
(*  S3 aaaa_disabled   "respond with an empty answer to ALL AAAA requests":*)
(*                     NOERROR without records, never forwarded -- also    *)
(*                     for the canary, the DDR name, a DHCP host name or   *)
(*                     a blocked name.                                     *)
(*  S4 canary          A/AAAA for use-application-dns.net get NXDOMAIN     *)
(*                     (that name only: not its subdomains, not other      *)
(*                     types).                                             *)
(*  S5 healthcheck     healthcheck.adguardhome.test gets a NODATA answer,  *)
(*                     any type.                                           *)
(*  S6 DDR             with handle_ddr, _dns.resolver.arpa is answered     *)
(*                     locally: SVCB -> one record per configured          *)
(*                     encrypted endpoint (DoH: alpn h2 + port + dohpath;  *)
(*                     DoT: alpn dot + port, only when the certificate     *)
(*                     names an IP address; DoQ: alpn doq + port), target  *)
(*                     = the server name; other types -> empty.  Without   *)
(*                     handle_ddr it is an ordinary name.                  *)
(*  S7 DHCP hosts      DHCP on, A/AAAA for <host>.<local domain> (one      *)
(*                     label, case-insensitive): a client from outside the *)
(*                     private networks gets NXDOMAIN and the request is   *)
(*                     not logged; otherwise a lease answers (A: its       *)
(*                     address, AAAA: empty) -- names "not pointing to     *)
(*                     real DHCP client hostnames are processed by         *)
(*                     filters", and if not filtered get NXDOMAIN.  Such a *)
(*                     name is never forwarded.  DHCP off: ordinary name.  *)
(*  S8 DHCP PTR        PTR for a leased address inside the private         *)
(*                     networks, from a private client: <host>.<local      *)
(*                     domain>, not forwarded.                             *)
(*  S9 private rDNS    other PTR/SOA/NS questions for private reverse      *)
(*                     names go to the private resolvers only, and nowhere *)
(*                     when use_private_ptr_resolvers is off.              *)
(*  S10 the rest       a blocked name is answered locally (C01), anything  *)
(*                     else is forwarded to the general upstream, intact.  *)
(*  S11 DNS64          (use_dns64; RFC 6147 as quoted in dnsproxy) an AAAA *)
(*                     answer keeps only the records outside the exclusion *)
(*                     prefixes (dns64_prefixes, or the Well-Known Prefix  *)
(*                     when none is configured); when none is left (or the *)
(*                     answer is empty) the A records are asked for and    *)
(*                     AAAA records are synthesised from them under the    *)
(*                     first prefix; NXDOMAIN passes.  A DHCP lease        *)
(*                     answers AAAA with its mapped address.  PTR for an   *)
(*                     address under a DNS64 prefix goes to the private    *)
(*                     resolvers only.                                     *)
(*  S1..S10 is the order of precedence; S11 refines what forwarding (S10)  *)
(*  delivers and the AAAA answer of S7; its PTR clause comes after S9.     *)
(*                                                                         *)
(* Where the documentation is silent the verdict is a SET:                 *)
(*  * whether a locally answered request is written to the query log       *)
(*    (only S1, S7-outside and forwarded/blocked requests are pinned);     *)
(*  * a special name (S4-S6) spelled with upper-case letters: DNS names    *)
(*    are case-insensitive, the documentation does not say that these      *)
(*    comparisons are -- both "recognised" and "ordinary name" admitted;   *)
(*  * DHCP switched off while leases persist: S8 may or may not apply;     *)
(*  * the rcode of a refused private reverse question.                     *)
(*                                                                         *)
(* cfg [aaaaOff, refuseAny, ddr : BOOLEAN,                                 *)
(*      tls  [on : BOOLEAN, doh, dot, doq : port text or "", certIP],      *)
(*      dhcp : BOOLEAN, leases : set of [h : label, a : address],          *)
(*      suffix : name (sequence of labels), privPTR : BOOLEAN,             *)
(*      blocked : set of names (each blocks itself and its subdomains),    *)
(*      dns64 : BOOLEAN]                                                   *)
(* req [name : lower-case labels, canon : the wire spelling was lower case,*)
(*      qt : type text, cpriv : the client is inside the private networks, *)
(*      rev [ok : the name is a reverse name, priv : of an address (or     *)
(*           zone) inside the private networks, a : that address,          *)
(*           n64 : of an address under a configured DNS64 prefix or the    *)
(*           Well-Known Prefix],                                           *)
(*      up  what the general upstream answers for this name:               *)
(*          [nx : AAAA gets NXDOMAIN, a6 : set of [a : address, excl : it  *)
(*           lies inside an exclusion prefix], a4 : set of addresses]]     *)
(* out [c : class, fwd : "none" | "gen" | "priv" | "gen+a" (the general    *)
(*      upstream was asked the question and then the A records),           *)
(*      v : set of texts,                                                  *)
(*      log : BOOLEAN, why : the clause that produced it (not observable)] *)
(*   classes: "notimp" "ref" "nx" "servfail" (rcodes, no answer),          *)
(*            "empty" (NOERROR, no records), "up" (the upstream's answer), *)
(*            "a" (A records, v = addresses), "ptr" (v = host labels),     *)
(*            "svcb" (v = "<alpn>:<port>"), "null" (0.0.0.0 / ::, the      *)
(*            default blocking mode's answer for A/AAAA), "aaaa" (AAAA     *)
(*            records other than the upstream's own answer, v = addresses, *)
(*            "syn:<ipv4>" for the DNS64 mapping of an IPv4 address)       *)
(***************************************************************************)
EXTENDS Sequences, Naturals, FiniteSets

IsSuffixOf(s, t) == Len(s) <= Len(t) /\ SubSeq(t, Len(t) - Len(s) + 1, Len(t)) = s
\* n is d or a subdomain of d
SubOrEq(n, d)    == IsSuffixOf(d, n)
\* n is exactly one label in front of s
Immediate(n, s)  == Len(n) = Len(s) + 1 /\ IsSuffixOf(s, n)

CANARY  == <<"use-application-dns", "net">>
HEALTH  == <<"healthcheck", "adguardhome", "test">>
DDRNAME == <<"_dns", "resolver", "arpa">>
IsSpecial(n) == n \in {CANARY, HEALTH, DDRNAME}

Out(c, fwd, v, log, why) == [c |-> c, fwd |-> fwd, v |-> v, log |-> log, why |-> why]
\* a local answer whose logging the documentation does not pin
Local(c, v, why)      == {Out(c, "none", v, l, why) : l \in BOOLEAN}
\* a local answer that must not reach the query log
Silent(c, v, why)     == {Out(c, "none", v, FALSE, why)}

\* ------------------------------------------------------------------ S6: DDR
\* The designated resolvers: one "<alpn>:<port>" per configured endpoint.
Endpoints(tls) ==
    IF ~tls.on THEN {}
    ELSE (IF tls.doh # "" THEN {"h2:" \o tls.doh} ELSE {})
         \cup (IF tls.dot # "" /\ tls.certIP THEN {"dot:" \o tls.dot} ELSE {})
         \cup (IF tls.doq # "" THEN {"doq:" \o tls.doq} ELSE {})

\* ------------------------------------------------------------- leases, rules
LeaseAddrs(cfg, h) == {l.a : l \in {x \in cfg.leases : x.h = h}}
LeaseHosts(cfg, a) == {l.h : l \in {x \in cfg.leases : x.a = a}}

IsBlocked(cfg, n) == \E d \in cfg.blocked : SubOrEq(n, d)
\* default blocking mode: null address for A/AAAA, NODATA for other types
BlockedOut(qt, why) ==
    IF qt \in {"A", "AAAA"} THEN {Out("null", "none", {}, TRUE, why)}
    ELSE {Out("empty", "none", {}, TRUE, why)}

PrivArpa(req) == req.rev.ok /\ req.rev.priv /\ req.qt \in {"PTR", "SOA", "NS"}
LanHost(cfg, req) == cfg.dhcp /\ req.qt \in {"A", "AAAA"} /\ Immediate(req.name, cfg.suffix)

\* The class of the general upstream's own answer to the question.
UpAnswer(req) ==
    CASE req.qt = "AAAA" -> IF req.up.nx THEN "nx" ELSE IF req.up.a6 = {} THEN "empty" ELSE "up"
      [] req.qt = "A"    -> IF req.up.a4 = {} THEN "empty" ELSE "up"
      [] OTHER           -> "up"

Syn(as) == {"syn:" \o a : a \in as}

\* S10, S11: forwarding to the general upstream.
Forward(cfg, req) ==
    IF ~cfg.dns64 \/ req.qt # "AAAA" THEN {Out(UpAnswer(req), "gen", {}, TRUE, "fwd")}
    ELSE IF req.up.nx THEN {Out("nx", "gen", {}, TRUE, "fwd64-nx")}
    ELSE LET keep == {x \in req.up.a6 : ~x.excl}
         IN IF keep # {}
            THEN IF keep = req.up.a6 THEN {Out("up", "gen", {}, TRUE, "fwd64-pass")}
                 ELSE {Out("aaaa", "gen", {x.a : x \in keep}, TRUE, "fwd64-filter")}
            ELSE IF req.up.a4 # {}
                 THEN {Out("aaaa", "gen+a", Syn(req.up.a4), TRUE, "fwd64-syn")}
                 \* nothing to synthesise from: "the answer received to the original
                 \* query" -- with or without its excluded records
                 ELSE {Out("empty", "gen+a", {}, TRUE, "fwd64-none")}
                      \cup (IF req.up.a6 # {} THEN {Out("up", "gen+a", {}, TRUE, "fwd64-none")} ELSE {})

\* PTR for an address under a DNS64 prefix
N64Ptr(cfg, req) == cfg.dns64 /\ req.qt = "PTR" /\ req.rev.ok /\ req.rev.n64

\* S9, S10
Rest(cfg, req) ==
    IF IsBlocked(cfg, req.name) THEN BlockedOut(req.qt, "blk")
    ELSE IF PrivArpa(req)
         THEN IF cfg.privPTR THEN {Out("up", "priv", {}, TRUE, "rdns-priv")}
              ELSE UNION {Local(c, {}, "rdns-off") : c \in {"nx", "ref", "servfail"}}
    ELSE IF N64Ptr(cfg, req)
         THEN IF cfg.privPTR /\ req.cpriv THEN {Out("up", "priv", {}, TRUE, "rdns64-priv")}
              ELSE UNION {Local(c, {}, "rdns64-off") : c \in {"nx", "ref", "servfail"}}
    ELSE Forward(cfg, req)

\* The verdict when the special names are (sp) / are not recognised.
V(cfg, req, sp) ==
    LET n  == req.name
        qt == req.qt
    IN
    IF qt = "ANY" /\ cfg.refuseAny THEN Silent("notimp", {}, "any")                         \* S1
    ELSE IF PrivArpa(req) /\ ~req.cpriv
         THEN Local("nx", {}, "deny") \cup Local("ref", {}, "deny")                          \* S2
    ELSE IF qt = "AAAA" /\ cfg.aaaaOff THEN Local("empty", {}, "aaaa")                       \* S3
    ELSE IF sp /\ n = CANARY /\ qt \in {"A", "AAAA"} THEN Local("nx", {}, "canary")          \* S4
    ELSE IF sp /\ n = HEALTH THEN Local("empty", {}, "health")                               \* S5
    ELSE IF sp /\ cfg.ddr /\ n = DDRNAME                                                     \* S6
         THEN IF qt = "SVCB" /\ Endpoints(cfg.tls) # {}
              THEN Local("svcb", Endpoints(cfg.tls), "ddr")
              ELSE Local("empty", {}, "ddr-empty")
    ELSE IF LanHost(cfg, req)                                                                \* S7
         THEN IF ~req.cpriv THEN Silent("nx", {}, "lan-outside")
              ELSE IF LeaseAddrs(cfg, Head(n)) # {}
                   THEN IF qt = "A" THEN Local("a", LeaseAddrs(cfg, Head(n)), "lan-a")
                        ELSE IF cfg.dns64 THEN Local("aaaa", Syn(LeaseAddrs(cfg, Head(n))), "lan-aaaa64")
                        ELSE Local("empty", {}, "lan-aaaa")
              ELSE IF IsBlocked(cfg, n) THEN BlockedOut(qt, "lan-blk")
              ELSE Local("nx", {}, "lan-nx")
    ELSE IF PrivArpa(req) /\ qt = "PTR" /\ LeaseHosts(cfg, req.rev.a) # {}                   \* S8
         THEN IF cfg.dhcp THEN Local("ptr", LeaseHosts(cfg, req.rev.a), "ptr-lease")
              ELSE Local("ptr", LeaseHosts(cfg, req.rev.a), "ptr-lease-off") \cup Rest(cfg, req)
    ELSE Rest(cfg, req)

Verdict(cfg, req) ==
    IF IsSpecial(req.name) /\ ~req.canon THEN V(cfg, req, TRUE) \cup V(cfg, req, FALSE)
    ELSE V(cfg, req, TRUE)

\* What the harness observes of an outcome.
Obs(o) == [c |-> o.c, fwd |-> o.fwd, v |-> o.v, log |-> o.log]

\* ------------------------------------------- the statements, declaratively
\* Sentence by sentence, over the outcome set os of one (cfg, req), and NOT
\* through V, so that checking them on the tables is not a tautology.
Answered(os, cs) == \A o \in os : o.c \in cs /\ o.fwd = "none"

StRefuseAny(cfg, req, os) ==
    (cfg.refuseAny /\ req.qt = "ANY") => Answered(os, {"notimp"}) /\ \A o \in os : ~o.log
StAAAADisabled(cfg, req, os) ==
    (cfg.aaaaOff /\ req.qt = "AAAA") => Answered(os, {"empty"})
StCanary(cfg, req, os) ==
    (req.name = CANARY /\ req.canon /\ req.qt \in {"A", "AAAA"}) =>
        /\ Answered(os, {"nx", "empty"})
        /\ (~cfg.aaaaOff \/ req.qt = "A") => Answered(os, {"nx"})
StHealth(cfg, req, os) ==
    (req.name = HEALTH /\ req.canon /\ ~(cfg.refuseAny /\ req.qt = "ANY")) => Answered(os, {"empty"})
StDDR(cfg, req, os) ==
    (cfg.ddr /\ req.name = DDRNAME /\ req.canon) =>
        /\ \A o \in os : o.fwd = "none"
        /\ (req.qt = "SVCB") =>
              \A o \in os :
                 /\ o.c \in {"svcb", "empty"}
                 /\ (o.c = "svcb") = (cfg.tls.on /\ (cfg.tls.doh # "" \/ cfg.tls.doq # "" \/ (cfg.tls.dot # "" /\ cfg.tls.certIP)))
                 /\ (o.c = "svcb") =>
                       /\ ("h2:" \o cfg.tls.doh \in o.v) = (cfg.tls.doh # "")
                       /\ ("doq:" \o cfg.tls.doq \in o.v) = (cfg.tls.doq # "")
                       /\ ("dot:" \o cfg.tls.dot \in o.v) = (cfg.tls.dot # "" /\ cfg.tls.certIP)
                       /\ Cardinality(o.v) <= 3
StDDROffIsOrdinary(cfg, req, os) ==
    (~cfg.ddr /\ req.name = DDRNAME) => \A o \in os : o.c # "svcb"
\* Nothing about the local network is told to, or asked on behalf of, a
\* client from outside the private networks.
StOutsideLearnsNothing(cfg, req, os) ==
    ~req.cpriv => \A o \in os : o.c \notin {"a", "ptr"} /\ o.fwd # "priv"
StLanNeverForwarded(cfg, req, os) ==
    LanHost(cfg, req) => \A o \in os : o.fwd = "none"
StLanOutsideSilent(cfg, req, os) ==
    (LanHost(cfg, req) /\ ~req.cpriv /\ ~(cfg.aaaaOff /\ req.qt = "AAAA")) =>
        Answered(os, {"nx"}) /\ \A o \in os : ~o.log
StLeaseAnswers(cfg, req, os) ==
    (LanHost(cfg, req) /\ req.cpriv /\ req.qt = "A" /\ LeaseAddrs(cfg, Head(req.name)) # {}) =>
        \A o \in os : o.c = "a" /\ o.v = LeaseAddrs(cfg, Head(req.name))
StUnknownLanFiltered(cfg, req, os) ==
    (LanHost(cfg, req) /\ req.cpriv /\ req.qt = "A" /\ LeaseAddrs(cfg, Head(req.name)) = {}) =>
        \A o \in os : o.c = (IF IsBlocked(cfg, req.name) THEN "null" ELSE "nx")
StDHCPOffIsOrdinary(cfg, req, os) ==
    (~cfg.dhcp) => \A o \in os : o.c # "a"
StPrivateArpaStaysInside(cfg, req, os) ==
    (req.rev.ok /\ req.rev.priv /\ req.qt \in {"PTR", "SOA", "NS"}) =>
        \A o \in os : /\ o.fwd # "gen"
                      /\ (~cfg.privPTR => o.fwd = "none")
StLeasePTR(cfg, req, os) ==
    (cfg.dhcp /\ req.cpriv /\ req.qt = "PTR" /\ req.rev.ok /\ req.rev.priv /\ LeaseHosts(cfg, req.rev.a) # {}) =>
        \A o \in os : o.c = "ptr" /\ o.v = LeaseHosts(cfg, req.rev.a) /\ o.fwd = "none"
\* A name no front stage claims: blocked -> local, otherwise forwarded intact.
Claimed(cfg, req) ==
    \/ cfg.dns64 /\ req.qt \in {"AAAA", "PTR"}
    \/ UpAnswer(req) # "up"
    \/ req.qt = "ANY" /\ cfg.refuseAny
    \/ req.qt = "AAAA" /\ cfg.aaaaOff
    \/ IsSpecial(req.name)
    \/ LanHost(cfg, req)
    \/ req.rev.ok /\ req.rev.priv
StUnclaimed(cfg, req, os) ==
    ~Claimed(cfg, req) =>
        \A o \in os : IF IsBlocked(cfg, req.name) THEN o.fwd = "none" /\ o.c \in {"null", "empty"} /\ o.log
                      ELSE o.fwd = "gen" /\ o.c = "up" /\ o.log
StForwardedIsLogged(cfg, req, os) ==
    \A o \in os : /\ (o.c = "up") => (o.fwd # "none")
                  /\ (o.fwd # "none") => o.log
                  /\ (o.fwd = "gen+a") => (cfg.dns64 /\ req.qt = "AAAA")
\* DNS64: no address inside an exclusion prefix is delivered while another
\* answer is possible; synthesised addresses only when no native one is left;
\* without DNS64 nothing is filtered or synthesised.
Excluded(req) == {x.a : x \in {y \in req.up.a6 : y.excl}}
Native(req)   == {x.a : x \in {y \in req.up.a6 : ~y.excl}}
StDNS64(cfg, req, os) ==
    \A o \in os :
       /\ (o.c = "aaaa") => cfg.dns64 /\ req.qt = "AAAA" /\ o.v \cap Excluded(req) = {}
       /\ (o.c = "aaaa" /\ o.fwd # "none") =>
              \/ o.v = Native(req) /\ Native(req) # {}
              \/ o.v = Syn(req.up.a4) /\ Native(req) = {} /\ req.up.a4 # {}
       /\ (cfg.dns64 /\ req.qt = "AAAA" /\ o.c = "up" /\ Excluded(req) # {}) => (req.up.a4 = {} /\ Native(req) = {})
StDNS64Ptr(cfg, req, os) ==
    (cfg.dns64 /\ req.qt = "PTR" /\ req.rev.ok /\ req.rev.n64) => \A o \in os : o.fwd \in {"none", "priv"}

StAll(cfg, req, os) ==
    /\ os # {}
    /\ StRefuseAny(cfg, req, os)
    /\ StAAAADisabled(cfg, req, os)
    /\ StCanary(cfg, req, os)
    /\ StHealth(cfg, req, os)
    /\ StDDR(cfg, req, os)
    /\ StDDROffIsOrdinary(cfg, req, os)
    /\ StOutsideLearnsNothing(cfg, req, os)
    /\ StLanNeverForwarded(cfg, req, os)
    /\ StLanOutsideSilent(cfg, req, os)
    /\ StLeaseAnswers(cfg, req, os)
    /\ StUnknownLanFiltered(cfg, req, os)
    /\ StDHCPOffIsOrdinary(cfg, req, os)
    /\ StPrivateArpaStaysInside(cfg, req, os)
    /\ StLeasePTR(cfg, req, os)
    /\ StUnclaimed(cfg, req, os)
    /\ StForwardedIsLogged(cfg, req, os)
    /\ StDNS64(cfg, req, os)
    /\ StDNS64Ptr(cfg, req, os)
=============================================================================
