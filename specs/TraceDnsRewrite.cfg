SPECIFICATION Spec
