SPECIFICATION Spec
CONSTANTS
  Tier = "quick"
  Fams = {"comb", "mod", "prec", "hosts", "hist"}
INVARIANTS NonEmpty FilteringOff LegacyFirst HostsSecond HostsOff RewriteBeatsOrdinary DisableAll DisableOne ImportantSurvives ExceptionNeverAnswers KeywordEmpty HostsAnswers ProtectionOff Determinate SelfCnameIsNoRewrite
