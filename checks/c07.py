"""C07 -- the query log returns every recorded query exactly once, newest first, with paging.

Half 1: QueryLog.tla model-checked exhaustively (all histories over a small universe; the
statement's properties as invariants), with TLC coverage inspected for vacuity, plus a
configuration showing that the statement's exclusion window is necessary.

Direction A: the gen configuration emits every labelled edge of the reachable graph and, per
quiescent state, the table of requests and replies the spec fixes.  The Go harness walks the
edges on the real query log (temp dir, real HTTP handlers), compares the projected state after
every step and puts the table to GET /control/querylog.

Direction B: seeded random histories (2000 records in thorough) recorded by the Go driver and
validated line by line by TraceQueryLog.tla.
"""
import json
import os
import re
import threading

import vlib

PKG = "internal/querylog"
FILES = ["zz_verif_common_test.go", "zz_verif_c07_test.go"]
HUGE = 1000000

KEY_SKIP = "cursor-beyond-disk-skips-newest-disk-entry"
KEY_PANIC = "limit-offset-sum-negative-panic"
KEY_ESC = "term-search-misses-json-escaped-host-on-disk"
KEY_FOLD = "substring-term-misses-capital-s-k-inside-client-name"
KEY_HID = "scan-window-ending-on-hidden-record-ends-paging"
KEY_INV = "concurrent-add-inverts-timestamp-order"
SIG_KEYS = {"skip": KEY_SKIP, "esc": KEY_ESC, "fold": KEY_FOLD, "hid": KEY_HID, "inv": KEY_INV}

ACTIONS_MC = ["DoRec", "DoStamp", "DoPush", "DoEnc", "AutoEnc", "DoApp", "DoAppFails", "DoRotate", "DoRotCheck", "DoClear", "DoConf", "DoRestart", "DoSearch"]
ACTIONS_GEN = ["rec", "stamp", "push", "enc", "app", "appfail", "autoflush", "autoflushfail", "rotate", "rotcheck", "clear", "conf", "restart"]


# ------------------------------------------------------------------ classification
def _conc(v):
    return 2 ** 63 - 1 if v == HUGE else v


def _sum_negative(limit, offset):
    """offset+limit as the code computes it (wrapping 64-bit) is negative."""
    t = (_conc(limit) + _conc(offset) + 2 ** 63) % 2 ** 64 - 2 ** 63
    return limit != 0 and t < 0


def window_ok(older, limit, universe, got):
    """QueryLog!AdmissibleWindow (used here only to match a defect signature)."""
    if got.get("st") != "ok":
        return False
    data, oldest = list(got.get("data") or []), got.get("oldest")
    n = len(data)
    if n > limit or n > len(universe) or data != list(universe[:n]):
        return False
    if n > 0:
        return oldest == universe[n - 1]
    if not universe and oldest == 0:
        return True
    if oldest <= 0 or (older > 0 and oldest >= older):
        return False
    return not universe or oldest > universe[0]


def _is_subseq(a, b):
    it = iter(b)
    return all(x in it for x in a)


def classify_query(q, got):
    """The key under which a disagreement is registered: when the symptom fits several signatures,
    one that belongs to an open finding is preferred (a fixed one would be a regression)."""
    keys = classify_all(q, got)
    for k in keys:
        if vlib.known_findings().get(("C07", k), {}).get("status") == "open":
            return k
    return keys[0] if keys else None


def classify_all(q, got):
    """q: the spec's table row <<older, limit, offset, term, status, class, data, oldest, sigs, scan, alts>>;
    got: the abstracted real reply.  Returns a known-finding key or None."""
    older, limit, offset, cls, sigs = q[0], q[1], q[2], q[5], q[8]
    if got.get("st") == "panic" and "slice bounds out of range" in (got.get("msg") or "") \
            and _sum_negative(limit, offset):
        return [KEY_PANIC]
    keys = []
    for name, data, oldest in sigs:
        if name == "skip" and older == 0:
            continue
        if name == "invdisk":
            # A cursor request over files that are out of timestamp order: anything drawn
            # from the selected sequence (typically an empty page that says "end").
            if cls == "exact" and got.get("st") == "ok" and _is_subseq(list(got.get("data") or []), list(data)):
                keys.append(KEY_INV)
            continue
        if cls == "exact" and got.get("st") == "ok" and list(got.get("data") or []) == list(data) \
                and got.get("oldest") == oldest:
            keys.append(SIG_KEYS.get(name))
        if cls == "window" and name == "invwin":
            if got.get("st") == "ok" and _is_subseq(list(got.get("data") or []), list(data)):
                keys.append(KEY_INV)
            continue
        if cls == "window" and name == "hid":
            # An empty page saying "end", selected entries still to come, and a
            # hidden on-disk record between the cursor and the next of them.
            universe = q[6]
            if got.get("st") == "ok" and not got.get("data") and got.get("oldest") == 0 and universe \
                    and any((older == 0 or h < older) and h > universe[0] for h in data):
                keys.append(KEY_HID)
            continue
        if cls == "window" and window_ok(older, limit, data, got):
            keys.append(SIG_KEYS.get(name))
    return [k for k in keys if k]


def describe_query(q, got):
    return "GET /control/querylog older_than=%s limit=%s offset=%s search=%s response_status=%s (scan limit %s): spec %s %s oldest=%s, real %s %s oldest=%s %s" % (
        q[0], q[1], q[2], q[3], q[4], q[9], q[5], str(q[6])[:120], q[7], got.get("st"), str(got.get("data"))[:120], got.get("oldest"),
        (got.get("msg") or "")[:80])


# ------------------------------------------------------------------ half 1
def coverage_counts(out):
    """action name -> generated count from TLC's -coverage output (last report)."""
    counts = {}
    last = out.rfind("The coverage statistics at")
    for m in re.finditer(r"^<(\w+) line \d+, col \d+ to line \d+, col \d+ of module QueryLog(?: \([\d ]+\))?>: (\d+):(\d+)$",
                         out[max(last, 0):], re.M):
        counts[m.group(1)] = counts.get(m.group(1), 0) + int(m.group(3))
    return counts


def model_check(ctx, res):
    cfg = "QueryLog.mcq.cfg" if ctx.quick else "QueryLog.mc.cfg"
    try:
        r = ctx.tlc("QueryLog", cfg, workers=6, timeout=170 if ctx.quick else 620, coverage=True)
        res["mc"] = r
        res["mc_cov"] = coverage_counts(r["out"])
        # The same invariants with the ignore list changing (small universe).
        ctx.tlc("QueryLog", "QueryLog.mcig.cfg", workers=4, timeout=300)
        # ... and with overlapping Adds (Stamp / Push): replies in timestamp order whatever the
        # order of storage.
        rc = ctx.tlc("QueryLog", "QueryLog.mccc.cfg", workers=4, timeout=300, coverage=True)
        res["mc_cov"].update({k: v for k, v in coverage_counts(rc["out"]).items() if k in ("DoStamp", "DoPush")})
    except Exception as e:  # re-raised by the main thread
        res["err"] = e


# ------------------------------------------------------------------ direction A
def build_graph(vectors):
    table = None
    skey = lambda st: json.dumps(st, sort_keys=True)
    states, obs, edges = {}, {}, {}
    for v in vectors:
        k = v.get("k")
        if k == "t":
            table = v
        elif k == "o":
            key = skey(v["st"])
            states[key] = v["st"]
            obs[key] = v["obs"]
        elif k == "e":
            for s in (v["src"], v["dst"]):
                states.setdefault(skey(s), s)
            g = (skey(v["src"]), v["act"], json.dumps(v["args"], sort_keys=True))
            edges.setdefault(g, set()).add(skey(v["dst"]))
    ids = {key: i for i, key in enumerate(sorted(states))}
    rows = []
    for key, i in ids.items():
        o = obs.get(key)
        flat = []
        if o:
            full = sorted(o["full"], key=lambda r: (not (r[3] == "none" and r[4] == "none"), r[3], r[4]))
            seen = set()
            tagged = [(r, "f") for r in full] + [(r, "d") for r in o["deflt"]] + [(r, "c") for r in o["chains"]] \
                + [(r, "o") for r in o["offs"]] + [(r, "u") for r in o["curs"]] + [(r, "x") for r in o["odd"]] \
                + [(r, "w") for r in o["win"]]
            for r, tag in tagged:
                pk = json.dumps(r[:5] + [r[9]])
                if pk in seen:
                    continue
                seen.add(pk)
                flat.append(r + [tag])
        rows.append({"k": "s", "id": i, "st": states[key], "obs": flat})
    groups = []
    for (src, act, args), dsts in sorted(edges.items()):
        s = ids[src]
        d = sorted((ids[x] for x in dsts), key=lambda x: (x != s, x))
        groups.append({"k": "g", "src": s, "act": act, "args": json.loads(args), "dsts": d})
    inits = [ids[k] for k, st in states.items()
             if st["ck"] == 0 and not st["mem"] and not st["cur"] and not st["rot"] and not st["batch"]
             and not st["fp"] and st["en"] and not st["an"] and not st["ig"] and not st["fl"]]
    return table, rows, groups, sorted(inits)


def run_walks(ctx, table, rows, groups, inits, budget, workers=5):
    vin, vout = ctx.path("c07_in.ndjson"), ctx.path("c07_out.ndjson")
    cfg = {"k": "c", "budget": budget, "walklen": 40, "inits": inits, "workers": workers}
    vlib.write_ndjson(vin, [table, cfg] + rows + groups)
    rc, out = ctx.go_test(PKG, FILES, "^TestZZVerifC07Walk$", env={"VERIF_IN": vin, "VERIF_OUT": vout},
                          timeout=1500, go_timeout="24m")
    res = vlib.read_ndjson(vout)
    summ = [r for r in res if r.get("kind") == "summary"]
    if rc != 0 or not summ:
        raise vlib.Inconclusive("C07 walk harness did not complete:\n" + out[-3000:])
    return res, summ[0]


def replay_record(ctx, table, rec):
    """Re-run one stored walk + probe on a fresh object.  Returns the probe result row."""
    vin, vout = ctx.path("c07_rin.ndjson"), ctx.path("c07_rout.ndjson")
    rows = [{"k": "s", "id": int(i), "st": st, "obs": []} for i, st in rec["states"].items()]
    w = dict(rec["walk"])
    w["k"] = "w"
    vlib.write_ndjson(vin, [table] + rows + [w])
    rc, out = ctx.go_test(PKG, FILES, "^TestZZVerifC07Walk$", env={"VERIF_IN": vin, "VERIF_OUT": vout}, timeout=600)
    res = [r for r in vlib.read_ndjson(vout) if r.get("kind") == "probe"]
    if rc != 0 or not res:
        raise vlib.Inconclusive("C07 replay harness did not complete:\n" + out[-3000:])
    return res[0]


# ------------------------------------------------------------------ direction B
TRACE_EVS = {"init", "rec", "recn", "burst", "flush", "flushfail", "autoflushfail", "stall", "rotcheck", "autoflush", "rotate", "clear", "conf", "restart", "search"}


def run_history(ctx, hist, nrec, mem=None, big=False):
    tout = ctx.path("c07_trace_%d.ndjson" % hist)
    env = {"VERIF_OUT": tout, "VERIF_C07_HIST": str(hist), "VERIF_C07_RECORDS": str(nrec)}
    if big == "burst":
        env["VERIF_C07_BURST"] = "1"
    elif isinstance(big, str) and big.startswith("scanlog"):
        env["VERIF_C07_SCANLOG"] = big.split(":")[1]
    elif big:
        env["VERIF_C07_BIG"] = "1"
    if mem is not None:
        env["VERIF_C07_MEM"] = str(mem)
    rc, out = ctx.go_test(PKG, FILES, "^TestZZVerifC07Trace$", env=env, timeout=600)
    rows = vlib.read_ndjson(tout)
    summ = [r for r in rows if r.get("ev") == "summary"]
    if rc != 0 or not summ:
        raise vlib.Inconclusive("C07 trace driver did not complete:\n" + out[-3000:])
    return rows, summ[0]


def validate_history(ctx, hist, rows, cfg="TraceQueryLog.cfg"):
    lines = [r for r in rows if r.get("ev") in TRACE_EVS]
    tfile = ctx.path("c07_tlc_trace_%d.ndjson" % hist)
    vlib.write_ndjson(tfile, lines)
    r = ctx.tlc("TraceQueryLog", cfg, workers=1, extra_files=[(tfile, "trace.ndjson")], timeout=600)
    verdict = [v for v in r["vectors"] if v.get("k") == "verdict"]
    if not verdict:
        raise vlib.Inconclusive("trace spec produced no verdict for history %d" % hist)
    wants = {}
    for v in r["vectors"]:
        if v.get("k") == "bad":
            wants[v["line"]] = v["want"]
    return lines, verdict[-1], wants


def corrupted_line_is_rejected(ctx, lines, verdict):
    """Binding demonstration for direction B: drop one id from an accepted search reply of the
    recorded trace; TraceQueryLog must reject exactly that line."""
    cut = lines[:min(len(lines), 400)]
    bad = set(verdict["bad"])
    stuck = verdict["stuck"] or len(lines) + 1
    for i, e in enumerate(cut):
        if e["ev"] == "search" and e["r"]["st"] == "ok" and len(e["r"]["data"]) >= 2 and (i + 1) not in bad \
                and i + 1 < stuck and e["p"]["limit"] >= 1 and e["p"]["offset"] >= 0 and e["p"]["older"] == 0:
            mut = json.loads(json.dumps(cut))
            mut[i]["r"]["data"] = mut[i]["r"]["data"][1:]
            _, v2, _ = validate_history(ctx, 900, mut)
            if (i + 1) not in v2["bad"]:
                raise vlib.Inconclusive("trace validation accepted a corrupted search reply (line %d)" % (i + 1))
            return {"corrupted_trace_line": i + 1, "rejected": True,
                    "request": e["p"], "real_reply": e["r"]["data"], "corrupted_reply": mut[i]["r"]["data"]}
    return None


# ------------------------------------------------------------------ main
def run(ctx):
    ctx.sany("QueryLog")
    ctx.sany("TraceQueryLog")

    # Half 1 runs beside the replay (it needs minutes in the thorough tier).
    mcres = {}
    th = threading.Thread(target=model_check, args=(ctx, mcres))
    th.start()
    try:
        cov = _run_bindings(ctx)
    except vlib.Inconclusive as e:
        th.join()
        if ctx.violations:
            # A reproduced disagreement stands even if a later phase could not be completed.
            ctx.log("later phase inconclusive: %s" % str(e)[:300])
            return ctx.finish("model_checking", {"exhaustive": False, "incomplete": str(e)[:300]})
        raise
    finally:
        th.join()
    if "err" in mcres:
        raise mcres["err"]

    # Vacuity: every action of the spec taken in half 1 or in the edge generation.
    never = [a for a in ACTIONS_MC if mcres["mc_cov"].get(a, 0) == 0]
    never += ["gen:" + a for a in ACTIONS_GEN if cov["edges_by_action"].get(a, 0) == 0]
    if never:
        raise vlib.Inconclusive("vacuous: actions never taken: %s" % never)
    cov["mc_actions_generated"] = {a: mcres["mc_cov"].get(a, 0) for a in ACTIONS_MC}
    cov["mc_config"] = mcres["mc"]["cfg"]

    # The exclusion window of the statement is not vacuous: without it NothingLost fails.
    w = ctx.tlc("QueryLog", "QueryLog.window.cfg", workers=2, timeout=120, expect_violation=True)
    if w["violated"] != "NothingLostEvenInWindow":
        raise vlib.Inconclusive("window configuration: expected NothingLostEvenInWindow to fail, got %s" % w["violated"])
    ctx.tlc_runs[-1]["violated"] = "NothingLostEvenInWindow (expected: shows the exclusion window is necessary)"

    return ctx.finish("model_checking", cov, assumptions=[
        "TLC; conc()/abs() of zz_verif_c07_test.go (timestamps <-> ids by exact nanosecond time, "
        "term strings bound to the spec's term table by the harness's own matcher at start-up)",
        "ring eviction and restart without a file (FileEnabled=false) are treated as removal by configuration",
        "response_status table: two cells not decided by the API text are taken from the unchanged tree (notes/C07.md)",
        "payload fidelity per shape is decided by differential JSON comparison in the harness, not by TLC",
        "searches are made at quiescent points (no flush in flight); records inside the flush-pending window are excluded as in the statement",
    ])


def _run_bindings(ctx):
    # ---------------- direction A: the main graph, and a smaller one in which the ignore list changes
    # thorough: the ignore-list graph completely, the main graph within a step budget that covers
    # about two thirds of its edge groups (seeded choice; `exhaustive' says whether all were covered).
    # The small graphs are walked first, while the edges of the main one are still being generated.
    plan = [("QueryLog.gencc.cfg", 800 if ctx.quick else 0), ("QueryLog.genig.cfg", 700 if ctx.quick else 0),
            ("QueryLog.gen.cfg", 3000 if ctx.quick else 100000)]
    res, by_act, table = [], {}, None
    summ = {k: 0 for k in ("walks", "steps", "queries", "covered", "groups", "bad", "flaky", "discards", "transit", "unobservable")}
    nrows = nstates_obs = nontrivial = 0
    samples_graph = []
    # Both edge generations start at once; the second is ready when the first graph has been walked.
    gens = {}

    def generate(cfg, workers):
        try:
            gens[cfg] = ctx.tlc("QueryLog", cfg, workers=workers, timeout=400)
        except Exception as e:  # re-raised below
            gens[cfg] = e

    gthreads = [threading.Thread(target=generate, args=(plan[0][0], 2)),
                threading.Thread(target=generate, args=(plan[1][0], 2)),
                threading.Thread(target=generate, args=(plan[2][0], 4))]
    for t in gthreads:
        t.start()
    for (cfg, budget), gt in zip(plan, gthreads):
        gt.join()
        gen = gens[cfg]
        if isinstance(gen, Exception):
            for t in gthreads:
                t.join()
            raise gen
        table, rows, groups, inits = build_graph(gen["vectors"])
        if table is None or len(groups) < 1000 or not inits:
            raise vlib.Inconclusive("edge generation produced too little (%s): %d groups" % (cfg, len(groups)))
        for g in groups:
            by_act[g["act"]] = by_act.get(g["act"], 0) + 1
        nrows += len(rows)
        nstates_obs += sum(1 for r in rows if r["obs"])
        nontrivial += sum(1 for g in groups if len(g["dsts"]) > 1 or g["dsts"][0] != g["src"])
        ctx.log("graph %s: %d states, %d edge groups, %d initial states" % (cfg, len(rows), len(groups), len(inits)))
        res1, summ1 = run_walks(ctx, table, rows, groups, inits, budget, workers=5 if ctx.quick else 8)
        ctx.log("walks: %s" % json.dumps({k: summ1[k] for k in ("walks", "steps", "queries", "covered", "groups", "bad", "flaky", "discards")}))
        for r in res1:
            r["table"] = table
        res += res1
        for k in summ:
            summ[k] += summ1[k]
        samples_graph += [groups[0], groups[len(groups) // 2],
                          {"state": rows[len(rows) // 2]["st"], "table_rows": rows[len(rows) // 2]["obs"][:3]}]
        del rows, groups, gen

    sample_bad = []
    nbad = 0
    for r in res:
        if r.get("kind") != "bad":
            continue
        nbad += 1
        if nbad > 60:
            # Every registered disagreement becomes a replay file; sixty are enough.
            break
        if r.get("what") == "query":
            key = classify_query(r["q"], r["got"])
            rec = {"dir": "A", "what": "query", "walk": r["walk"], "states": r["states"], "table": r["table"],
                   "q": r["q"], "got": r["got"], "state": r["state"]}
            ctx.disagreement(key, rec, describe_query(r["q"], r["got"]))
        elif r.get("what") == "state":
            rec = {"dir": "A", "what": "state", "walk": r["walk"], "states": r["states"], "table": r["table"],
                   "act": r["act"], "args": r["args"], "src": r["src"], "want": r["want"], "got": r["got"]}
            ctx.disagreement(None, rec, "after %s %s from %s the real log is %s, the spec admits %s" % (
                r["act"], json.dumps(r["args"]), json.dumps(r["src"]), json.dumps(r["got"]), json.dumps(r["want"])))
        else:
            rec = {"dir": "A", "what": "payload", "detail": {k: v for k, v in r.items() if k not in ("kind", "table")}}
            ctx.disagreement(None, rec, "payload of entry %s (shape %s) %s: %s" % (
                r.get("id"), r.get("shape"), r.get("pkind"), (r.get("diff") or "served JSON differs between %s and %s" % (r.get("first_at"), r.get("now_at")))))
        if len(sample_bad) < 2 and r.get("what") == "query":
            sample_bad.append({"q": r["q"], "got": {k: r["got"].get(k) for k in ("st", "data", "oldest", "msg")}})
    if summ["discards"] > max(3, summ["walks"] // 20):
        raise vlib.Inconclusive("too many discarded walks (timestamps): %d" % summ["discards"])
    herr = [r for r in res if r.get("kind") == "harness_error"]
    if herr:
        raise vlib.Inconclusive("harness errors: %s" % json.dumps(herr[:3]))

    # ---------------- payload shapes
    pout = ctx.path("c07_payload.ndjson")
    rc, out = ctx.go_test(PKG, FILES, "^TestZZVerifC07Payload$", env={"VERIF_OUT": pout}, timeout=600)
    prows = vlib.read_ndjson(pout)
    psum = [r for r in prows if r.get("kind") == "summary"]
    if rc != 0 or not psum:
        raise vlib.Inconclusive("C07 payload harness did not complete:\n" + out[-3000:])
    for r in prows:
        if r.get("kind") == "bad":
            rec = {"dir": "P", "what": "payload", "detail": {k: v for k, v in r.items() if k != "kind"}}
            ctx.disagreement(None, rec, "payload of shape %s (%s, anonymise=%s): %s" % (
                r.get("shape"), r.get("pkind"), r.get("anon"),
                r.get("diff") or "served JSON differs between %s and %s" % (r.get("first_at"), r.get("now_at"))))

    # ---------------- direction B
    # Histories of the tier: (memory size or None = seeded, kind).  "scanlog:N" is the scan-window
    # history with scan limit N: 50000 = the server's limit through the plain handler (thorough only),
    # 30 = the same history at scale.
    if ctx.quick:
        hists, nrec = [(7, False), (None, False), (200, "scanlog:30"), (2000, "burst")], 300
    else:
        hists, nrec = [(7, False), (200, True), (None, False), (None, False), (60000, "scanlog:50000"),
                       (200, "scanlog:30"), (2000, "burst")], 2000
    nhist = len(hists)
    binding_demo = None
    tlines = tbad = tflaky = 0
    tbytes = 0
    tsamples = []
    for hst in range(nhist):
        # One history per tier is forced to a small memory so that searches cross the
        # memory/file/rotated-file boundaries often; one of the thorough tier grows its files
        # beyond the reader's 1.6 MB buffer.
        mem, big = hists[hst]
        rows_b, sb = run_history(ctx, hst, nrec, mem=mem, big=big)
        if sb.get("discard"):
            ctx.log("history %d discarded: %s" % (hst, sb["discard"]))
            tflaky += 1
            continue
        for r in rows_b:
            if r.get("ev") == "payload":
                ctx.disagreement(None, {"dir": "B", "what": "payload", "hist": hst, "seed": ctx.seed, "detail": r["d"]},
                                 "payload differs in history %d: %s" % (hst, json.dumps(r["d"])[:300]))
        tcfg = "TraceQueryLog.cc.cfg" if big == "burst" else "TraceQueryLog.cfg"
        lines, verdict, wants = validate_history(ctx, hst, rows_b, cfg=tcfg)
        if binding_demo is None and not verdict["stuck"]:
            binding_demo = corrupted_line_is_rejected(ctx, lines, verdict)
        tlines += len(lines)
        tbytes = max(tbytes, sb.get("bytes", 0))
        if hst == 0:
            tsamples = [lines[i] for i in (1, len(lines) // 2) if i < len(lines)]
        bad_lines = list(verdict["bad"])
        unknown = []
        for ln in bad_lines:
            e = lines[ln - 1]
            q = wants.get(ln)
            if q is None:
                raise vlib.Inconclusive("no expectation emitted for rejected line %d" % ln)
            if not e["r"].get("same", True):
                tflaky += 1
                continue
            key = classify_query(q, e["r"])
            rec = {"dir": "B", "what": "query", "seed": ctx.seed, "hist": hst, "nrec": nrec, "mem": mem, "big": big, "line": ln,
                   "q": q, "got": e["r"], "projection": e["s"]}
            if key and vlib.known_findings().get((ctx.prop, key), {}).get("status") == "open":
                ctx.disagreement(key, rec, describe_query(q, e["r"]))
                tbad += 1
            else:
                unknown.append((ln, key, rec))
        stuck = verdict["stuck"]
        unknown = unknown[:20]
        if unknown or stuck:
            # Reproduce: the driver is deterministic in (seed, history); run it again.
            rows2, sb2 = run_history(ctx, hst, nrec, mem=mem, big=big)
            lines2, verdict2, wants2 = validate_history(ctx, hst, rows2, cfg=tcfg)
            for ln, key, rec in unknown:
                if ln in verdict2["bad"] and ln <= len(lines2) and lines2[ln - 1]["p"] == lines[ln - 1]["p"]:
                    ctx.disagreement(key, rec, describe_query(rec["q"], rec["got"]))
                    tbad += 1
                else:
                    tflaky += 1
            if stuck:
                if verdict2["stuck"] == stuck:
                    e = lines[stuck - 1]
                    rec = {"dir": "B", "what": "state", "seed": ctx.seed, "hist": hst, "nrec": nrec, "mem": mem, "big": big, "line": stuck,
                           "event": {k: e[k] for k in ("ev", "name", "cli", "reason", "ms", "en", "an")},
                           "projection": e["s"], "spec_before": verdict["at"]}
                    ctx.disagreement(None, rec, "trace line %d (%s): no successor of the spec state %s projects onto the real state %s" % (
                        stuck, e["ev"], json.dumps(verdict["at"]), json.dumps(e["s"])))
                    tbad += 1
                else:
                    tflaky += 1
        elif verdict["n"] != len(lines):
            raise vlib.Inconclusive("trace spec read %s of %d lines" % (verdict["n"], len(lines)))
    if tlines == 0:
        raise vlib.Inconclusive("no trace lines validated")
    if binding_demo is None and not ctx.violations:
        raise vlib.Inconclusive("no search line suitable for the corrupted-trace demonstration")

    exhaustive = summ["covered"] == summ["groups"]
    cov = {
        "traces_validated_against_impl": summ["walks"] + nhist,
        "evaluations": summ["queries"] + summ["steps"] + tlines,
        "distinct_nontrivial": nontrivial if exhaustive else min(nontrivial, summ["covered"]),
        "rule": "direction A: one evaluation per executed step (projection compared) and per request put to the real "
                "handler (reply compared with the spec's table row); non-trivial = an edge group whose destination differs "
                "from its source.  direction B: one evaluation per trace line validated by TraceQueryLog.tla",
        "edge_groups": summ["groups"], "edge_groups_covered": summ["covered"], "edges_by_action": by_act,
        "graph_states": nrows, "states_with_observation_table": nstates_obs,
        "walks": summ["walks"], "steps": summ["steps"], "transit_steps": summ["transit"],
        "steps_state_unobservable": summ["unobservable"],
        "requests_compared": summ["queries"], "walks_discarded": summ["discards"], "flaky": summ["flaky"] + tflaky,
        "payload_shapes": psum[0]["shapes"], "payload_entries_compared": psum[0]["n"],
        "trace_histories": nhist, "trace_records_per_history": nrec, "trace_lines": tlines,
        "trace_lines_rejected": tbad, "trace_max_file_bytes_at_end": tbytes,
        "truncated_by_known_finding": 0,
        "binding_demo": binding_demo,
        "exhaustive": exhaustive,
        "samples": samples_graph[:4]
                   + sample_bad + [{"trace_line": s} for s in tsamples],
    }
    return cov


def replay(ctx, path):
    blob = json.load(open(path))
    rec = blob["record"]
    if rec.get("dir") == "A" and rec.get("what") in ("query", "state"):
        res = replay_record(ctx, rec["table"], rec)
        if rec["what"] == "query":
            q = rec["q"]
            print(json.dumps({"request": q[:5], "expected": {"class": q[5], "data": q[6], "oldest": q[7]},
                              "observed": res.get("got"), "admissible": res.get("admissible")}, indent=1))
        else:
            print(json.dumps({"step": [rec["act"], rec["args"]], "expected_one_of": rec["want"],
                              "observed": res.get("state"), "admissible": res.get("admissible")}, indent=1))
        return 0 if res.get("admissible") else 1
    if rec.get("dir") == "B":
        ctx.seed = rec["seed"]
        rows, sb = run_history(ctx, rec["hist"], rec["nrec"], mem=rec.get("mem"), big=rec.get("big", False))
        lines, verdict, wants = validate_history(ctx, rec["hist"], rows)
        ln = rec["line"]
        still = ln in verdict["bad"] or verdict["stuck"] == ln
        print(json.dumps({"line": ln, "expected": wants.get(ln) or rec.get("spec_before"),
                          "observed": lines[ln - 1].get("r") if ln <= len(lines) else None, "rejected_again": still}, indent=1))
        return 1 if still else 0
    # Payload records: the payload test re-derives them.
    pout = ctx.path("c07_payload.ndjson")
    rc, out = ctx.go_test(PKG, FILES, "^TestZZVerifC07Payload$", env={"VERIF_OUT": pout}, timeout=600)
    bad = [r for r in vlib.read_ndjson(pout) if r.get("kind") == "bad"]
    print(json.dumps({"expected": "identical JSON in memory, file and rotated file; fields as recorded", "observed": bad[:3] or "identical"}, indent=1))
    return 1 if bad else 0
