------------------------ MODULE TraceScheduleHolder ------------------------
(***************************************************************************)
(* Direction B for the schedule in effect (ScheduleHolder.tla): each line  *)
(* of trace.ndjson is one PUT /control/blocked_services/update of a random *)
(* document (any zone of the host, random ranges in ms + ns, valid or not) *)
(* against one long-lived DNSFilter, followed by GET and by Contains at    *)
(* probe instants.  Logged: the document (tz, w, wn), the reply ok, what   *)
(* GET returned (gtz, gw) and probes <<second, UTC offset of the zone in   *)
(* effect at that second, answer>>.                                        *)
(*                                                                         *)
(* The step is judged with ScheduleCore!DecodeOutcomes from the state the   *)
(* previous line OBSERVED (so that one bad step is one rejected line), and *)
(* the probes with ScheduleCore!Contains on the logged offset.  "reset"    *)
(* lines start a new server.                                               *)
(***************************************************************************)
EXTENDS Integers, Sequences, FiniteSets, TLC, Json

MS == INSTANCE ScheduleCore WITH TPD <- 86400000, TPM <- 60000, SUB <- 1000000, WD0 <- 4
RS == INSTANCE ScheduleCore WITH TPD <- 86400, TPM <- 60, SUB <- 1000000000, WD0 <- 4

Trace == ndJsonDeserialize("trace.ndjson")

VARIABLES l, live, bad

Week4(w, wn) == [d \in 0 .. 6 |-> [s |-> w[d + 1][1], e |-> w[d + 1][2], sn |-> wn[d + 1][1], en |-> wn[d + 1][2]]]
Doc(i) == [tz |-> Trace[i].tz, w |-> Week4(Trace[i].w, Trace[i].wn)]
Got(i) == [tz |-> Trace[i].gtz, w |-> Week4(Trace[i].gw, Trace[i].gwn)]
Boot   == [tz |-> "Local", w |-> [d \in 0 .. 6 |-> [s |-> 0, e |-> 0, sn |-> 0, en |-> 0]]]

SecWeek(w) == [x \in 0 .. 6 |-> [s |-> w[x].s \div 1000, e |-> w[x].e \div 1000]]
ProbesOk(i, h) ==
    \A j \in DOMAIN Trace[i].probes :
        LET p == Trace[i].probes[j] IN
        RS!Contains(SecWeek(h.w), [base |-> p[2], trans |-> <<>>], [s |-> p[1], n |-> 0]) <=> (p[3] = 1)

\* The observed step is one of the admissible outcomes, read back unchanged,
\* and Contains answers for exactly that schedule.
StepOk(i) ==
    \E o \in MS!DecodeOutcomes(live, Doc(i)) :
        /\ o.ok = (Trace[i].ok = 1)
        /\ Got(i) = o.val
        /\ ProbesOk(i, o.val)

Init == l = 1 /\ live = Boot /\ bad = {}
Next == /\ l <= Len(Trace)
        /\ IF Trace[l].k = "reset"
           THEN live' = Boot /\ bad' = bad
           ELSE /\ bad' = IF StepOk(l) THEN bad ELSE bad \cup {l}
                /\ live' = Got(l)
        /\ l' = l + 1
        /\ (l' = Len(Trace) + 1 => PrintT(<<"@@V", ToJson([n |-> Len(Trace), bad |-> bad'])>>))
Spec == Init /\ [][Next]_<<l, live, bad>>
=============================================================================
