----------------------------- MODULE LockOrder -----------------------------
(***************************************************************************)
(* C05, deadlock-freedom of the lock protocol.                             *)
(*                                                                         *)
(* The model is INSTANTIATED FROM THE SOURCE: tools/lockgraph (go/ast +    *)
(* go/types, class-hierarchy resolution of interface calls, value-flow     *)
(* resolution of func-typed fields) extracts every "holds lock X in mode m *)
(* while acquiring lock Y in mode n" pair reachable through any call chain *)
(* of the module, and the orchestrator writes the pairs that lie on a      *)
(* cycle of the lock graph into LockOrderFacts.tla (Paths, NThreads).      *)
(*                                                                         *)
(* This module gives those pairs Go's sync.RWMutex semantics -- in         *)
(* particular a writer that has announced itself blocks NEW readers, which *)
(* is what turns a recursive read lock into a deadlock -- and TLC explores *)
(* every interleaving of N threads each executing one extracted pair (or a *)
(* lone write acquisition of a lock that has writers somewhere in the      *)
(* code).  A reachable state in which no thread can proceed although not   *)
(* all are finished is a deadlock the code's lock order admits.            *)
(***************************************************************************)
EXTENDS Naturals, FiniteSets, Sequences, TLC, Json, LockOrderFacts

\* From LockOrderFacts:
\*   Paths     == set of sequences of <<lock, mode>> (length 1 or 2), mode in {"r","w"}
\*   NThreads  == number of threads
Threads == 1..NThreads
Locks == UNION {{p[i][1] : i \in 1..Len(p)} : p \in Paths}

VARIABLES path,     \* thread -> chosen path (or <<>> before choosing)
          pos,      \* thread -> number of acquisitions completed (99 = released, finished)
          waiting,  \* thread -> TRUE when it has announced a write acquisition
          rcount,   \* lock -> thread -> number of read holds
          writer    \* lock -> thread holding it for writing, or 0
vars == <<path, pos, waiting, rcount, writer>>

Init == /\ path = [t \in Threads |-> <<>>]
        /\ pos = [t \in Threads |-> 0]
        /\ waiting = [t \in Threads |-> FALSE]
        /\ rcount = [l \in Locks |-> [t \in Threads |-> 0]]
        /\ writer = [l \in Locks |-> 0]

Readers(l) == {t \in Threads : rcount[l][t] > 0}
PendingWriter(l) == \E t \in Threads : /\ waiting[t] /\ path[t] # <<>>
                                      /\ pos[t] < Len(path[t])
                                      /\ path[t][pos[t] + 1] = <<l, "w">>

\* Threads pick paths in order (thread t picks only after t-1 did): threads
\* are interchangeable, this removes permutations of idle threads.
Choose(t) == /\ path[t] = <<>>
             /\ (t > 1 => path[t - 1] # <<>>)
             /\ \E p \in Paths : path' = [path EXCEPT ![t] = p]
             /\ UNCHANGED <<pos, waiting, rcount, writer>>

Next1(t) == path[t][pos[t] + 1]
Active(t) == path[t] # <<>> /\ pos[t] < Len(path[t])

\* sync.RWMutex.RLock: blocks while a writer holds the lock OR IS WAITING.
AcquireR(t) == /\ Active(t) /\ Next1(t)[2] = "r"
               /\ LET l == Next1(t)[1] IN
                  /\ writer[l] = 0
                  /\ ~PendingWriter(l)
                  /\ rcount' = [rcount EXCEPT ![l][t] = @ + 1]
               /\ pos' = [pos EXCEPT ![t] = @ + 1]
               /\ UNCHANGED <<path, waiting, writer>>

\* sync.RWMutex.Lock / sync.Mutex.Lock, step 1: announce (readers arriving
\* from now on block).
Announce(t) == /\ Active(t) /\ Next1(t)[2] = "w"
               /\ ~waiting[t]
               /\ waiting' = [waiting EXCEPT ![t] = TRUE]
               /\ UNCHANGED <<path, pos, rcount, writer>>

\* step 2: proceed once there is no holder at all.
AcquireW(t) == /\ Active(t) /\ Next1(t)[2] = "w"
               /\ waiting[t]
               /\ LET l == Next1(t)[1] IN
                  /\ writer[l] = 0
                  /\ Readers(l) = {}
                  /\ writer' = [writer EXCEPT ![l] = t]
               /\ waiting' = [waiting EXCEPT ![t] = FALSE]
               /\ pos' = [pos EXCEPT ![t] = @ + 1]
               /\ UNCHANGED <<path, rcount>>

\* All acquisitions done: release everything (deferred unlocks).
Release(t) == /\ path[t] # <<>> /\ pos[t] = Len(path[t])
              /\ rcount' = [l \in Locks |-> [rcount[l] EXCEPT ![t] = 0]]
              /\ writer' = [l \in Locks |-> IF writer[l] = t THEN 0 ELSE writer[l]]
              /\ pos' = [pos EXCEPT ![t] = 99]
              /\ UNCHANGED <<path, waiting>>

Step(t) == AcquireR(t) \/ Announce(t) \/ AcquireW(t) \/ Release(t)
Finished == \A t \in Threads : pos[t] = 99
Next == \/ \E t \in Threads : Choose(t) \/ Step(t)
        \/ (Finished /\ UNCHANGED vars)
Spec == Init /\ [][Next]_vars

\* Every thread has chosen, not all are finished, and nobody can move.
Stuck == /\ \A t \in Threads : path[t] # <<>>
         /\ ~Finished
         /\ \A t \in Threads : ~ENABLED Step(t)
NoDeadlock == ~Stuck
=============================================================================
