----------------------------- MODULE StatsRefA -----------------------------
(***************************************************************************)
(* G12 correspondence, direction  Stats!Spec => StatsInd!Spec,  root = the *)
(* ORIGINAL Stats.tla with the constants of Stats.mc.cfg, variables mapped *)
(* identically.  TLC also checks that the inductive invariant and the      *)
(* derived safety hold in every reachable state of the original and that   *)
(* the invariants common to both modules have the same value.              *)
(***************************************************************************)
EXTENDS Stats

Ind == INSTANCE StatsInd

ASSUME Ind!ConstOK

IndSpec   == Ind!Spec
IndIndInv == Ind!IndInv
IndSafety == Ind!Safety
SameInvs ==
    /\ Conservation = Ind!Conservation
    /\ CountedOnceInItsHour = Ind!CountedOnceInItsHour
    /\ ExactlyOneCategory = Ind!ExactlyOneCategory
    /\ OldNotReported = Ind!OldNotReported
    /\ TypeOK = Ind!TypeOK
=============================================================================
