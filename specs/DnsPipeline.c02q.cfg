SPECIFICATION SpecGen02
CONSTANT AllModes = FALSE
INVARIANTS Gen_C02
