CONSTANTS
    Addrs = {"a1", "a2"}
    Claims = {"none", "peer", "trusted", "untrusted"}
    MaxAttemptsSet = {1, 2, 3}
    BlockDurSet = {1, 2, 3}
    Window = 2
    MaxTick = 4
SPECIFICATION Spec
VIEW View
INVARIANTS TypeOK NoBlockBeforeLimit LimitIsSharp IndIndInv IndSafety
PROPERTIES IndSpec IndStepProps
